"""Message transparency (C02): TLC checks the round-trip theorems of spec/DotCodec.tla for every string over the
byte classes {DOT, CR, LF, NUL, HI, CH} to a bounded length (GenDotCodec.tla) and prints every such string as a
message body; this module spells the classes as bytes (the only place where classes become bytes; seed-chosen
representatives) and adds the special bodies the class alphabet cannot reach (very long lines, MiB-sized bodies);
`vh dotcodec' sends each body through a real SMTP session as the client of the contract and reads it back through
store, REST, web UI and POP3 on both back-ends; TLC evaluates AllInterfacesAgree, SourceIsHeadersPlusBody and
SizeIsLength on every recorded observation with DotCodecTrace.tla.  Level: exploration (TLA+ does not model bytes).
"""
import base64
import concurrent.futures as cf
import hashlib
import json
import os
import random
import re
import tempfile
import time

from lib.vlib import Inconclusive

KEY_POP3 = "C02.pop3-retr-line-over-64k"
KEY_SMTP = "C02.smtp-dot-after-blank-bare-lf-line"

INVS = "TypeOK InvStuffRoundTrip InvNormRoundTrip InvCanonLaws InvPop3RoundTrip InvEndToEnd InvNoEarlyTerminator InvQuirkCharacterised"

MC_CFG = """SPECIFICATION GSpec
CONSTANTS
  MaxLen = %(maxlen)d
  MinEmit = 0
  Record = FALSE
INVARIANTS """ + INVS + """
CHECK_DEADLOCK FALSE
"""

GEN_CFG = """SPECIFICATION GSpec
CONSTANTS
  MaxLen = %(maxlen)d
  MinEmit = %(minemit)d
  Record = TRUE
INVARIANTS Emit
CHECK_DEADLOCK FALSE
"""

TRACE_CFG = """SPECIFICATION TraceSpec
POSTCONDITION TraceAccepted
CHECK_DEADLOCK FALSE
"""

FRAME = (b"From: Sender Name <sender@origin.example>\r\nTo: Rcpt <rcpt@store.example>\r\nSubject: C02 transparency probe\r\n"
         b"Message-Id: <c02@verif.example>\r\nMIME-Version: 1.0\r\nContent-Type: text/plain; charset=iso-8859-1\r\n"
         b"Content-Transfer-Encoding: 8bit\r\n\r\n")


# ----------------------------------------------------------------------------- reference codecs (Python side)
def canon(b):
    out = re.sub(rb"\r*\n", b"\n", b)
    if out.endswith(b"\n"):
        out = out[:-1]
    return out


def digest(b):
    c = canon(b)
    return {"len": len(b), "clen": len(c), "h": hashlib.sha256(c).hexdigest()[:16]}


def pad(data):
    return b"" if (not data or data.endswith(b"\r\n")) else b"\r\n"


def stuff(data):
    """the client of the contract: a dot at the start of the data and after every LF is doubled"""
    return re.sub(rb"(^|\n)\.", rb"\1..", data)


def go_read(wire):
    """Go's net/textproto dotReader (go1.23), byte by byte: the implementation-shaped reader of DotCodec.tla (ReadGo)"""
    BOL, DOT, DOTCR, CR, DATA = range(5)
    st, out, i, n = BOL, bytearray(), 0, len(wire)
    while i < n:
        c = wire[i]
        if st == BOL:
            if c == 0x2e:
                st = DOT
                i += 1
                continue
            if c == 0x0d:
                st = CR
                i += 1
                continue
            st = DATA
        elif st == DOT:
            if c == 0x0d:
                st = DOTCR
                i += 1
                continue
            if c == 0x0a:
                return bytes(out), True
            st = DATA
        elif st == DOTCR:
            if c == 0x0a:
                return bytes(out), True
            out.append(0x0d)
            st = DATA
            continue            # unread
        elif st == CR:
            if c == 0x0a:
                st = BOL
            else:
                out.append(0x0d)
                st = DATA
                continue        # unread
        elif st == DATA:
            if c == 0x0d:
                st = CR
                i += 1
                continue
            if c == 0x0a:
                st = BOL
        out.append(c)
        i += 1
    return bytes(out), False


BARE_LF = re.compile(rb"(?<!\r)\n")


def classes_of(b):
    out = []
    for c in b:
        out.append("DOT" if c == 0x2e else "CR" if c == 0x0d else "LF" if c == 0x0a else "NUL" if c == 0 else "HI" if c >= 0x80 else "CH")
    return out


# ----------------------------------------------------------------------------- concretisation
CH_POOL = [c for c in range(0x20, 0x7f) if c != 0x2e] + [0x09, 0x01, 0x1b, 0x7f, 0x0b, 0x0c, 0x3a, 0x3a, 0x20, 0x20]


def spell(cls, rng):
    out = bytearray()
    for c in cls:
        if c == "DOT":
            out.append(0x2e)
        elif c == "CR":
            out.append(0x0d)
        elif c == "LF":
            out.append(0x0a)
        elif c == "NUL":
            out.append(0)
        elif c == "HI":
            out.append(rng.randrange(0x80, 0x100))
        else:
            out.append(rng.choice(CH_POOL))
    return bytes(out)


def make_item(bid, body, frame, kind, cls=None, quirk=None, strict=False):
    data = (FRAME if frame else b"") + body
    sent = data + pad(data)
    it = {"b": bid, "frame": frame, "body": base64.b64encode(body).decode(), "kind": kind, "pexp": digest(sent), "strict": strict}
    if cls is None and len(body) <= 300:
        cls = classes_of(body)
    if cls is not None:
        it["cls"] = cls
    if quirk is not None:
        it["quirk"] = quirk
    if not strict and BARE_LF.search(sent):
        got, done = go_read(stuff(sent) + b".\r\n")
        if not done or canon(got) != canon(sent):
            it["alt"] = digest(got)
            bw = body + pad(data)                 # the body part of what is sent: the reader is at a line start behind the frame
            it["altcls"] = classes_of(go_read(stuff(bw) + b".\r\n")[0])
    return it


def text_lines(rng, total, with_dots=True):
    """about `total' bytes of CRLF lines of varying length (<= 998), some starting with dots, some with NUL / 8-bit bytes"""
    out, n = [], 0
    while n < total:
        ln = rng.choice([0, 1, 10, 60, 76, 200, 998])
        k = rng.random()
        if k < 0.1 and with_dots:
            line = b"." * rng.choice([1, 2, 3]) + b"d" * ln
        elif k < 0.2:
            line = bytes(rng.randrange(0x80, 0x100) for _ in range(min(ln, 80))) + b"x" * max(0, ln - 80)
        elif k < 0.25:
            line = b"nul\x00" + b"n" * ln
        else:
            line = bytes(0x61 + (i + n) % 26 for i in range(ln))
        line = line[:998] + b"\r\n"
        out.append(line)
        n += len(line)
    return b"".join(out)


def specials(rng, thorough):
    """bodies the bounded class language does not reach: [(name, body bytes, frames)]"""
    L = lambda n: b"L" * n
    sp = [
        ("empty", b"", (True, False)),
        ("emptyline", b"\r\n", (True, False)),
        ("nofinalnl", b"no final newline", (True, False)),
        ("nofinalnl-2lines", b"line one\r\nline two without end", (True, False)),
        ("nofinalnl-cr", b"ends with a bare CR\r", (True, False)),
        ("dots1", b"a\r\n.\r\nb\r\n", (True, False)),
        ("dots2", b"a\r\n..\r\nb\r\n", (True, False)),
        ("dots3", b"a\r\n...\r\nb\r\n", (True, False)),
        ("dots4", b"a\r\n....\r\nb\r\n", (True, False)),
        ("dots-first-line", b".\r\n..\r\n.leading\r\n", (True, False)),
        ("dots-barelf", b"a\n.\n..\n.x\nb\n", (True, False)),
        ("dots-only-last", b"text\r\n.", (True, False)),
        ("dotcr", b"x\r\n.\rY\r\n", (True, False)),
        ("dotcr-end", b"x\r\n.\r", (True, False)),
        ("dotcr-first", b".\r", (True, False)),
        ("lonedot-middle", b"before the dot\r\n.\r\nafter the dot\r\n", (True, False)),
        ("lonedot-barelf-middle", b"before\n.\nafter\n", (True, False)),
        ("barecr-barelf", b"a\rb\nc\r\r\nd\n\r\ne\r", (True, False)),
        ("blank-lines", b"\r\n\r\n\r\nx\r\n\r\n\r\n", (True, False)),
        ("blank-barelf-lines", b"x\n\n\ny\n\n", (True, False)),
        ("blank-barelf-then-dot", b"x\n\n.y\n", (True, False)),
        ("allbytes", bytes(range(256)) + b"\r\n", (True, False)),
        ("allbytes-rev", bytes(reversed(range(256))) + b"\r\n", (True, False)),
        ("nul-8bit", b"\x00\x00\xff\xfe\x80\x00\r\n\x00\r\n", (True, False)),
        ("line998", b"a\r\n" + L(998) + b"\r\nz\r\n", (True,)),
        ("line1000", b"a\r\n" + L(1000) + b"\r\nz\r\n", (True,)),
        ("line4096", b"a\r\n" + L(4096) + b"\r\nz\r\n", (True,)),
        ("line65535", b"first\r\n" + L(65535) + b"\r\nlast\r\n", (True, False)),
        ("line65536", b"first\r\n" + L(65536) + b"\r\nlast\r\n", (True, False)),
        ("line65537", b"first\r\n" + L(65537) + b"\r\nlast\r\n", (True, False)),
        ("line70000", b"first\r\n" + L(70000) + b"\r\nlast\r\n", (True, False)),
        ("line70000-dot", b"first\r\n." + L(69999) + b"\r\n.last\r\n", (True,)),
        ("line70000-nonl", b"first\r\n" + L(70000), (True,)),
        ("line70000-barelf", b"first\n" + L(70000) + b"\nlast\n", (True,)),
        # a '.' inside a long line exactly where a reader with a fixed buffer (4 KiB, 64 KiB) starts its next piece
        ("line-dot-at-4096", b"first\r\n" + L(4096) + b"." + L(50) + b"\r\nlast\r\n", (True,)),
        ("line-dot-at-65536", b"first\r\n" + L(65536) + b"." + L(50) + b"\r\nlast\r\n", (True,)),
        ("line-dot-at-131072", b"first\r\n" + L(65536) + b"x" + L(65535) + b"." + L(50) + b"\r\nlast\r\n", (True,)),
        ("line-dots-every-4096", b"first\r\n" + b"".join(b"." + L(4095) for _ in range(40)) + b"\r\nlast\r\n", (True,)),
        ("line-alldots-70000", b"first\r\n" + b"." * 70000 + b"\r\nlast\r\n", (True,)),
        ("big64k", text_lines(rng, 64 * 1024), (True,)),
        ("big1m", text_lines(rng, 1 << 20), (True,)),
    ]
    if thorough:
        sp += [("big4m", text_lines(rng, 4 << 20), (True, False)),
               ("big1m-nodots", text_lines(rng, 1 << 20, with_dots=False), (False,)),
               ("line1m", b"first\r\n" + L(1 << 20) + b"\r\nlast\r\n", (True,))]
    return sp


STRICT = [
    ("strict-plain", b"a\r\n.b\r\n..c\r\n"),
    ("strict-barelf-dotline", b"a\n.\nb\r\n"),
    ("strict-barelf-dot", b"a\n.b\r\n"),
    ("strict-barelf-blank-dot", b"a\n\n.b\r\n"),
]


# ----------------------------------------------------------------------------- validation
RELFAIL = re.compile(r'<<\s*"RELFAIL",\s*(\d+),\s*("(?:[^"\\]|\\.)*")\s*>>', re.S)
DEVIATION = re.compile(r'<<"DEVIATION", "([^"]+)", (\d+)>>')


def _validate_chunk(run, lines):
    """One TLC run of DotCodecTrace over a chunk of complete traces.  -> (failures {line index: [relations]},
    deviations {line index: key}).  The judgement is TLC's: an observation is rejected iff TLC printed a RELFAIL for it."""
    tf = tempfile.NamedTemporaryFile("w", suffix=".ndjson", dir=run.work, delete=False)
    tf.write("".join(lines))
    tf.close()
    af = tf.name + ".allowed"
    with open(af, "w") as f:
        for k in sorted(run.findings) or ["(none)"]:
            f.write(json.dumps({"key": k}) + "\n")
    rc, out, dt = run.tlc("DotCodecTrace", TRACE_CFG, workers=1, timeout=1500, env={"VERIF_TRACE": tf.name, "VERIF_ALLOWED_FILE": af}, heap="4g")
    os.unlink(tf.name)
    os.unlink(af)
    m = re.search(r'<<"REJECTED_AT", (\d+)>>', out)
    if m:
        k = int(m.group(1))
        run.log(out[-3000:])
        raise Inconclusive("DotCodecTrace: event %d (%s) does not have the shape the trace specification expects (harness problem, not a verdict)"
                           % (k, lines[k - 1][:400] if 0 < k <= len(lines) else "?"))
    fails = {int(a) - 1: json.loads(json.loads(b)) for a, b in RELFAIL.findall(out)}
    devs = {int(b) - 1: a for a, b in DEVIATION.findall(out)}
    clean = rc == 0 and "No error has been found" in out
    mm = re.search(r'<<"RELFAILS", (\d+)>>', out)
    if not clean and not (mm and int(mm.group(1)) == len(fails) and fails):
        run.log(out[-5000:])
        raise Inconclusive("trace validation with DotCodecTrace failed without a usable verdict (rc=%d)" % rc)
    return fails, devs


def validate(run, trace_file, parallel=8):
    lines = open(trace_file).readlines()
    groups, order = {}, []
    for l in lines:
        m = re.search(r'"t":"([^"]*)"', l)
        tid = m.group(1) if m else ""
        if tid not in groups:
            groups[tid] = []
            order.append(tid)
        groups[tid].append(l)
    n = max(1, min(parallel, len(lines) // 3000 + 1))
    chunks = [[] for _ in range(n)]
    for tid in sorted(order, key=lambda t: -len(groups[t])):
        min(chunks, key=len).extend(groups[tid])
    chunks = [c for c in chunks if c]
    t = time.time()
    rejected, deviated, nobs = [], [], 0
    with cf.ThreadPoolExecutor(max_workers=len(chunks)) as ex:
        for c, (fails, devs) in zip(chunks, [f.result() for f in [ex.submit(_validate_chunk, run, c) for c in chunks]]):
            nobs += sum(1 for l in c if '"a":"obs"' in l)
            for k, rels in sorted(fails.items()):
                rejected.append({"event": json.loads(c[k]), "failed": sorted(rels)})
            for k, key in sorted(devs.items()):
                deviated.append({"event": json.loads(c[k]), "key": key})
    dt = time.time() - t
    run.log("validate DotCodecTrace: %d events, %d traces, observations=%d rejected=%d deviations=%d %.1fs" % (len(lines), len(order), nobs, len(rejected), len(deviated), dt))
    run.cov["traces_validated_against_impl"] += nobs - len(rejected)
    run.cov["stages"].append({"stage": "validate", "module": "DotCodecTrace", "events": len(lines), "traces": len(order), "observations": nobs,
                              "accepted": nobs - len(rejected), "rejected": len(rejected), "deviations": len(deviated), "wall_s": round(dt, 1)})
    for d in deviated:
        run.known_hits[d["key"]] = run.findings.get(d["key"], "")
    return {"rejected": rejected, "deviated": deviated, "events": [json.loads(l) for l in lines if '"a":"reset"' not in l]}


# ----------------------------------------------------------------------------- reporting
def cause(r):
    """Label of an observation TLC has rejected, for grouping the report only (TLC has judged; nothing here accepts anything)."""
    ev = r["event"]
    if r["failed"] == ["NothingStoredOnRefusal"]:
        return "the server refused the message (%s) but the store holds %d message(s)" % (ev["smtp"]["code"], ev["total"])
    p = ev.get("pop3", {})
    if r["failed"] == ["AllInterfacesAgree"] and ev.get("longat", -1) >= 0 and p.get("clen") == ev.get("clongat") and p.get("h") == ev.get("ph"):
        return ("POP3 RETR returns only the part of the message in front of its first line longer than 65535 bytes, then '.' %s; store, REST and web UI return all of it"
                % ("followed by a stray -ERR line" if p.get("stale") else "(no -ERR)"))
    if "SourceIsHeadersPlusBody" in r["failed"] and "alt" in ev and ev.get("alttail", {}).get("h") == ev["alt"]["h"]:
        return ("the stored source has an extra '.': a leading dot behind an empty bare-LF line, doubled by the client, is not un-stuffed "
                "(the SMTP dot reader does not see a line start there; predicted by DotCodec!ReadGo)")
    return "unexplained: relations %s" % ", ".join(r["failed"])


def show_body(item):
    b = base64.b64decode(item["body"])
    return repr(b) if len(b) <= 60 else "%r... (%d bytes)" % (b[:40], len(b))


def report(run, res, items, prefix):
    groups = {}
    for r in res["rejected"]:
        groups.setdefault((tuple(r["failed"]), cause(r)), []).append(r)
    for (failed, why), rs in sorted(groups.items()):
        rs.sort(key=lambda r: (r["event"]["bodylen"], r["event"]["b"], r["event"]["frame"], r["event"]["backend"]))
        first = rs[0]["event"]
        it = items[(first["b"], first["frame"] == "hdr")]
        pairs = sorted({(r["event"]["b"], r["event"]["frame"] == "hdr") for r in rs})
        bodies = {b for b, _ in pairs}
        what = "%s: %s: relation(s) %s rejected by TLC; e.g. body %s = %s (%s framing, %s store); %d observation(s) of %d distinct bod(ies) in this run are rejected with this cause" % (
            prefix, why, ", ".join(failed), first["b"], show_body(it), first["frame"], first["backend"], len(rs), len(bodies))
        small = [items[b] for b in pairs[:8]]
        run.violation(what, {"item": it, "store": first["backend"], "observation": first, "failed": list(failed),
                             "same_cause_observations": len(rs), "same_cause_bodies": len(bodies),
                             "more_examples": [{"b": x["b"], "frame": "hdr" if x["frame"] else "raw", "body": show_body(x), "cls": x.get("cls")} for x in small],
                             "replay_kind": "dotcodec"})
    return groups


# ----------------------------------------------------------------------------- orchestration
def batches(items, stores, label, size):
    out = []
    for st in stores:
        for k in range(0, len(items), size):
            out.append({"id": "%s%d-%s" % (label, k // size, st), "store": st, "frame_b64": base64.b64encode(FRAME).decode(), "items": items[k:k + size],
                        # every third batch runs with the servers' network debugging switched on (-netdebug): it must not change a byte
                        "netdebug": (k // size + len(out)) % 3 == 2})
    return out


def replay_and_validate(run, vh, beh, items, label, prefix):
    crashes = []
    tf = run.harness_parallel(vh, "dotcodec", beh, label, procs=12, crashes=crashes, timeout=1700)
    if crashes:
        c = crashes[0]
        run.log(c["stderr_tail"])
        raise Inconclusive("the harness process died (%s) while running batch %s: not a verdict about C02" % ("; ".join(c["signature"]) or c["rc"], c["behaviour"]["id"]))
    herr = [json.loads(l) for l in open(tf) if '"a":"harness-error"' in l]
    if herr:
        raise Inconclusive("harness error: %s" % herr[0])
    res = validate(run, tf)
    report(run, res, items, prefix)
    return res


def replay_file(run, args):
    """the recorded body in the recorded framing on the recorded back-end, plus - as a control - the same body in the other framing"""
    d = json.load(open(args.replay))
    vh = run.build_harness()
    it = d["item"]
    other = make_item(it["b"], base64.b64decode(it["body"]), not it["frame"], it["kind"], cls=it.get("cls"), quirk=it.get("quirk"))
    beh = batches([it, other], [d["store"]], "replay", 2)
    res = replay_and_validate(run, vh, beh, {(x["b"], x["frame"]): x for x in (it, other)}, "replay", "replay")
    run.cov["evaluations"] = len(res["events"])
    run.cov["distinct_nontrivial"] = len({(e["b"], e["frame"]) for e in res["events"] if e["smtp"]["cls"] == "ok"})
    run.cov["samples"] = [{"b": it["b"], "body": show_body(it), "frame": it["frame"], "store": d["store"]}]
    run.cov["rule"] = "replay of one recorded body (and the same body in the other framing as a control)"


def c02(run, args):
    if args.replay:
        return replay_file(run, args)
    quick = run.tier == "quick"
    vh = run.build_harness()
    # (1) the round-trip theorems for every class string up to a length one beyond what is replayed
    run.model_check("GenDotCodec", MC_CFG % dict(maxlen=6 if quick else 7), label="GenDotCodec(round-trip theorems)")
    # (2) every class string as a body
    maxlen = 5 if quick else 6
    gen = run.generate("GenDotCodec", GEN_CFG % dict(maxlen=maxlen, minemit=0), workers=4)
    if len(gen) != sum(6 ** k for k in range(maxlen + 1)):
        raise Inconclusive("GenDotCodec printed %d class strings, expected %d" % (len(gen), sum(6 ** k for k in range(maxlen + 1))))
    nenum = len(gen)
    if not quick:
        sim = run.generate("GenDotCodec", GEN_CFG % dict(maxlen=12, minemit=7), simulate={"num": 1000, "depth": 13})
        seen = {tuple(g["cls"]) for g in gen}
        for g in sim:
            if tuple(g["cls"]) not in seen:
                seen.add(tuple(g["cls"]))
                gen.append(g)
    run.cov["exhaustive"] = True
    # TLC's printing order depends on its worker threads: ids and representatives must not
    order = ["DOT", "CR", "LF", "NUL", "HI", "CH"]
    canon_key = lambda g: (len(g["cls"]), [order.index(c) for c in g["cls"]])
    gen = sorted(gen[:nenum], key=canon_key) + sorted(gen[nenum:], key=canon_key)
    items, enum_items = {}, []
    for i, g in enumerate(gen):
        rng = random.Random("%d/c02/%s" % (run.seed, "".join("DRLNHC"[order.index(c)] for c in g["cls"])))
        body = spell(g["cls"], rng)
        kind = "enum" if i < nenum else "sample"
        bid = "%s%d" % ("e" if i < nenum else "s", i)
        for frame in (True, False):
            it = make_item(bid, body, frame, kind, cls=g["cls"], quirk=g["quirk"])
            enum_items.append(it)
            items[(bid, frame)] = it
    sp_items, big_items, strict_items = [], [], []
    for name, body, frames in specials(random.Random("%d/c02/specials" % run.seed), not quick):
        for frame in frames:
            it = make_item("sp-" + name, body, frame, "special")
            (big_items if len(body) > 200000 else sp_items).append(it)
            items[("sp-" + name, frame)] = it
    for name, body in STRICT:
        it = make_item(name, body, True, "strict", strict=True)
        strict_items.append(it)
        items[(name, True)] = it
    stores = ["mem", "file"]
    beh = batches(enum_items, stores, "enum", 250) + batches(sp_items + strict_items, stores, "special", 12) + batches(big_items, stores, "big", 1)
    nobs = sum(len(b["items"]) for b in beh)
    run.log("bodies: %d enumerated class strings (length <= %d)%s, %d special, %d strict-client observations; %d observations (body x framing x back-end)" % (
        nenum, maxlen, "" if quick else " + %d sampled (length 7..12)" % (len(gen) - nenum), len({i["b"] for i in sp_items + big_items}), len(STRICT), nobs))
    res = replay_and_validate(run, vh, beh, items, "c02", "C02 message transparency")
    evs = [e for e in res["events"] if e["a"] == "obs"]
    if len(evs) + sum(1 for e in res["events"] if e["a"] == "strictobs") != nobs:
        raise Inconclusive("the harness recorded %d observations for %d bodies sent" % (len(res["events"]), nobs))
    stored = [e for e in evs if e["smtp"]["cls"] == "ok"]
    refused = [e for e in evs if e["smtp"]["cls"] != "ok"]
    refused_hdr = [e for e in refused if e["frame"] == "hdr"]
    run.cov["evaluations"] = len(evs)
    run.cov["distinct_nontrivial"] = len({(e["b"], e["frame"]) for e in stored if e["bodylen"] > 0})
    run.cov["observations_stored"] = len(stored)
    run.cov["observations_refused"] = {"raw framing (header block unparseable or missing; nothing stored)": len(refused) - len(refused_hdr), "valid header block": len(refused_hdr)}
    # binding of the implementation-shaped reader: predicted departures vs observed ones (a statistic, not a verdict)
    bad_src = {(e["event"]["b"], e["event"]["frame"], e["event"]["backend"]) for e in res["rejected"] if "SourceIsHeadersPlusBody" in e["failed"]}
    bad_src |= {(d["event"]["b"], d["event"]["frame"], d["event"]["backend"]) for d in res["deviated"] if d["key"] == KEY_SMTP}
    pred = {(e["b"], e["frame"], e["backend"]) for e in stored if e.get("quirk") or ("quirk" not in e and "alt" in e)}
    run.cov["go_reader_prediction"] = {"predicted_departures": len(pred), "observed_source_departures": len(bad_src),
                                       "predicted_and_observed": len(pred & bad_src), "only_predicted": len(pred - bad_src), "only_observed": len(bad_src - pred)}
    run.cov["strict_client_observations"] = [
        {"body": show_body(items[(e["b"], True)]), "store": e["backend"], "reply_to_end_of_data": e["smtp"]["code"], "further_replies": e["smtp"]["extra"], "messages_stored": e["total"],
         "stored_equals_sent": bool(e.get("tail")) and e["tail"]["h"] == e["exp"]["h"] and e["tail"]["clen"] == e["exp"]["clen"]}
        for e in res["events"] if e["a"] == "strictobs"]
    samp = [enum_items[len(enum_items) // 3], enum_items[2 * len(enum_items) // 3 + 1]]
    run.cov["samples"] = [{"b": s["b"], "cls": s.get("cls"), "body": show_body(s), "frame": "hdr" if s["frame"] else "raw"} for s in samp] + \
                         [{"b": "sp-line70000", "body": show_body(items[("sp-line70000", True)])}, {"observation": next((e for e in stored if e["b"] == samp[0]["b"]), None)}]
    run.cov["rule"] = ("TLC enumerates every string over the byte classes {DOT, CR, LF, NUL, HI, CH} up to length %d%s (after checking the stuffing / un-stuffing / Canon / POP3 round-trip "
                       "theorems of DotCodec.tla for every string up to length %d); each is spelled as bytes (8-bit and printable/control representatives drawn by seed) and sent twice - behind a fixed "
                       "valid header block and raw - through a real SMTP session by a client that doubles a dot at the start and after every LF and ends the data with CRLF.CRLF; plus %d special bodies "
                       "(empty, no final newline, lines of 1-4 dots, dot-CR, lone dot, all 256 byte values, lines of 998..65535/65536/65537/70000%s bytes, bodies of 64 KiB / 1 MiB%s); every stored "
                       "message is read back through Store.GetMessage().Source(), REST /source, web UI /source and POP3 RETR on the memory and the file store, and TLC evaluates AllInterfacesAgree, "
                       "SourceIsHeadersPlusBody and SizeIsLength on the recorded (length, sha256 of canonical form, reported sizes, header-line classes) of every observation.  evaluation = one body x "
                       "framing x back-end; non-trivial = non-empty body that was accepted and stored, so that all three relations were evaluated; distinct = distinct (body, framing)"
                       % (maxlen, "" if quick else " and %d random ones of length 7..12" % (len(gen) - nenum), 6 if quick else 7, len({i["b"] for i in sp_items + big_items}),
                          "" if quick else "/1 MiB", "" if quick else " / 4 MiB"))
    run.assumptions += [
        "exploration level: TLA+ does not model bytes; a defect that depends on a byte value the class alphabet does not distinguish is found only if the seed-chosen representative hits it",
        "Canon (every maximal CR*LF -> LF, one trailing LF dropped) is the reading of 'line-ending normalisation'; what counts as transmitted is the data after dot-unstuffing including the CRLF a client must add to an unterminated last line",
        "the client doubles a dot after every LF (bare or after CR); the RFC-strict client is run as an observation only (coverage.strict_client_observations)",
        "a refusal at the end of DATA is not a violation as long as nothing is stored (unparseable header block of a raw body)",
        "content is compared by length and 64-bit prefix of sha256 of the canonical form, computed independently in Go (harness) and Python (concretiser) and cross-checked by the trace specification",
        "trusts TLC, the driver and projections (harness/cmd/vh/dotcodec.go), the spelling of classes (checks/dotcodec.py)",
    ]
    if refused_hdr and not run.violations:      # violations found in what was stored stand whatever else was refused
        run.log("refused with a valid header block: %s" % [(e["b"], e["smtp"]) for e in refused_hdr[:5]])
        raise Inconclusive("%d bodies behind a VALID header block were refused at the end of DATA (e.g. %s: %s): the relations of C02 were not evaluated for them; "
                           "not a C02 verdict (C01 is about acceptance), but the coverage claimed here was not reached" % (len(refused_hdr), refused_hdr[0]["b"], refused_hdr[0]["smtp"]))
    if not stored:
        raise Inconclusive("no message was stored: the relations were never evaluated (vacuous run)")
