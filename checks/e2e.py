"""End-to-end stage for the composed contract (spec/Inbucket.tla): the server assembled by server.FullAssembly is used only
through SMTP, POP3, REST and the WebSocket monitor; TLC validates the recorded steps with InbucketTrace.tla.  Used as an
additional stage of the C15 check (every monitor sees every event) - it also binds C01/C13/C14/C16 across interfaces."""
import json
import random

from lib.vlib import Inconclusive

MC_CFG = """SPECIFICATION MCSpec
CONSTANTS
  Mailbox = {"a", "b"}
  Monitor = {1, 2}
  HistLen = 2
  Cap = %(cap)d
  MaxStored = %(maxstored)d
INVARIANTS SnapshotFromStore DueRespectsFilter IdsUnique StoredBeforeDeleted CapHolds
PROPERTIES SnapshotStable DropRemovesNothing
CHECK_DEADLOCK FALSE
"""
GEN_CFG = """SPECIFICATION GSpec
CONSTANTS
  Mailbox = {"alice", "bob"}
  Monitor = {1, 2}
  HistLen = %(histlen)d
  Cap = %(cap)d
  MaxStored = %(maxstored)d
  Depth = %(depth)d
INVARIANT Emit
CHECK_DEADLOCK FALSE
"""
TRACE_CFG = """SPECIFICATION TraceSpec
CONSTANTS
  Mailbox = {"alice", "bob"}
  Monitor = {1, 2}
  HistLen = %(histlen)d
  Cap = %(cap)d
INVARIANTS SnapshotFromStore DueRespectsFilter IdsUnique CapHolds
POSTCONDITION TraceAccepted
CHECK_DEADLOCK FALSE
"""


def interesting(seq):
    ks = [s["k"] for s in seq]
    return "deliver" in ks and "drain" in ks and ("delete" in ks or "purge" in ks or "popquit" in ks or ks.count("deliver") >= 2)


def stage_cap(run, vh, quick, pid, sim, cap, histlen):
    total = 0
    for store in ("mem", "file"):
        chunk = sim[0::2] if store == "mem" else sim[1::2]
        if not quick:
            chunk = sim
        behs = [{"id": "e2e-%s-c%d-%d" % (store, cap, i), "names": ["alice", "bob"], "steps": s} for i, s in enumerate(chunk)]
        if cap == 0:
            # refused handshakes on the monitor URL (a plain GET, a foreign origin) must leave nothing behind: 120 deliveries later
            # (more than a listener's buffer holds) a real monitor has still been sent every event
            steps = [{"k": "join", "mon": 1, "mb": "", "ver": "v2"}, {"k": "badjoin", "mb": "", "ver": "plain"}, {"k": "badjoin", "mb": "alice", "ver": "origin"},
                     {"k": "badjoin", "mb": "", "ver": "origin"}]
            steps += [{"k": "deliver", "to": ["alice"], "subj": "z%d" % j} for j in range(120)]
            steps += [{"k": "drain", "mon": 1}, {"k": "deliver", "to": ["bob"], "subj": "last"}, {"k": "drain", "mon": 1}]
            behs.append({"id": "e2e-%s-refused" % store, "names": ["alice", "bob"], "steps": steps})
        # one assembled server per process (package-level router and metrics): slices run in separate processes
        n = 6
        tfs = []
        import concurrent.futures as cf
        def one(j):
            bf, tf = run.path("e2e-%s-c%d-%d.json" % (store, cap, j)), run.path("e2e-%s-c%d-%d.ndjson" % (store, cap, j))
            json.dump({"seed": run.seed, "store": store, "histlen": histlen, "cap": cap, "behaviours": behs[j::n]}, open(bf, "w"))
            run.harness(vh, ["e2e", bf, tf], timeout=1500)
            return tf
        with cf.ThreadPoolExecutor(max_workers=n) as ex:
            tfs = list(ex.map(one, range(n)))
        tf = run.path("e2e-%s-c%d.ndjson" % (store, cap))
        with open(tf, "w") as o:
            for f in tfs:
                o.write(open(f).read())
        res = run.validate("InbucketTrace", TRACE_CFG % dict(histlen=histlen, cap=cap), tf)
        byid = {b["id"]: b for b in behs}
        # an end-to-end rejection may be a matter of timing of the asynchronous event pipeline: run the behaviour again on its own
        again = [byid[r["trace"]] for r in res["rejections"] if r["trace"] in byid]
        for r in res["rejections"][:3]:
            run.log("e2e first-pass rejection %s at #%s: %s" % (r["trace"], r.get("rejected_event_index"), json.dumps(r.get("rejected_event"))[:700]))
        confirmed = []
        if again:
            bf, tf2 = run.path("e2e-again.json"), run.path("e2e-again.ndjson")
            json.dump({"seed": run.seed, "store": store, "histlen": histlen, "cap": cap, "behaviours": again}, open(bf, "w"))
            run.harness(vh, ["e2e", bf, tf2], timeout=900)
            res2 = run.validate("InbucketTrace", TRACE_CFG % dict(histlen=histlen, cap=cap), tf2, max_rej=len(again) + 1, parallel=1)
            confirmed = res2["rejections"]
            run.cov["e2e_unreproduced_rejections"] = run.cov.get("e2e_unreproduced_rejections", 0) + len(again) - len(confirmed)
        for r in confirmed:
            ev = r["rejected_event"]
            run.violation("%s end to end (%s store, cap %d): step #%d %s is not what the composed contract (Inbucket.tla) allows: observed %s" % (
                pid, store, cap, r["rejected_event_index"], json.dumps({k: ev.get(k) for k in ("a", "to", "mb", "mon", "n") if k in ev}),
                json.dumps({k: ev.get(k) for k in ("code", "status", "r", "evs", "uidl", "s") if k in ev})[:600]),
                {"behaviour": byid.get(r["trace"]), "rejection": r, "replay_kind": "e2e", "store": store, "cap": cap})
        total += len(behs)
    return total


def stage(run, vh, quick, pid):
    """model-check the composed contract, generate behaviours, play them end to end, validate.  Returns #behaviours."""
    run.model_check("MCInbucket", MC_CFG % dict(maxstored=2 if quick else 3, cap=0), label="Inbucket (composed contract)")
    run.model_check("MCInbucket", MC_CFG % dict(maxstored=3 if quick else 4, cap=1), label="Inbucket (composed contract, mailbox cap 1)")
    histlen = 2
    total = 0
    first = None
    for cap in (0, 2):
        sim = run.generate("GenInbucket", GEN_CFG % dict(histlen=histlen, cap=cap, maxstored=6, depth=14 if quick else 22),
                           simulate={"num": 3000, "depth": 15 if quick else 23})
        sim = [s for s in sim if interesting(s) and (cap == 0 or sum(len(a["to"]) for a in s if a["k"] == "deliver") >= 4)]
        rng = random.Random(run.seed + cap)
        rng.shuffle(sim)
        sim = sim[:60 if quick else 450]
        if not sim:
            raise Inconclusive("no end-to-end behaviours generated")
        first = first or sim[0]
        total += stage_cap(run, vh, quick, pid, sim, cap, histlen)
    run.cov["evaluations"] += total
    run.cov["e2e_behaviours"] = total
    run.cov["samples"].append({"e2e": first})
    return total
