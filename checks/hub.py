"""Message-hub check (C15): TLC model-checks the HubContract model (GenHub.tla) and generates operation sequences
(dispatch / delete / join / leave / fail / disconnect with k events buffered / take / schedules in which a slow mock holds the
hub goroutine while further operations are queued / release); `vh hub' executes them on the real msghub.Hub with the real
WebSocket listeners (constructor hook) and a recording mock; TLC validates every recorded step against HubContract with
HubTrace.tla.  Each behaviour is judged on its own (one TLC run reports how far the contract's actions got in every behaviour).
"""
import concurrent.futures as cf
import json
import os
import random
import re
import tempfile
import time

from lib.vlib import Inconclusive

ALL_CMDS = ["dispatch", "delete", "delunknown", "join", "joinbroken", "joinarmed", "leave", "fail", "disconnect", "take", "takeempty",
            "gate", "release"]
BUF = 100       # events a socket listener buffers (make(chan ..., 100) in socketv1/v2_controller.go)
UNKNOWN = 9999    # GenHub!UnknownId

GEN_CFG = """SPECIFICATION GSpec
CONSTANTS
  Slots = {%(slots)s}
  Mailbox = {"a", "b"}
  Buf = %(buf)d
  Cmds = {%(cmds)s}
  Kinds = {%(kinds)s}
  Filters = {%(filters)s}
  Ns = {%(ns)s}
  MaxId = %(maxid)d
  MaxHeld = %(maxheld)d
  Drops = %(drops)s
  Casts = {%(casts)s}
  Depth = %(depth)d
  Record = %(record)s
%(extra)s
INVARIANTS %(invariants)s
%(properties)s
CHECK_DEADLOCK FALSE
"""

TRACE_CFG = """SPECIFICATION TraceSpec
CONSTANTS
  Slots = {1, 2, 3}
  Mailbox = {%(mbs)s}
  Buf = %(buf)d
POSTCONDITION TraceAccepted
CHECK_DEADLOCK FALSE
"""


def q(xs):
    return ", ".join(json.dumps(x) if isinstance(x, str) else ("TRUE" if x is True else "FALSE" if x is False else str(x)) for x in xs)


def gen_cfg(mode, cmds, depth=0, slots=(1, 2, 3), kinds=("v1", "v2", "mock"), filters=("", "a"), ns=(1, 2, 3), maxid=3, maxheld=2, buf=BUF, casts=("none",)):
    """mode: mc (exhaustive check of the contract model, no history) | bfs (every sequence to depth, with observing suffix) |
    sim (for -simulate)"""
    d = dict(slots=q(slots), casts=q(casts), cmds=q(cmds), kinds=q(kinds), filters=q(filters), ns=q(ns), maxid=maxid, maxheld=maxheld, buf=buf,
             depth=depth, record="FALSE" if mode == "mc" else "TRUE", drops="TRUE" if mode == "mc" else "FALSE", extra="", properties="")
    if mode == "mc":
        d["invariants"] = "HTypeOK HistoryIsRecentUndeleted HistoryThenLive ExactlyOnceInOrder GoneGetsNoMore HistoryBound QueuedOpsBounded"
        d["properties"] = "PROPERTIES OthersUnaffected DroppedStaysDropped NobodyMisses HubNeverBlocks"
    else:
        d["invariants"] = "Emit"
    return GEN_CFG % d


# ----------------------------------------------------------------------------- concretisation
NAME_POOL = [("alice", "bob"), ("inbox", "archive"), ("a", "b"), ("x.y", "x-y"), ("swaks", "swaks2"), ("user@example.com", "user@example.org")]


class Concretiser:
    """Names the abstract mailboxes and message ids: the id of a message is its rank within its mailbox, so the two
    mailboxes use the same id strings (a delete must match the mailbox as well as the id)."""

    def __init__(self, rng):
        self.names = dict(zip(("a", "b"), rng.choice(NAME_POOL)))
        self.style = rng.choice(["rank", "hex", "stamp"])
        self.ids = {}
        self.count = {}

    def mb(self, m):
        return self.names.get(m, m)

    def mid(self, m, i):
        if i == UNKNOWN:
            return "no-such-id"
        if (m, i) not in self.ids:
            n = self.count.get(m, 0) + 1
            self.count[m] = n
            self.ids[(m, i)] = {"rank": str(n), "hex": "%08x" % (n * 2654435761 % 2 ** 32), "stamp": "20200102T0304%02d-%04d" % (n, n)}[self.style]
        return self.ids[(m, i)]

    def step(self, a):
        c = a["c"]
        if c in ("dispatch", "delete"):
            return {"c": c, "mb": self.mb(a["mb"]), "id": self.mid(a["mb"], a["id"]), "gate": a.get("gate", 0)}
        if c == "join":
            return {"c": c, "slot": a["slot"], "kind": a["kind"], "filter": self.mb(a["filter"]) if a["filter"] else "",
                    "broken": a.get("broken", False), "armed": a.get("armed", False)}
        if c in ("leave", "fail", "disconnect", "take"):
            return {"c": c, "slot": a["slot"]}
        if c == "release":
            return {"c": c}
        raise ValueError(a)


def behaviours_from(run, abstract, label, ext=lambda i, b: False):
    out = []
    for i, b in enumerate(abstract):
        conc = Concretiser(random.Random("%d/%d/%s" % (run.seed, i, label)))
        steps = [conc.step(a) for a in b["steps"]]
        out.append({"id": "%s-%d" % (label, i), "n": b["n"], "steps": steps, "ext": bool(ext(i, b)), "names": sorted(conc.names.values()), "_abs": b})
    return out


def gated(b):
    return any(a.get("gate") or a.get("armed") for a in b["steps"])


def full_buffer_scenarios():
    """Buffer-full scenarios (the socket listener buffers 100 events; Receive blocks when the buffer is full): written out here
    because reaching them takes 100 dispatches.  Abstract steps in GenHub's vocabulary; ids count from 1."""
    out = []
    for kind in ("v1", "v2"):
        for flt in ("", "a"):
            for n in (1, 3):
                nid = [0]

                def disp(k, mb="a"):
                    r = []
                    for _ in range(k):
                        nid[0] += 1
                        r.append({"c": "dispatch", "mb": mb, "id": nid[0], "gate": 0})
                    return r
                j = [{"c": "join", "slot": 1, "kind": kind, "filter": flt, "broken": False, "armed": False},
                     {"c": "join", "slot": 2, "kind": "mock", "filter": "", "broken": False, "armed": False},
                     {"c": "join", "slot": 3, "kind": "v2", "filter": "b", "broken": False, "armed": False}]
                # (1) the client disconnects with a full buffer: the hub must go on serving the others
                out.append({"n": n, "steps": j + disp(BUF) + [{"c": "disconnect", "slot": 1, "k": BUF}] + disp(1, "b") + disp(4), "_what": "disconnect-full"})
                nid[0] = 0
                # (2) the hub waits for a full buffer (tolerated while connected); the writer takes one: it goes on
                out.append({"n": n, "steps": j + disp(BUF + 1) + [{"c": "take", "slot": 1}] + disp(1, "b") + [{"c": "take", "slot": 1}] + disp(1),
                            "_what": "wait-then-take"})
                nid[0] = 0
                # (3) the hub waits for a full buffer and the client disconnects: the wait must end, and for good
                out.append({"n": n, "steps": j + disp(BUF + 1) + [{"c": "disconnect", "slot": 1, "k": BUF + 1}] + disp(1, "b") + disp(3),
                            "_what": "wait-then-disconnect"})
                nid[0] = 0
                # (4) nearly full at the disconnect
                out.append({"n": n, "steps": j[:2] + disp(BUF - 1) + [{"c": "take", "slot": 1}, {"c": "disconnect", "slot": 1, "k": BUF - 2}] + disp(5),
                            "_what": "disconnect-nearly-full"})
    return out


def burst_scenarios(seed, count, size):
    """Bursts through the extension host: stored / deleted events are announced back to back (the hand-over to the hub runs on the
    host's own goroutine and falls behind), nothing is compared until the burst is over; then every listener must have been handed
    exactly the announced sequence.  Abstract steps in GenHub's vocabulary."""
    out = []
    for k in range(count):
        rng = random.Random("%d/burst/%d" % (seed, k))
        steps = [{"c": "join", "slot": 1, "kind": "mock", "filter": "", "broken": False, "armed": False},
                 {"c": "join", "slot": 2, "kind": ["v2", "v1", "mock"][k % 3], "filter": "" if k % 3 == 2 else "b", "broken": False, "armed": False}]
        nid, live, nb = 0, [], 0
        for _ in range(size):
            if live and rng.random() < 0.3:
                mb, i = live.pop(rng.randrange(len(live)))
                steps.append({"c": "delete", "mb": mb, "id": i, "gate": 0})
            else:
                nid += 1
                mb = "b" if (rng.random() < 0.15 and nb < 40) else "a"
                nb += mb == "b"
                live.append((mb, nid))
                steps.append({"c": "dispatch", "mb": mb, "id": nid, "gate": 0})
        steps.append({"c": "release"})
        out.append({"n": 1 + k % 3, "steps": steps, "_what": "burst"})
    # the client goes away while its buffer is full, the hub is waiting for it AND the hub's own operation queue is full
    # (further events wait in the extension host): Close() must return, the hub must go on, nobody else misses anything
    for k, kind in enumerate(("v2", "v1")):
        steps = [{"c": "join", "slot": 1, "kind": kind, "filter": "", "broken": False, "armed": False},
                 {"c": "join", "slot": 2, "kind": "mock", "filter": "", "broken": False, "armed": False}]
        steps += [{"c": "dispatch", "mb": "a", "id": i, "gate": 0} for i in range(1, BUF + 1 + 100 + 40)]
        steps.append({"c": "disconnect", "slot": 1})
        steps += [{"c": "dispatch", "mb": "a", "id": i, "gate": 0} for i in range(BUF + 141, BUF + 161)]
        steps.append({"c": "release"})
        out.append({"n": 2, "steps": steps, "_what": "burst-disconnect-all-full"})
    return out


# ----------------------------------------------------------------------------- validation (one verdict per behaviour)
CHUNK_EVENTS = 50000


def validate_chunk(run, cfg, chunk):
    """One TLC run over a chunk file of complete traces.  chunk = {"file", "spans": [(trace id, first line, boundary)]} (1-based line
    numbers; boundary = line after the trace's last).  HubTrace reports at the end of every behaviour how far the contract's actions
    got (<<"ENDED", boundary, high-water mark>>).  -> (accepted ids, rejections, deviation keys used by accepted behaviours)"""
    af = chunk["file"] + ".allowed"
    with open(af, "w") as f:
        for k in sorted(run.findings) or ["(none)"]:
            f.write(json.dumps({"key": k}) + "\n")
    out = ""
    for attempt in range(3):        # TLC occasionally dies without a verdict under heavy load
        rc, out, dt = run.tlc("HubTrace", cfg, workers=1, timeout=1500, env={"VERIF_TRACE": chunk["file"], "VERIF_ALLOWED_FILE": af}, heap="4g")
        if rc == 0 and "No error has been found" in out:
            break
    else:
        run.log(out[-3000:])
        raise Inconclusive("trace validation with HubTrace failed (rc=%d) without a verdict" % rc)
    os.unlink(af)
    marks = {}
    for m in re.finditer(r'<<"ENDED", (\d+), (\d+)>>', out):
        b, hw = int(m.group(1)), int(m.group(2))
        marks[b] = max(marks.get(b, 0), hw)
    devs = [(m.group(1), int(m.group(2))) for m in re.finditer(r'<<"DEVIATION", "([^"]+)", (\d+)>>', out)]
    devs.sort(key=lambda x: x[1])
    accepted, rejections, deviations = set(), [], []
    lines = None
    di = 0
    for tid, first, boundary in chunk["spans"]:
        if boundary not in marks:
            raise Inconclusive("HubTrace gave no verdict for behaviour %s" % tid)
        hw = marks[boundary]
        while di < len(devs) and devs[di][1] < first:
            di += 1
        if hw >= boundary:
            accepted.add(tid)
            k = di
            while k < len(devs) and devs[k][1] < boundary:
                deviations.append(devs[k][0])
                k += 1
            continue
        if hw < first:
            raise Inconclusive("HubTrace verdict for behaviour %s points outside it (%d not in %d..%d)" % (tid, hw, first, boundary - 1))
        if lines is None:
            lines = open(chunk["file"]).readlines()
        trace = [json.loads(l) for l in lines[first - 1:hw]]
        rest = [json.loads(l) for l in lines[hw:boundary - 1]]
        rejections.append({"trace": tid, "rejected_event_index": len(trace) - 1, "rejected_event": trace[-1], "accepted_prefix": trace[:-1],
                           "rest_of_trace": rest, "invariant": None})
    os.unlink(chunk["file"])
    return accepted, rejections, deviations


def cut_chunks(run, trace_file):
    """Cuts the recorded ndjson file (the events of one behaviour are contiguous) into files of complete behaviours."""
    chunks, cur, n, last, first = [], None, 0, None, 1
    tid_re = re.compile(r'"t":"([^"]*)"')
    nev = ntr = 0

    def close_span():
        if cur is not None and last is not None:
            cur["spans"].append((last, first, n + 1))
    with open(trace_file) as f:
        for line in f:
            tid = tid_re.search(line).group(1)
            if tid != last:
                close_span()
                ntr += 1
                if cur is None or n >= CHUNK_EVENTS:
                    if cur is not None:
                        cur["fh"].close()
                    tf = tempfile.NamedTemporaryFile("w", suffix=".ndjson", dir=run.work, delete=False)
                    cur = {"file": tf.name, "fh": tf, "spans": []}
                    chunks.append(cur)
                    n = 0
                last, first = tid, n + 1
            cur["fh"].write(line)
            n += 1
            nev += 1
    close_span()
    if cur is not None:
        cur["fh"].close()
    for c in chunks:
        del c["fh"]
    return chunks, nev, ntr


def short(ev):
    keys = ("a", "mb", "id", "gate", "slot", "kind", "filter", "broken", "armed", "qbefore", "sync", "held", "q", "calls", "taken", "drained", "closed", "panics")
    return {k: ev[k] for k in keys if k in ev}


def diagnose(r):
    """Words for a rejected step (reporting only; the verdict is TLC's)."""
    ev = r["rejected_event"]
    pre = r["accepted_prefix"]
    pan = sum(e.get("panics", 0) for e in pre + [ev])
    later_stuck = any(e.get("sync") == "stuck" for e in r.get("rest_of_trace", []))
    # a socket listener whose buffer was not emptied by its disconnect and has grown since
    zombies = []
    for k, e in enumerate(pre + [ev]):
        if e.get("a") == "disconnect" and e.get("qbefore", 0) >= 2 and e["q"][e["slot"] - 1] == e["qbefore"] - 2:
            after = [x["q"][e["slot"] - 1] for x in (pre + [ev])[k:] if "q" in x] + [len(x["drained"][e["slot"] - 1]) for x in [ev] if "drained" in x]
            if max(after) > after[0]:
                zombies.append(e)
    ztext = ""
    if zombies:
        e = zombies[-1]
        ztext = ("socket listener %d was disconnected with %d events buffered: both Close() calls swallowed one event instead of removing the listener; it is still "
                 "registered with the hub and its buffer, which nobody reads any more, has grown since" % (e["slot"], e["qbefore"]))
    if ev.get("sync") == "stuck":
        return "hub-blocked", ("hub.Sync() did not return within the deadline although no connected listener's buffer is full: the hub is blocked" + (" (" + ztext + ")" if ztext else ""))
    if zombies:
        return ("not-dropped-then-hub-blocked" if later_stuck else "not-dropped"), (
            ztext + ("; later in this behaviour its buffer is full and hub.Sync() no longer returns: the hub is blocked for good" if later_stuck else ""))
    if pan and ev.get("sync") == "ok":
        return "broadcast-cut-short", ("a listener that is still attached was not handed an event that was dispatched while another listener disconnected "
                                       "(the hub logged %d recovered panic(s): the send on the closed channel of the disconnected listener aborts the broadcast)" % pan)
    return "other-" + str(ev.get("a")), "the observation is not what HubContract says the listeners are due"


def replay_and_validate(run, vh, behaviours, label, jvms=8):
    if not behaviours:
        return []
    payload = [{k: v for k, v in b.items() if not k.startswith("_")} for b in behaviours]
    crashes = []
    tf = run.harness_parallel(vh, "hub", payload, label, procs=12, crashes=crashes)
    byid = {b["id"]: b for b in behaviours}
    for c in crashes:
        b = byid.get(c["behaviour"]["id"], c["behaviour"])
        run.violation("C15 hub: the process died (%s) while running this behaviour" % ("; ".join(c["signature"]) or "rc=%s" % c["rc"]),
                      {"behaviour": b, "crash": {k: c[k] for k in ("rc", "signature", "stderr_tail")}, "replay_kind": "hub"})
    names = sorted({n for b in behaviours for n in b["names"]})
    cfg = TRACE_CFG % dict(mbs=q(names), buf=BUF)
    chunks, nev, ntr = cut_chunks(run, tf)
    os.unlink(tf)
    t0 = time.time()
    accepted, rejections, deviations = set(), [], []
    with cf.ThreadPoolExecutor(max_workers=jvms) as ex:
        for a, r, d in ex.map(lambda c: validate_chunk(run, cfg, c), chunks):
            accepted |= a
            rejections += r
            deviations += d
    dt = time.time() - t0
    run.log("validate HubTrace[%s]: %d events, %d traces in %d chunks, accepted=%d rejected=%d (deviation steps in accepted traces: %d) %.1fs" %
            (label, nev, ntr, len(chunks), len(accepted), len(rejections), len(deviations), dt))
    run.cov["traces_validated_against_impl"] += len(accepted)
    run.cov["evaluations"] += len(behaviours)
    run.cov["stages"].append({"stage": "validate", "module": "HubTrace", "label": label, "events": nev, "traces": ntr,
                              "accepted": len(accepted), "rejected": len(rejections), "wall_s": round(dt, 1)})
    for k in set(deviations):
        run.known_hits[k] = run.findings.get(k, "")
    # one violation per kind of rejection (shortest behaviour as the witness); the rest are counted
    sigs = {}
    for r in rejections:
        b = byid.get(r["trace"], {})
        sig, words = diagnose(r)
        v = sigs.setdefault(sig, {"b": b, "r": r, "n": 0, "words": words})
        v["n"] += 1
        if len(b.get("steps", [])) < len(v["b"].get("steps", [])):
            v.update(b=b, r=r, words=words)
    for sig in sorted(sigs):
        v = sigs[sig]
        b, r = v["b"], v["r"]
        seq = " ; ".join(json.dumps({k: x[k] for k in x if x[k] not in (0, "", False)}, sort_keys=True) for x in b["steps"][:r["rejected_event_index"]][-12:])
        what = ("C15 hub (history length %d%s): after [%s] step #%d observed %s: %s (%d rejected behaviours of this kind)" % (
            b.get("n", 0), ", events through the extension host" if b.get("ext") else "", seq, r["rejected_event_index"],
            json.dumps(short(r["rejected_event"]))[:700], v["words"], v["n"]))
        run.violation(what, {"behaviour": b, "rejection": r, "replay_kind": "hub", "same_kind": v["n"], "kind": sig})
    return rejections


def replay_file(run, args):
    d = json.load(open(args.replay))
    vh = run.build_harness()
    run.model_check("GenHub", gen_cfg("mc", [c for c in ALL_CMDS if c != "delunknown"], slots=(1, 2), ns=(2,), maxid=2, maxheld=1, buf=2, filters=("",)),
                    label="GenHub(contract model, small)")
    replay_and_validate(run, vh, [d["behaviour"]], "replay")
    run.cov["distinct_nontrivial"] = 1
    run.cov["samples"] = [d["behaviour"].get("_abs", {})]
    run.cov["rule"] = "replay of one recorded behaviour"


def nontrivial(b):
    """some listener is attached while something is broadcast"""
    joined = False
    for a in b["steps"]:
        if a["c"] == "join":
            joined = True
        elif joined and a["c"] in ("dispatch", "delete"):
            return True
    return False


def one_per_walk(sims):
    """-simulate evaluates the printing invariant on every candidate successor of the last state of a walk: keep one per walk"""
    seen, out = set(), []
    for s in sims:
        k = json.dumps(s["steps"][:len(s["steps"]) * 2 // 3], sort_keys=True)
        if k not in seen:
            seen.add(k)
            out.append(s)
    return out


# --------------------------------------------------------------------------- C15
CASTS_LIVE = ("v2+m", "v1a+v2+m", "v2+v2", "m+m+v2", "v2a+v2+m")
CASTS_ALL = ("v2", "v1", "v2+m", "v1+m", "v2a+m", "v2+v2", "v1a+v2+m", "v2+v1+m", "v2a+v2+m", "m+m+v2")


def c15(run, args):
    if args.replay:
        return replay_file(run, args)
    quick = run.tier == "quick"
    vh = run.build_harness()
    # (1) the contract model: closed-form statements of C15 and the step properties; small buffer so that "full" is reached
    mc_cmds = [c for c in ALL_CMDS if c != "delunknown"]
    run.model_check("GenHub", gen_cfg("mc", mc_cmds, slots=(1, 2), ns=(2,) if quick else (1, 2, 3), maxid=2, maxheld=1, buf=2,
                                      filters=("",) if quick else ("", "a")), label="GenHub(contract model)", timeout=1500)
    # (1b) the implementation-shaped model of the hub actor and the socket listener's buffer / close protocol (HubImpl.tla): as the
    #      code is now every property holds; the two named deviations (Close() before its repair, the repaired Close() with its
    #      statements swapped) must make TLC find the predicted failures (predictions, never verdicts about the code)
    impl_cfg = lambda old, rf: ("SPECIFICATION Spec\nCONSTANTS\n  Buf = 2\n  OpCap = 2\n  MaxEvents = %d\n  OldClose = %s\n  RemoveFirst = %s\n"
                                "INVARIANTS HubNeverStuck NoPanic RecorderInOrder RecorderComplete\nCHECK_DEADLOCK FALSE\n" % (6 if quick else 8, old, rf))
    run.model_check("MCHubImpl", impl_cfg("FALSE", "FALSE"), label="HubImpl (hub actor + socket listener as repaired)")
    # liveness under weak fairness (no state constraint): every announced event reaches the recording listener in the end
    live_cfg = lambda old, rf: ("SPECIFICATION FairSpec\nCONSTANTS\n  Buf = 2\n  OpCap = 2\n  MaxEvents = 6\n  OldClose = %s\n  RemoveFirst = %s\n"
                                "PROPERTIES EventuallyDelivered\nCHECK_DEADLOCK FALSE\n" % (old, rf))
    run.model_check("MCHubImpl", live_cfg("FALSE", "FALSE"), label="HubImpl liveness: EventuallyDelivered", workers=2)
    for name, flags in (("OldClose", ("TRUE", "FALSE")), ("RemoveFirst", ("FALSE", "TRUE"))):
        rc, out, dt = run.tlc("MCHubImpl", live_cfg(*flags), workers=2, timeout=600, heap="4g")
        ok_ = "Temporal property EventuallyDelivered was violated" in out
        run.cov["stages"].append({"stage": "model-check", "module": "HubImpl liveness (%s=TRUE)" % name, "mode": "prediction", "violated_as_predicted": ["EventuallyDelivered"] if ok_ else [], "wall_s": round(dt, 1)})
        if not ok_:
            raise Inconclusive("the deviation %s of HubImpl no longer violates EventuallyDelivered: model and check have drifted apart" % name)
    for name, flags in (("OldClose", ("TRUE", "FALSE")), ("RemoveFirst", ("FALSE", "TRUE"))):
        rc, out, dt = run.tlc("MCHubImpl", impl_cfg(*flags), workers=4, timeout=600, heap="4g", extra=["-continue"])
        predicted = [x for x in ("HubNeverStuck", "NoPanic", "RecorderComplete") if ("Invariant %s is violated" % x) in out]
        run.cov["stages"].append({"stage": "model-check", "module": "HubImpl(%s=TRUE)" % name, "mode": "prediction", "violated_as_predicted": predicted, "wall_s": round(dt, 1)})
        run.log("HubImpl with %s: predicted counterexample found for %s" % (name, predicted))
        if not predicted:
            raise Inconclusive("the deviation %s of HubImpl no longer produces its predicted failure: model and check have drifted apart" % name)
    # (2) history: every sequence of dispatches / deletes / joins to a bounded depth, history lengths 1..3
    hist = run.generate("GenHub", gen_cfg("bfs", ["dispatch", "delete", "delunknown", "join", "joinbroken"], depth=4 if quick else 5, slots=(1, 2),
                                          ns=(1, 2, 3), maxid=4), workers=8, timeout=1200)
    # (3) live: listeners attached first, then every sequence of dispatch / delete / take / disconnect / leave / fail
    live = run.generate("GenHub", gen_cfg("bfs", ["dispatch", "delete", "take", "disconnect", "leave", "fail"], depth=4 if quick else 5,
                                          ns=(2,), maxid=4, casts=CASTS_LIVE if quick else CASTS_ALL), workers=8, timeout=1200)
    # (4) schedules: a slow mock holds the hub goroutine inside a broadcast (or inside the history playback of its own join)
    #     while operations are queued behind it; every sequence to a bounded depth
    sched = run.generate("GenHub", gen_cfg("bfs", ["dispatch", "delete", "take", "disconnect", "leave", "fail", "gate", "release"], depth=4 if quick else 5,
                                           ns=(2,), maxid=4, maxheld=3, casts=("v2+m", "v1a+v2+m", "m+m+v2")), workers=8, timeout=1200)
    sched += run.generate("GenHub", gen_cfg("bfs", ["dispatch", "delete", "join", "joinarmed", "leave", "fail", "disconnect", "take", "gate", "release"],
                                            depth=5 if quick else 6, kinds=("v2", "mock") if quick else ("v1", "v2", "mock"), filters=("",), ns=(2,),
                                            maxid=3, maxheld=3), workers=8, timeout=1200)
    sched = [b for b in sched if gated(b)]
    # (5) long simulated behaviours over the whole alphabet
    nsim = 300 if quick else 2500
    sim = one_per_walk(run.generate("GenHub", gen_cfg("sim", ALL_CMDS, depth=24 if quick else 40, ns=(1, 2, 3), maxid=10 if quick else 16, maxheld=4),
                                    simulate={"num": nsim, "depth": 25 if quick else 41}))[:nsim]
    full = full_buffer_scenarios()
    if quick:
        full = [f for i, f in enumerate(full) if (i + run.seed) % 3 == 0]
    run.cov["distinct_nontrivial"] += len({json.dumps(s, sort_keys=True) for s in hist + live + sched + sim + full if nontrivial(s)})
    run.cov["exhaustive"] = True
    beh = behaviours_from(run, hist, "hist") + behaviours_from(run, live, "live")
    # a share of the sequential behaviours is also driven end to end: events enter through the extension host's after-events
    share = 12 if quick else 6
    beh += behaviours_from(run, [b for i, b in enumerate(hist + live) if i % share == run.seed % share], "ext", ext=lambda i, b: True)
    beh += behaviours_from(run, sched, "sched")
    beh += behaviours_from(run, sim, "sim")
    beh += behaviours_from(run, full, "full")
    # (5b) bursts through the extension host (hundreds of events announced back to back, compared when the burst is over)
    bursts = behaviours_from(run, burst_scenarios(run.seed, 6 if quick else 30, 400), "burst", ext=lambda i, b: True)
    for b in bursts:
        b["burst"] = True
    beh += bursts
    pick = lambda xs: xs[len(xs) // 2]["steps"][:14] if xs else []
    run.cov["samples"] = [pick(hist), pick(live), pick(sched), pick(sim)]
    replay_and_validate(run, vh, beh, "c15")
    # (6) the whole server: server.FullAssembly driven only through SMTP, POP3, REST and real WebSocket monitor connections,
    #     judged against the composed contract Inbucket.tla (what every monitor is owed across all interfaces)
    from checks import e2e
    e2e.stage(run, vh, quick, "C15")
    run.cov["rule"] = ("TLC enumerates, each to the stated depth and completely: (history) every sequence of dispatch to 2 mailboxes / delete of any stored or of an unknown "
                       "message / join of a v1 or v2 socket listener with or without mailbox filter or of a mock (also one that fails from its first call), history length 1..3; "
                       "(live) with listener sets attached first, every sequence of dispatch / delete / take / disconnect with however many events are buffered / leave / fail; "
                       "(schedules) the same with a slow mock holding the hub goroutine inside a broadcast or inside the history playback of its own join while further "
                       "operations are queued behind it, then released; plus long simulated behaviours over the whole alphabet and written-out buffer-full scenarios (100 "
                       "buffered events: disconnect when full / nearly full, hub waiting for a full buffer then take / disconnect).  Every behaviour ends with a dispatch per "
                       "mailbox and a delete, so that a listener that should have left, or one that was forgotten, shows.  Each is executed on the real msghub.Hub with the real "
                       "msgListenerV1/V2 (constructor hook; disconnect = the two Close() calls of reader and writer) and a recording mock, directly and (a share) through the "
                       "extension host's after-events; after every operation hub.Sync() is probed with a 5 s deadline.  TLC checks against HubContract at every moment the hub "
                       "is idle: buffered count of every attached socket listener == due - taken, every take and the final emptying return the next due events in order, every "
                       "attached mock's calls == history at join then every relevant event exactly once in hub order (v1: stored only), a listener that left is handed nothing "
                       "dispatched later, Sync returns unless a connected listener's buffer is full.  non-trivial = something is broadcast while a listener is attached; "
                       "distinct = distinct abstract behaviour")
    run.assumptions += ["history length 0 (monitor disabled: nothing relayed) is not exercised",
                        "a hub that waits for the full buffer of a still-connected socket listener is tolerated (in the running system bounded by the 10 s write deadline, after "
                        "which the writer disconnects); alternatively the hub may drop such a listener; progress is demanded from the disconnect on",
                        "a listener that answers with an error during the history playback of its own join may be kept until it fails in a broadcast (the code ignores that error)",
                        "what a listener that has left or failed was handed before is not constrained; only that nothing dispatched after its departure reaches it",
                        "a mock failure is persistent (every call from then on is answered with an error)",
                        "in the hub families real WebSocket connections are not opened (the listeners are the real msgListenerV1/V2 objects, the socket writer is played by the "
                        "driver); the end-to-end stage (Inbucket.tla) uses real WebSocket v2 connections to the assembled server, sequentially",
                        "end-to-end behaviours (extension host) are sequential: the hand-over goroutine has no defined order relative to operations the driver queues directly"]
