"""Shutdown check (C19): TLC checks the Lifecycle contract (spec/Lifecycle.tla, GenLifecycle.tla) and the
implementation-shaped model (spec/LifecycleImpl.tla: accept loop, spawn, wg.Add placement, Drain), generates
shutdown schedules from GenLifecycle.tla, this module spells them as protocol exchanges (the only place where
abstract stages become bytes), `vh lifecycle' plays them against a real smtp.Server / pop3.Server on loopback
with real TCP clients, the spawn gate, retention scanner and message hub, and TLC validates the recorded
traces against the contract with LifecycleTrace.tla.
"""
import json
import random
import re

from lib.vlib import Inconclusive

BOXES = ["s1a", "s1b", "s2a", "s2b", "s3a", "s3b"]
STAGES = {"smtp": ["greet", "ready", "mail", "data", "acked"], "pop3": ["auth", "trans", "marked"]}
PARKS = {"smtp": ["accepted", "greet", "ready", "mail", "data"], "pop3": ["accepted", "auth", "trans", "marked"]}
ALL_ACTS = ["drain", "cont", "finish", "hangup", "release", "newconn"]

GEN_CFG = """SPECIFICATION %(spec)s
CONSTANTS
  Sess = {1, 2, 3}
  Proto = "%(proto)s"
  Mailbox = {%(boxes)s}
  Parks = {%(parks)s}
  NSess = {%(nsess)s}
  Acts = {%(acts)s}
  MaxCont = %(maxcont)d
  MaxNew = %(maxnew)d
  Depth = %(depth)d
  Record = %(record)s
INVARIANTS %(invariants)s
%(properties)s
CHECK_DEADLOCK FALSE
"""

IMPL_CFG = """SPECIFICATION %(spec)s
CONSTANTS
  Clients = {%(clients)s}
  AddAfterSpawn = %(after)s
  P = "%(proto)s"
INVARIANTS %(invariants)s
%(properties)s
CHECK_DEADLOCK FALSE
"""

TRACE_CFG = """SPECIFICATION TraceSpec
CONSTANTS
  Sess = {1, 2, 3}
  Proto = "%(proto)s"
  Mailbox = {%(boxes)s}
INVARIANTS TypeOK StopsOnlyOnShutdown
POSTCONDITION TraceAccepted
CHECK_DEADLOCK FALSE
"""

KEY_SPAWN = "C19.smtp.session-registers-after-spawn"
KEY_HUB = "C19.hub.dispatch-after-stop-panics"


def q(xs):
    return ", ".join(json.dumps(x) if isinstance(x, str) else str(x) for x in xs)


def gen_cfg(proto, mode, nsess=(1,), depth=0, maxcont=2, maxnew=1, acts=ALL_ACTS, parks=None):
    """mode: mc (contract model: invariants + action properties) | live (fairness, liveness) | bfs (schedules)"""
    d = dict(proto=proto, boxes=q(BOXES), parks=q(parks or PARKS[proto]), nsess=q(nsess), acts=q(acts), maxcont=maxcont, maxnew=maxnew,
             depth=depth, record="TRUE" if mode == "bfs" else "FALSE", spec="GSpec", properties="")
    if mode == "mc":
        d["invariants"] = "TypeOK DrainedMeansQuiet StopsOnlyOnShutdown OpenSessionsCanFinish"
        d["properties"] = ("PROPERTIES NoNewSessionAfterShutdown DrainReturnsOnlyWhenQuiet DrainNeverEndsASession ShutdownNeverEndsASession "
                           "AckMeansStored QuitAppliesDeletions OthersUntouched")
    elif mode == "live":
        d["spec"] = "LiveSpec"
        d["invariants"] = "TypeOK"
        d["properties"] = "PROPERTIES DrainEventuallyReturns ServicesEventuallyStop"
    else:
        d["invariants"] = "Emit"
    return GEN_CFG % d


def impl_cfg(proto, after, clients=(1, 2, 3), props=None, live=True):
    return IMPL_CFG % dict(spec="ILive" if live else "ISpec", clients=q(clients), after="TRUE" if after else "FALSE", proto=proto,
                           invariants="ITypeOK DrainedMeansQuiet OpenSessionsCanFinish" if props is None else "ITypeOK OpenSessionsCanFinish",
                           properties="PROPERTIES " + (props or "NoNewSessionAfterShutdown DrainReturnsOnlyWhenQuiet NoExchangeAfterDrain "
                                                       "DrainEventuallyReturns ListenerEventuallyCloses"))


# ----------------------------------------------------------------------------- concretisation
class Concretiser:
    """Spells an abstract schedule as driver steps: which bytes each client sends when it moves from stage to stage."""

    def __init__(self, proto, rng):
        self.proto, self.rng = proto, rng
        self.stage = {}          # session -> current stage (None: held at the gate)
        self.plan = {}
        self.body = {}

    def open_plan(self, s):
        rng = self.rng
        if self.proto == "smtp":
            mbs = ["s%da" % s] + (["s%db" % s] if rng.random() < 0.5 else [])
            marks = []
        else:
            mbs = ["s%da" % s]
            marks = sorted(rng.choice([[1], [2], [3], [1, 3], [1, 2], [2, 3], [1, 2, 3]]))
        self.plan[s] = dict(mbs=mbs, tag="msg-%d" % s, marks=marks)
        if self.proto == "smtp":
            size = rng.choice([120, 700, 4000, 30000, 120000])
            head = "\r\n".join(["Subject: msg-%d" % s, "From: Sender %d <sender%d@example.org>" % (s, s), "To: " + ", ".join(m + "@inbucket.test" for m in mbs), "", ""])
            line = "line of message %d, padded to a realistic length with some text\r\n" % s
            text = head + line * max(1, (size - len(head)) // len(line))
            cut = rng.choice([0, 1, 9, len(text) // 2, len(text) - 1, len(text)] + [rng.randrange(len(text) + 1) for _ in range(4)])
            self.body[s] = (text[:cut], text[cut:] + ".\r\n")
        return self.plan[s]

    def exchanges(self, s, to):
        """what the client sends to get from the stage before `to' into `to'"""
        rng, p = self.rng, self.plan[s]
        L = lambda text: {"send": text + "\r\n", "reply": "line"}
        if self.proto == "smtp":
            if to == "ready":
                return [L(rng.choice(["HELO", "EHLO", "helo", "Ehlo"]) + " client%d.example" % s)]
            if to == "mail":
                return [L("MAIL FROM:<sender%d@example.org>" % s)] + [L("RCPT TO:<%s@inbucket.test>" % m) for m in p["mbs"]]
            if to == "data":
                out = [L("DATA")]
                if self.body[s][0]:
                    out.append({"send": self.body[s][0], "reply": "none"})
                return out
            if to == "acked":
                return [{"send": self.body[s][1], "reply": "line"}]
        else:
            if to == "trans":
                return [L("USER " + p["mbs"][0]), L("PASS " + rng.choice(["secret", "x"]))]
            if to == "marked":
                return [L("DELE %d" % k) for k in p["marks"]]
        raise ValueError((self.proto, to))

    def advance(self, s, to):
        """one `step' driver step taking session s from its stage to stage `to' (possibly through several stages)"""
        st = STAGES[self.proto]
        i, j = st.index(self.stage[s]), st.index(to)
        ex = []
        for k in range(i + 1, j + 1):
            ex += self.exchanges(s, st[k])
        self.stage[s] = to
        return {"kind": "step", "s": s, "to": to, "ex": ex}

    def steps(self, seq):
        out = []
        st = STAGES[self.proto]
        for a in seq:
            c, s = a["c"], a.get("s")
            if c in ("open", "accept"):
                p = self.open_plan(s)
                out.append(dict(kind="open", s=s, gated=(c == "accept"), **p))
                self.stage[s] = st[0] if c == "open" else None
                if c == "open" and a["park"] != st[0]:
                    out.append(self.advance(s, a["park"]))
            elif c == "release":
                out.append({"kind": "release", "s": s})
                self.stage[s] = st[0]
            elif c == "cont":
                out.append(self.advance(s, st[st.index(self.stage[s]) + 1]))
            elif c == "finish":
                if self.stage[s] != st[-1]:
                    out.append(self.advance(s, st[-1]))
                out.append({"kind": "quit", "s": s, "to": "ended", "ex": [{"send": self.rng.choice(["QUIT", "quit", "Quit"]) + "\r\n", "reply": "line"}]})
            elif c == "hangup":
                out.append({"kind": "hangup", "s": s})
            elif c in ("cancel", "drain", "newconn", "idleout"):
                out.append({"kind": c})
            else:
                raise ValueError(a)
        return out


def behaviours_from(run, proto, abstract, label, hub="detached"):
    out = []
    for i, seq in enumerate(abstract):
        rng = random.Random("%d/%s/%s/%d" % (run.seed, proto, label, i))
        conc = Concretiser(proto, rng)
        steps = conc.steps(seq)
        init = []
        if proto == "pop3":
            for s in sorted(conc.plan):
                mb = conc.plan[s]["mbs"][0]
                init.append({"mb": mb, "subjs": ["%s-%d" % (mb, k) for k in (1, 2, 3)], "size": rng.choice([80, 900, 12000])})
        if (i + run.seed) % 3 == 1:
            # against the TLS listener a client without TLS comes and goes first (its handshake fails)
            steps = [{"kind": "plainconn"}] + steps
        out.append({"id": "%s-%s-%d" % (proto, label, i), "proto": proto, "store": ["mem", "file"][(i + run.seed) % 2], "hub": hub, "names": BOXES,
                    "retention_off": (i + run.seed) % 5 == 0,
                    # one schedule in six runs with a long pause between the scanner's mailboxes (3 s): stopping must not wait for it
                    "retention_sleep_ms": 3000 if (i + run.seed) % 6 == 1 else 0,
                    # a third of the schedules run against a TLS listener (ForceTLS): clients speak TLS, a hangup is a TCP reset
                    "tls": (i + run.seed) % 3 == 1,
                    # the idle family: the servers' idle timeout is 1.5 s there (600 s, never reached, everywhere else)
                    "timeout_ms": 1500 if any(a["c"] == "idleout" for a in seq) else 0,
                    "init": init, "steps": steps, "_abs": seq,
                    # a schedule that can kill the process runs in a child process of the driver; its death is an event of the trace
                    "isolate": hub == "wired" or any(a["c"] == "accept" for a in seq)})
    return out


def describe(ev):
    keys = ("a", "s", "to", "gated", "banner", "conn", "entered", "want", "replies", "eof", "r", "ours", "start", "hub", "scan", "doscan", "drained", "sig", "err", "b", "e")
    return json.dumps({k: ev.get(k) for k in keys if k in ev})


def explain(proto, r):
    ev, pre = r["rejected_event"], r["accepted_prefix"]
    a = ev.get("a")
    dr = next((p for p in pre if p.get("a") == "drained"), None)
    if a in ("step", "quit", "release") and dr is not None and ev.get("b", 0) > dr["e"] and (
            ev.get("banner") == "ok" or any(x in ("ok", "fail") for x in ev.get("replies", []))):
        held = [p for p in pre if p.get("a") == "open" and p.get("gated") and p.get("s") == ev.get("s")]
        return ("Drain returned (event #%d, sequence number %d) while session %d was still running: its client began this step afterwards (b=%d) and was answered%s"
                % (pre.index(dr), dr["e"], ev.get("s"), ev["b"],
                   "; the connection had been accepted before the shutdown request but its session goroutine had not yet registered with the wait group" if held else ""))
    if a in ("step", "quit"):
        return "an open session could not complete its exchange after the shutdown request (replies %s of %s expected), or the store does not show the acknowledged message / the applied deletions" % (ev.get("replies"), ev.get("want"))
    if a == "release":
        return "the connection accepted before the shutdown request was neither greeted nor closed (%s)" % ev.get("banner")
    if a == "newconn":
        return "a connection attempt after Start had returned was served (r=%s ours=%s)" % (ev.get("r"), ev.get("ours"))
    if a == "cancel":
        return "after the shutdown request: Start returned=%s, hub loop returned=%s, scanner Join returned=%s, running scan returned=%s (within the deadline)" % (
            ev.get("start"), ev.get("hub"), ev.get("scan"), ev.get("doscan"))
    if a == "end":
        return "every session had ended but Drain had not returned 5 s later (drained=%s)" % ev.get("drained")
    if a == "died":
        why = ""
        if "WaitGroup" in (ev.get("sig") or ""):
            why = " (the SMTP session goroutine of a connection accepted before the request called wg.Add(1) while Drain's wg.Wait() was returning)"
        elif "closed channel" in (ev.get("sig") or ""):
            why = " (the hub closed its operation queue on cancel; the after-event of a message stored / removed by a still open session was then dispatched to it)"
        return "the server process died during the graceful shutdown: %s%s" % (ev.get("sig"), why)
    return "not allowed by the Lifecycle contract"


def replay_and_validate(run, vh, behaviours, label, confirm=True):
    """first pass: 14 driver processes side by side; the behaviours TLC rejects are then run again one after the other in one
    process (confirm=False) and only what is rejected again is reported: the driver works with real sockets and short waits,
    a starved process must not turn into a verdict about the code"""
    if not behaviours:
        return
    payload = [{k: v for k, v in b.items() if k != "_abs"} for b in behaviours]
    crashes = []
    tf = run.harness_parallel(vh, "lifecycle", payload, label, procs=14 if confirm else 1, crashes=crashes)
    byid = {b["id"]: b for b in behaviours}
    for c in crashes:
        b = byid.get(c["behaviour"]["id"], c["behaviour"])
        run.violation("C19 graceful shutdown: the server process died (%s) during this schedule" % ("; ".join(c["signature"]) or "rc=%s" % c["rc"]),
                      {"behaviour": b, "crash": {k: c[k] for k in ("rc", "signature", "stderr_tail")}, "replay_kind": "lifecycle"})
    lines = open(tf).readlines()
    for proto in ("smtp", "pop3"):
        sub = [l for l in lines if ('"t":"%s-' % proto) in l]
        if not sub:
            continue
        pf = run.path("trace-%s-%s.ndjson" % (label, proto))
        open(pf, "w").write("".join(sub))
        res = run.validate("LifecycleTrace", TRACE_CFG % dict(proto=proto, boxes=q(BOXES)), pf, max_rej=24 if confirm else len(behaviours) + 1)
        if confirm and res["rejections"]:
            again = [byid[r["trace"]] for r in res["rejections"] if r["trace"] in byid][:24]
            run.log("%d %s schedule(s) rejected: running them again in isolation" % (len(again), proto))
            before = len(run.violations)
            replay_and_validate(run, vh, again, label + "-iso-" + proto, confirm=False)
            run.cov["evaluations"] -= len(again)
            run.cov["unreproduced_rejections"] = run.cov.get("unreproduced_rejections", 0) + len(again) - (len(run.violations) - before)
            continue
        for r in res["rejections"]:
            b = byid.get(r["trace"], {})
            ev = r["rejected_event"]
            pre = r["accepted_prefix"]
            if ev.get("a") == "harness-error" or not any(p.get("a") == "cancel" for p in pre + [ev]):
                # the setup (before the shutdown request) did not work: not C19's business
                run.log("setup failure in %s: %s" % (r["trace"], describe(ev)))
                raise Inconclusive("behaviour %s could not be set up (event %s): driver/model mismatch, not a verdict" % (r["trace"], describe(ev)))
            what = "C19 graceful shutdown (%s, store=%s, hub=%s): schedule %s: event #%d %s: %s%s" % (
                proto, b.get("store"), b.get("hub"), json.dumps([(a["c"], a.get("s"), a.get("park")) if "s" in a else a["c"] for a in b.get("_abs", [])]),
                r["rejected_event_index"], describe(ev), explain(proto, r), (" [invariant %s]" % r["invariant"]) if r.get("invariant") else "")
            run.violation(what, {"behaviour": b, "rejection": r, "replay_kind": "lifecycle"})
    run.cov["evaluations"] += len(behaviours)


def replay_file(run, args):
    d = json.load(open(args.replay))
    vh = run.build_harness()
    b = d["behaviour"]
    run.model_check("GenLifecycle", gen_cfg(b["proto"], "mc", nsess=(1, 2), maxcont=2, parks=STAGES[b["proto"]] + ["accepted"]), label="GenLifecycle(contract model, small)")
    replay_and_validate(run, vh, [b], "replay")
    run.cov["distinct_nontrivial"] = 1
    run.cov["samples"] = [b.get("_abs", [])]
    run.cov["rule"] = "replay of one recorded behaviour"


def predicted_counterexample(run):
    """The as-is SMTP shape of LifecycleImpl (wg.Add inside the session goroutine) must violate the contract; the TLC
    counterexample is the predicted defect.  Returns the list of action names."""
    rc, out, dt = run.tlc("LifecycleImpl", impl_cfg("smtp", True, clients=(1, 2), props="NoExchangeAfterDrain", live=False), workers=1, timeout=600)
    acts = re.findall(r"State \d+: <(\w+(?:\(\d+\))?) line", out)
    run.log("model-check LifecycleImpl(as-is SMTP: AddAfterSpawn): rc=%d %.1fs predicted counterexample: %s" % (rc, dt, " -> ".join(acts)))
    if "is violated" not in out or "DrainReturns" not in acts:
        run.log(out[-3000:])
        raise Inconclusive("LifecycleImpl with AddAfterSpawn=TRUE did not produce the predicted counterexample: the model misrepresents the code")
    st = run.tlc_stats(out)
    run.cov["stages"].append({"stage": "model-check", "module": "LifecycleImpl(as-is SMTP, AddAfterSpawn=TRUE)", "generated": st["generated"], "distinct": st["distinct"],
                              "wall_s": round(dt, 1), "mode": "exhaustive", "predicted_counterexample": acts})
    return acts


def nontrivial(seq):
    """something happens to an open or held session after the shutdown request, and Drain is called"""
    after = seq[[a["c"] for a in seq].index("cancel") + 1:]
    return any(a["c"] in ("cont", "finish", "hangup", "release") for a in after) and any(a["c"] == "drain" for a in after)


def has_window(seq):
    """Drain is called while an accepted session is still held at the gate"""
    held = set()
    for a in seq:
        if a["c"] == "accept":
            held.add(a["s"])
        elif a["c"] == "release":
            held.discard(a["s"])
        elif a["c"] == "drain":
            return bool(held)
    return False


def sample(rng, seqs, k, keep=lambda s: False):
    must = [s for s in seqs if keep(s)]
    rest = [s for s in seqs if not keep(s)]
    rng.shuffle(rest)
    rng.shuffle(must)
    must = must[:max(k // 3, 1)]
    return must + rest[:max(0, k - len(must))]


# --------------------------------------------------------------------------- C19
def c19(run, args):
    if args.replay:
        return replay_file(run, args)
    quick = run.tier == "quick"
    vh = run.build_harness()
    rng = random.Random(run.seed)
    # (0) the contract model: invariants, action properties; liveness with fair clients and server
    for proto in ("smtp", "pop3"):
        run.model_check("GenLifecycle", gen_cfg(proto, "mc", nsess=(1, 2) if quick else (1, 2, 3), maxcont=2 if quick else 3, parks=STAGES[proto] + ["accepted"]),
                        label="GenLifecycle(contract model, %s)" % proto)
        run.model_check("GenLifecycle", gen_cfg(proto, "live", nsess=(1, 2), maxcont=1 if quick else 2, parks=STAGES[proto] + ["accepted"]),
                        label="GenLifecycle(liveness, %s)" % proto)
    # (1) the implementation-shaped model against the contract's properties: registration before the spawn (POP3, and the
    #     SMTP code as it should be) satisfies them; the SMTP code as written yields the predicted counterexample
    for proto in ("pop3", "smtp"):
        run.model_check("LifecycleImpl", impl_cfg(proto, False, clients=(1, 2) if quick else (1, 2, 3)), label="LifecycleImpl(register before spawn, %s dialogue)" % proto)
    predicted = predicted_counterexample(run)

    # (2) schedules
    beh, samples, distinct, complete = [], [], set(), True
    for proto in ("smtp", "pop3"):
        one = run.generate("GenLifecycle", gen_cfg(proto, "bfs", nsess=(1,), depth=6, maxcont=2, maxnew=1), workers=4)
        two = run.generate("GenLifecycle", gen_cfg(proto, "bfs", nsess=(2,), depth=4 if quick else 5, maxcont=1, maxnew=1), workers=4)
        three = run.generate("GenLifecycle", gen_cfg(proto, "bfs", nsess=(3,), depth=3 if quick else 4, maxcont=1, maxnew=1 if quick else 0), workers=4)
        if not (one and two and three):
            raise Inconclusive("no schedules generated for " + proto)
        n2, n3 = len(two), len(three)
        two = sample(rng, two, 450 if quick else 14000, has_window)
        three = sample(rng, three, 150 if quick else 9000, has_window)
        complete = complete and len(two) == n2 and len(three) == n3
        run.log("%s schedules: 1 session %d (all), 2 sessions %d of %d, 3 sessions %d of %d" % (proto, len(one), len(two), n2, len(three), n3))
        run.cov["schedules_%s" % proto] = {"1": [len(one), len(one)], "2": [len(two), n2], "3": [len(three), n3]}
        for lab, seqs in (("one", one), ("two", two), ("three", three)):
            beh += behaviours_from(run, proto, seqs, lab)
            distinct |= {proto + json.dumps(s, sort_keys=True) for s in seqs if nontrivial(s)}
        w = [s for s in one if has_window(s)]
        samples += [one[len(one) // 2], (w or one)[0], two[0]]
    # the predicted counterexample must be among the schedules that are replayed (accept, cancel, drain, release, finish)
    if not any(b["proto"] == "smtp" and has_window(b["_abs"]) for b in beh):
        raise Inconclusive("the predicted counterexample's schedule (Drain called while an accepted session is held) is not among the generated schedules")
    run.cov["distinct_nontrivial"] += len(distinct)
    run.cov["exhaustive"] = complete     # only when every generated schedule was replayed (the 1-session sets always are)
    run.cov["samples"] = samples
    run.cov["predicted_counterexample"] = predicted
    replay_and_validate(run, vh, beh, "c19")

    # (2b) the idle family: sessions that are open at the shutdown request and whose clients neither speak nor go.  Each ends when
    #      the server's idle timeout expires (1.5 s here) - the server says so and closes - and Drain returns once they have.
    idle = []
    for proto in ("smtp", "pop3"):
        st = STAGES[proto]
        ib = []
        for park in st:
            ib.append([{"c": "open", "s": 1, "park": park}, {"c": "cancel"}, {"c": "drain"}, {"c": "idleout"}])
            ib.append([{"c": "open", "s": 1, "park": park}, {"c": "cancel"}, {"c": "newconn"}, {"c": "idleout"}, {"c": "drain"}])
        pairs = [(a, b) for a in st for b in st]
        rng.shuffle(pairs)
        for a, b in pairs[:4 if quick else len(pairs)]:
            ib.append([{"c": "open", "s": 1, "park": a}, {"c": "open", "s": 2, "park": b}, {"c": "cancel"}, {"c": "drain"}, {"c": "idleout"}])
            ib.append([{"c": "open", "s": 1, "park": a}, {"c": "open", "s": 2, "park": b}, {"c": "cancel"}, {"c": "finish", "s": 1}, {"c": "idleout"}, {"c": "drain"}])
        idle += behaviours_from(run, proto, ib, "idle")
    run.cov["idle_timeout_schedules"] = len(idle)
    replay_and_validate(run, vh, idle, "c19-idle")

    # (3) the full assembly's wiring: the hub listens to the store's events; a few schedules in which an open session stores /
    #     removes a message after the shutdown request (child process per schedule: a death is an event of the trace)
    wired = []
    for proto in ("smtp", "pop3"):
        st = STAGES[proto]
        for park in ([st[0], st[-2]] if quick else st[:-1] if proto == "smtp" else st):
            for order in (["drain", "finish"], ["finish", "drain"]):
                seq = [{"c": "open", "s": 1, "park": park}, {"c": "open", "s": 2, "park": st[0]}, {"c": "cancel"}]
                for o in order:
                    seq.append({"c": "drain"} if o == "drain" else {"c": "finish", "s": 1})
                seq += [{"c": "newconn"}, {"c": "finish", "s": 2}]
                wired.append(seq)
        wired.append([{"c": "open", "s": 1, "park": st[1]}, {"c": "cancel"}, {"c": "drain"}, {"c": "hangup", "s": 1}])   # control: nothing stored or removed after the request
    wb = []
    for proto in ("smtp", "pop3"):
        wb += behaviours_from(run, proto, [s for s in wired if s[0]["park"] in STAGES[proto]], "wired", hub="wired")
    run.cov["distinct_nontrivial"] += len(wb)
    replay_and_validate(run, vh, wb, "c19w")

    # (4) thorough: one behaviour in which the scanner's first scan (one minute after its start) is under way when shutdown is requested
    if not quick:
        lb = behaviours_from(run, "pop3", [[{"c": "open", "s": 1, "park": "marked"}, {"c": "cancel"}, {"c": "drain"}, {"c": "finish", "s": 1}]], "longscan")
        lb[0]["scan_wait_ms"], lb[0]["retention_sleep_ms"] = 61000, 1000
        replay_and_validate(run, vh, lb, "c19s")

    # a listener that cannot bind at start-up (its port is taken), the services assembled and started as cmd/inbucket does it:
    # the failure is reported and main's shutdown sequence (cancel, drain, drain, join) completes (StartFaultTrace.tla)
    sf = run.path("startfault.ndjson")
    with open(sf, "w") as out:
        for which in ("smtp", "pop3", "web"):
            one = run.path("startfault-%s.ndjson" % which)
            run.harness(vh, ["startfault", which, one], timeout=120)
            out.write(open(one).read())
    sres = run.validate("StartFaultTrace", "SPECIFICATION TraceSpec\nPOSTCONDITION TraceAccepted\nCHECK_DEADLOCK FALSE\n", sf, max_rej=4, parallel=1)
    run.cov["evaluations"] += 3
    for r in sres["rejections"]:
        ev = r["rejected_event"]
        run.violation("C19 start-up fault: the %s listener could not bind; failure reported=%s, then after cancel: SMTP drain returned=%s, POP3 drain returned=%s, "
                      "retention scanner Join returned=%s (each within 5 s): shutdown does not complete" % (
                          ev.get("which"), ev.get("notified"), ev.get("smtp_drain"), ev.get("pop3_drain"), ev.get("join")),
                      {"behaviour": {"startfault": ev.get("which")}, "rejection": r, "replay_kind": "startfault"})
    run.cov["rule"] = ("TLC enumerates shutdown schedules from GenLifecycle.tla: setup = 1..3 sessions, each parked in a protocol state (SMTP: after banner, after HELO, after "
                       "MAIL+RCPTs, DATA with the body half transmitted; POP3: AUTHORIZATION, TRANSACTION, TRANSACTION with DELE marks) or accepted-but-held at the spawn gate "
                       "(before the session registers with the wait group), then the shutdown request (ctx cancel; the driver waits for Start, the hub loop, the scanner's "
                       "Join and a running DoScan to return), then every interleaving to the stated depth of {Drain called, client continues, client finishes and QUITs, "
                       "client disconnects, gate released, new connection attempt}, closed by a suffix that releases/finishes/drains what is pending.  1 session: all complete "
                       "schedules; 2 and 3 sessions: BFS to depth 4/3 (quick) or 5/4 (thorough), of which a seed-chosen sample is replayed (quick 450/150 per protocol, "
                       "thorough up to 14000/9000 = all 2-session schedules; a third of each sample has Drain called while a session is held at the gate; counts in schedules_smtp/_pop3).  Each schedule is played on a real smtp.Server / pop3.Server on a loopback port with real TCP clients, memory and "
                       "file stores alternating.  TLC validates against Lifecycle.tla: connects after Start returned are refused; every exchange of an open session "
                       "after the request is answered positively; the store shows the acknowledged message for each recipient and exactly the marked messages gone after "
                       "QUIT; Drain has returned 5 s after the last session ended; and no client step that began after the `drained' event (one counter under one mutex) "
                       "was answered.  Plus the full-assembly wiring (hub listening to the store's events) in child processes, and (thorough) a scan under way at the request. "
                       "non-trivial = client activity or gate release after the request and Drain called; distinct = distinct abstract schedule")
    run.assumptions += ["Drain is called after Start has returned (the window between cancel and listener.Close() needs a gate inside Start; main.go does not wait either)",
                        "replies are judged by class (2xx/3xx, +OK vs 4xx/5xx, -ERR), not wording; message content is C02's business (subjects only)",
                        "what a disconnect in the middle of DATA or with deletions pending does to the store is left to C03/C13 (those mailboxes are no longer compared)",
                        "a connection attempt after shutdown counts as served only if this server's banner (unique domain) arrives",
                        "the hub is wired to the store's extension host only in the dedicated group (3); elsewhere it runs on a host of its own so that schedules are not all cut short by the same crash",
                        "one recipient domain, ordinary addresses; a third of the schedules over TLS listeners; server idle timeout 600 s (never reached) except in the idle family (1.5 s, clients silent and connected)",
                        "2- and 3-session schedules are sampled by seed from the complete BFS set; the LifecycleImpl model is a prediction, never the judge"]
