"""Mailbox naming (C04): TLC checks the abstract naming function of spec/Naming.tla against the five
relations of the property for every abstract address (GenNaming.tla) and prints every abstract address
with its variants; this module spells them as concrete address strings (the only place where token
classes become characters; seed-chosen), `vh naming' asks the real naming code (receive path and lookup
path; for a sample also a real SMTP delivery followed by REST / web UI requests), and TLC evaluates the
same relations on the recorded observation tables with NamingTrace.tla.
"""
import concurrent.futures as cf
import json
import os
import random
import re
import tempfile
import time

from lib.vlib import Inconclusive

MC_CFG = """SPECIFICATION GSpec
CONSTANTS
  MaxLen = %(maxlen)d
  GenModes = {"local", "full", "domain"}
INVARIANTS TypeOK InvNonEmpty InvFixedPoint InvCaseInsensitive InvPlusInsensitive InvReceiveNameEqualsLookupName InvNotVacuous InvScope
CHECK_DEADLOCK FALSE
"""

GEN_CFG = """SPECIFICATION GSpec
CONSTANTS
  MaxLen = %(maxlen)d
  GenModes = {"local"}
INVARIANTS Emit
CHECK_DEADLOCK FALSE
"""

TRACE_CFG = """SPECIFICATION TraceSpec
POSTCONDITION TraceAccepted
CHECK_DEADLOCK FALSE
"""

MODES = ["local", "full", "domain"]

# ----------------------------------------------------------------------------- concretisation
LOWER = "abcdefghijklmnopqrstuvwxyz"
UPPER = LOWER.upper()
DIGITS = "0123456789"
SPECIALS = "!#$%&'*-/=?^_`{|}~"        # may appear unquoted in a local part (RFC 3696); '+' and '.' are classes of their own
URLISH = "/?#%&="                      # the ones that also mean something in a URL
MUSTQUOTE = ' @(),:;<>["'              # legal only inside quotes


def special(rng):
    return rng.choice(URLISH) if rng.random() < 0.5 else rng.choice(SPECIALS)


def quoted_char(rng):
    """the character behind a quoted-pair / inside a quoted string"""
    x = rng.random()
    if x < 0.30:
        return rng.choice(LOWER)
    if x < 0.45:
        return rng.choice(UPPER)
    if x < 0.55:
        return rng.choice(DIGITS)
    if x < 0.70:
        return special(rng)
    if x < 0.80:
        return "."
    if x < 0.90:
        return "+"
    return rng.choice(MUSTQUOTE)


def spell_token(t, rng):
    if t == "lower":
        return "".join(rng.choice(LOWER) for _ in range(rng.choice((1, 1, 2, 3))))
    if t == "upper":
        return "".join(rng.choice(UPPER) for _ in range(rng.choice((1, 1, 2, 3))))
    if t == "digit":
        return "".join(rng.choice(DIGITS) for _ in range(rng.choice((1, 1, 2))))
    if t == "plus":
        return "+"
    if t == "dot":
        return "."
    if t == "special":
        return special(rng)
    if t == "qpair":
        return "\\" + quoted_char(rng)
    if t == "qstring":
        out = ""
        for _ in range(rng.choice((1, 2, 2, 3))):
            c = quoted_char(rng)
            out += "\\" + c if c in '"\\' else c
        return '"' + out + '"'
    raise ValueError(t)


def label(rng, n=None):
    n = n or rng.choice((1, 2, 3, 5))
    s = "".join(rng.choice(LOWER + DIGITS) for _ in range(n))
    if n >= 3 and rng.random() < 0.3:
        s = s[0] + rng.choice("-_") + s[2:]
    return s


def spell_domain(d, rng):
    if d == "none":
        return ""
    if d == "ip4":
        return "[192.0.2.%d]" % rng.randrange(1, 255)
    if d == "ip6":
        return "[IPv6:2001:db8::%s%x]" % (rng.choice("abcdef"), rng.randrange(1, 4096))
    dom = ".".join([label(rng) for _ in range(rng.choice((1, 2)))] + [rng.choice(("example", "test", "example.com", "invalid"))])
    if rng.random() < 0.08:
        # a long but legal domain (labels <= 63, total <= 253): longer than any limit that applies to local parts
        while len(dom) < rng.choice((129, 140, 200, 240)):
            dom = label(rng, rng.choice((20, 40, 63))) + "." + dom
        dom = dom[-253:].lstrip(".-_")
    if not re.search("[a-z]", dom):
        dom = "m" + dom
    if d == "mixed":
        while True:
            m = "".join(c.upper() if rng.random() < 0.5 else c for c in dom)
            if m != dom:
                dom = m
                break
    if rng.random() < 0.1:
        dom += "."
    return dom


def flip_domain(dom, d, rng):
    if d == "ip6" and rng.random() < 0.5:
        return dom[:6] + dom[6:].swapcase()       # the hexadecimal digits only, the "IPv6:" tag as it is
    return dom.swapcase()


def concretise(abs_addr, rng):
    """abstract address -> (rows [(role, string)], facts)"""
    pieces = [(t, spell_token(t, rng)) for t in abs_addr["local"]]
    local = "".join(p for _, p in pieces)
    dom = spell_domain(abs_addr["dom"], rng)
    route = ""
    if abs_addr["route"]:
        route = rng.choice(("@relay.example:", "@a.example,@B.example:", "@[192.0.2.9]:"))
    ext = rng.choice(("tag", "Ext1", "x.y", "9", "a+b", "T"))
    cut = local
    for i, (t, _) in enumerate(pieces):
        if t == "plus":
            cut = "".join(p for _, p in pieces[:i])
            break
    fdom = flip_domain(dom, abs_addr["dom"], rng)

    def addr(l, d):
        return route + l + ("@" + d if d else "")

    rows = []
    order = {"orig": 0, "caseL": 1, "caseD": 2, "caseLD": 3, "plus": 4, "noplus": 5}
    for v in sorted(abs_addr["variants"], key=lambda v: order[v["role"]]):
        l = {"keep": local, "add": local + "+" + ext, "cut": cut}[v["plus"]]
        if v["flipL"]:
            l = l.swapcase()
        rows.append({"role": v["role"], "q": addr(l, fdom if v["flipD"] else dom)})
    return rows


def behaviours_for(run, abstract, modes, e2e_pick, spellings=1):
    out = []
    for i, a in enumerate(abstract):
        absd = {"route": a["route"], "local": a["local"], "dom": a["dom"]}
        for k in range(spellings):
            rows = concretise(a, random.Random("%d/naming/%d/%d" % (run.seed, i, k)))
            for m in modes:
                out.append({"id": "a%d.%d-%s" % (i, k, m), "mode": m, "abs": absd, "rows": rows, "e2e": e2e_pick(i, a, m, k)})
    return out


# ----------------------------------------------------------------------------- validation
RELFAIL = re.compile(r'<<\s*"RELFAIL",\s*(\d+),\s*("(?:[^"\\]|\\.)*")\s*>>', re.S)


def _validate_chunk(run, items):
    """items: [(trace id, raw ndjson line)].  One TLC run of NamingTrace over the chunk.
    -> (accepted trace ids, rejections).  The judgement is TLC's: a trace is rejected iff
    TLC printed a RELFAIL for one of its events."""
    tf = tempfile.NamedTemporaryFile("w", suffix=".ndjson", dir=run.work, delete=False)
    tf.write("".join(l for _, l in items))
    tf.close()
    rc, out, dt = run.tlc("NamingTrace", TRACE_CFG, workers=1, timeout=1500, env={"VERIF_TRACE": tf.name}, heap="3g")
    os.unlink(tf.name)
    m = re.search(r'<<"REJECTED_AT", (\d+)>>', out)
    if m:
        k = int(m.group(1))
        run.log(out[-3000:])
        raise Inconclusive("NamingTrace: event %d (%s) does not have the shape the trace specification expects (harness problem, not a verdict)"
                           % (k, items[k - 1][1][:300] if 0 < k <= len(items) else "?"))
    fails = [(int(a), json.loads(json.loads(b))) for a, b in RELFAIL.findall(out)]
    clean = rc == 0 and "No error has been found" in out
    mm = re.search(r'<<"RELFAILS", (\d+)>>', out)
    if not clean and not (mm and int(mm.group(1)) == len(fails) and fails):
        run.log(out[-5000:])
        raise Inconclusive("trace validation with NamingTrace failed without a usable verdict (rc=%d)" % rc)
    rejections, firsts = {}, {}
    for i, (t, _) in enumerate(items):
        firsts.setdefault(t, i)
    for k, failed in fails:
        tid, line = items[k - 1]
        first = firsts[tid]
        r = rejections.setdefault(tid, {"trace": tid, "failed": [], "events": []})
        r["failed"] += [f if isinstance(f, str) else ":".join(f) for f in failed]
        r["events"].append({"rejected_event_index": k - 1 - first, "rejected_event": json.loads(line), "failed": failed})
    accepted = {t for t, _ in items} - set(rejections)
    return accepted, list(rejections.values()), dt


def validate(run, trace_file, parallel=12):
    lines = open(trace_file).readlines()
    groups, order = {}, []
    for l in lines:
        m = re.search(r'"t":"([^"]*)"', l)
        tid = m.group(1) if m else ""
        if tid not in groups:
            groups[tid] = []
            order.append(tid)
        groups[tid].append(l)
    n = max(1, min(parallel, len(order) // 300 + 1))
    chunks = [[] for _ in range(n)]
    for i, tid in enumerate(order):
        chunks[i % n].extend((tid, l) for l in groups[tid])
    t = time.time()
    accepted, rejections = set(), []
    with cf.ThreadPoolExecutor(max_workers=n) as ex:
        for a, r, _ in [f.result() for f in [ex.submit(_validate_chunk, run, c) for c in chunks if c]]:
            accepted |= a
            rejections += r
    dt = time.time() - t
    run.log("validate NamingTrace: %d events, %d traces, accepted=%d rejected=%d %.1fs" % (len(lines), len(order), len(accepted), len(rejections), dt))
    run.cov["traces_validated_against_impl"] += len(accepted)
    run.cov["stages"].append({"stage": "validate", "module": "NamingTrace", "events": len(lines), "traces": len(order),
                              "accepted": len(accepted), "rejected": len(rejections), "wall_s": round(dt, 1)})
    return {"accepted": accepted, "rejections": rejections, "events": len(lines), "traces": len(order)}


# ----------------------------------------------------------------------------- reporting
def causes(rej):
    """Labels for a trace TLC has rejected, for grouping the report only (TLC has judged; nothing here accepts anything).
    A miss that no label explains is labelled 'unexplained' and reported as a class of its own."""
    out = set()
    bn, bad_roles = None, set()
    for e in rej["events"]:
        ev = e["rejected_event"]
        if ev["a"] == "table":
            base = next(r for r in ev["rows"] if r["role"] == "orig")
            bn = base["rcpt"]["name"]
            empty = bn == "" or bn.startswith("@")
            if empty:
                out.add("the address has no base name ('+ext' only): the name is %s" % ("empty" if bn == "" else "'@domain'"))
            for r in ev["rows"]:
                if r["role"] == "name":
                    if not r["look"]["ok"]:
                        if not empty:
                            out.add("asking for the produced name is refused: " + re.sub(r'"[^"]*"', "<..>", r["look"].get("err", "")))
                        bad_roles.add("name")
                    elif r["look"]["name"] != bn:
                        out.add("asking for the produced name yields a different name" + (" (it differs in letter case only)" if r["look"]["name"].lower() == bn.lower() else ""))
                        bad_roles.add("name")
                    elif r["rcpt"]["ok"] and r["rcpt"]["name"] != bn:
                        out.add("mail to the produced name goes to a different mailbox")
                elif r["rcpt"]["ok"] and r["rcpt"]["name"] != bn:
                    bad_roles.add(r["role"])
                    if r["role"] in ("caseD", "caseLD") and r["rcpt"]["name"].lower() == bn.lower():
                        out.add("the letter case of the domain is kept in the name")
                    else:
                        out.add("variant %s gets a different name" % r["role"])
                if r["rcpt"]["ok"] and (not r["look"]["ok"] or r["look"]["name"] != r["rcpt"]["name"]):
                    out.add("the lookup path disagrees with the receive path")
            if len(out) == 0:
                out.add("unexplained table failure %s" % e["failed"])
        else:
            for f in e["failed"]:
                if f[0] == "E2E.StoredUnderReceiveName":
                    out.add("the message is not stored under the name the receive path computed")
            for k in ev["lookups"]:
                if (k["role"] in ("orig", "name") or k["rcptok"]) and not (k["found"] and k["mailbox"] == ev["rname"]):
                    if k["role"] in bad_roles or (k["role"] == "name" and ev["rname"] == ""):
                        continue                      # the same failure as in the table, seen through HTTP
                    if "/" in k["q"] and k["status"] != 200:
                        out.add("a '/' in the address: the HTTP routes of the REST API and the web UI split the percent-encoded string at it (HTTP 404/301/500)")
                    else:
                        out.add("unexplained end-to-end miss via %s (HTTP %s)" % (k["via"], k["status"]))
    return sorted(out)


def table_of(rej):
    for e in rej["events"]:
        if e["rejected_event"]["a"] == "table":
            return [(r["role"], r["q"], r["rcpt"].get("name") if r["rcpt"]["ok"] else "refused: " + r["rcpt"].get("err", ""),
                     r["look"].get("name") if r["look"]["ok"] else "error: " + r["look"].get("err", "")) for r in e["rejected_event"]["rows"]]
    return None


def misses_of(rej):
    out = []
    for e in rej["events"]:
        ev = e["rejected_event"]
        if ev["a"] == "e2e":
            out += [(k["via"], k["role"], k["q"], k["status"]) for k in ev["lookups"]
                    if (k["role"] in ("orig", "name") or k["rcptok"]) and not (k["found"] and k["mailbox"] == ev["rname"])]
    return out


def report(run, res, byid, prefix):
    """one VIOLATION per (naming mode, cause); a rejected address counts under each of its causes and the
    representative is the shortest address that has this cause alone (if any)"""
    groups = {}
    for r in res["rejections"]:
        cs = causes(r)
        r["causes"] = cs
        for c in cs:
            groups.setdefault((byid[r["trace"]]["mode"], c), []).append(r)
    for (mode, cause), rs in sorted(groups.items()):
        rs.sort(key=lambda r: (len(r["causes"]), len(byid[r["trace"]]["rows"][0]["q"]), r["trace"]))
        first = rs[0]
        b = byid[first["trace"]]
        rels = sorted({f.split(":")[0] for r in rs if len(r["causes"]) == len(first["causes"]) for f in r["failed"]})
        what = "%s: naming mode %s: %s: relation(s) %s rejected by TLC for RCPT-accepted address %r%s; %d address(es) of this run are rejected with this cause, e.g. %s" % (
            prefix, mode, cause, ", ".join(rels), b["rows"][0]["q"],
            "" if len(first["causes"]) == 1 else " (this one also: %s)" % "; ".join(c for c in first["causes"] if c != cause),
            len(rs), ", ".join(repr(byid[r["trace"]]["rows"][0]["q"]) for r in rs[1:5]) or "-")
        run.violation(what, {"behaviour": b, "rejection": first, "observed_table": table_of(first), "end_to_end_misses": misses_of(first),
                             "same_cause_count": len(rs), "more_examples": [byid[r["trace"]] for r in rs[1:6]], "replay_kind": "naming"})
    return groups


def replay_and_validate(run, vh, behaviours, label, prefix):
    tf = run.harness_parallel(vh, "naming", behaviours, label, procs=12)
    res = validate(run, tf)
    byid = {b["id"]: b for b in behaviours}
    # what the run covered, counted from the recorded events
    inscope, e2e, e2e_delivered = set(), 0, 0
    for l in open(tf):
        ev = json.loads(l)
        if ev["a"] == "table" and any(r["role"] == "orig" and r["rcpt"]["ok"] for r in ev["rows"]):
            b = byid[ev["t"]]
            inscope.add((b["mode"], json.dumps(b["abs"], sort_keys=True)))
        elif ev["a"] == "e2e":
            e2e += 1
            e2e_delivered += ev["rcptcls"] == "ok" and ev["datacls"] == "ok"
    run.cov["evaluations"] += len(behaviours)
    run.cov["distinct_nontrivial"] += len(inscope)
    run.cov["end_to_end"] = run.cov.get("end_to_end", 0) + e2e
    run.cov["end_to_end_delivered"] = run.cov.get("end_to_end_delivered", 0) + e2e_delivered
    groups = report(run, res, byid, prefix)
    run.cov["rejected_addresses"] = run.cov.get("rejected_addresses", 0) + len(res["rejections"])
    run.cov["rejection_classes"] = [{"mode": k[0], "cause": k[1], "addresses": len(v),
                                     "relations": sorted({f.split(":")[0] for r in v for f in r["failed"]})} for k, v in sorted(groups.items())]
    return res


def replay_file(run, args):
    d = json.load(open(args.replay))
    vh = run.build_harness()
    beh = [d["behaviour"]] + d.get("more_examples", [])
    replay_and_validate(run, vh, beh[:1], "replay", "replay")
    run.cov["samples"] = [d["behaviour"]]
    run.cov["rule"] = "replay of one recorded behaviour"


# --------------------------------------------------------------------------- C04
def c04(run, args):
    if args.replay:
        return replay_file(run, args)
    quick = run.tier == "quick"
    vh = run.build_harness()
    maxlen = 3 if quick else 4
    # (1) the abstract naming function satisfies the five relations for every abstract address x mode
    run.model_check("GenNaming", MC_CFG % dict(maxlen=maxlen), label="GenNaming(Name satisfies C04, MaxLen=%d)" % maxlen)
    # (2) every abstract address with its variants
    abstract = run.generate("GenNaming", GEN_CFG % dict(maxlen=maxlen), workers=4)
    abstract.sort(key=lambda a: (len(a["local"]), json.dumps(a, sort_keys=True)))
    expected = sum(8 ** n for n in range(1, maxlen + 1)) * 5 * 2
    if len(abstract) != expected:
        raise Inconclusive("GenNaming printed %d addresses, expected %d" % (len(abstract), expected))
    run.cov["exhaustive"] = True
    # (3) end-to-end sample: every address with a short local part, a seed-chosen share of the longer ones
    full_e2e = 2 if quick else 3
    share = 0.15 if quick else 0.30
    spellings = 2 if quick else 3
    pick = random.Random("%d/e2e" % run.seed)
    chosen = {i for i, a in enumerate(abstract) if len(a["local"]) <= full_e2e or pick.random() < share}
    beh = behaviours_for(run, abstract, MODES, lambda i, a, m, k: k == 0 and i in chosen, spellings)
    run.cov["samples"] = [beh[len(beh) // 7], beh[len(beh) // 2 + 1], beh[-1]]
    replay_and_validate(run, vh, beh, "c04", "C04 mailbox naming is canonical")
    run.cov["rule"] = ("TLC enumerates every abstract address = {source route, none} x local part of 1..%d tokens over {lower, UPPER, digit, '+', '.', unquoted special (incl. / ? # %% & =), "
                       "quoted-pair, quoted string} x domain class {lower, MiXed, IPv4 literal, IPv6 literal, none}, and for each its variants (letter case of local part / domain / both flipped, "
                       "'+ext' appended, cut at the first unquoted '+'); each is spelled with seed-chosen characters and given, in each of the three naming modes, to the real receive path "
                       "(policy.Addressing.NewRecipient) and the real lookup path (StoreManager.MailboxForAddress), as is the name the receive path produced; a sample (all local parts of <= %d tokens, "
                       "%d%% of the longer ones) is also delivered through a real SMTP session and fetched through the real REST / web UI router by address, by name and by every variant. "
                       "TLC evaluates NonEmpty, FixedPoint, CaseInsensitive, PlusInsensitive, ReceiveNameEqualsLookupName (+ the end-to-end forms) of Naming.tla on every recorded table. "
                       "evaluations = (abstract address, spelling, mode) triples replayed (%d spelling(s) per abstract address); non-trivial = the real RCPT path accepted the address, so the relations actually constrain the outputs; "
                       "distinct = distinct (mode, abstract address)" % (maxlen, full_e2e, int(share * 100), spellings))
    run.assumptions += ["addresses the real code refuses at RCPT TO are outside the property (recorded, not judged)",
                        "two (quick) or three (thorough) concrete spellings per abstract address and seed; a defect that depends on a character the token classes do not separate can be missed",
                        "a '+' inside a quoted pair / quoted string is not used to build '+ext' variants (whether it separates an extension is left open)",
                        "read interfaces asked end to end: REST list, REST show, web UI show; the string is percent-encoded as one path segment (url.PathEscape); POP3 takes the mailbox name verbatim and is not asked",
                        "end to end on the memory store, default accept/store policy"]
