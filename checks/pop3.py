"""POP3-level check (C13): TLC generates abstract dialogues + environment steps from GenPop3.tla, this
module spells them as concrete protocol lines (the only place where abstract classes become bytes),
`vh pop3' plays them against the real server and store, and TLC validates the recorded traces against
Pop3.tla with Pop3Trace.tla.
"""
import json
import os
import random
import re

from lib.vlib import Inconclusive

ALL_CMDS = ["user", "usernoarg", "pass", "passnoarg", "apop", "stat", "list", "uidl", "dele", "retr", "top", "rset", "noop",
            "capa", "unknown", "empty", "garbage", "long", "stls", "quit", "drop", "cut", "connect", "deliver", "remove", "purge"]
ALL_ARGS = ["valid", "marked", "zero", "neg", "over", "huge", "nonnum", "missing", "extra"]
NAMES = ["alice", "bob"]

GEN_CFG = """SPECIFICATION GSpec
CONSTANTS
  Mailbox = {"alice", "bob"}
  Cmds = {%(cmds)s}
  ArgKinds = {%(argkinds)s}
  TopLines = {%(toplines)s}
  Users = {%(users)s}
  ApopArgs = {%(apopargs)s}
  Accepts = {%(accepts)s}
  EnvBoxes = {%(envboxes)s}
  MaxId = %(maxid)d
  InitCounts = {%(initcounts)s}
  StartLoggedIn = %(loggedin)s
  Depth = %(depth)d
  Record = %(record)s
%(extra)s
INVARIANTS %(invariants)s
%(properties)s
CHECK_DEADLOCK FALSE
"""

TRACE_CFG = """SPECIFICATION TraceSpec
CONSTANT Mailbox = {%(mbs)s}
INVARIANTS TypeOK NoSnapshotBeforeLogin LoggedInHasUser SnapIdsDistinct ViewsAgree
POSTCONDITION TraceAccepted
CHECK_DEADLOCK FALSE
"""


def q(xs):
    return ", ".join(json.dumps(x) if isinstance(x, str) else ("TRUE" if x is True else "FALSE" if x is False else str(x)) for x in xs)


def gen_cfg(cmds, depth, mode, argkinds=ALL_ARGS, toplines=("ok",), users=("alice",), apopargs=(2,), accepts=(True,),
            envboxes=("alice",), maxid=3, initcounts=(2,), loggedin=False):
    """mode: mc (exhaustive check of the contract model, no history) | bfs (every sequence to depth) |
    tour (every edge of the state graph once, with observing suffix) | sim (for -simulate)"""
    record = mode != "mc"
    d = dict(cmds=q(cmds), argkinds=q(argkinds), toplines=q(toplines), users=q(users), apopargs=q(apopargs), accepts=q(accepts),
             envboxes=q(envboxes), maxid=maxid, initcounts=q(initcounts), loggedin="TRUE" if loggedin else "FALSE", depth=depth,
             record="TRUE" if record else "FALSE", extra="", properties="")
    if mode == "mc":
        d["invariants"] = "TypeOK NoSnapshotBeforeLogin LoggedInHasUser SnapIdsDistinct ViewsAgree"
        d["properties"] = ("PROPERTIES OnlyQuitRemoves QuitRemovesExactlyMarked OtherEndingsRemoveNothing CommandsDoNotTouchStore "
                           "RsetUnmarksAll StepProps EnvInvisible")
    elif mode == "tour":
        d["extra"] = "VIEW TourView"
        d["invariants"] = "EmitTour"
    else:
        d["invariants"] = "Emit"
    return GEN_CFG % d


# ----------------------------------------------------------------------------- concretisation
def mixcase(s, rng):
    return "".join(c.upper() if rng.random() < 0.5 else c.lower() for c in s)


class Concretiser:
    """Spells abstract POP3 commands as lines, and environment steps as store operations."""

    def __init__(self, rng, mixed_verbs=True):
        self.rng = rng
        self.mixed = mixed_verbs
        self.sizes = rng.sample(range(60, 2400), 40)      # real size of the i-th delivered message: distinct

    def verb(self, v):
        return mixcase(v, self.rng) if self.mixed else v

    def num(self, a, for_extra="1"):
        """spelling of a message-number argument (None = no word at all)"""
        k = a["k"]
        rng = self.rng
        if k == "num":
            return str(a["v"])
        if k == "huge":
            return rng.choice(["4294967297", "2147483648", "99999999999999999999", "18446744073709551617"])
        if k == "nonnum":
            return rng.choice(["abc", "1x", "x1", "0x1", "1.0", "1,2", "one", "*", "\xb9"])
        if k == "missing":
            return None
        if k == "extra":
            return for_extra + " " + rng.choice(["2", "x", "1"])
        raise ValueError(a)

    def line(self, abs_, text, multi=False, parse="", ends=False):
        return {"kind": "line", "abs": abs_, "send": text + "\r\n", "multi": multi, "parse": parse, "ends": ends}

    def step(self, a):
        c = a["c"]
        rng = self.rng
        V = self.verb
        if c == "user":
            return self.line(dict(a), V("USER") + (" " + a["name"] if a["has"] else ""))
        if c == "pass":
            return self.line(dict(a), V("PASS") + (" " + rng.choice(["secret", "x", "anything at all"]) if a["has"] else ""))
        if c == "apop":
            words = [a["name"], "c4c9334bac560ecc979e58001b3e22fb", "extra"][:a["nargs"]]
            return self.line(dict(a), " ".join([V("APOP")] + words))
        if c == "stat":
            w = None if a["arg"]["k"] == "missing" else rng.choice(["1", "x", "0"])
            return self.line(dict(a), V("STAT") + ("" if w is None else " " + w), parse="stat")
        if c in ("list", "uidl", "dele", "retr"):
            w = self.num(a["arg"])
            multi = (c in ("list", "uidl") and w is None) or c == "retr"
            return self.line(dict(a), V(c.upper()) + ("" if w is None else " " + w), multi=multi, parse=c if c in ("list", "uidl") else "")
        if c == "top":
            w = self.num(a["arg"], for_extra="1 0")
            lines = {"ok": rng.choice(["0", "1", "3", "1000"]), "neg": "-1", "nonnum": "x", "missing": None}[a["lines"]]
            words = [V("TOP")]
            if w is not None:
                words.append(w)
                if lines is not None and a["arg"]["k"] != "extra":
                    words.append(lines)
            return self.line(dict(a), " ".join(words), multi=True)
        if c == "quit":
            return self.line(dict(a), V("QUIT"), ends=True)
        if c in ("drop", "cut"):
            send = rng.choice(["DELE 1", "QUI", "RETR", "D", "QUIT\r", "STAT "]) if c == "cut" else ""
            return {"kind": c, "abs": dict(a), "send": send}
        if c == "idle":
            return {"kind": "idle", "abs": dict(a)}
        if c == "connect":
            return {"kind": "connect", "abs": dict(a)}
        if c == "deliver":
            return {"kind": "env", "op": "deliver", "abs": {"c": c}, "mb": a["mb"], "ref": a["id"], "size": self.sizes[a["id"] % len(self.sizes)]}
        if c == "remove":
            return {"kind": "env", "op": "remove", "abs": {"c": c}, "mb": a["mb"], "ref": a["id"]}
        if c == "purge":
            return {"kind": "env", "op": "purge", "abs": {"c": c}, "mb": a["mb"]}
        simple = {
            "rset": "RSET", "noop": "NOOP", "capa": "CAPA", "stls": "STLS",
            "unknown": rng.choice(["XYZZY", "AUTH PLAIN", "LAST", "HELP me", "DELETE 1", "STATS"]),
            "empty": rng.choice(["", "", " ", "   ", "\t", " \t "]), "garbage": "\x00\x01\xfe\xff\x80 \x7f\x1b[2J", "long": "NOOP " + "x" * 70000,
        }
        text = simple[c]
        if c in ("rset", "noop", "capa", "stls") and self.mixed:
            text = mixcase(text, rng)
        return self.line(dict(a), text, multi=(c == "capa"))


def behaviours_from(run, abstract, stores, label):
    out = []
    for i, seq in enumerate(abstract):
        for st in stores(i):
            conc = Concretiser(random.Random("%d/%d/%s" % (run.seed, i, label)))
            steps = [conc.step(a) for a in seq]
            out.append({"id": "%s-%d-%s" % (label, i, st), "store": st, "names": NAMES, "steps": steps, "_abs": seq})
    return out


def describe(ev):
    keys = ("a", "c", "arg", "lines", "name", "has", "nargs", "mb", "id")
    return json.dumps({k: ev.get(k) for k in keys if k in ev})


def replay_and_validate(run, vh, behaviours, label):
    if not behaviours:
        return
    payload = [{k: v for k, v in b.items() if k != "_abs"} for b in behaviours]
    tf = run.harness_parallel(vh, "pop3", payload, label)
    res = run.validate("Pop3Trace", TRACE_CFG % dict(mbs=q(NAMES)), tf)
    run.cov["evaluations"] += len(behaviours)
    byid = {b["id"]: b for b in behaviours}
    for r in res["rejections"]:
        b = byid.get(r["trace"], {})
        ev = r["rejected_event"]
        obs = {k: ev.get(k) for k in ("cls", "multi", "term", "stat", "pairs", "badlines", "returned", "panic", "extra", "r", "s", "serr") if k in ev}
        what = ("C13 POP3 session snapshot / commit-on-QUIT: store=%s: step #%d %s observed %s: not allowed by the Pop3 contract "
                "(reply class or STAT/LIST/UIDL numbers differ from the snapshot minus marks, the store changed other than by QUIT "
                "removing exactly the marked messages, a command was not answered, or the session did not end)%s") % (
            b.get("store"), r["rejected_event_index"], describe(ev), json.dumps(obs)[:600],
            (" [invariant %s]" % r["invariant"]) if r.get("invariant") else "")
        run.violation(what, {"behaviour": b, "rejection": r, "replay_kind": "pop3"})
    return res


def replay_file(run, args):
    d = json.load(open(args.replay))
    vh = run.build_harness()
    run.model_check("GenPop3", gen_cfg(ALL_CMDS, 0, "mc", users=("alice", "bob"), apopargs=(0, 1, 2, 3), accepts=(True, False), maxid=2, initcounts=(2,)),
                    label="GenPop3(contract model, small)")
    replay_and_validate(run, vh, [d["behaviour"]], "replay")
    run.cov["distinct_nontrivial"] = 1
    run.cov["samples"] = [d["behaviour"].get("_abs", [])[:14]]
    run.cov["rule"] = "replay of one recorded behaviour"


def nontrivial(seq):
    """logs in and then marks, commits, drops or meets an environment change"""
    login = next((i for i, a in enumerate(seq) if a["c"] in ("pass", "apop")), None)
    if login is None:
        return False
    return any(a["c"] in ("dele", "rset", "quit", "drop", "cut", "deliver", "remove", "purge") for a in seq[login + 1:])


def free_fetch_risk(seq):
    """a RETR/TOP after an environment removal/purge: on the file store the reply to it may be left unterminated
    (the contract leaves that reply free), which costs the driver one reply deadline"""
    gone = False
    for a in seq:
        if a["c"] in ("remove", "purge"):
            gone = True
        elif a["c"] in ("retr", "top") and gone:
            return True
    return False


# --------------------------------------------------------------------------- C13
PT_MC_CFG = """SPECIFICATION GSpec
CONSTANTS
  Conn = {1, 2, 3}
  Configured = %(conf)s
  Depth = 0
  Record = FALSE
INVARIANTS TypeOK NeedsConfig
PROPERTIES IsolationG NoDowngradeG
CHECK_DEADLOCK FALSE
"""
PT_GEN_CFG = """SPECIFICATION GSpec
CONSTANTS
  Conn = {1, 2}
  Configured = %(conf)s
  Depth = %(depth)d
  Record = TRUE
INVARIANT Emit
CHECK_DEADLOCK FALSE
"""
PT_TRACE_CFG = """SPECIFICATION TraceSpec
CONSTANTS
  Conn = {1, 2}
  Configured = %(conf)s
INVARIANTS TypeOK NeedsConfig
POSTCONDITION TraceAccepted
CHECK_DEADLOCK FALSE
"""


def stls_stage(run, vh, quick):
    """STLS over several connections (Pop3Tls.tla): behaviour beyond the statement of C13; departures are notes, not verdicts"""
    total = 0
    for conf in ("TRUE", "FALSE"):
        run.model_check("GenPop3Tls", PT_MC_CFG % dict(conf=conf), label="Pop3Tls(Configured=%s)" % conf)
        seqs = run.generate("GenPop3Tls", PT_GEN_CFG % dict(conf=conf, depth=6 if quick else 8))
        seqs = [s for s in seqs if any(a["k"] == "stls" for a in s) or any(a["k"] == "capa" for a in s)]
        rng = random.Random(run.seed)
        rng.shuffle(seqs)
        seqs = seqs[:1500 if quick else 12000] if conf == "TRUE" else seqs[:200 if quick else 1500]
        beh = [{"id": "stls-%s-%d" % (conf[0], i), "configured": conf == "TRUE", "steps": s} for i, s in enumerate(seqs)]
        tf = run.harness_parallel(vh, "pop3tls", beh, "stls" + conf[0], procs=8)
        res = run.validate("Pop3TlsTrace", PT_TRACE_CFG % dict(conf=conf), tf, max_rej=5)
        total += len(beh)
        byid = {b["id"]: b for b in beh}
        for r in res["rejections"]:
            ev = r["rejected_event"]
            run.note("POP3 STLS over several connections (Pop3Tls.tla): after %s the server answered %s on connection %s: not what the contract allows "
                     "(STLS is offered / accepted exactly while THIS connection is in the clear, in AUTHORIZATION, with TLS configured)" % (
                         json.dumps([(a["k"], a["c"]) for a in byid.get(r["trace"], {}).get("steps", [])[:r["rejected_event_index"] - 1]]),
                         json.dumps({k: ev.get(k) for k in ("a", "cls", "offered", "upgraded") if k in ev}), ev.get("c")),
                     {"behaviour": byid.get(r["trace"]), "rejection": r})
    run.cov["stls_behaviours"] = total
    # unbounded in the length of behaviours: TypeOK /\ NeedsConfig is an inductive invariant of the typed copy (Apalache, SMT)
    import shutil, subprocess, tempfile
    if shutil.which("apalache-mc"):
        d = tempfile.mkdtemp(prefix="apa-", dir=run.work)
        shutil.copy(os.path.join(os.path.dirname(os.path.dirname(os.path.abspath(__file__))), "spec", "Pop3TlsTyped.tla"), d)
        res = []
        for init, length in (("Init", "0"), ("IndInit", "1")):
            try:
                p = subprocess.run(["apalache-mc", "check", "--cinit=CInit", "--init=" + init, "--inv=IndInv", "--length=" + length, "Pop3TlsTyped.tla"],
                                   cwd=d, capture_output=True, text=True, timeout=300)
                res.append("NoError" if "The outcome is: NoError" in p.stdout else "other")
            except subprocess.TimeoutExpired:
                res.append("timeout")
        run.cov["stages"].append({"stage": "inductive-invariant", "module": "Pop3TlsTyped (Apalache)", "init_implies_inv": res[0], "inv_is_inductive": res[1]})
        run.log("Apalache: Init => IndInv: %s; IndInv /\\ Next => IndInv': %s" % tuple(res))
    # for ANY set of connections: the TLA+ proof system proves TSpec => [](TypeOK /\ NeedsConfig) (spec/proofs/Pop3TlsProofs.tla)
    if shutil.which("tlapm"):
        d = tempfile.mkdtemp(prefix="tlaps-", dir=run.work)
        shutil.copy(os.path.join(os.path.dirname(os.path.dirname(os.path.abspath(__file__))), "spec", "proofs", "Pop3TlsProofs.tla"), d)
        try:
            p = subprocess.run(["tlapm", "--threads", "8", "Pop3TlsProofs.tla"], cwd=d, capture_output=True, text=True, timeout=600)
            m = re.search(r"All (\d+) obligations? proved", p.stdout + p.stderr)
            outcome = ("all %s obligations proved" % m.group(1)) if m else "not all obligations proved"
        except subprocess.TimeoutExpired:
            outcome = "timeout"
        run.cov["stages"].append({"stage": "proof", "module": "Pop3TlsProofs (TLAPS)", "outcome": outcome})
        run.log("TLAPS: Pop3TlsProofs: %s" % outcome)


def c13(run, args):
    if args.replay:
        return replay_file(run, args)
    quick = run.tier == "quick"
    vh = run.build_harness()
    # (0) the contract model: invariants and action properties of C13, every argument class, both users, environment
    run.model_check("GenPop3", gen_cfg(ALL_CMDS, 0, "mc", toplines=("ok", "neg", "nonnum", "missing"), users=("alice", "bob"),
                                       apopargs=(0, 1, 2, 3), accepts=(True, False), envboxes=("alice", "bob"), maxid=3, initcounts=(0, 2)),
                    label="GenPop3(contract model)")
    # (1) transition tour: every (contract state, command) edge once, followed by STAT, LIST, UIDL, QUIT
    tour_cmds = ["user", "usernoarg", "pass", "passnoarg", "apop", "stat", "list", "uidl", "dele", "retr", "top", "rset", "noop",
                 "capa", "unknown", "empty", "quit", "drop", "cut", "deliver", "remove", "purge"]
    tour = run.generate("GenPop3", gen_cfg(tour_cmds, 60, "tour", toplines=("ok", "neg"), users=("alice", "bob"),
                                           apopargs=(1, 2) if quick else (0, 1, 2, 3), envboxes=("alice",) if quick else ("alice", "bob"),
                                           maxid=2 if quick else 3, initcounts=(2,) if quick else (2, 3)), workers=4)
    # (2) every sequence of marking / unmarking / environment / ending steps inside a session, to a bounded depth
    core = ["dele", "rset", "quit", "drop", "deliver", "remove", "purge", "stat"]
    bfs = run.generate("GenPop3", gen_cfg(core, 4 if quick else 5, "bfs", argkinds=("valid", "marked", "over"),
                                          maxid=3 if quick else 4, initcounts=(2,) if quick else (3,), loggedin=True), workers=8)
    # (3) long simulated dialogues over the whole alphabet with reconnects
    sim = run.generate("GenPop3", gen_cfg(ALL_CMDS, 40 if quick else 70, "sim", toplines=("ok", "neg", "nonnum", "missing"),
                                          users=("alice", "bob"), apopargs=(0, 1, 2, 3), envboxes=("alice", "bob"), maxid=8 if quick else 14,
                                          initcounts=(0, 3)),
                       simulate={"num": 300 if quick else 1500, "depth": 41 if quick else 71})
    # TLC prints every successor of the last-but-one state of a random walk: keep one ending per walk
    walks = {}
    for x in sim:
        walks.setdefault(json.dumps(x[:len(x) * 2 // 3], sort_keys=True), []).append(x)
    rng = random.Random(run.seed)
    sim = [rng.choice(v) for _, v in sorted(walks.items())]
    sim = [x for x in sim if nontrivial(x)][:250 if quick else 1500]
    run.cov["distinct_nontrivial"] += len({json.dumps(s, sort_keys=True) for s in tour + bfs + sim if nontrivial(s)})
    run.cov["exhaustive"] = True

    both = lambda i: ["mem", "file"]
    rot = lambda i: ["mem", "file"][(i + run.seed) % 2:][:1]
    # an unterminated free reply costs a 5 s deadline: on the file store such dialogues are limited in number
    budget = [24 if quick else 160]

    def stores_for(seqs, policy):
        def f(i):
            sts = policy(i)
            if "file" in sts and free_fetch_risk(seqs[i]):
                if budget[0] <= 0:
                    return [s for s in sts if s != "file"] or ["mem"]
                budget[0] -= 1
            return sts
        return f

    # (4) sessions that the server itself ends by its idle timeout (300 ms here) with deletions pending
    idle = run.generate("GenPop3", gen_cfg(["dele", "rset", "idle", "stat"], 3 if quick else 4, "bfs", argkinds=("valid", "marked"),
                                           maxid=3, initcounts=(2,) if quick else (3,), loggedin=True), workers=4)
    idle = [x for x in idle if any(a["c"] == "idle" for a in x) and any(a["c"] == "dele" for a in x)]
    idle = idle[:40 if quick else 400]
    ib = behaviours_from(run, idle, rot, "idle")
    for b in ib:
        b["srv_timeout_ms"] = 300
    # (5) RETR / TOP of a message that another interface has removed since login, on the file store (its content is gone): the
    #     reply itself is left open by the contract, but the session and the server must survive it; short reply deadline
    van = run.generate("GenPop3", gen_cfg(["remove", "purge", "retr", "top", "stat", "list"], 3 if quick else 4, "bfs", argkinds=("valid",), toplines=("ok",),
                                          maxid=2, initcounts=(2,), loggedin=True), workers=4)
    van = [x for x in van if free_fetch_risk(x)]
    random.Random(run.seed).shuffle(van)
    vb = behaviours_from(run, van[:60 if quick else 400], lambda i: ["file"], "vanished")
    for b in vb:
        b["timeout_ms"] = 700
    beh = ib + vb + behaviours_from(run, tour, stores_for(tour, both), "tour")
    beh += behaviours_from(run, bfs, stores_for(bfs, rot), "bfs")
    beh += behaviours_from(run, sim, stores_for(sim, rot if quick else both), "sim")
    run.cov["samples"] = [tour[len(tour) // 2], bfs[len(bfs) // 2], sim[0][:16]] if tour and bfs and sim else []
    replay_and_validate(run, vh, beh, "c13")
    # the implementation-shaped model of the session (Pop3Impl.tla: retain flags and the redundant counter msgCount): the contract's
    # invariants and step properties hold of the code's steps; the two named deviations must make TLC find the predicted failures
    impl_cfg = lambda a, b: ("SPECIFICATION ISpec\nCONSTANTS\n  Mailbox = {\"a\", \"b\"}\n  MaxMsgs = 2\n  RsetKeepsCount = %s\n  RangeByCount = %s\n"
                             "INVARIANTS TypeOK NoSnapshotBeforeLogin LoggedInHasUser SnapIdsDistinct ViewsAgree CountInv\n"
                             "PROPERTIES ShownIsListed ShownIsDeletable StepProps OnlyQuitRemoves\nCHECK_DEADLOCK FALSE\n" % (a, b))
    run.model_check("Pop3Impl", impl_cfg("FALSE", "FALSE"), label="Pop3Impl (session loop as written)", workers=4)
    for name, flags in (("RsetKeepsCount", ("TRUE", "FALSE")), ("RangeByCount", ("FALSE", "TRUE"))):
        rc, out, dt = run.tlc("Pop3Impl", impl_cfg(*flags), workers=4, timeout=600, heap="4g")
        predicted = [x for x in ("CountInv", "ShownIsListed", "ShownIsDeletable") if ("%s is violated" % x) in out]
        run.cov["stages"].append({"stage": "model-check", "module": "Pop3Impl(%s=TRUE)" % name, "mode": "prediction", "violated_as_predicted": predicted, "wall_s": round(dt, 1)})
        run.log("Pop3Impl with %s: predicted counterexample found for %s" % (name, predicted))
        if not predicted:
            raise Inconclusive("the deviation %s of Pop3Impl no longer produces its predicted failure: model and check have drifted apart" % name)
    stls_stage(run, vh, quick)
    run.cov["rule"] = ("TLC walks every edge (state, command with argument class) of the Pop3 contract's bounded state graph once (transition tour; each edge is "
                       "followed by STAT, LIST, UIDL and QUIT so that the snapshot, the marks and the commit become visible), enumerates every sequence over "
                       "{DELE valid/marked/n+1, RSET, STAT, QUIT, disconnect, environment deliver/remove/purge} inside a session to the stated depth, and simulates "
                       "long dialogues over the whole alphabet (USER/PASS/APOP variants, all argument classes, CAPA/unknown/empty/garbage/70 kB lines, reconnects); "
                       "each is spelled as protocol lines (mixed-case verbs) and played against the real pop3.Server over a pipe with a real memory and file store; "
                       "after every line TLC checks against Pop3.tla: the reply class where the property fixes it, STAT count/size and the LIST/UIDL (number, value) "
                       "pairs == snapshot at login minus marks (UIDL values == store ids), every multi-line reply terminated, no timeout/panic, and the whole store "
                       "(ids and sizes per mailbox) == contract store: unchanged by every command and by a disconnect, minus exactly the marked messages after QUIT. "
                       "non-trivial = logs in and then marks, commits, disconnects or meets an environment change; distinct = distinct abstract dialogue")
    run.assumptions += ["mailbox names are ordinary lower-case words (naming is C04)", "message content returned by RETR/TOP is not compared (C02)",
                        "RETR/TOP of a marked or externally removed message: reply unconstrained (even its termination)",
                        "reply class left open for: transaction commands before login, login commands after login, DELE of a marked/nonexistent message, "
                        "CAPA/unknown/empty/garbage lines, STAT with an argument, LIST/UIDL with two arguments, PASS without a word, APOP with 1 or 3 words",
                        "TLS (STLS) not exercised", "tour dialogues run on both stores; BFS dialogues on one store each (rotating with index and seed); simulated dialogues: quick one store each, thorough both"]
