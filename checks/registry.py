"""Registry of claimed checks: drives bin/check dispatch and MANIFEST.json generation (tools/mkmanifest.py)."""

REG = {}


def reg(pid, fn, level, text, note, technique, design_ref, engine):
    REG[pid] = dict(fn=fn, level=level, text=text, note=note, technique=technique, design_ref=design_ref, engine=engine)


def load():
    from checks import stores, smtp
    reg("C07", stores.c07, "model_checking",
        "TLC checks the Mailstore contract (spec/Mailstore.tla, MCMailstore.tla) exhaustively for small constants; TLC then enumerates "
        "every mutator sequence to a bounded depth plus simulated long histories, each is executed on the real memory and file stores, and "
        "every recorded event (result and whole-store snapshot, all by-id reads probed after every step) is validated by TLC against the "
        "contract with MailstoreTrace.tla.  Right level: the property is a refinement statement (store == ordered-mailbox map) over all histories.",
        "trusts TLC, the Go harness projection (harness/internal/tr), sha256-prefix content comparison; bounded depth and 3 mailboxes",
        "TLA+ contract + TLC-generated behaviours replayed on real stores + TLC trace validation",
        "DESIGN.md 5/C07", "mailstore")
    reg("C08", stores.c08, "model_checking",
        "TLC checks CapInv, SizeInv, RecentSuffix, EvictOldestFirst, EvictOnlyNecessary, FitsIsRetrievable on the contract for every cap x limit "
        "combination; TLC-enumerated and simulated delivery/removal/purge histories are executed on the real stores under every cap x maxkb "
        "configuration and each step's whole-store state is validated against the contract by TLC.",
        "as C07; sizes 300..900 bytes against limits of 1-2 KiB; drift explored by histories of 120 (quick) / 400 (thorough) operations",
        "TLA+ contract invariants + TLC-generated histories replayed on real stores + TLC trace validation",
        "DESIGN.md 5/C08", "mailstore")
    reg("C10", stores.c10, "model_checking",
        "Reopen is a stuttering step of the contract; TLC enumerates histories with a reopen at every position and the real file store's "
        "state after the reopen and after every later operation is validated against the contract by TLC.",
        "as C07; reopen is in-process (new Store object on the same path)",
        "TLA+ contract + TLC-generated histories with reopen points replayed on the real file store + TLC trace validation",
        "DESIGN.md 5/C10", "mailstore")
    reg("C01", smtp.c01, "model_checking",
        "TLC checks the Smtp contract model (spec/Smtp.tla, GenSmtp.tla: DeliveryExact, NoStoreWithoutAck, FailStoresNothing, AppendOnly) exhaustively, "
        "enumerates all command sequences to a bounded depth and simulates long multi-transaction dialogues; every dialogue is played against the real "
        "SMTP server + StoreManager + store, and TLC validates the reply class and the whole store after every line against the contract.",
        "trusts TLC, the line driver and projection (harness/cmd/vh/smtp.go), the spelling of abstract commands (checks/smtp.py); ordinary addresses only",
        "TLA+ contract + TLC-generated dialogues replayed on the real server + TLC trace validation",
        "DESIGN.md 5/C01", "smtp")
    return REG
