"""Registry of claimed checks: drives bin/check dispatch and MANIFEST.json generation (tools/mkmanifest.py)."""

REG = {}


def reg(pid, fn, level, text, note, technique, design_ref, engine):
    REG[pid] = dict(fn=fn, level=level, text=text, note=note, technique=technique, design_ref=design_ref, engine=engine)


def load():
    _load()
    apply_extra()
    return REG


def _load():
    from checks import stores, smtp
    reg("C07", stores.c07, "model_checking",
        "TLC checks the Mailstore contract (spec/Mailstore.tla, MCMailstore.tla) exhaustively for small constants; TLC then enumerates "
        "every mutator sequence to a bounded depth plus simulated long histories, each is executed on the real memory and file stores, and "
        "every recorded event (result and whole-store snapshot, all by-id reads probed after every step) is validated by TLC against the "
        "contract with MailstoreTrace.tla.  Right level: the property is a refinement statement (store == ordered-mailbox map) over all histories.",
        "trusts TLC, the Go harness projection (harness/internal/tr), sha256-prefix content comparison; bounded depth and 3 mailboxes",
        "TLA+ contract + TLC-generated behaviours replayed on real stores + TLC trace validation",
        "DESIGN.md 5/C07", "mailstore")
    reg("C08", stores.c08, "model_checking",
        "TLC checks CapInv, SizeInv, RecentSuffix, EvictOldestFirst, EvictOnlyNecessary, FitsIsRetrievable on the contract for every cap x limit "
        "combination; TLC-enumerated and simulated delivery/removal/purge histories are executed on the real stores under every cap x maxkb "
        "configuration and each step's whole-store state is validated against the contract by TLC.",
        "as C07; sizes 300..900 bytes against limits of 1-2 KiB; drift explored by histories of 120 (quick) / 400 (thorough) operations",
        "TLA+ contract invariants + TLC-generated histories replayed on real stores + TLC trace validation",
        "DESIGN.md 5/C08", "mailstore")
    reg("C10", stores.c10, "model_checking",
        "Reopen is a stuttering step of the contract; TLC enumerates histories with a reopen at every position and the real file store's "
        "state after the reopen and after every later operation is validated against the contract by TLC.",
        "as C07; reopen is in-process (new Store object on the same path)",
        "TLA+ contract + TLC-generated histories with reopen points replayed on the real file store + TLC trace validation",
        "DESIGN.md 5/C10", "mailstore")
    reg("C01", smtp.c01, "model_checking",
        "TLC checks the Smtp contract model (spec/Smtp.tla, GenSmtp.tla: DeliveryExact, NoStoreWithoutAck, FailStoresNothing, AppendOnly) exhaustively, "
        "enumerates all command sequences to a bounded depth and simulates long multi-transaction dialogues; every dialogue is played against the real "
        "SMTP server + StoreManager + store, and TLC validates the reply class and the whole store after every line against the contract.",
        "trusts TLC, the line driver and projection (harness/cmd/vh/smtp.go), the spelling of abstract commands (checks/smtp.py); ordinary addresses only",
        "TLA+ contract + TLC-generated dialogues replayed on the real server + TLC trace validation",
        "DESIGN.md 5/C01", "smtp")
    reg("C03", smtp.c03, "model_checking",
        "TLC checks the Smtp contract model (sequencing invariants and action properties), then walks every edge of its state graph over the full command alphabet "
        "and simulates long dialogues; all are played against the real server (child processes, crash attributed to the dialogue) and every reply + the whole store after "
        "every line is validated by TLC against the contract; TLC-generated valid dialogues are additionally cut at byte offsets and the store after the cut is validated "
        "(acknowledged messages present, at most the completely transmitted one in addition, nothing partial).",
        "trusts TLC, the line driver, the spelling of abstract commands; reply classes not wording; cut offsets: quick sampled, thorough every byte",
        "TLA+ contract + TLC transition tour/simulation replayed on the real server + TLC trace validation + fault enumeration of disconnects",
        "DESIGN.md 5/C03", "smtp")
    reg("C06", smtp.c06, "model_checking",
        "The Smtp contract's size decisions (MAIL SIZE parameter vs limit, DATA block size vs limit) are walked edge by edge by TLC and replayed with concrete sizes on "
        "either side of several limits; replies and the whole store are validated by TLC against the contract, including a follow-up transaction on the same connection.",
        "sizes within +-300 bytes of the limit excluded; limits 1000/5000/100000 (+10240000 thorough)",
        "TLA+ contract + TLC transition tour replayed on the real server + TLC trace validation",
        "DESIGN.md 5/C06", "smtp")
    from checks import naming
    reg("C04", naming.c04, "exploration",
        "TLC checks that the abstract naming function of spec/Naming.tla satisfies NonEmpty, FixedPoint, CaseInsensitive, PlusInsensitive and ReceiveNameEqualsLookupName for every "
        "abstract address (route x local part of <= 4 token classes x domain class) in the three naming modes, and enumerates every abstract address with its variants; each is spelled "
        "with seed-chosen characters and given to the real receive path (NewRecipient), the real lookup path (MailboxForAddress) and, for a sample, delivered through a real SMTP session "
        "and fetched through the real REST / web UI router; TLC evaluates the same relations on the recorded observation tables (NamingTrace.tla).  Exploration: the specification drives "
        "the enumeration and judges relations between recorded outputs; it does not model the characters.",
        "trusts TLC, the driver (harness/cmd/vh/naming.go), the spelling of token classes (checks/naming.py); one spelling per abstract address and seed; addresses refused at RCPT are outside the property",
        "TLA+ relations over an observation table + TLC-enumerated abstract addresses and variants replayed on the real naming code + TLC evaluation of the relations on recorded outputs",
        "DESIGN.md 5/C04", "naming")
    from checks import pop3
    reg("C13", pop3.c13, "model_checking",
        "TLC checks the Pop3 contract model (spec/Pop3.tla, GenPop3.tla: snapshot fixed at login, STAT/LIST/UIDL computed from snapshot minus marks, RSET unmarks all, "
        "QUIT removes exactly the marked messages, any other ending and every other command removes nothing, environment changes invisible inside a session) exhaustively; "
        "TLC then generates a transition tour over every (state, command x argument class) edge, all mark/unmark/environment/ending sequences to a bounded depth and long simulated "
        "dialogues; each is played against the real pop3.Server with real memory and file stores, and TLC validates every reply and the whole store after every step against the contract.",
        "trusts TLC, the line driver and reply parser (harness/cmd/vh/pop3.go), the spelling of abstract commands (checks/pop3.py); ordinary mailbox names; message content not compared (C02)",
        "TLA+ contract + TLC-generated dialogues with environment steps and disconnects replayed on the real server + TLC trace validation",
        "DESIGN.md 5/C13", "pop3")
    from checks import rest
    reg("C14", rest.c14, "model_checking",
        "TLC checks the Rest contract model (spec/Rest.tla, GenRest.tla: ReadsChangeNothing, Missing404, RefusalNoEffect, OthersUntouched, ClientEffectMatchesName, NeverDropped on top of "
        "the Mailstore contract) exhaustively, generates a transition tour over every (store state, request) edge and long simulated histories; each is replayed per mailbox-name class, "
        "back-end and base path against the real router + StoreManager + store over loopback HTTP, raw and through pkg/rest/client, and TLC validates status class, decoded response "
        "fields, every client exchange and the whole store after every step against the contract (RestTrace.tla).",
        "trusts TLC, the HTTP driver and projections (harness/cmd/vh/rest.go), the spelling of names/bodies/sources (checks/rest.py); 2 mailboxes, <= 3 deliveries in the tour; web UI text/html rendering not compared (C18)",
        "TLA+ contract + TLC transition tour and simulated histories replayed on the real router and Go client + TLC trace validation",
        "DESIGN.md 5/C14", "rest")
    from checks import sanitize
    reg("C18", sanitize.c18, "exploration",
        "TLC checks the abstract style filter x browser-like declaration reader product (spec/Sanitize.tla, GenSanitize.tla: CssSound for token-class sequences of every length) and "
        "enumerates completely the bounded languages of CSS token-class sequences, abstract HTML documents (node classes x nesting) and text-class sequences; each case is spelled in "
        "several seed-chosen byte spellings, run through the real sanitize.HTML / web.TextToHTML / web UI message endpoint, the real output is re-parsed (tree-building HTML parser, "
        "independent CSS declaration-list parser) into a projection record, and TLC evaluates NoActiveElements, NoHandlerAttrs, NoScriptUrls, StylePropsAllowed, TextFullyEscaped and "
        "NeverFails on every observation (SanitizeTrace.tla).  Exploration: TLA+ cannot model tokenizers, the specification drives generation and judges recorded outputs.",
        "trusts TLC, the projection (x/net/html tree builder, declaration splitter in harness/cmd/vh/sanitize.go), the spelling pools of checks/sanitize.py; byte patterns the class alphabets do not distinguish are out of reach",
        "TLC-enumerated abstract alphabets concretised in several spellings + invariants evaluated by TLC on projections of the real outputs",
        "DESIGN.md 5/C18", "sanitize")
    reg("C05", smtp.c05, "model_checking",
        "Policy.tla / Wildcard.tla state the documented rule; TLC computes every decision from the recorded configuration and address and validates the real server's "
        "replies and stored mailboxes for a bounded lattice of configurations loaded from the environment; the wildcard matcher is compared with the TLA+ semantics over a "
        "complete bounded table of (pattern, string) pairs.",
        "three recipient domains, five sender domains, eight pattern sets; configurations cover all per-domain membership combinations but not their full cross product",
        "TLA+ policy contract + TLC-enumerated dialogues replayed under enumerated configurations + TLC trace validation",
        "DESIGN.md 5/C05", "smtp")
    reg("C17", smtp.c17, "model_checking",
        "The Smtp contract takes the hook's answer as an input of MAIL/RCPT/end-of-DATA (deny with code and text, allow against policy, defer/none/garbage/error = policy, replaced "
        "inbound message, first answer wins); TLC checks the contract model with all answer classes, walks every edge with every answer and enumerates deliveries with every "
        "before.message_stored variant; all are played on the real server with the real Lua host and validated by TLC; concurrent sessions run under the race detector.",
        "one universal script keyed on addresses/subjects; Go listeners stand in for 'other hooks'",
        "TLA+ contract with hook answers + TLC tour/enumeration replayed on real server + Lua host + TLC trace validation + race detector",
        "DESIGN.md 5/C17", "smtp")
    reg("C16", stores.c16, "model_checking",
        "MailstoreTrace derives from the contract's state changes the after-events each history must produce; TLC validates the events recorded by a real listener on both brokers "
        "(multiset equality = exactly once, no overlapping invocations, stored before deleted, per-mailbox arrival order) for TLC-enumerated and simulated histories on both stores.",
        "as C07/C08; invocation overlap is provoked by slow listener invocations (2 ms), observed with a single counter under one mutex (no wall-clock comparison)",
        "TLA+ contract-derived expected events + TLC-generated histories on real stores/brokers + TLC trace validation",
        "DESIGN.md 5/C16", "mailstore")
    reg("C11", stores.c11, "fault_enumeration",
        "Every file-system mutation point of every mutating file-store operation (after TLC-enumerated pre-histories) is a crash point; the on-disk state at that instant, plus the "
        "shorter states of the file under write and partial recursive removals, is opened by a fresh store and TLC validates the recovery observations against the Mailstore contract "
        "(readable, untouched mail intact, operation all-or-nothing, new mail accepted).",
        "hooks at the mutation points (build tag verif); the enumeration of states between two hooks assumes a 4096-byte buffered writer and entry-by-entry recursive removal",
        "fault enumeration of crash points + TLC trace validation against the TLA+ Mailstore contract",
        "DESIGN.md 5/C11", "mailstore")
    reg("C09", stores.c09, "model_checking",
        "Linearizability against the TLA+ Mailstore contract is decided by TLC (LinTrace.tla: pending calls take effect at some point between invocation and response; TLC "
        "searches all choices) on histories recorded from the real stores under concurrent use with the race detector on; crashes, race reports and hangs are attributed to the history.",
        "schedules are sampled by the Go scheduler over repeated runs; real-time order from one atomic counter",
        "TLC linearizability search over recorded concurrent histories against the TLA+ contract + race detector",
        "DESIGN.md 5/C09", "mailstore")
    from checks import dotcodec
    reg("C02", dotcodec.c02, "exploration",
        "TLC checks the dot-stuffing / un-stuffing / Canon / POP3 multi-line round-trip theorems of spec/DotCodec.tla for every string over the byte classes {DOT, CR, LF, NUL, HI, CH} "
        "to a bounded length (GenDotCodec.tla) and enumerates every such string as a message body; each is spelled as bytes (seed-chosen representatives), sent behind a valid header block "
        "and raw through a real SMTP session, together with special bodies (empty, no final newline, dot lines, lines around 64 KiB, MiB-sized bodies), and read back through "
        "Store.Source(), REST /source, web UI /source and POP3 RETR on both back-ends; TLC evaluates AllInterfacesAgree, SourceIsHeadersPlusBody and SizeIsLength on every recorded "
        "observation (DotCodecTrace.tla).  Exploration: TLA+ does not model bytes; the specification drives the enumeration, supplies the codecs at class level and judges recorded outputs.",
        "trusts TLC, the driver and projections (harness/cmd/vh/dotcodec.go), the spelling of classes (checks/dotcodec.py), 64-bit sha256 prefixes of canonical forms computed independently in Go and Python; "
        "byte values the class alphabet does not distinguish are covered only through seed-chosen representatives",
        "TLC-enumerated byte-class strings concretised as message bodies + relations evaluated by TLC on projections of what the four read interfaces return",
        "DESIGN.md 5/C02", "dotcodec")
    from checks import lifecycle
    reg("C19", lifecycle.c19, "model_checking",
        "TLC checks the Lifecycle contract (spec/Lifecycle.tla, GenLifecycle.tla: NoNewSessionAfterShutdown, OpenSessionsCanFinish, AckMeansStored, QuitAppliesDeletions, "
        "DrainedMeansQuiet / DrainReturnsOnlyWhenQuiet, and with fairness DrainEventuallyReturns, ServicesEventuallyStop) and the implementation-shaped LifecycleImpl.tla (accept loop, "
        "spawn, wg.Add placement, listener close, Drain = wg.Wait) against the contract's properties through a refinement mapping; TLC then enumerates shutdown schedules (1-3 sessions "
        "parked in every protocol state or held at the spawn gate x orderings of cancel, Drain, client continues / finishes / disconnects, gate release, new connection attempt), each is "
        "played on a real smtp.Server / pop3.Server on loopback with real TCP clients, retention scanner and message hub on the same context, and TLC validates the recorded events "
        "(one sequence counter under one mutex; Drain's return is an event of its own) against the contract with LifecycleTrace.tla.",
        "trusts TLC, the driver (harness/cmd/vh/lifecycle.go), the spelling of stages (checks/lifecycle.py); Drain called after Start returned; 2-3 session schedules sampled by seed; hub wired to the store only in a dedicated group",
        "TLA+ contract + implementation-shaped model (predicted counterexample) + TLC-generated schedules replayed through the spawn gate on real listeners + TLC trace validation",
        "DESIGN.md 5/C19", "lifecycle")
    from checks import retention
    reg("C12", retention.c12, "model_checking",
        "TLC checks the Retention contract model (spec/Retention.tla, GenRetention.tla: RemovesExactlyExpired, ZeroNeverDeletes, StopsPromptly and step properties; the scan as per-mailbox "
        "steps in every order interleaved with environment deliveries/removals/purges, Cancel and the run loop) exhaustively, then enumerates every age distribution {older, younger} over "
        "the mailboxes with the undisturbed scan, one environment operation at every position of the scan (store wrapper between two mailboxes; file store: gates between the directory "
        "levels of the walk) and cancellation before the scan / after any mailbox / during the visitor's sleep, plus Start/Join with period 0 and with cancellation during the start delay "
        "(thorough: during and after the loop's own scan); each runs on the real RetentionScanner over the real memory and file stores and TLC validates every whole-store observation, "
        "and the promptness booleans, against the contract (RetentionTrace.tla).",
        "trusts TLC, the driver and projection (harness/cmd/vh/retention.go: tr.Snapshot, dates mapped to whole hours of age, stopwatch booleans), the concretiser (checks/retention.py); "
        "ages whole hours away from the cutoff; environment operations interleaved deterministically inside the scanning goroutine (parallel access is C09)",
        "TLA+ contract + TLC-enumerated age distributions x schedules replayed on the real scanner and stores + TLC trace validation",
        "DESIGN.md 5/C12", "retention")
    from checks import hub
    reg("C15", hub.c15, "model_checking",
        "TLC checks the HubContract model (spec/HubContract.tla, GenHub.tla: history == the most recent N stored messages not deleted since, HistoryThenLive, ExactlyOnceInOrder, "
        "GoneGetsNoMore, OthersUnaffected, NobodyMisses, DroppedStaysDropped, HubNeverBlocks) exhaustively, enumerates all operation sequences to a bounded depth (history, live, "
        "and schedules in which a slow listener holds the hub goroutine while operations are queued) and simulates long behaviours; each is executed on the real msghub.Hub with the real WebSocket listeners "
        "(constructor hook) and a recording mock, hub.Sync() probed after every operation, and TLC validates every listener's observed sequence and the probe against the contract "
        "(HubTrace.tla).",
        "trusts TLC, the driver (harness/cmd/vh/hub.go: Take stands in for the socket writer, two Close() calls for a disconnect), 5 s progress deadline; no real sockets; N=0 not exercised",
        "TLA+ contract + TLC bounded-exhaustive sequence/schedule enumeration and simulation replayed on the real hub and listeners + TLC trace validation",
        "DESIGN.md 5/C15", "hub")
    return REG


# stages added after the first version of each check (appended to the level text of the manifest)
EXTRA = {
    "C01": "Also: a body over the size limit in the tour (refused, leaves no envelope), store-fault injection for a share of the dialogues.",
    "C03": "Also: SmtpImpl.tla, the implementation-shaped session loop, is checked to refine the contract command by command (two deviations found as predicted); "
           "a STARTTLS family (real TLS negotiation) is judged against the grown contract as a note, not a verdict.",
    "C05": "Also: address-literal domains in lists and addresses; eight concurrent sessions per configuration group under the race detector.",
    "C07": "Also: deliveries during which the disk refuses further bytes (RLIMIT_FSIZE) and listings under descriptor exhaustion (RLIMIT_NOFILE) on the file store; every store call runs under a watchdog (a call that never returns is the event 'hung', which the contract does not allow).",
    "C09": "Also: after-events of every history (exactly one 'deleted' per message that left), walk completeness (a walk is shown every mailbox that holds mail throughout), "
           "two mailboxes of one hash directory emptied and refilled concurrently, a damaged index next to a healthy bucket mate; MemStoreImpl refines ConcMailstore.",
    "C12": "Also: rejected schedules are run again in isolation before they are reported; the promptness bound does not grow with the configured pause.",
    "C13": "Also: idle-timeout family; whitespace-only command lines; STLS over several connections (Pop3Tls.tla) as a note stage beyond the statement.",
    "C14": "Also: fetch-while-delivering (RestRaceTrace.tla): what /latest shows is one message the store held, the latest at some moment of the request; a panic inside the client library is an answer the contract does not know; requests to the attachment route for numbers no message has (negative, unparsable) must be answered.",
    "C15": "Also: HubImpl.tla (hub actor + listener close protocol, deviations as predictions), bursts through the extension host incl. a disconnect with buffer and operation queue both full, "
           "and an end-to-end stage: server.FullAssembly over real SMTP/POP3/HTTP/WebSocket (v1 and v2 monitors, mailbox cap, refused handshakes) validated against the composed contract Inbucket.tla.",
    "C16": "Also: DispatcherImpl.tla (lanes and drain goroutines, four deviations as predictions), multi-recipient transactions incl. refused ones, a Lua script as the listener, "
           "removals racing each other, index-write faults at the cap, other listeners registered / replaced / removed while removals race (the recorded listener still sees each event once, one at a time).",
    "C17": "Also: failing handlers scribble on their argument first; percent signs in deny texts; crash of a concurrent group attributed to the group.",
    "C19": "Also: a third of the SMTP schedules run against an SMTPS listener with clients that reset the connection; long-pause scanner variant; rejected schedules re-run in isolation; idle-timeout family (silent clients that stay connected: the server ends the sessions itself and Drain returns).",
}


def apply_extra():
    for pid, extra in EXTRA.items():
        if pid in REG and extra not in REG[pid]["text"]:
            REG[pid]["text"] += "  " + extra
