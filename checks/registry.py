"""Registry of claimed checks: drives bin/check dispatch and MANIFEST.json generation (tools/mkmanifest.py)."""

REG = {}


def reg(pid, fn, level, text, note, technique, design_ref, engine):
    REG[pid] = dict(fn=fn, level=level, text=text, note=note, technique=technique, design_ref=design_ref, engine=engine)


def load():
    from checks import stores
    reg("C07", stores.c07, "model_checking",
        "TLC checks the Mailstore contract (spec/Mailstore.tla, MCMailstore.tla) exhaustively for small constants; TLC then enumerates "
        "every mutator sequence to a bounded depth plus simulated long histories, each is executed on the real memory and file stores, and "
        "every recorded event (result and whole-store snapshot, all by-id reads probed after every step) is validated by TLC against the "
        "contract with MailstoreTrace.tla.  Right level: the property is a refinement statement (store == ordered-mailbox map) over all histories.",
        "trusts TLC, the Go harness projection (harness/internal/tr), sha256-prefix content comparison; bounded depth and 3 mailboxes",
        "TLA+ contract + TLC-generated behaviours replayed on real stores + TLC trace validation",
        "DESIGN.md 5/C07", "mailstore")
    return REG
