"""HTTP-level check C14: REST API, web UI back-end and the bundled Go client report and change
exactly the store's state.

TLC checks the Rest contract (spec/Rest.tla, GenRest.tla), generates request sequences (a transition
tour over the contract's bounded state graph + long simulated histories), this module spells them
(mailbox-name classes, escaping, request bodies, message sources, configuration), `vh rest' plays
them against the real router + StoreManager + store over loopback HTTP - raw and through
pkg/rest/client -, and TLC validates every recorded step against the contract with RestTrace.tla.
"""
import concurrent.futures as cf
import hashlib
import json
import random
import re
import time
from urllib.parse import quote

from lib.vlib import Inconclusive

ROUTES = ["list", "get", "source", "uiget", "uihtml", "uisource", "seen", "delete", "purge"]
READS = {"list", "get", "source", "uiget", "uihtml", "uisource"}
CLIENT_ROUTES = {"list", "get", "source", "seen", "delete", "purge"}
BODIES = ["true", "false", "none", "garbage"]

GEN_CFG = """SPECIFICATION GSpec
CONSTANTS
  Mailbox = {"A", "B"}
  GenRoutes = {%(routes)s}
  Bodies = {%(bodies)s}
  Vias = {%(vias)s}
  MaxAdds = %(maxadds)d
  Depth = %(depth)d
  Record = %(record)s
  Weight = %(weight)d
%(view)s
INVARIANTS %(invariants)s
%(properties)s
CHECK_DEADLOCK FALSE
"""

TRACE_CFG = """SPECIFICATION TraceSpec
CONSTANTS
  Mailbox = {%(mbs)s}
  Allowed = {%(allowed)s}
INVARIANTS RTypeOK NeverDropped IdsUnique ArrivalInv
POSTCONDITION TraceAccepted
CHECK_DEADLOCK FALSE
"""


def q(xs):
    return ", ".join(json.dumps(x) if isinstance(x, str) else str(x) for x in xs)


def gen_cfg(mode, maxadds, depth=40, weight=1, routes=ROUTES, bodies=BODIES):
    """mode: mc (exhaustive check of the contract model) | tour (one behaviour per edge) | sim (-simulate)"""
    d = dict(routes=q(routes), bodies=q(bodies), vias=q(["http", "client"] if mode == "mc" else ["http"]), maxadds=maxadds,
             depth=depth, record="FALSE" if mode == "mc" else "TRUE", weight=weight, view="", properties="")
    if mode == "mc":
        d["invariants"] = "RTypeOK NeverDropped IdsUnique ArrivalInv"
        d["properties"] = "PROPERTIES StepProps"
    elif mode == "tour":
        d["view"] = "VIEW TourView"
        d["invariants"] = "EmitTour"
    else:
        d["invariants"] = "Emit"
    return GEN_CFG % d


# ----------------------------------------------------------------------------- name classes
# Every mailbox name below is accepted by the naming policy (pkg/policy/address.go parseMailboxName:
# a-z 0-9 and !#$%&'*+-=/?^_`.{|}~ ; "+" starts the extension) and therefore can receive mail.
NAMESETS = [
    dict(key="plain", naming="local", dom="example.com", boxes=["alice", "bob"]),
    dict(key="slash", naming="local", dom="example.com", boxes=["a/b", "a"]),
    dict(key="slashid", naming="local", dom="example.com", boxes=["a/1", "a"]),      # "a/1" vs message 1 of mailbox "a" (memory-store ids are 1, 2, ...)
    dict(key="query", naming="local", dom="example.com", boxes=["q?x", "h#x"]),
    dict(key="percent", naming="local", dom="example.com", boxes=["p%x", "p%41x"]),
    dict(key="ampeq", naming="local", dom="example.com", boxes=["m&x=1", "e=x"]),
    dict(key="specials", naming="local", dom="example.com", boxes=["we!rd$'*-^_`{|}~.n", "x"]),
    dict(key="full", naming="full", dom="example.com", boxes=["alice@example.com", "alice@example.org"]),
    dict(key="domain", naming="domain", dom="example.com", boxes=["example.com", "example.org"]),
]
BASES = [("", [""]), ("/prefix", ["/prefix", "prefix", "/prefix/"]), ("/deep/er", ["/deep/er", "deep/er/"])]


def mixcase(s, rng):
    return "".join(c.upper() if rng.random() < 0.5 else c.lower() for c in s)


def spellings(ns, mb, rng):
    """the ways a request (or a recipient address) may name mailbox mb: [(class, name)]"""
    if ns["naming"] == "local":
        return [("canon", mb), ("ext", mixcase(mb, rng) + "+" + rng.choice(["tag", "Ext.1", "a=b"])),
                ("addr", mixcase(mb, rng) + "+x@" + ns["dom"])]
    if ns["naming"] == "full":
        local, dom = mb.split("@")
        return [("canon", mb), ("ext", mixcase(local, rng) + "+Tag@" + dom)]
    return [("canon", mb), ("addr", mixcase("anyone", rng) + "+x@" + mb)]


def rcpt_address(ns, mb, rng):
    if ns["naming"] == "local":
        return rng.choice([mb, mixcase(mb, rng) + "+in"]) + "@" + ns["dom"]
    if ns["naming"] == "full":
        local, dom = mb.split("@")
        return rng.choice([local, mixcase(local, rng) + "+in"]) + "@" + dom
    return rng.choice(["someone", "Other+in"]) + "@" + mb


def escape_name(name, rng):
    """the name as it appears in a raw request target: everything outside the unreserved set
    percent-encoded, or (second spelling) the sub-delimiters a path segment may carry left as they are"""
    if rng.random() < 0.5:
        return quote(name, safe="")
    return quote(name, safe="!$&'*+=@")


# ----------------------------------------------------------------------------- message sources
def norm_body(s):
    return re.sub(r"\r*\n", "\n", s).rstrip("\n")


def hash_body(s):
    return hashlib.sha256(norm_body(s).encode("latin-1")).hexdigest()[:16]


SUBJECTS = ["plain subject", "re: [x] a=b&c <tag> 100%", "=?utf-8?q?caf=C3=A9_=E2=9C=93?=", "", "long " + "subject " * 12]


def make_source(n, to_addr, rng):
    kind = rng.choice(["plain", "alt"])
    text = "text body %d\r\nsecond line <tag> & more\r\n\r\nlast line %s\r\n" % (n, rng.choice(["", "x" * 50]))
    html = "<html><body><p>html body %d</p><a href=\"http://x.example/?a=1&b=2\">l</a></body></html>\r\n" % n
    hdr = ["From: Sender %d <sender%d@example.org>" % (n, n), "To: %s" % rng.choice(["<%s>" % to_addr, "Rcpt Name <%s>, other@example.net" % to_addr]),
           "Subject: " + rng.choice(SUBJECTS), "Message-Id: <%d@verif>" % n, "MIME-Version: 1.0"]
    if kind == "plain":
        src = "\r\n".join(hdr + ["Content-Type: text/plain; charset=us-ascii", "", text])
        return src, hash_body(text), hash_body("")
    bnd = "b%dx" % n
    src = "\r\n".join(hdr + ['Content-Type: multipart/alternative; boundary="%s"' % bnd, "",
                             "--" + bnd, "Content-Type: text/plain; charset=us-ascii", "", text +
                             "--" + bnd, "Content-Type: text/html; charset=us-ascii", "", html +
                             "--" + bnd + "--", ""])
    return src, hash_body(text), hash_body(html)


SEEN_BODIES = {"true": ['{"seen":true}', '{"seen": true, "id": "ignored"}', ' {"mailbox":"x","seen":true}\n'],
               "false": ['{"seen":false}', '{}'], "none": [""], "garbage": ["seen=true", '{"seen":tru', "\x00\xff{"]}


class Concretiser:
    def __init__(self, rng, ns, store, base_i, edge_via):
        self.rng, self.ns, self.store, self.edge_via = rng, ns, store, edge_via
        self.base, cfgs = BASES[base_i]
        self.base_cfg = rng.choice(cfgs)
        self.box = {"A": ns["boxes"][0], "B": ns["boxes"][1]}
        self.n = 0
        self.spell = []

    def env(self):
        e = {"INBUCKET_MAILBOXNAMING": self.ns["naming"], "INBUCKET_SMTP_DOMAIN": "inbucket.test"}
        if self.base_cfg:
            e["INBUCKET_WEB_BASEPATH"] = self.base_cfg
        return e

    def step(self, a, via):
        rng = self.rng
        mb = self.box[a["mb"]]
        if a["c"] == "deliver":
            self.n += 1
            to = rcpt_address(self.ns, mb, rng)
            src, th, hh = make_source(self.n, to, rng)
            return {"kind": "deliver", "mb": mb, "from": "envelope%d@origin.example" % self.n, "to": to, "src": src,
                    "abs": {"text": th, "html": hh}}
        route = a["route"]
        if via == "client" and not (route in CLIENT_ROUTES and a["body"] in ("", "true")):
            via = "http"
        cls, name = rng.choice(spellings(self.ns, mb, rng))
        self.spell.append({"mb": mb, "name": name})
        idref = 0 if a["id"] == "latest" else int(a["id"] or 0)
        st = {"kind": "req", "route": route, "via": via, "how": "", "mb": mb, "name": name, "ename": "", "idref": idref,
              "body": a["body"], "send": "", "abs": {"slash": "/" in name, "spelling": cls}}
        if "/" in name:
            # how a router that splits the decoded path at "/" reads the name (used only by the slash-in-name deviation action)
            head, tail = name.split("/", 1)
            st["abs"].update(splitmb=head.lower().split("+")[0].split("@")[0], splitid=tail)
        if via == "http":
            st["ename"] = escape_name(name, rng)
            if route == "seen":
                st["send"] = rng.choice(SEEN_BODIES[a["body"]])
        else:
            st["how"] = "direct"
            if route in ("get", "source", "delete") and a["id"] != "latest":
                # the convenience methods of the values ListMailbox / GetMessage return (the driver falls back to an error
                # event if the id is not listed; for ids that do not exist the direct method is used)
                st["how"] = rng.choice(["direct", "direct", "header", "message"] if route != "get" else ["direct", "direct", "header"])
        return st


def concretise(run, abstract, label, configs):
    """abstract: [(steps, edge_from)] - steps before index edge_from set the state up (always raw HTTP), the rest are the
    steps under test and go through the configuration's via.  configs(i) -> [(nameset, store, base index, via)]"""
    out = []
    for i, (seq, edge_from) in enumerate(abstract):
        for (ns, store, base_i, via) in configs(i):
            if via == "client" and not any(a["c"] == "req" and a["route"] in CLIENT_ROUTES and a["body"] in ("", "true") for a in seq[edge_from:]):
                continue
            c = Concretiser(random.Random("%d/%s/%d/%s/%s/%d/%s" % (run.seed, label, i, ns["key"], store, base_i, via)), ns, store, base_i, via)
            steps = [c.step(a, via if k >= edge_from else "http") for k, a in enumerate(seq)]
            if via == "client":
                # only the client's own operations are of interest in this replay: drop the raw reads under test
                steps = [s for k, s in enumerate(steps) if k < edge_from or s["kind"] == "deliver" or s["via"] == "client" or s["route"] not in READS]
            last = seq[-1]
            cls = "sim" if label == "sim" else ("reads" if last["c"] == "req" and last["route"] in READS else last.get("route", "deliver"))
            out.append({"id": "%s-%d-%s-%s-b%d-%s" % (label, i, ns["key"], store, base_i, via), "store": store, "env": c.env(), "base": c.base,
                        "client_slash": (i + base_i) % 2 == 1,
                        "cfg": {"naming": ns["naming"], "base": c.base, "nameset": ns["key"]}, "names": list(ns["boxes"]),
                        "spellings": c.spell, "steps": steps, "_group": "%s/%s/%s" % (ns["key"], via, cls), "_abs": seq})
    return out


def merge_tour(tour):
    """One tour behaviour = shortest path to a store state + one edge.  Reads are self-loops of the contract, so all read
    edges of a state are replayed in one behaviour after the common path; every other edge keeps its own behaviour."""
    batches, singles = {}, []
    for b in tour:
        lastc = b[-1]
        if lastc["c"] == "req" and lastc["route"] in READS:
            batches.setdefault(json.dumps(b[:-1], sort_keys=True), []).append(lastc)
        else:
            singles.append((b, len(b) - 1))
    out = []
    for k in sorted(batches):
        prefix = json.loads(k)
        reads = batches[k]
        for j in range(0, len(reads), 60):
            out.append((prefix + reads[j:j + 60], len(prefix)))
    return out + singles


# ----------------------------------------------------------------------------- replay + validation
def precheck(run, trace_file):
    """Events that say the behaviour could not be executed as generated are harness/concretiser problems, not verdicts."""
    for line in open(trace_file):
        if '"harness-error"' in line:
            ev = json.loads(line)
            if ev.get("a") == "harness-error":
                raise Inconclusive("driver could not execute behaviour %s: %s" % (ev.get("t"), ev.get("err")))
        elif '"a":"deliver"' in line:
            ev = json.loads(line)
            if ev["r"] != "ok" or ev["fresh"] != 1 or ev["landed"] != ev["mb"]:
                raise Inconclusive("delivery in behaviour %s did not store one message in mailbox %r (r=%s landed=%r fresh=%s): naming/delivery are other properties' business"
                                   % (ev.get("t"), ev["mb"], ev["r"], ev["landed"], ev["fresh"]))


def describe(b, r):
    ev = r["rejected_event"]
    if ev.get("a") != "req":
        return "event #%d %s" % (r["rejected_event_index"], ev.get("a"))
    ex = " exchanges=%s" % json.dumps(ev.get("http")) if ev.get("via") == "client" else " target=%s" % ev.get("target")
    return "step #%d %s %s%s name=%r (mailbox %r) id=%s (%s before the step) body=%s -> status %s code=%s%s%s" % (
        r["rejected_event_index"], ev.get("via"), ev.get("route"), ("/" + ev["how"]) if ev.get("how") else "", ev.get("name"), ev.get("mb"), ev.get("id") or "-", live_before(r),
        ev.get("body") or "-", ev.get("st"), ev.get("code", "-"), ex, (" err=%s" % ev["err"]) if ev.get("err") else "")


def validate_chunk(run, cfg, items):
    """One TLC run over a chunk of complete traces (items = [(trace id, ndjson line)]).  RestTrace reports at the end of every
    behaviour how far the contract's actions got (<<"ENDED", boundary, high-water mark>>), so every behaviour is judged on its own
    and one TLC run finds all rejections.  -> (accepted ids, rejections, deviations)"""
    import os
    import tempfile
    tf = tempfile.NamedTemporaryFile("w", suffix=".ndjson", dir=run.work, delete=False)
    tf.write("".join(l for _, l in items))
    tf.close()
    rc, out, dt = run.tlc("RestTrace", cfg, workers=1, timeout=1500, env={"VERIF_TRACE": tf.name})
    os.unlink(tf.name)
    if rc != 0 or "No error has been found" not in out:
        run.log(out[-5000:])
        raise Inconclusive("trace validation with RestTrace failed (rc=%d) without a verdict" % rc)
    marks = {}
    for m in re.finditer(r'<<"ENDED", (\d+), (\d+)>>', out):
        b, hw = int(m.group(1)), int(m.group(2))
        marks[b] = max(marks.get(b, 0), hw)
    deviations = [m.group(1) for m in re.finditer(r'<<"DEVIATION", "([^"]+)", (\d+)>>', out)]
    # trace boundaries: 1-based line index of the event after the trace's last one
    spans, start = [], 0
    for i in range(1, len(items) + 1):
        if i == len(items) or items[i][0] != items[start][0]:
            spans.append((items[start][0], start + 1, i + 1))
            start = i
    accepted, rejections = set(), []
    for tid, first, boundary in spans:
        if boundary not in marks:
            raise Inconclusive("RestTrace gave no verdict for behaviour %s" % tid)
        hw = marks[boundary]
        if hw >= boundary:
            accepted.add(tid)
            continue
        if hw < first:
            raise Inconclusive("RestTrace verdict for behaviour %s points outside it (%d not in %d..%d)" % (tid, hw, first, boundary - 1))
        trace = [json.loads(l) for _, l in items[first - 1:hw]]
        rejections.append({"trace": tid, "rejected_event_index": len(trace) - 1, "rejected_event": trace[-1], "accepted_prefix": trace[:-1], "invariant": None})
    return accepted, rejections, deviations


def signature(b, r):
    ev = r["rejected_event"]
    return (b.get("cfg", {}).get("nameset"), ev.get("a"), ev.get("via"), ev.get("route"), ev.get("st"), ev.get("code"))


def live_before(r):
    ev = r["rejected_event"]
    before = r["accepted_prefix"][-1].get("s", []) if r["accepted_prefix"] else []
    if ev.get("id") == "latest":
        return "latest/" + ("non-empty" if any(bx["mb"] == ev.get("mb") for bx in before) else "empty")
    return "live" if any(m["id"] == ev.get("id") for bx in before if bx["mb"] == ev.get("mb") for m in bx["msgs"]) else "absent"


def replay_and_validate(run, vh, behaviours, label, jvms=8):
    """Replays the behaviours and validates every recorded trace; each behaviour is judged on its own."""
    if not behaviours:
        return
    payload = [{k: v for k, v in b.items() if not k.startswith("_")} for b in behaviours]
    tf = run.harness_parallel(vh, "rest", payload, label, procs=12)
    precheck(run, tf)
    byid = {b["id"]: b for b in behaviours}
    names = sorted({n for b in behaviours for n in b["names"]})
    cfg = TRACE_CFG % dict(mbs=q(names), allowed=q(sorted(run.findings)))
    traces, order = {}, []
    for line in open(tf):
        tid = re.search(r'"t":"([^"]*)"', line).group(1)
        if tid not in traces:
            traces[tid] = []
            order.append(tid)
        traces[tid].append((tid, line))
    nev = sum(len(v) for v in traces.values())
    n = max(1, min(jvms, nev // 4000 + 1))
    chunks = [[] for _ in range(n)]
    for i, tid in enumerate(order):
        chunks[i % n].extend(traces[tid])
    t0 = time.time()
    accepted, rejections, deviations = set(), [], []
    with cf.ThreadPoolExecutor(max_workers=n) as ex:
        for a, r, d in ex.map(lambda c: validate_chunk(run, cfg, c), [c for c in chunks if c]):
            accepted |= a
            rejections += r
            deviations += d
    dt = time.time() - t0
    run.log("validate RestTrace[%s]: %d events, %d traces, accepted=%d rejected=%d deviations=%d %.1fs" %
            (label, nev, len(order), len(accepted), len(rejections), len(set(deviations)), dt))
    run.cov["traces_validated_against_impl"] += len(accepted)
    run.cov["evaluations"] += len(behaviours)
    run.cov["stages"].append({"stage": "validate", "module": "RestTrace", "label": label, "events": nev, "traces": len(order),
                              "accepted": len(accepted), "rejected": len(rejections), "wall_s": round(dt, 1)})
    for k in set(deviations):
        run.known_hits[k] = run.findings.get(k, "")
    # one violation per signature (name class, via, route, status); the rest are counted
    sigs = {}
    for r in rejections:
        b = byid.get(r["trace"], {})
        sig = signature(b, r)
        if sig not in sigs:
            sigs[sig] = {"b": b, "r": r, "n": 0, "stores": set(), "bases": set()}
        sigs[sig]["n"] += 1
        sigs[sig]["stores"].add(b.get("store"))
        sigs[sig]["bases"].add(b.get("base"))
    for sig in sorted(sigs, key=str):
        v = sigs[sig]
        what = "C14 names=%s: %s: not the Rest contract's answer/effect for the store state before the step (%d rejected behaviours with this signature; stores %s, base paths %s)" % (
            sig[0], describe(v["b"], v["r"]), v["n"], sorted(v["stores"]), sorted(v["bases"]))
        run.violation(what, {"behaviour": v["b"], "rejection": v["r"], "replay_kind": "rest", "same_signature": v["n"]})
    return rejections


def replay_file(run, args):
    d = json.load(open(args.replay))
    vh = run.build_harness()
    replay_and_validate(run, vh, [d["behaviour"]], "replay")
    run.cov["samples"] = [d["behaviour"].get("_abs", [])[:12]]
    run.cov["rule"] = "replay of one recorded behaviour"


def one_per_walk(sims):
    """-simulate evaluates the printing invariant on every candidate successor of the last state of a walk, so one random walk
    is printed once per possible last step: keep one behaviour per walk (per distinct sequence before the last step)."""
    seen, out = set(), []
    for s in sims:
        k = json.dumps(s[:-1], sort_keys=True)
        if k not in seen:
            seen.add(k)
            out.append(s)
    return out


def nontrivial(seq):
    return any(a["c"] == "deliver" for a in seq) and any(a["c"] == "req" for a in seq)


# --------------------------------------------------------------------------- C14
RACE_CFG = """SPECIFICATION TraceSpec
POSTCONDITION TraceAccepted
CHECK_DEADLOCK FALSE
"""


def race_stage(run, vh, quick, only=None):
    beh = only or []
    if not only:
        for k in range(8 if quick else 32):
            st = ["mem", "file"][k % 2]
            beh.append({"id": "race-%d-%s" % (k, st), "store": st, "env": {}, "base": ["", "/prefix"][(k // 2) % 2], "mailbox": "racer%d" % k,
                        "deliveries": (400 if st == "mem" else 150) * (1 if quick else 3), "pause_us": [0, 50, 200, 500][(k + run.seed) % 4], "ui": k % 4 >= 2})
        for b in beh:
            if b["base"]:
                b["env"] = {"INBUCKET_WEB_BASEPATH": b["base"]}
    bf, tf = run.path("race.json"), run.path("race.ndjson")
    json.dump({"seed": run.seed, "behaviours": beh}, open(bf, "w"))
    run.harness(vh, ["restrace", bf, tf], timeout=1200)
    res = run.validate("RestRaceTrace", RACE_CFG, tf, max_rej=len(beh) + 1, parallel=1)
    run.cov["evaluations"] += sum(1 for _ in beh)
    byid = {b["id"]: b for b in beh}
    for r in res["rejections"]:
        ev = r["rejected_event"]
        bad = []
        dels = {d["id"]: d["k"] for d in ev.get("dels", [])}
        for g in ev.get("gets", []):
            if g["st"] not in (200, 404) or (g["st"] == 200 and not (dels.get(g["id"]) == g["subj_k"] == g["body_k"] == g["hdr_k"])):
                bad.append(g)
        run.violation("C14 fetch while delivering (%s store, %s): of %d fetches of .../latest during %d deliveries TLC rejects the history; e.g. %s "
                      "(id of delivery %s, subject of %s, header of %s, body of %s): not one message the store held, or not the latest at any moment of the request" % (
                          byid.get(r["trace"], {}).get("store"), "web UI" if ev.get("ui") else "REST", len(ev.get("gets", [])), len(ev.get("dels", [])),
                          json.dumps(bad[0] if bad else (ev.get("gets") or [None])[0]), dels.get(bad[0]["id"]) if bad else "?", bad[0]["subj_k"] if bad else "?",
                          bad[0]["hdr_k"] if bad else "?", bad[0]["body_k"] if bad else "?"),
                      {"behaviour": byid.get(r["trace"]), "rejection": {k: v for k, v in r.items() if k != "rejected_event"}, "bad": bad[:5], "replay_kind": "restrace"})


def c14(run, args):
    if args.replay and json.load(open(args.replay)).get("replay_kind") == "restrace":
        b = json.load(open(args.replay))["behaviour"]
        race_stage(run, run.build_harness(), True, only=[b] * 3)
        run.cov["rule"] = "replay of one fetch-while-delivering behaviour (three runs)"
        return
    if args.replay:
        return replay_file(run, args)
    quick = run.tier == "quick"
    vh = run.build_harness()
    # (1) the contract model: both vias, every status the contract allows, all statements of the property as action properties
    run.model_check("GenRest", gen_cfg("mc", 2 if quick else 3), label="GenRest(contract model)")
    # (2) transition tour: every (store state, request) edge of the bounded state graph once
    tour = run.generate("GenRest", gen_cfg("tour", 2 if quick else 3), workers=1)
    merged = merge_tour(tour)
    # (3) long simulated histories
    nsim = 60 if quick else 400
    sim = one_per_walk(run.generate("GenRest", gen_cfg("sim", 8, depth=50 if quick else 80, weight=5),
                                    simulate={"num": nsim, "depth": 51 if quick else 81}))[:nsim]
    run.cov["distinct_nontrivial"] += len({json.dumps(s, sort_keys=True) for s in tour + sim if nontrivial(s)})
    run.cov["exhaustive"] = True
    nn, nb = len(NAMESETS), len(BASES)

    def tour_configs(i):
        out = []
        for k, ns in enumerate(NAMESETS):
            if quick:
                # every name set; back-end and base path rotate (all combinations occur across the run)
                j = i + k + run.seed
                combos = [(["mem", "file"][j % 2], (j // 2) % nb)]
            else:
                j = i + k + run.seed
                combos = [("mem", j % nb), ("file", (j + 1) % nb), (["mem", "file"][j % 2], (j + 2) % nb)]
            for store, base_i in combos:
                out += [(ns, store, base_i, "http"), (ns, store, base_i, "client")]
        return out

    def sim_configs(i):
        j = i + run.seed
        ns = NAMESETS[j % nn]
        return [(ns, ["mem", "file"][(j // nn) % 2], (j // (2 * nn)) % nb, via) for via in ("http", "client")]

    beh = concretise(run, merged, "tour", tour_configs)
    beh += concretise(run, [(s, 0) for s in sim], "sim", sim_configs)
    run.cov["samples"] = [merged[len(merged) // 2][0][:12], merged[-1][0], sim[0][:14]] if merged and sim else []
    run.log("behaviours: %d (tour edges %d -> %d merged, sims %d)" % (len(beh), len(tour), len(merged), len(sim)))
    replay_and_validate(run, vh, beh, "c14")
    # (4) fetch while delivering: what /latest shows is one message the store held, the latest at some moment of the request
    race_stage(run, vh, quick)
    run.cov["rule"] = ("TLC walks every edge (store state, request) of the Rest contract's bounded state graph once (transition tour: 2 mailboxes, <= %d deliveries, routes "
                       "list/get/source/mark-seen x 4 body classes/delete/purge of /api/v1 and message/html/source of /serve, id references = every id issued so far (live or removed), "
                       "one never issued, 'latest'); all read edges of one state are replayed in one behaviour after a shortest path to the state, every other edge in its own; plus simulated "
                       "histories of %d steps.  Each is replayed per mailbox-name class (plain; names containing / ? # %% & = and the other specials the naming policy accepts; full and domain "
                       "naming; requests spell the name canonically, with mixed case and +extension, or as a full address, escaped in two ways), on the memory and the file store, without and "
                       "with a configured base path, once through raw HTTP and once with the step(s) under test through pkg/rest/client (direct methods and the convenience methods of the "
                       "returned values); the state-building prefix always uses raw HTTP.  After every step status class, decoded response fields and the whole store must be the contract's. "
                       "Plus fetch while delivering: one goroutine delivers numbered messages while another fetches .../latest (REST and web UI, both stores, with and without base path); "
                       "calls stamped from one atomic counter; TLC (RestRaceTrace) requires every answer to be one message the store held and the latest at some moment of the request. "
                       "non-trivial = at least one delivery and one request; distinct = distinct abstract sequence (tour edge or simulated history)" % (2 if quick else 3, 50 if quick else 80))
    run.assumptions += ["body parts compared after line-ending normalisation (CR*LF -> LF, trailing newlines dropped); sources and sizes byte-exact via sha256 prefix + length",
                        "web UI /serve/mailbox/{name}/{id} is compared on metadata only (its text/html are transformed for display: C18); attachments are not requested",
                        "deliveries go through message.StoreManager.Deliver with one recipient; a delivery that does not land in the expected mailbox makes the run inconclusive (C01/C04)",
                        "mailbox names with '/' use a single slash (no empty or dot segments)",
                        "quick tier: per tour behaviour every name class with rotating back-end/base path; thorough: three back-end/base-path combinations per name class"]
