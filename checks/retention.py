"""Retention check (C12): TLC model-checks the Retention contract model (spec/Retention.tla, GenRetention.tla), generates
age distributions x schedules (environment operation / cancellation at every position of the scan, run-loop variants),
this module spells them as concrete behaviours (names, retention period, ages in hours, sleeps), `vh retention' drives the
real RetentionScanner on the real memory and file stores, and TLC validates the recorded traces against the contract with
spec/RetentionTrace.tla.
"""
import json
import random
import threading

from lib.vlib import sha1hex

GEN_CFG = """SPECIFICATION GSpec
CONSTANTS
  Mailbox = {%(mailbox)s}
  Boxes = {%(boxes)s}
  MaxMsgs = %(maxmsgs)d
  Periods = {%(periods)s}
  MaxEnv = %(maxenv)d
  EnvOps = {%(envops)s}
  Sites = {%(sites)s}
  Cancels = {%(cancels)s}
  Modes = {%(modes)s}
  Record = %(record)s
INVARIANTS %(invariants)s
%(properties)s
CHECK_DEADLOCK FALSE
"""

TRACE_CFG = """SPECIFICATION TraceSpec
CONSTANT Mailbox = {%(mbs)s}
INVARIANTS TypeOK RemovesExactlyExpired ZeroNeverDeletes LateBoundWhenSleeping
POSTCONDITION TraceAccepted
CHECK_DEADLOCK FALSE
"""

MODEL_BOXES = ["a", "b", "c", "d", "e"]
ALL_OPS = ("deliver", "remove", "purge")
HOOK_SITES = ("l1", "l2", "l3", "mbox")


def q(xs):
    return ", ".join(json.dumps(x) if isinstance(x, str) else str(x) for x in xs)


def gen_cfg(nboxes, maxmsgs, mode, periods=(2,), maxenv=0, envops=ALL_OPS, sites=("w",), cancels=("none",), modes=("scan",)):
    """mode: mc (exhaustive check of the contract model: every visit order, environment and Cancel at any moment) |
    gen (behaviours for the driver)"""
    boxes = MODEL_BOXES[:nboxes]
    d = dict(mailbox=q(boxes + ["z"]), boxes=q(boxes), maxmsgs=maxmsgs, periods=q(periods), maxenv=maxenv, envops=q(envops),
             sites=q(sites), cancels=q(cancels), modes=q(modes), record="TRUE" if mode == "gen" else "FALSE", properties="")
    if mode == "mc":
        d["invariants"] = "TypeOK RemovesExactlyExpired ZeroNeverDeletes StopsPromptly"
        d["properties"] = "PROPERTIES OnlyExpiredEverRemoved ZeroStepsDeleteNothing EndMeansAllGone AtMostOneAfterCancel"
    else:
        d["invariants"] = "Emit"
    return GEN_CFG % d


def mc_cfg(nboxes, maxmsgs, maxenv):
    return gen_cfg(nboxes, maxmsgs, "mc", periods=(0, 2), maxenv=maxenv, cancels=("any", "before", "between", "sleep", "wait"),
                   modes=("scan", "loop", "wake"))


# ----------------------------------------------------------------------------- concretisation
def bucket_pair(prefix_len, rng):
    """two distinct mailbox names whose sha1 hashes share the first prefix_len hex digits
    (3 = same level-1 directory of the file store, 6 = same level-2 directory)"""
    seen = {}
    i = rng.randrange(10 ** 6)
    while True:
        name = "u%d" % i
        h = sha1hex(name)[:prefix_len]
        if h in seen:
            return [seen[h], name]
        seen[h] = name
        i += 1


_PAIRS = {}


def name_sets(seed, n):
    """name sets of n mailboxes (the last one is the spare that is empty at the start); the hash-sharing pairs are
    computed once per seed so that the whole run uses a small set of names"""
    if seed not in _PAIRS:
        rng = random.Random(seed)
        _PAIRS[seed] = (bucket_pair(3, rng), bucket_pair(6, rng))
    p3, p6 = _PAIRS[seed]
    plain = ["alpha", "beta", "gamma", "delta", "epsilon", "zeta", "eta"]
    at = ["user@example.com", "user@example.org", "other@example.com", "x@example.net", "y@example.net", "z@example.net"]
    return [plain[:n], at[:n], (p3 + plain)[:n], (plain[:1] + p6 + plain[1:])[:n], (p6[:1] + plain[:n - 2] + p6[1:])[:n]]


def hours(cls, period, rng):
    """age in whole hours of a message of the abstract class, at least one hour away from the period"""
    if period == 0:
        return rng.choice([0, 3, 100, 10000, -2])
    if cls == "old":
        return period + rng.choice([1, 2, 7, 30, 1000, 20000])
    return rng.choice([period - 1, 0, -3] + ([period // 2, period - 5] if period >= 24 else []))


def concretise(beh, store, period_h, names, rng, label, idx):
    """one TLC behaviour {period, dist, steps} -> one driver behaviour (or None when it does not apply to the store)"""
    boxes = sorted(beh["dist"])
    period = 0 if beh["period"] == 0 else period_h
    init = [[hours(c, period, rng) for c in beh["dist"][b]] for b in boxes]
    steps, visits, mode, sleep = [], 0, "scan", 0
    kinds = [s["c"] for s in beh["steps"]]
    if "start" in kinds:
        mode = "loopscan" if "wake" in kinds else "loop"
        if mode == "loopscan":
            sleep = 60
    for s in beh["steps"]:
        c = s["c"]
        if c == "visit":
            visits += 1
        elif c == "env":
            if s["site"] != "w" and store != "file":
                return None
            st = {"c": "env", "op": s["op"], "tc": s["tc"], "ti": s["ti"], "site": s["site"], "x": s.get("x", ""), "k": visits}
            if s["op"] == "deliver":
                st["age"] = hours(s["x"], period, rng)
            steps.append(st)
        elif c == "cancel":
            how = s["how"]
            steps.append({"c": "cancel", "how": how, "k": visits})
            if how == "sleep":
                sleep = max(sleep, 250)
            elif how == "between":
                sleep = max(sleep, rng.choice([0, 25, 25]))
            elif how == "before":
                sleep = max(sleep, rng.choice([0, 20, 20]))
    return {"id": "%s-%d-%s-p%d" % (label, idx, store, period), "store": store, "names": names, "period_h": period, "sleep_ms": sleep,
            "init": init, "mode": mode, "steps": steps, "size": rng.choice([200, 900, 5000]), "_abs": beh}


def refill_variants(behs):
    """for undisturbed scans over a mailbox with expired mail: the mailbox is purged and refilled with young mail between the scan's
    look at it and its k-th removal there (the ids the scan holds are stale then; nothing young may go)"""
    out = []
    for b in behs:
        nold = sum(1 for ages in b["init"] for a in ages if a > b["period_h"])
        if b["steps"] or b["mode"] != "scan" or nold == 0 or b["period_h"] == 0:
            continue
        for k in range(1, min(nold, 2) + 1):
            v = dict(b, id=b["id"] + "-refill%d" % k, steps=[{"c": "env", "op": "refill", "tc": "next", "ti": 0, "site": "r", "x": "", "k": k, "age": 0}])
            out.append(v)
    return out


def behaviours_from(run, abstract, label, stores, periods):
    out = []
    for i, beh in enumerate(abstract):
        rng = random.Random("%d/%d/%s" % (run.seed, i, label))
        nb = len(beh["dist"]) + 1
        sets = name_sets(run.seed, nb)
        for st in stores(i):
            for p in periods(i):
                names = sets[(i + run.seed + (0 if st == "mem" else 1)) % len(sets)]
                b = concretise(beh, st, p, names, rng, label, i)
                if b is not None:
                    out.append(b)
    return out


def nontrivial(beh):
    """something is older than the period, or the scan is disturbed or cancelled"""
    return any("old" in v for v in beh["dist"].values()) or any(s["c"] in ("env", "cancel") for s in beh["steps"])


def describe(b):
    a = b.get("_abs", {})
    return "dist=%s steps=%s" % (json.dumps(a.get("dist"), sort_keys=True), json.dumps([s for s in b.get("steps", [])]))


def explain(ev, inv):
    a = ev.get("a")
    if a == "scanend":
        if not ev.get("returned", True):
            return "DoScan did not return"
        if ev.get("cancelled") and not ev.get("within", True):
            return "the scan returned %s ms after the shutdown request (bound: retentionSleep + 2 s)" % ev.get("elapsed_ms")
        return ("after the scan returned (%s) the store is not 'everything older than the period at scan start gone, nothing younger "
                "removed, nothing else changed'" % ev.get("r"))
    if a == "join":
        return "Start/Join did not return within retentionSleep + 2 s of the shutdown request (%s ms)" % ev.get("elapsed_ms")
    if a == "start":
        return "Start with period 0 did not return at once, or the store changed"
    if a in ("visit", "cancel"):
        return "while the scan ran, a message that is not older than the period disappeared, or a message changed or appeared"
    if a == "env":
        return "the store after the environment's %s on %r is not the store before it plus that operation" % (ev.get("c"), ev.get("mb"))
    return "event not explained by the Retention contract" + (" [invariant %s]" % inv if inv else "")


def replay_and_validate(run, vh, behaviours, label, isolated=False, tf=None):
    if not behaviours:
        return None
    payload = [{k: v for k, v in b.items() if k != "_abs"} for b in behaviours]
    if tf is None:
        tf = run.harness_parallel(vh, "retention", payload, label, procs=12)
    names = sorted({n for b in behaviours for n in b["names"]})
    res = run.validate("RetentionTrace", TRACE_CFG % dict(mbs=q(names)), tf)
    run.cov["evaluations"] += len(behaviours)
    byid = {b["id"]: b for b in behaviours}
    rejections = res["rejections"]
    if not isolated and rejections:
        # the driver works with real timers (retention sleep, cancel during a sleep) and ran a dozen processes side by side: a rejected
        # behaviour is run again on its own before it is reported; what does not happen again is counted, not reported
        # (a starved goroutine can make the real scanner take one more mailbox than the contract's "promptly" allows)
        again = [byid[r["trace"]] for r in rejections if r["trace"] in byid][:40]
        run.log("%d behaviour(s) rejected: running %d of them again in isolation" % (len(rejections), len(again)))
        res2 = replay_and_validate_isolated(run, vh, again, label)
        confirmed = {r["trace"]: r for r in res2["rejections"]} if res2 else {}
        run.cov["unreproduced_rejections"] = run.cov.get("unreproduced_rejections", 0) + len(again) - len(confirmed)
        rejections = list(confirmed.values()) + [r for r in rejections[40:]]
    for r in rejections:
        b = byid.get(r["trace"], {})
        ev = r["rejected_event"]
        obs = {k: ev.get(k) for k in ("a", "c", "mb", "how", "r", "rc", "returned", "within", "cancelled", "elapsed_ms", "visits", "s", "serr") if k in ev}
        what = ("C12 retention removes exactly the expired messages / stops promptly: store=%s period=%sh mode=%s %s: event #%d: %s; observed %s") % (
            b.get("store"), b.get("period_h"), b.get("mode"), describe(b), r["rejected_event_index"], explain(ev, r.get("invariant")),
            json.dumps(obs)[:700])
        run.violation(what, {"behaviour": b, "rejection": r, "replay_kind": "retention"})
    return res


def replay_and_validate_isolated(run, vh, behaviours, label):
    """one behaviour after the other in ONE driver process, nothing else running; returns the validation result (no reporting)"""
    payload = [{k: v for k, v in b.items() if k != "_abs"} for b in behaviours]
    tf = run.harness_parallel(vh, "retention", payload, label + "-iso", procs=1)
    names = sorted({n for b in behaviours for n in b["names"]})
    return run.validate("RetentionTrace", TRACE_CFG % dict(mbs=q(names)), tf, max_rej=len(behaviours) + 1)


def replay_file(run, args):
    d = json.load(open(args.replay))
    vh = run.build_harness()
    run.model_check("GenRetention", mc_cfg(2, 2, 1), label="GenRetention(contract model, small)")
    replay_and_validate(run, vh, [d["behaviour"]], "replay")
    run.cov["distinct_nontrivial"] = 1
    run.cov["samples"] = [d["behaviour"].get("_abs", {})]
    run.cov["rule"] = "replay of one recorded behaviour"


# --------------------------------------------------------------------------- C12
def c12(run, args):
    if args.replay:
        return replay_file(run, args)
    quick = run.tier == "quick"
    vh = run.build_harness()
    # (0) the contract model: every visit order, environment operations and Cancel at any moment, run loop, period 0
    run.model_check("GenRetention", mc_cfg(2, 2, 1), label="GenRetention(model: 2 mailboxes x <=2 messages, 1 env op)")
    run.model_check("GenRetention", mc_cfg(3, 1, 1), label="GenRetention(model: 3 mailboxes x <=1 message, 1 env op)")
    if not quick:
        run.model_check("GenRetention", mc_cfg(3, 2, 1), label="GenRetention(model: 3 mailboxes x <=2 messages, 1 env op)", timeout=900)
        run.model_check("GenRetention", mc_cfg(3, 1, 2), label="GenRetention(model: 3 mailboxes x <=1 message, 2 env ops)", timeout=900)

    sites_all = ("w",) + HOOK_SITES
    # (A) undisturbed scans: every age distribution
    und = run.generate("GenRetention", gen_cfg(3, 2 if quick else 3, "gen"), workers=8)
    if not quick:
        und += run.generate("GenRetention", gen_cfg(4, 2, "gen"), workers=8)
    # (B) one environment operation at every position of the scan (between two mailboxes; file store: between the directory levels)
    env = run.generate("GenRetention", gen_cfg(3, 1 if quick else 2, "gen", maxenv=1, sites=sites_all), workers=8)
    env += run.generate("GenRetention", gen_cfg(2 if quick else 4, 2 if quick else 1, "gen", maxenv=1, sites=sites_all), workers=8)
    # (C) cancellation before the scan, between any two mailboxes, during the sleep
    can = run.generate("GenRetention", gen_cfg(3, 1 if quick else 2, "gen", cancels=("before", "between", "sleep")), workers=8)
    if not quick:
        can += run.generate("GenRetention", gen_cfg(4, 1, "gen", cancels=("before", "between", "sleep")), workers=8)
    # (D) the run loop: period 0 (Start returns, Join returns, nothing deleted); cancellation during the start delay
    loop = run.generate("GenRetention", gen_cfg(2 if quick else 3, 2, "gen", periods=(0, 2), cancels=("wait",), modes=("loop",)), workers=4)
    # (E) thorough: the loop's own scan, waited for (one minute), cancelled during it or after it
    wake = []
    if not quick:
        wake = run.generate("GenRetention", gen_cfg(3, 1, "gen", cancels=("between", "sleep", "wait"), modes=("loop", "wake")), workers=4)
        wake = [w for w in wake if any(s["c"] == "wake" for s in w["steps"])]
        random.Random(run.seed).shuffle(wake)
        wake = wake[:60]
    run.cov["distinct_nontrivial"] += len({json.dumps(b, sort_keys=True) for b in und + env + can + loop + wake if nontrivial(b)})
    run.cov["exhaustive"] = True

    both = lambda i: ["mem", "file"]
    rotp = lambda i: [[1, 24][(i + run.seed) % 2]]
    bothp = lambda i: [1, 24]
    beh = behaviours_from(run, und, "und", both, rotp if quick else bothp)
    beh += refill_variants(beh)
    beh += behaviours_from(run, env, "env", both, rotp)
    canb = behaviours_from(run, can, "can", both, rotp)
    # promptness probes: with a long retentionSleep and several mailboxes still to go, a scan that ignored the shutdown
    # request would need longer than the bound (a correct one returns at once, so these cost little)
    slow = 0
    for b in canb:
        st = b["steps"][0] if b["steps"] else {}
        if slow < (8 if quick else 32) and st.get("how") in ("sleep", "between") and st.get("k") == 1 and sum(1 for x in b["init"] if x) >= 3:
            b["sleep_ms"] = 1500
            b["id"] += "-slow"
            slow += 1
    beh += canb
    beh += behaviours_from(run, loop, "loop", both, rotp)
    long_beh = behaviours_from(run, wake, "wake", both, rotp)
    run.cov["samples"] = [x for x in (und[len(und) // 2] if und else None, env[len(env) // 3] if env else None,
                                      can[len(can) // 2] if can else None, loop[-1] if loop else None) if x]
    run.log("behaviours: undisturbed=%d env=%d cancel=%d loop=%d loopscan=%d -> %d (+%d long) concrete" % (
        len(und), len(env), len(can), len(loop), len(wake), len(beh), len(long_beh)))

    # the one-minute behaviours run in the background while everything else is replayed and validated
    holder = {}

    def long_part():
        try:
            holder["tf"] = run.harness_parallel(vh, "retention", [{k: v for k, v in b.items() if k != "_abs"} for b in long_beh], "long", procs=4, timeout=600)
        except Exception as ex:       # reported below, on the main thread
            holder["err"] = ex
    th = None
    if long_beh:
        th = threading.Thread(target=long_part)
        th.start()
    replay_and_validate(run, vh, beh, "c12")
    if th:
        th.join()
        if "err" in holder:
            raise holder["err"]
        replay_and_validate(run, vh, long_beh, "long", tf=holder["tf"])
    # the implementation-shaped model of the scanner's control flow (RetentionImpl.tla): safety and liveness (JoinReturns under weak
    # fairness, no state constraint) as the code is now; three named deviations must fail as predicted
    ri_cfg = lambda dis, sl, df, fl: ("SPECIFICATION FairSpec\nCONSTANTS\n  NBoxes = 3\n  Disabled = %s\n  SleepNotSelect = %s\n  DeferAfterReturn = %s\n  PeriodFloor = %s\n"
                                      "INVARIANTS TypeOK DisabledNeverScans LateBound PromptStop DoneOnlyOnReturn\nPROPERTIES JoinReturns\nCHECK_DEADLOCK FALSE\n" % (dis, sl, df, fl))
    F, T = "FALSE", "TRUE"
    run.model_check("RetentionImpl", ri_cfg(F, F, F, F), label="RetentionImpl (retention on)", workers=2)
    run.model_check("RetentionImpl", ri_cfg(T, F, F, F), label="RetentionImpl (period 0)", workers=2)
    for name, flags, expect in (("SleepNotSelect", (F, T, F, F), "PromptStop"), ("DeferAfterReturn", (T, F, T, F), "JoinReturns"), ("PeriodFloor", (T, F, F, T), "DisabledNeverScans")):
        rc, out, dt = run.tlc("RetentionImpl", ri_cfg(*flags), workers=2, timeout=300, heap="2g")
        hit = ("%s is violated" % expect) in out or ("%s was violated" % expect) in out
        run.cov["stages"].append({"stage": "model-check", "module": "RetentionImpl(%s=TRUE)" % name, "mode": "prediction", "violated_as_predicted": [expect] if hit else [], "wall_s": round(dt, 1)})
        if not hit:
            raise Inconclusive("the deviation %s of RetentionImpl no longer produces its predicted failure: model and check have drifted apart" % name)
    run.cov["rule"] = ("TLC enumerates every distribution of message ages {older, younger than the period} over the stated mailboxes x messages; for each, the "
                       "undisturbed scan, one environment operation (delivery of an older/younger message, removal of the first/last message, purge; target: an "
                       "already visited / not yet visited / empty-at-start mailbox, or the mailbox the file-store walk is about to open) at every position of the scan "
                       "(between any two mailboxes through the store wrapper; file store also after each directory level was listed), and cancellation before the scan, "
                       "right after any mailbox, and during the visitor's sleep; plus Start/Join with period 0 and with cancellation during the start delay "
                       "(thorough: the loop's own scan after its one-minute delay, cancelled during or after it).  Each runs on the real RetentionScanner over the real "
                       "memory and file store with periods 1 h / 24 h and message dates whole hours away from the cutoff; TLC validates every observation of the whole "
                       "store against Retention.tla: while a scan runs only messages older than the period may be missing and nothing else may change; when it has "
                       "returned without a shutdown request nothing that was older at its start may be left; period 0 deletes nothing and Start/Join return; after a "
                       "shutdown request DoScan / Start / Join return within retentionSleep + 2 s.  non-trivial = something is older than the period or the scan is "
                       "disturbed/cancelled; distinct = distinct abstract behaviour")
    run.assumptions += ["message ages are whole hours, at least one hour away from the retention period (the instant at which DoScan reads the clock is immaterial)",
                        "environment operations run inside the scanning goroutine between two visitor calls or at a walk gate (deterministic interleaving); "
                        "truly parallel store access is C09",
                        "a message older than the period that is delivered while the scan runs may or may not be removed by that scan (the text fixes neither)",
                        "the error value DoScan returns is recorded but not judged (the text speaks about messages and promptness)",
                        "DoScan with period 0 is not reachable through the configuration surface (Start refuses) and is not exercised",
                        "quick tier: one of the periods {1 h, 24 h} per behaviour (rotating with index and seed); thorough: both for undisturbed scans",
                        "promptness bound retentionSleep + 2 s is the driver's stopwatch around cancel() .. return (recorded as a boolean plus the measured ms)"]
