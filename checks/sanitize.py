"""C18: message HTML and text shown in the web UI cannot carry active content.

Level "exploration" (DESIGN.md section 7): TLA+ does not model tokenizers.  The specification supplies
(i) abstract alphabets whose bounded languages TLC enumerates completely (spec/GenSanitize.tla: CSS token-class
sequences, abstract HTML documents, text-class sequences) and (ii) the invariants (spec/Sanitize.tla), which TLC
evaluates on the projection of the REAL output of every case (spec/SanitizeTrace.tla).

This module is the concretiser: the only place where an abstract class becomes bytes.  Every abstract case is
spelled in several seed-chosen ways (mixed case, entity-encoded "javascript:", embedded white space / control
characters, unterminated tags and attributes, duplicate attributes, raw-text elements, comments, mis-nesting...).
`vh sanitize' (harness/cmd/vh/sanitize.go) runs sanitize.HTML / web.TextToHTML / the web UI message endpoint on
each spelling and records the projection of the output; no verdict is taken here or there.
"""
import base64
import json
import os
import random
import re

from lib.vlib import Inconclusive, REPO

GEN_CFG = """SPECIFICATION GSpec
CONSTANTS
  AllowedProps = {%(allowed)s}
  Mode = "%(mode)s"
  Classes = {%(classes)s}
  Depth = %(depth)d
  MaxNest = %(maxnest)d
  Record = %(record)s
%(constraint)s
INVARIANTS %(invariants)s
CHECK_DEADLOCK FALSE
"""

TRACE_CFG = """SPECIFICATION TraceSpec
CONSTANT AllowedProps = {%(allowed)s}
INVARIANTS C18_NeverFails C18_NoActiveElements C18_NoHandlerAttrs C18_NoScriptUrls C18_StylePropsAllowed C18_TextFullyEscaped
POSTCONDITION TraceAccepted
CHECK_DEADLOCK FALSE
"""

CSS_ALL = ["aid", "oid", "esc", "s", "semi", "colon", "ch", "open", "close", "str", "cmt", "at", "fn", "url", "num", "bad"]
CSS_CORE = ["aid", "oid", "esc", "semi", "colon", "open", "close", "str"]
NODE_ALL = ["ok", "script", "style", "iframe", "frame", "object", "embed", "form", "input", "handler", "jsplain", "jscase",
            "jsws", "jsent", "styleattr", "rawtext", "comment", "untag", "unattr", "dupattr", "mixcase", "enttext"]
NODE_CORE = ["ok", "script", "handler", "jsent", "styleattr", "rawtext", "comment", "untag", "unattr", "mixcase"]
TEXT_ALL = ["plain", "sp", "lt", "gt", "amp", "dq", "sq", "url", "urlmarkup", "jsurl", "cr", "lf", "crlf", "ent", "tag", "ctl"]
TEXT_CORE = ["plain", "lt", "amp", "dq", "url", "urlmarkup", "crlf", "ent", "tag"]


def q(xs):
    return ", ".join(json.dumps(x) if isinstance(x, str) else str(x) for x in xs)


def read_allowlist():
    """the CSS property allow-list of the code under test (the property says "on the allow-list")"""
    src = open(os.path.join(REPO, "pkg/webui/sanitize/css.go")).read()
    m = re.search(r"var allowedProperties = map\[string\]propertyRule\{(.*?)\n\}", src, re.S)
    props = re.findall(r'"([^"]+)":\s*\{\}', m.group(1)) if m else []
    if len(props) < 1:
        raise Inconclusive("cannot read the CSS property allow-list from pkg/webui/sanitize/css.go")
    return sorted(set(p.lower() for p in props))


def gen_cfg(allowed, mode, classes, depth, maxnest, record):
    d = dict(allowed=q(allowed), mode=mode, classes=q(classes), depth=depth, maxnest=maxnest,
             record="TRUE" if record else "FALSE", constraint="", invariants="Emit")
    if not record:
        d["constraint"] = "CONSTRAINT Bound"
        d["invariants"] = "TypeOK CssSound StartAligned DeadIsEmpty"
    return GEN_CFG % d


def b64(s):
    return base64.b64encode(s if isinstance(s, bytes) else s.encode("utf-8", "surrogatepass")).decode()


# ----------------------------------------------------------------------------- spellings: CSS token classes
JS = "alert(1)"
CSS_SPELL = {
    "aid": ["color", "width", "COLOR", "margin-top", "Font-Family", "text-align", "content", "display", "background-color", "height"],
    "oid": ["position", "behavior", "-moz-binding", "background", "background-image", "top", "z-index", "POSITION", "--x",
            "list-style-image", "filter", "cursor", "colour"],
    "esc": ["\\70osition", "c\\6f lor", "colo\\r", "red\\;", "\\;", "p\\osition", "\\000070osition", "wid\\74 h", "\\-x",
            "col\\6fr", "\\63olor", "position\\:", "\\3b "],
    "s": [" ", "\t", "\n", "\r\n", "\f", "  ", "\r"],
    "semi": [";"],
    "colon": [":"],
    "ch": ["!", ",", "/", "=", ">", "*", "&", "%", "~", "|", "+", ".", "<", "$", "^", "`", "?", "\x01", "\x7f", "\u00a0"],
    "open": ["(", "[", "{"],
    "close": [")", "]", "}"],
    "str": ['"a;b"', "'x:y;z'", '"position:fixed;"', "'\\''", '"\\"; position: fixed"', '""', "'\\\n;'", '"\\3b "', "'</style>'"],
    "cmt": ["/**/", "/* ; */", "/* position:fixed; */", "/***/", "/*/*/", "/* * / ; */", "/*\n*/"],
    "at": ["@import", "@media", "@charset", "@font-face", "@-x", "@\\69mport"],
    "fn": ["expression(", "rgb(", "calc(", "var(", "url( '", "image-set(", "EXPRESSION("],
    "url": ["url(http://example.com/a;b)", "url(javascript:alert(1))", "url('a;b')", 'url("x;y")', "url( a )", "url(a b;c)",
            "url(a(b;c)", "URL(x;y)", "url(a\\);b)", "url(;)", "url(a\nb;c)"],
    "num": ["1", "10px", "50%", "#fff", "1.5em", ".5", "-1", "+2", "1e3", "U+0-7F", "#\\;", "0\\;"],
    "bad": ['"unclosed', "'unclosed;", "/* unclosed", '"a\nb"', "'\t'", "/*/"],
}
NAME_END = {"aid", "oid", "esc", "num", "at"}
NAME_START = {"aid", "oid", "esc", "num", "fn", "url"}


def spell_css(seq, rng):
    """a token-class sequence as a style value; two name-like tokens in a row would lex as one token, so they are
    kept apart by one space"""
    out, prev = [], None
    for t in seq:
        if prev in NAME_END and t in NAME_START:
            out.append(" ")
        out.append(rng.choice(CSS_SPELL[t]))
        prev = t
    return "".join(out)


def attr_escape(v, quote):
    v = v.replace("&", "&amp;").replace("<", "&lt;")
    return v.replace('"', "&quot;") if quote == '"' else v.replace("'", "&#39;")


def wrap_style(css, rng, variant):
    """the style value inside an element a sanitiser keeps, in one of several attribute spellings"""
    tag = rng.choice(["p", "div", "span", "td", "b", "a", "center", "h1"])
    if variant == "dq":
        return '<%s style="%s">x</%s>' % (tag, attr_escape(css, '"'), tag)
    if variant == "sq":
        return "<%s class=c style='%s'>x</%s>" % (tag, attr_escape(css, "'"), tag)
    if variant == "entities":
        v = attr_escape(css, '"')
        v = v.replace(";", rng.choice(["&#59;", "&#x3b;", "&semi;", "&#0059;"])) if rng.random() < 0.7 else v
        v = v.replace(":", rng.choice(["&#58;", "&#x3A;", "&colon;"]))
        v = v.replace("(", "&lpar;").replace("\\", rng.choice(["&#92;", "&bsol;", "\\"]))
        return '<%s STYLE="%s">x</%s>' % (tag.upper(), v, tag.upper())
    if variant == "unquoted" and css and not re.search(r"[\s\"'`=<>]", css):
        return "<%s style=%s>x</%s>" % (tag, css.replace("&", "&amp;"), tag)
    if variant == "tightsep":
        # what separates the attribute from what precedes it, as the HTML tokenizer sees it: a '/', a tab / newline / form feed,
        # or nothing at all after a quoted value
        lead = rng.choice(['/', '\t', '\n', '\f', ' id="a"', " id='a'", '/ ', ' class="c"/'])
        return '<%s%sstyle="%s">x</%s>' % (tag, lead, attr_escape(css, '"'), tag)
    if variant == "unterminated":
        return '<%s style="%s' % (tag, attr_escape(css, '"'))
    return '<%s title=t style="%s" lang=en>x' % (tag, attr_escape(css, '"'))


CSS_VARIANTS = ["dq", "sq", "entities", "unquoted", "open", "tightsep"]

# ----------------------------------------------------------------------------- spellings: HTML node classes
BAD_CSS = ['"*/top:0;"', "'*/top:0;'", "url(*/top:0;)", '"*/position:fixed;top:0;"', "position:fixed;top:0", "color:red;position:absolute", "background:url(javascript:alert(1))", "behavior:url(x.htc)",
           "-moz-binding:url(x.xml#x)", "width:expression(alert(1));left:0", "color:red;/**/position:fixed", "POSITION:FIXED",
           "\\70osition:fixed", "color:red\\;position:fixed;top:0", "color:'a;b';position:fixed", "@import 'x';position:fixed",
           "color:red;;position:fixed;width:1px", "{}position:fixed", "color:(;position:fixed;);z-index:9"]
JS_PLAIN = ["javascript:alert(1)", "javascript:alert(1)//http://example.com/", "javascript://example.com/%0aalert(1)"]
JS_CASE = ["JaVaScRiPt:alert(1)", "JAVASCRIPT:alert(1)", "Javascript:alert(1)", "javascripT:alert(1)"]
JS_WS = [" javascript:alert(1)", "java\tscript:alert(1)", "java\nscript:alert(1)", "java\rscript:alert(1)", "\x01javascript:alert(1)",
         "javascript\t:alert(1)", "jav&#x09;ascript:alert(1)", "jav&#x0A;ascript:alert(1)", "&#14; javascript:alert(1)",
         "\x0bjavascript:alert(1)", "\u00a0javascript:alert(1)", "java\x00script:alert(1)", " \n javascript:alert(1)", "j\r\nava\tscript\n:alert(1)",
         "java&#13;script:alert(1)", "\x1f\x1ejavascript:alert(1)", "javascript:alert(1) \t"]
JS_ENT = ["javascript&colon;alert(1)", "&#106;avascript:alert(1)", "&#x6A;avascript&#58;alert(1)", "&#0000106avascript:alert(1)",
          "javascript&#x3A;alert(1)", "java&Tab;script:alert(1)", "java&NewLine;script:alert(1)", "&#x6a&#x61&#x76&#x61script:alert(1)",
          "&#74;AVASCRIPT&#x3a;alert(1)", "javascript&colon alert(1)", "&amp;#106;avascript:alert(1)", "javascript&#58alert(1)",
          "&Tab;javascript:alert(1)", "&#1;javascript:alert(1)"]


def url_holder(url, rng):
    """an element the policy keeps whose URL attribute carries url"""
    k = rng.randrange(9)
    q = url.replace('"', "&quot;")
    if k == 6:
        # URL-bearing attributes other than href / src / cite, on elements a mail sanitiser tends to keep
        return rng.choice([('<table><tr><td background="%s">' % q, "</td></tr></table>"), ('<table background="%s"><tr><td>' % q, "</td></tr></table>"),
                           ('<table><tr background="%s"><th>' % q, "</th></tr></table>"), ('<div background="%s">' % q, "</div>")])
    if k == 7:
        return rng.choice([('<video poster="%s">' % q, "</video>"), ('<form action="%s"><button formaction="%s">' % (q, q), "</button></form>"),
                           ('<object data="%s">' % q, "</object>"), ('<img lowsrc="%s" dynsrc="%s" alt=i>' % (q, q), ""), ('<q cite="%s">' % q, "</q>"),
                           ('<img longdesc="%s" alt=i>' % q, "")])
    if k == 8:
        return ('<svg><a xlink:href="%s">' % q, "</a></svg>")
    if k == 0:
        return ('<a href="%s">' % url.replace('"', "&quot;"), "</a>")
    if k == 1:
        return ('<img src="%s" alt=i>' % url.replace('"', "&quot;"), "")
    if k == 2:
        return ("<a title=t href='%s'>" % url.replace("'", "&#39;"), "</a>")
    if k == 3:
        return ('<blockquote cite="%s">' % url.replace('"', "&quot;"), "</blockquote>")
    if k == 4 and not re.search(r"[\s\"'`=<>]", url):
        return ("<a href=%s>" % url, "</a>")
    return ('<a HREF="%s" target=_blank>' % url.replace('"', "&quot;"), "</A>")


def node_variants(c):
    """all spellings of a node class: list of functions rng -> (open, close); close None marks a leaf"""
    fixed = lambda o, cl="": (lambda rng: (o, cl))
    if c == "ok":
        return [fixed("<p>", "</p>"), fixed("<b>", "</b>"), fixed('<a href="http://example.com/a?b=1&amp;c=2">', "</a>"),
                fixed('<div class="x" title="t">', "</div>"), fixed("<table><tr><td>", "</td></tr></table>"), fixed("<center>", "</center>"),
                fixed('<img src="https://example.com/i.png" alt="i">'), fixed("<ul><li>", "</li></ul>"),
                fixed('<a href="mailto:x@example.com">', "</a>"), fixed('<blockquote cite="http://example.com/">', "</blockquote>"),
                fixed('<p style="color:red;width:10px">', "</p>"), fixed("<h1>", "</h1>"), fixed("<pre>\n", "</pre>"),
                fixed('<a href="/relative/path" name=n>', "</a>"), fixed("<details open><summary>", "</summary></details>")]
    if c == "script":
        return [fixed("<script>", "</script>"), fixed('<script type="text/javascript" src="http://evil.example/x.js">', "</script>"),
                fixed("<script >" + JS + "//", "</script >"), fixed("<script/x>", "</script>"), fixed("<svg><script>", "</script></svg>"),
                fixed("<script>" + JS, ""), fixed("<script><!--", "--></script>"), fixed("<script>'</script>'", "</script>"),
                fixed("<math><script>", "</script></math>"), fixed("<script\n>", "</script\n>")]
    if c == "style":
        return [fixed("<style>body{position:fixed}", "</style>"), fixed('<style type="text/css">@import url(http://evil.example/x.css);', "</style>"),
                fixed("<style>", ""), fixed("<style><!--", "--></style>"), fixed("<svg><style>", "</style></svg>"),
                fixed("<math><style>", "</style></math>"), fixed("<style/>", "</style>"), fixed("<style media=all>*{}", "</style >")]
    if c == "iframe":
        return [fixed('<iframe src="http://evil.example/">', "</iframe>"), fixed('<iframe srcdoc="&lt;script&gt;alert(1)&lt;/script&gt;">', "</iframe>"),
                fixed("<iframe>", ""), fixed("<iframe/src=x>", "</iframe>"), fixed('<iframe src="javascript:alert(1)">', "</iframe>")]
    if c == "frame":
        return [fixed('<frameset><frame src="http://evil.example/"></frameset>'), fixed("<frame src=x>"), fixed("<frame>"),
                fixed('<frameset cols="50%,50%"><frame src=a><frame src=b></frameset>')]
    if c == "object":
        return [fixed('<object data="http://evil.example/x.swf" type="application/x-shockwave-flash">', "</object>"),
                fixed('<object><param name="movie" value="x">', "</object>"), fixed("<object>", ""),
                fixed('<object data="javascript:alert(1)">', "</object>"), fixed("<applet code=x>", "</applet>")]
    if c == "embed":
        return [fixed('<embed src="http://evil.example/x.swf">'), fixed("<embed>"), fixed('<embed src="javascript:alert(1)" type="image/svg+xml">')]
    if c == "form":
        return [fixed('<form action="http://evil.example/" method="post">', "</form>"), fixed("<form>", ""),
                fixed('<form><button formaction="javascript:alert(1)">', "</button></form>"), fixed("<form id=f>", "</form>"),
                fixed("<table><form>", "</form></table>"), fixed('<form action="javascript:alert(1)"><input type=submit>', "</form>")]
    if c == "input":
        return [fixed('<input type="text" name="q" value="v">'), fixed("<button type=submit>b</button>"), fixed("<select><option>o</option></select>"),
                fixed("<input type=image src=x onerror=alert(1)>"), fixed("<keygen autofocus onfocus=alert(1)>"), fixed("<isindex type=image src=1 onerror=alert(1)>")]
    if c == "handler":
        return [fixed('<img src="http://example.com/x" onerror="alert(1)">'), fixed('<p onclick="alert(1)">', "</p>"),
                fixed('<a href="http://example.com/" onmouseover=alert(1)>', "</a>"), fixed("<div onload='alert(1)'>", "</div>"),
                fixed("<b onfocus=alert(1) tabindex=0>", "</b>"), fixed("<body onload=alert(1)>", "</body>"), fixed("<svg onload=alert(1)>", "</svg>"),
                fixed("<p/onclick=alert(1)>", "</p>"), fixed("<img src=x onerror\n=\nalert(1)>"), fixed('<p title="x"onclick="alert(1)">', "</p>"),
                fixed("<details open ontoggle=alert(1)>", "</details>"), fixed('<p onclick="alert(1)"/>'), fixed("<video><source onerror=alert(1)>", "</video>"),
                fixed("<p on=x onx=y once=z>", "</p>")]
    if c in ("jsplain", "jscase", "jsws", "jsent"):
        pool = {"jsplain": JS_PLAIN, "jscase": JS_CASE, "jsws": JS_WS, "jsent": JS_ENT}[c]
        return [(lambda rng, u=u: url_holder(u, rng)) for u in pool]
    if c == "styleattr":
        return [(lambda rng, s=s: ('<%s style="%s">' % (t, attr_escape(s, '"')), "</%s>" % t))
                for s in BAD_CSS for t in ("p",)] + [fixed("<p style>", "</p>"), fixed("<p style=>", "</p>")] + \
               [(lambda rng, s=s, lead=lead: ('<p%sstyle="%s">' % (lead, attr_escape(s, '"')), "</p>"))
                for s in BAD_CSS[3:6] for lead in ('/', '\t', '\n', '\f', ' id="a"', " id='a'")] + \
               [(lambda rng, s=s, nm=nm: ('<p %s="%s">' % (nm, attr_escape(s, '"')), "</p>"))
                # bytes that are not UTF-8 (a lone surrogate, encoded as is) inside and next to the attribute name: a pass that
                # drops them turns the name into "style" behind the back of the CSS filter
                for s in BAD_CSS[4:7] for nm in ("st\udc80yle", "\udc80style", "style\udc80", "s\udcfftyle")]
    if c == "rawtext":
        return [fixed("<textarea>", "</textarea>"), fixed("<title>", "</title>"), fixed("<xmp>", "</xmp>"), fixed("<noscript>", "</noscript>"),
                fixed("<plaintext>", ""), fixed("<noembed>", "</noembed>"), fixed("<noframes>", "</noframes>"), fixed("<listing>", "</listing>"),
                fixed("<svg><title>", "</title></svg>"), fixed("<math><mtext><table><mglyph><style>", "</style></mglyph></table></mtext></math>"),
                fixed("<select><template>", "</template></select>"), fixed('<noscript><p title="</noscript>', '">'),
                fixed("<textarea>", ""), fixed("<svg><desc><textarea>", "</textarea></desc></svg>")]
    if c == "comment":
        return [fixed("<!--", "-->"), fixed("<!-->", ""), fixed("<!--", "--!>"), fixed("<!---", "--->"), fixed("<![CDATA[", "]]>"),
                fixed("<?xml ", "?>"), fixed("<!DOCTYPE html ", ">"), fixed("<!", ">"), fixed("</", ">"), fixed("<!--", ""),
                fixed("<svg><![CDATA[", "]]></svg>"), fixed("<!-- --", "-- -->")]
    if c == "untag":
        return [fixed('<img src="http://example.com/x" onerror=alert(1)', None), fixed("<script", None), fixed('<a href="javascript:alert(1)"', None),
                fixed("<p ", None), fixed("<iframe src=x", None), fixed("<", None), fixed("<p/", None), fixed("<img src=x onerror=alert(1)//", None),
                fixed("<style", None), fixed("</p", None)]
    if c == "unattr":
        return [fixed('<a href="http://example.com/ onclick=alert(1)>x', None), fixed("<img src='x onerror=alert(1)>", None), fixed('<p title="', None),
                fixed('<p style="position:fixed', None), fixed('<a href="javascript:alert(1)', None), fixed("<div title='a>b", None),
                fixed('<img alt="><script>alert(1)</script>', None), fixed("<p title=`", None)]
    if c == "dupattr":
        return [fixed('<a href="http://example.com/" href="javascript:alert(1)">', "</a>"), fixed('<a href="javascript:alert(1)" href="http://example.com/">', "</a>"),
                fixed('<p style="color:red" style="position:fixed">', "</p>"), fixed("<img src=http://example.com/x src=javascript:alert(1) onerror=a onerror=b>"),
                fixed("<p class=a class=b onclick=x onclick=y>", "</p>"), fixed('<p style="position:fixed" style="color:red" STYLE="top:0">', "</p>"),
                fixed('<a HREF="http://example.com/" href="javascript:alert(1)" Href=x>', "</a>")]
    if c == "mixcase":
        return [fixed("<ScRiPt>", "</sCrIpT>"), fixed('<IMG SRC="http://example.com/x" OnErRoR="alert(1)">'), fixed('<A HREF="JavaScript:alert(1)">', "</A>"),
                fixed('<P STYLE="POSITION:FIXED;COLOR:RED">', "</P>"), fixed("<IFRAME SRC=x>", "</IFRAME>"), fixed("<FORM>", "</FORM>"),
                fixed("<STYLE>", "</STYLE>"), fixed("<oBjEcT>", "</ObJeCt>"), fixed("<Svg><sCript>", "</scRipt></sVg>"), fixed("<P ONCLICK=alert(1)>", "</p>")]
    if c == "enttext":
        return [fixed("&lt;script&gt;alert(1)&lt;/script&gt;", None), fixed("&#60;img src=x onerror=alert(1)&#62;", None), fixed("&amp;lt;b&amp;gt;", None),
                fixed("&lt", None), fixed("&#x3c;script&#x3e;", None), fixed("&notanentity; &amp &", None), fixed("&#0;&#xD800;&#x110000;", None),
                fixed("plain text", None), fixed("\x00\x01 nul", None), fixed("&#x3c", None), fixed("a &lt;!-- b", None)]
    raise KeyError(c)


def build_doc(doc, pick, nesting, rng):
    """doc: preorder list of {c, d}; pick(c) -> (open, close); nesting: well | unclosed | misnested"""
    out, stack = [], []

    def close_to(d):
        closers = []
        while stack and stack[-1][0] >= d:
            closers.append(stack.pop()[1])
        if nesting == "misnested":
            closers.reverse()
        if nesting != "unclosed":
            out.extend(closers)

    for n in doc:
        close_to(n["d"])
        o, cl = pick(n["c"])
        out.append(o)
        if cl is not None:
            out.append(rng.choice(["", "t", " x ", "\n"]))
            stack.append((n["d"], cl))
    close_to(0)
    return "".join(out)


# ----------------------------------------------------------------------------- spellings: text classes
TEXT_SPELL = {
    "plain": ["hello world", "line", "a.b", "x", "Lorem ipsum dolor"],
    "sp": [" ", "  ", "\t"],
    "lt": ["<"], "gt": [">"], "amp": ["&"], "dq": ['"'], "sq": ["'"],
    "url": ["http://example.com/path?a=1&b=2", "https://example.com/", "www.example.com", "example.com/x", "mailto:someone@example.com",
            "ftp://example.com/a(b)c", "HTTP://EXAMPLE.COM/", "http://example.com/a_(b)", "http://xn--e1afmkfd.example/%7Euser#frag"],
    "urlmarkup": ['http://example.com/"onmouseover="alert(1)', "http://example.com/'onclick='alert(1)", "http://example.com/<script>alert(1)</script>",
                  "http://example.com/&quot;x", "http://example.com/&#34;onclick=alert(1)", "http://example.com/?q=&amp;quot;",
                  'http://example.com/x"><img src=x onerror=alert(1)>', "http://example.com/&amp;#34;onclick=alert(1)", "http://example.com/&lt;b&gt;",
                  "http://example.com/a&amp;amp;b", 'http://example.com/" target="_top', "http://example.com/`onclick=alert(1)"],
    "jsurl": ["javascript:alert(1)", "JaVaScRiPt:alert(1)", "javascript://example.com/%0aalert(1)", "data:text/html,<script>alert(1)</script>",
              "vbscript:msgbox(1)", "javascript:alert(&quot;1&quot;)"],
    "cr": ["\r"], "lf": ["\n"], "crlf": ["\r\n"],
    "ent": ["&lt;", "&#60;script&#62;", "&amp;", "&#34;", "&quot;", "&#x3c;", "&amp;lt;", "&nbsp;", "&#0;"],
    "tag": ["<script>alert(1)</script>", "<img src=x onerror=alert(1)>", '<a href="javascript:alert(1)">x</a>', "<br/>", "</a>", "<!--", "<b>",
            "<style>", "</textarea>", "<a href=http://example.com/>", "<br>", "<plaintext>"],
    "ctl": ["\x00", "\x0b", "\x7f", "\x0c", "\u00a0", "\u00e9", "\U0001F600", "\u2028", "\ufeff", "\x1b[2J", "\u202e"],
}
TEXT_BYTES = {"ctl": [b"\xff", b"\xc0\xaf", b"\xed\xa0\x80"]}    # invalid UTF-8


def spell_text(seq, rng):
    out = b""
    for t in seq:
        if t in TEXT_BYTES and rng.random() < 0.25:
            out += rng.choice(TEXT_BYTES[t])
        else:
            out += rng.choice(TEXT_SPELL[t]).encode("utf-8")
    return out


# ----------------------------------------------------------------------------- abstract -> behaviours
def css_behaviours(run, seqs, nspell, web_every):
    out = []
    for i, seq in enumerate(seqs):
        rng = random.Random("%d/css/%d" % (run.seed, i))
        cases = []
        for j in range(nspell):
            variant = CSS_VARIANTS[(i + j + run.seed) % len(CSS_VARIANTS)] if j else "dq"
            css = spell_css(seq, rng)
            cases.append({"sp": "style-" + variant, "via": "html", "b64": b64(wrap_style(css, rng, variant))})
        if web_every and i % web_every == run.seed % web_every:
            cases.append({"sp": "web", "via": "web", "b64": cases[0]["b64"], "txt64": b64("style case %d" % i)})
        out.append({"id": "css-%d" % i, "kind": "css", "abs": seq, "cases": cases})
    return out


def html_behaviours(run, docs, nspell, web_every):
    out = []
    for i, doc in enumerate(docs):
        rng = random.Random("%d/html/%d" % (run.seed, i))
        cases = []
        if len(doc) == 1:
            # a single node: every spelling of its class
            for k, f in enumerate(node_variants(doc[0]["c"])):
                for nesting in ("well", "unclosed"):
                    cases.append({"sp": "%s#%d-%s" % (doc[0]["c"], k, nesting), "via": "html",
                                  "b64": b64(build_doc(doc, lambda c, f=f: f(rng), nesting, rng))})
        else:
            for j in range(nspell):
                nesting = "well" if j == 0 else rng.choice(["well", "unclosed", "misnested"])
                pick = lambda c: rng.choice(node_variants(c))(rng)
                cases.append({"sp": "mix%d-%s" % (j, nesting), "via": "html", "b64": b64(build_doc(doc, pick, nesting, rng))})
        if web_every and i % web_every == run.seed % web_every:
            cases.append({"sp": "web", "via": "web", "b64": cases[0]["b64"], "txt64": b64(spell_text(rng.choice([["plain", "lf", "url", "sp", "plain"], ["lt", "plain", "gt", "crlf", "plain", "amp", "dq"]]), rng))})
        out.append({"id": "html-%d" % i, "kind": "html", "abs": doc, "cases": cases})
    return out


def text_behaviours(run, seqs, nspell, web_every):
    out = []
    for i, seq in enumerate(seqs):
        rng = random.Random("%d/text/%d" % (run.seed, i))
        cases = [{"sp": "t%d" % j, "via": "text", "b64": b64(spell_text(seq, rng))} for j in range(nspell)]
        if web_every and i % web_every == run.seed % web_every:
            cases.append({"sp": "web", "via": "web", "b64": "", "txt64": b64(spell_text(seq, rng) or b"x")})
        out.append({"id": "text-%d" % i, "kind": "text", "abs": seq, "cases": cases})
    return out


# ----------------------------------------------------------------------------- replay + validation
MAX_REPORTED = 4     # violations of one kind (invariant, entry point) written out per run; the others are counted in the log
FORBIDDEN = {"script", "style", "frame", "iframe", "object", "form"}
WIDER = {"frameset", "embed", "applet", "input", "button", "select", "textarea", "option", "svg", "math", "link", "meta", "base", "noscript", "template"}


def carries_active(p, allowed):
    """evidence accounting only (never a verdict): does this INPUT projection carry something the property forbids?"""
    return bool(FORBIDDEN & set(p["elems"]) or any(re.fullmatch(r"on[a-z]+", a) for a in p["attrs"]) or "javascript" in p["schemes"]
                or set(p["props"]) - set(allowed))


def account(run, trace_file, allowed, stats):
    """reads the recorded trace for the evidence file: counts, non-vacuity, observations outside the contract"""
    for line in open(trace_file):
        e = json.loads(line)
        a = e["a"]
        if a == "harness-error":
            raise Inconclusive("harness error in behaviour %s: %s" % (e.get("t"), e.get("err")))
        if a == "reset":
            continue
        stats["events"] += 1
        stats["by_kind"][a] = stats["by_kind"].get(a, 0) + 1
        if a in ("html", "web"):
            key = e.get("in") or e.get("inhtml")
            out = e["out"] if a == "html" else e["html"]
            stats["out_elems"].update(out["elems"])
            stats["out_attrs"].update(out["attrs"])
            stats["out_props"].update(out["props"])
            stats["out_schemes"].update(out["schemes"])
            if carries_active(e["inp"], allowed):
                stats["nontrivial"].add(key)
                for name, hit in (("elements", bool(FORBIDDEN & set(e["inp"]["elems"]))), ("handlers", any(re.fullmatch(r"on[a-z]+", x) for x in e["inp"]["attrs"])),
                                  ("jsurls", "javascript" in e["inp"]["schemes"]), ("props", bool(set(e["inp"]["props"]) - set(allowed)))):
                    if hit:
                        stats["exercised"][name] = stats["exercised"].get(name, 0) + 1
        if a in ("text", "web"):
            key = e.get("in") or e.get("intext")
            raw = e.get("raw") or e.get("rawtext")
            out = e["out"] if a == "text" else e["text"]
            if raw != key:
                stats["nontrivial"].add("T" + key)
            if "javascript" in out["schemes"]:
                stats["text_js_anchors"] += 1
                if len(stats["text_js_samples"]) < 3:
                    stats["text_js_samples"].append({"in": key, "out": raw})


def replay_and_validate(run, vh, behaviours, label, allowed, stats):
    if not behaviours:
        return
    crashes = []
    tf = run.harness_parallel(vh, "sanitize", behaviours, label, crashes=crashes)
    for c in crashes:
        b = c["behaviour"]
        run.violation("C18 sanitising never fails or panics: the process died (%s) while sanitising case %s %s" % (
            "; ".join(c["signature"]) or "rc=%d" % c["rc"], b["id"], json.dumps(b["abs"])), {"behaviour": b, "crash": c, "replay_kind": "sanitize"})
    account(run, tf, allowed, stats)
    res = run.validate("SanitizeTrace", TRACE_CFG % dict(allowed=q(allowed)), tf)
    run.cov["evaluations"] += sum(len(b["cases"]) for b in behaviours)
    byid = {b["id"]: b for b in behaviours}
    for r in res["rejections"]:
        b = byid.get(r["trace"], {})
        ev = r["rejected_event"]
        kind = (r.get("invariant"), ev.get("a"))
        stats["rejected"][kind] = stats["rejected"].get(kind, 0) + 1
        if stats["rejected"][kind] > MAX_REPORTED:
            continue            # counted in rejections_by_kind, not written out one by one
        case = (b.get("cases") or [{}] * (ev.get("i", 0) + 1))[ev.get("i", 0)]
        shown = {k: ev.get(k) for k in ("in", "raw", "inhtml", "intext", "rawhtml", "rawtext", "err", "panic", "status") if ev.get(k) not in (None, "")}
        what = "C18 %s violated by %s of case %s %s (spelling %s): %s" % (
            (r.get("invariant") or "contract").replace("C18_", ""), {"html": "sanitize.HTML", "text": "web.TextToHTML", "web": "the web UI message endpoint"}.get(ev.get("a"), ev.get("a")),
            b.get("id"), json.dumps(b.get("abs")), ev.get("sp"), json.dumps(shown)[:900])
        run.violation(what, {"behaviour": dict(b, cases=[case]), "rejection": r, "replay_kind": "sanitize"})
    return res


def new_stats():
    return {"events": 0, "by_kind": {}, "out_elems": set(), "out_attrs": set(), "out_props": set(), "out_schemes": set(), "nontrivial": set(),
            "exercised": {}, "text_js_anchors": 0, "text_js_samples": [], "rejected": {}}


def finish_stats(run, stats, allowed):
    run.cov["distinct_nontrivial"] += len(stats["nontrivial"])
    run.cov["observations_by_kind"] = stats["by_kind"]
    run.cov["inputs_carrying_forbidden_content"] = stats["exercised"]
    run.cov["output_elements_seen"] = sorted(stats["out_elems"])
    run.cov["output_attributes_seen"] = sorted(stats["out_attrs"])
    run.cov["output_style_properties_seen"] = sorted(stats["out_props"])
    run.cov["output_url_schemes_seen"] = sorted(stats["out_schemes"])
    wider = sorted(WIDER & stats["out_elems"])
    notes = []
    if wider:
        notes.append("elements of a wider reading of 'frame, object or form elements' survive sanitising (not judged): %s" % wider)
    if stats["text_js_anchors"]:
        notes.append("web.TextToHTML wraps javascript: (and any scheme:) text in an anchor the server generates itself: %d observations, e.g. %s; "
                     "the statement allows 'the anchors the server itself generated', so this is NOT judged, but such a link is clickable in the UI"
                     % (stats["text_js_anchors"], json.dumps(stats["text_js_samples"][:1])))
    run.cov["observations_outside_contract"] = notes
    run.cov["rejections_by_kind"] = {"%s/%s" % k: v for k, v in stats["rejected"].items()}
    if stats["rejected"]:
        run.log("rejections by kind (at most %d of a kind are written out as replay files): %s" % (MAX_REPORTED, run.cov["rejections_by_kind"]))
    for n in notes:
        run.log("NOTE (not a verdict): " + n)


def replay_file(run, args):
    d = json.load(open(args.replay))
    vh = run.build_harness()
    allowed = read_allowlist()
    stats = new_stats()
    replay_and_validate(run, vh, [d["behaviour"]], "replay", allowed, stats)
    run.cov["distinct_nontrivial"] = max(2, len(stats["nontrivial"]))
    run.cov["samples"] = [d["behaviour"].get("abs")]
    run.cov["rule"] = "replay of one recorded case"


def sample(b):
    c = b["cases"][len(b["cases"]) // 2]
    return {"abstract": b["abs"], "spelling": c["sp"], "input": base64.b64decode(c["b64"]).decode("utf-8", "replace")}


# --------------------------------------------------------------------------- C18
def c18(run, args):
    if args.replay:
        return replay_file(run, args)
    quick = run.tier == "quick"
    vh = run.build_harness()
    allowed = read_allowlist()
    run.log("allow-list of %d CSS properties read from css.go" % len(allowed))

    # stage 2: the filter x reader product automaton, no history: every token-class sequence of every length (open blocks <= 3)
    run.model_check("GenSanitize", gen_cfg(allowed, "css", CSS_ALL, 0, 3, False), label="GenSanitize(style filter x declaration reader)")

    # stage 3: bounded-exhaustive enumeration of the three abstract languages
    css = run.generate("GenSanitize", gen_cfg(allowed, "css", CSS_ALL, 3 if quick else 4, 0, True), workers=8)
    css_core = run.generate("GenSanitize", gen_cfg(allowed, "css", CSS_CORE, 5 if quick else 6, 0, True), workers=8)
    seen = {tuple(s) for s in css}
    css += [s for s in css_core if tuple(s) not in seen]
    docs = run.generate("GenSanitize", gen_cfg(allowed, "html", NODE_ALL, 2 if quick else 3, 2, True), workers=8)
    if quick:
        seen = {json.dumps(d, sort_keys=True) for d in docs}
        docs += [d for d in run.generate("GenSanitize", gen_cfg(allowed, "html", NODE_CORE, 3, 2, True), workers=8)
                 if json.dumps(d, sort_keys=True) not in seen]
    texts = run.generate("GenSanitize", gen_cfg(allowed, "text", TEXT_ALL, 2 if quick else 3, 0, True), workers=8)
    seen = {tuple(s) for s in texts}
    texts += [s for s in run.generate("GenSanitize", gen_cfg(allowed, "text", TEXT_CORE, 4 if quick else 5, 0, True), workers=8) if tuple(s) not in seen]
    run.cov["exhaustive"] = True
    run.cov["abstract_cases"] = {"css_token_sequences": len(css), "html_documents": len(docs), "text_sequences": len(texts)}

    stats = new_stats()
    beh_css = css_behaviours(run, css, 2 if quick else 3, 16 if quick else 8)
    beh_html = html_behaviours(run, docs, 2 if quick else 3, 16 if quick else 8)
    beh_text = text_behaviours(run, texts, 1 if quick else 2, 16 if quick else 8)
    run.cov["samples"] = [sample(beh_css[len(beh_css) // 2]), sample(beh_html[len(beh_html) // 2]), sample(beh_html[-1]), sample(beh_text[len(beh_text) // 3])]
    replay_and_validate(run, vh, beh_css, "css", allowed, stats)
    replay_and_validate(run, vh, beh_html, "html", allowed, stats)
    replay_and_validate(run, vh, beh_text, "text", allowed, stats)
    finish_stats(run, stats, allowed)
    run.cov["rule"] = (
        "TLC enumerates completely (a) every CSS token-class sequence over 16 classes up to length %d and over the 8 core classes up to length %d, "
        "(b) every abstract HTML document (preorder forest, nesting level <= 2) over 22 node classes with <= %d nodes%s, (c) every text-class sequence over 16 classes "
        "up to length %d and over 9 core classes up to length %d.  Each abstract case is spelled as bytes in several seed-chosen ways (single-node documents: every "
        "spelling of the class, well-formed and unclosed); sanitize.HTML / web.TextToHTML are called on every spelling and the web UI message endpoint on a "
        "rotating 1/%d of the cases (message stored through the real StoreManager, MIME multipart, base64).  The real output is re-parsed by a tree-building "
        "HTML parser (scripting on and off) and an independent CSS declaration-list parser into a projection, and TLC evaluates NoActiveElements, NoHandlerAttrs, "
        "NoScriptUrls, StylePropsAllowed, TextFullyEscaped, NeverFails on every observation.  evaluations = observations (calls of the real code); "
        "non-trivial = the INPUT's own projection carries something the property forbids (forbidden element, on* attribute, javascript: URL, property off the "
        "allow-list), or for text the rendering differs from the input (something was escaped, linked or broken); distinct = distinct input bytes"
        % ((3, 5, 2, " plus 10 core classes with 3 nodes", 2, 4, 16) if quick else (4, 6, 3, "", 3, 5, 8)))
    run.assumptions += [
        "exploration level: the class alphabets do not distinguish every byte pattern; a defect that needs a spelling outside the pools of checks/sanitize.py is out of reach",
        "the projection trusts golang.org/x/net/html's tree builder as the browser-like reading and the declaration-list parser of harness/cmd/vh/sanitize.go (CSS Syntax 3)",
        "forbidden elements are read narrowly: script, style, frame, iframe, object, form; event-handler attribute = on + letters; URL attributes: href, src, cite, action, "
        "formaction, data, poster, background, longdesc, codebase, manifest, xlink:href, lowsrc, dynsrc",
        "the CSS allow-list is read from pkg/webui/sanitize/css.go of the tree under test (the property says 'on the allow-list')",
        "scheme of the anchors web.TextToHTML generates itself is not judged (the statement allows the server's own anchors); see observations_outside_contract",
    ]
