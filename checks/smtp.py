"""SMTP-level checks (C01, C03, C05, C06): TLC generates abstract dialogues from GenSmtp.tla,
this module spells them as concrete protocol lines (the only place where abstract classes
become bytes), `vh smtp' plays them against the real server, and TLC validates the recorded
traces against Smtp.tla / Policy.tla with SmtpTrace.tla.
"""
import hashlib
import json
import random
import re

from lib.vlib import Inconclusive

ALL_CMDS = ["helo", "mail", "rcpt", "data", "dataarg", "rset", "noop", "vrfy", "unimpl", "unknown", "short", "empty",
            "garbage", "long", "starttls", "authother", "authplainnoarg", "authbare", "authplain", "authlogin", "quit"]

GEN_CFG = """SPECIFICATION GSpec
CONSTANTS
  Mailbox = {"A", "B", "C"}
  Cmds = {%(cmds)s}
  MailKinds = {%(mailkinds)s}
  RcptKinds = {%(rcptkinds)s}
  BodyKinds = {%(bodykinds)s}
  HookKinds = {%(hookkinds)s}
  MaxRcpts = {%(maxrcpts)s}
  TlsModes = {%(tlsmodes)s}
  Depth = %(depth)d
  Record = %(record)s
%(constraint)s
INVARIANTS %(invariants)s
%(properties)s
CHECK_DEADLOCK FALSE
"""

TRACE_CFG = """SPECIFICATION TraceSpec
CONSTANT Mailbox = {%(mbs)s}
INVARIANTS TypeOK EnvelopeOnlyInTransaction DataNeedsRecipient RcptCountBounded
POSTCONDITION TraceAccepted
CHECK_DEADLOCK FALSE
"""


def q(xs):
    return ", ".join(json.dumps(x) if isinstance(x, str) else str(x) for x in xs)


def gen_cfg(cmds, depth, mode, mailkinds=("ok",), rcptkinds=("a1", "b"), bodykinds=("ok",), hookkinds=("none",), maxrcpts=(3,),
            start_in_tx=False, bound="Bound", only_ok=False, tlsmodes=("off",)):
    """mode: mc (exhaustive check of the contract model, no history) | bfs (every sequence to depth) |
    tour (every edge of the state graph once, with characterising suffix) | sim (for -simulate)"""
    record = mode != "mc"
    d = dict(cmds=q(cmds), mailkinds=q(mailkinds), rcptkinds=q(rcptkinds), bodykinds=q(bodykinds), hookkinds=q(hookkinds),
             maxrcpts=q(maxrcpts), tlsmodes=q(tlsmodes), depth=depth, record="TRUE" if record else "FALSE", constraint="", properties="")
    if mode == "mc":
        d["constraint"] = "CONSTRAINT " + bound
        d["invariants"] = "TypeOK EnvelopeOnlyInTransaction DataNeedsRecipient RcptCountBounded DeliveryExact DiscardedNeverStored"
        d["properties"] = "PROPERTIES MailOnlyAfterGreeting RcptOnlyInTransaction EnvelopeDiscarded StepProps"
    elif mode in ("tour", "tour2"):
        d["constraint"] = "CONSTRAINT %s\nVIEW %s" % (bound, "TourView" if mode == "tour" else "TourView2")
        d["invariants"] = "EmitTour"
    else:
        d["invariants"] = "Emit"
    return (GEN_CFG % d).replace("  Record = ", "  StartInTx = %s\n  OnlyOk = %s\n  Record = " % ("TRUE" if start_in_tx else "FALSE", "TRUE" if only_ok else "FALSE"))


# ----------------------------------------------------------------------------- concretisation
def canon(b):
    out = re.sub(rb"\r*\n", b"\n", b)
    if out.endswith(b"\n"):
        out = out[:-1]
    return out


def bodyhash(data):
    return hashlib.sha256(canon(data)).hexdigest()[:16]


def dot_stuff(data):
    """what a correct client transmits for `data` (which ends with CRLF): dot-stuffed + terminator"""
    out = re.sub(rb"(^|\n)\.", rb"\1..", data)
    if not out.endswith(b"\r\n"):
        out += b"\r\n"
    return out + b".\r\n"


def latin(b):
    return b.decode("latin-1")


def mixcase(s, rng):
    return "".join(c.upper() if rng.random() < 0.5 else c.lower() for c in s)


class Concretiser:
    """Spells abstract SMTP commands as lines for one configuration."""

    def __init__(self, rng, naming="local", policy=None, max_rcpt=3, max_bytes=100000, mixed_verbs=True, hook=None):
        self.rng = rng
        self.naming = naming
        self.max_rcpt = max_rcpt
        self.max_bytes = max_bytes
        self.mixed = mixed_verbs
        self.policy = policy or dict(defaultAccept=True, accept=[], reject=["reject.example"], defaultStore=True, store=[],
                                     discard=["discard.example"], rejectOrigin=["*.spam.example"])
        self.hook = hook
        self.nbody = 0
        self.mixed_cfg = False
        self.fail_mailbox = ""    # fault injection: the store refuses deliveries to this mailbox
        self.tls = False          # STARTTLS configured (the driver creates certificate and key)
        self.origins = None       # C05: sender domains to rotate through for accepted-syntax MAIL commands
        self.norigin = 0
        # recipient classes: address, domain
        self.rc = {
            "a1": ("alice", "store.example", "alice@store.example"),
            "a2": ("alice", "store.example", "Alice+tag@store.example"),
            "b": ("bob", "store2.example", "bob@store2.example"),
            "c": ("carol", "discard.example", "carol@discard.example"),
            "rej": ("dave", "reject.example", "dave@reject.example"),
            "bad": ("", "", "bad..addr@store.example"),
        }

    def mailbox(self, local, dom):
        return {"local": local, "full": local + "@" + dom, "domain": dom}[self.naming]

    def mailboxes(self):
        return sorted({self.mailbox(l, d) for (l, d, _) in self.rc.values() if l})

    def env(self):
        p = self.policy
        b = lambda x: "true" if x else "false"
        e = {
            "INBUCKET_MAILBOXNAMING": self.naming,
            "INBUCKET_SMTP_DEFAULTACCEPT": b(p["defaultAccept"]),
            "INBUCKET_SMTP_DEFAULTSTORE": b(p["defaultStore"]),
            "INBUCKET_SMTP_MAXRECIPIENTS": str(self.max_rcpt),
            "INBUCKET_SMTP_MAXMESSAGEBYTES": str(self.max_bytes),
            "INBUCKET_SMTP_DOMAIN": "inbucket.test",
        }
        for k, env in (("accept", "ACCEPTDOMAINS"), ("reject", "REJECTDOMAINS"), ("store", "STOREDOMAINS"),
                       ("discard", "DISCARDDOMAINS"), ("rejectOrigin", "REJECTORIGINDOMAINS")):
            if p[k]:
                e["INBUCKET_SMTP_" + env] = ",".join(self.spell_cfg(d) for d in p[k])
        return e

    def spell_cfg(self, d):
        return mixcase(d, self.rng) if self.mixed_cfg else d

    def cfg(self):
        p = dict(self.policy)
        p.pop("_doms", None)
        p["rejectOrigin"] = [list(x) for x in p["rejectOrigin"]]
        return {"policy": p, "maxRcpt": self.max_rcpt, "maxBytes": self.max_bytes, "naming": self.naming, "failMailbox": self.fail_mailbox, "tls": self.tls}

    def verb(self, v):
        return mixcase(v, self.rng) if self.mixed else v

    def line(self, abs_, text):
        return {"kind": "line", "abs": abs_, "send": latin(text.encode("latin-1") if isinstance(text, str) else text) + "\r\n"}

    def step(self, a):
        c = a["c"]
        rng = self.rng
        if c == "helo":
            return self.line(a, self.verb(a["verb"]) + (" client.example" if a["arg"] else ""))
        if c == "mail":
            k = a["k"]
            dom = "origin.example"
            addr = "sender@" + dom
            abs_ = dict(c="mail", syntax=True, sizeparse=True, addrok=True)
            params = ""
            if k == "badsyntax":
                abs_["syntax"] = False
                text = "%s FROM:%s" % (self.verb("MAIL"), addr)
                abs_.update(sender={"addr": "<%s>" % addr}, domchars=list(dom))
                return self.line(abs_, text)
            if k == "sizebig":
                # also the values at which a 32- or 64-bit parse or conversion wraps around (RFC 1870: up to 20 digits)
                v = rng.choice([self.max_bytes + 1, 2 * self.max_bytes, 10 * self.max_bytes, self.max_bytes + 1, 2 ** 31 - 1, 2 ** 31, 2 ** 32 + 1,
                                2 ** 63 - 1, 2 ** 63, 2 ** 64 - 1, 2 ** 64 + 1, 10 ** 20 - 1])
                abs_["declared"] = min(v, 2 ** 31 - 1)       # TLC integers are 32 bit: the abstraction only needs "above the limit"
                # the oversize declaration alone, ahead of and behind other parameters
                params = rng.choice([" SIZE=%d", " SIZE=%d", " SIZE=%d BODY=8BITMIME", " BODY=7BIT SIZE=%d", " SIZE=%d AUTH=<>", " AUTH=<> SIZE=%d BODY=8BITMIME",
                                     # a MAIL line longer than 512 octets (ESMTP parameters may make it so): the declaration comes last
                                     " BODY=8BITMIME ENVID=" + "x" * 500 + " SIZE=%d"]) % v
            elif k == "sizeok":
                abs_["declared"] = rng.choice([1, self.max_bytes // 2, self.max_bytes - 1, self.max_bytes])
                params = rng.choice([" SIZE=%d BODY=8BITMIME", " SIZE=%d", " BODY=7BIT SIZE=%d"]) % abs_["declared"]
            elif k == "paramok":
                params = rng.choice([" BODY=8BITMIME", " AUTH=<>", " BODY=7BIT AUTH=<>"])
            elif k == "sizebad":
                abs_["sizeparse"] = False
                params = " SIZE=12x4"
            elif k == "badaddr":
                abs_["addrok"] = False
                addr = "bad..sender@" + dom
            elif k == "origin":
                dom = "mail.spam.example"
                addr = "sender@" + dom
            elif k == "null":
                addr, dom = "", ""
            elif self.origins:
                dom = self.origins[self.norigin % len(self.origins)]
                self.norigin += 1
                addr = "sender@" + spell_domain(dom, rng)
            abs_.update(sender={"addr": ("<%s>" % addr) if addr else ""}, domchars=list(dom))
            if a.get("hook", "none") != "none":
                abs_["hook"] = self.hook_answer(a["hook"])
            return self.line(abs_, "%s %s:<%s>%s" % (self.verb("MAIL"), self.verb("FROM"), addr, params))
        if c == "rcpt":
            k = a["k"]
            local, dom, addr = self.rc[k]
            abs_ = dict(c="rcpt", valid=(k != "bad"), dom=dom, addr="<%s>" % addr, mbox=self.mailbox(local, dom) if local else "")
            if a.get("hook", "none") != "none":
                abs_["hook"] = self.hook_answer(a["hook"])
            return self.line(abs_, "%s %s:<%s>" % (self.verb("RCPT"), self.verb("TO"), addr))
        if c == "data":
            return self.line(dict(c="data", arg=a["arg"]), self.verb("DATA") + (" now" if a["arg"] else ""))
        if c == "body":
            return self.body(a["k"])
        simple = {
            "rset": "RSET", "noop": "NOOP", "vrfy": "VRFY someone", "unimpl": rng.choice(["SEND x", "SOML", "SAML", "EXPN list", "HELP", "TURN"]),
            "unknown": rng.choice(["FOOB", "XYZZY arg", "MAILX FROM:<a@b.c>", "RCPTT"]), "short": rng.choice(["HI", "A B", "OK."]),
            "empty": "", "garbage": "\x00\x01\xfe\xff\x80 \x7f\x1b[2J", "long": "XLONG" + "x" * 70000,
            "starttls": "STARTTLS", "authother": "AUTH CRAM-MD5", "authplainnoarg": "AUTH PLAIN", "authbare": rng.choice(["AUTH", "AUTH ", "AUTH    "]), "authplain": "AUTH PLAIN dGVzdAB0ZXN0AHRlc3Q=",
            "authlogin": "AUTH LOGIN", "cred": "dXNlcg==", "credquit": "QUIT", "credempty": "", "quit": "QUIT",
        }
        text = simple[c]
        if c in ("rset", "noop", "vrfy", "starttls", "quit", "authlogin", "authplain") and self.mixed:
            parts = text.split(" ", 1)
            text = mixcase(parts[0], rng) + ("" if len(parts) == 1 else " " + parts[1])
        return self.line(dict(c=c), text)

    def hook_answer(self, h):
        return {"defer": {"action": "defer"}, "allow": {"action": "allow"},
                "deny": {"action": "deny", "code": 550, "text": "denied by hook"}}[h]

    def body(self, k):
        self.nbody += 1
        n = self.nbody
        rng = self.rng
        subject = "subject %d %s" % (n, rng.choice(["plain", "with: colon", "x" * 30]))
        abs_ = dict(c="body", parse=True, fromhdr="", tohdr=False, to=[], subject="")
        lines = []
        if k in ("ok", "big", "fitlarge"):
            abs_.update(fromhdr="Header From <hf%d@h.example>" % n, tohdr=True, to=["<t1@x.example>", "Tee Two <t2@x.example>"], subject=subject)
            lines += ["From: Header From <hf%d@h.example>" % n, "To: t1@x.example, Tee Two <t2@x.example>", "Subject: " + subject,
                      "Message-Id: <%d@verif>" % n, ""]
        elif k == "nohdr":
            lines += [""]
        elif k == "unparseable":
            abs_["parse"] = False
            lines += [" continuation line first", "Subject: " + subject, ""]
        lines += ["body line %d" % n, ".leading dot", "..two dots", "", "last line"]
        target = None
        if k == "big":
            target = rng.choice([self.max_bytes + 300, self.max_bytes + 600, 2 * self.max_bytes, 10 * self.max_bytes])
        elif k == "fitlarge":
            target = rng.choice([self.max_bytes - 300, self.max_bytes - 600])
        if target is not None:
            # "size" is read generously: a big body exceeds the limit by >= 300 bytes even when counted with LF
            # line ends (as the server stores it); a fitting one stays >= 300 under it even counted with CRLF
            nl = 1 if k == "big" else 2
            align = rng.choice([0, 1, 2]) if k == "big" else 0   # 1/2: some line ends exactly at the limit (LF / CRLF counting)
            cur = sum(len(x) + nl for x in lines)
            if align and cur + 10 < self.max_bytes:
                anl = align
                acur = sum(len(x) + anl for x in lines)
                while acur + 900 + anl <= self.max_bytes - 5:
                    lines.append("p" * 900)
                    acur += 900 + anl
                lines.append("a" * (self.max_bytes - acur - anl))     # this line ends exactly at max_bytes
                cur = sum(len(x) + nl for x in lines)
            pad = "p" * 900
            while cur + len(pad) + nl <= target:
                lines.append(pad)
                cur += len(pad) + nl
            if target - cur > nl:
                lines.append("q" * (target - cur - nl))
        if k == "big" and target is not None and rng.random() < 0.25:
            # the same excess as empty lines AHEAD of the message (a reader that skips them must still count them)
            small = [x for x in lines if not (x.startswith("p" * 900) or x.startswith("q") or x.startswith("a" * 50))]
            cur = sum(len(x) + 1 for x in small)
            lines = [""] * max(1, target - cur) + small
        data = ("\r\n".join(lines) + "\r\n").encode("latin-1")
        abs_["size"] = len(canon(data)) + 1 if k == "big" else len(data)
        abs_["bodyhash"] = bodyhash(data)
        return {"kind": "body", "abs": abs_, "send": latin(dot_stuff(data))}


def behaviours_from(run, abstract, configs, stores, label):
    """abstract dialogues x configurations x stores -> concrete behaviours for `vh smtp'"""
    out = []
    for i, seq in enumerate(abstract):
        for ci, mk in enumerate(configs(i)):
            for st in stores(i):
                conc = mk(random.Random("%d/%d/%d" % (run.seed, i, ci)))
                steps = [conc.step(a) for a in seq]
                out.append({"id": "%s-%d-%d-%s" % (label, i, ci, st), "store": st, "env": conc.env(), "cfg": conc.cfg(),
                            "names": conc.mailboxes(), "steps": steps, "_abs": seq, "fail_mailbox": conc.fail_mailbox, "tls": conc.tls})
    return out


def replay_and_validate(run, vh, behaviours, label, what_prefix):
    if not behaviours:
        return
    names = sorted({n for b in behaviours for n in b["names"]})
    payload = [{k: v for k, v in b.items() if k != "_abs"} for b in behaviours]
    tf = run.harness_parallel(vh, "smtp", payload, label)
    res = run.validate("SmtpTrace", TRACE_CFG % dict(mbs=q(names)), tf)
    run.cov["evaluations"] += len(behaviours)
    byid = {b["id"]: b for b in behaviours}
    for r in res["rejections"]:
        b = byid.get(r["trace"], {})
        ev = r["rejected_event"]
        what = "%s: store=%s naming=%s: step #%d %s -> reply %s %s: not explained by the Smtp contract (or the store changed in a way it does not allow)" % (
            what_prefix, b.get("store"), b.get("cfg", {}).get("naming"), r["rejected_event_index"],
            json.dumps({k: ev.get(k) for k in ("a", "c", "k", "verb", "arg") if k in ev}), ev.get("code"), ev.get("cls"))
        run.violation(what, {"behaviour": b, "rejection": r, "replay_kind": "smtp"})
    return res


def replay_file(run, args):
    d = json.load(open(args.replay))
    vh = run.build_harness()
    replay_and_validate(run, vh, [d["behaviour"]], "replay", "replay")
    run.cov["samples"] = [d["behaviour"].get("_abs", [])[:12]]
    run.cov["rule"] = "replay of one recorded behaviour"


def nontrivial(seq):
    return sum(1 for a in seq if a["c"] == "body") >= 1 or sum(1 for a in seq if a["c"] in ("mail", "rcpt")) >= 2


POLICIES = [
    dict(defaultAccept=True, accept=[], reject=["reject.example"], defaultStore=True, store=[], discard=["discard.example"], rejectOrigin=["*.spam.example"]),
    dict(defaultAccept=True, accept=[], reject=["reject.example"], defaultStore=False, store=["store.example", "store2.example"], discard=[], rejectOrigin=["*.spam.example"]),
    dict(defaultAccept=False, accept=["store.example", "store2.example", "discard.example"], reject=[], defaultStore=True, store=[], discard=["discard.example"], rejectOrigin=["mail.spam.example"]),
    dict(defaultAccept=False, accept=["store.example", "store2.example", "discard.example"], reject=[], defaultStore=False, store=["store.example", "store2.example"], discard=[], rejectOrigin=["mail.spam.exampl?"]),
]


# --------------------------------------------------------------------------- C01
def c01(run, args):
    if args.replay:
        return replay_file(run, args)
    quick = run.tier == "quick"
    vh = run.build_harness()
    kinds = dict(mailkinds=("ok", "origin", "badsyntax"), rcptkinds=("a1", "a2", "b", "c", "rej", "bad"), bodykinds=("ok", "nohdr", "unparseable"))
    run.model_check("GenSmtp", gen_cfg(ALL_CMDS, 0, "mc", mailkinds=("ok", "badsyntax", "sizebig", "sizebad", "badaddr", "origin"),
                                       rcptkinds=kinds["rcptkinds"], bodykinds=("ok", "nohdr", "unparseable", "big"), maxrcpts=(0, 1, 2, 3)),
                    label="GenSmtp(contract model)")
    core = ["helo", "mail", "rcpt", "data", "rset", "quit"]
    # (1) transition tour: every (contract state, command) edge once, each completed by a delivery that exposes hidden state
    tour = run.generate("GenSmtp", gen_cfg(core + ["noop", "unknown", "empty", "authplain", "authlogin", "dataarg"], 60, "tour",
                                           mailkinds=("ok", "origin"), rcptkinds=("a1", "a2", "c", "rej") if quick else kinds["rcptkinds"],
                                           bodykinds=("ok", "unparseable", "big"), maxrcpts=(2,),
                                           bound="Bound1" if quick else "Bound"), workers=4)
    # (2) every command sequence inside an open transaction, to a bounded depth
    bfs = run.generate("GenSmtp", gen_cfg(["helo", "mail", "rcpt", "data", "rset"], 7, "bfs", mailkinds=("ok",),
                                          rcptkinds=("a1", "a2", "b", "rej") if quick else ("a1", "a2", "b", "c", "rej", "bad"), bodykinds=("ok", "unparseable"), maxrcpts=(3,), start_in_tx=True), workers=8)
    bfs = [x for x in bfs if any(a["c"] == "body" for a in x)]
    ntour = len(tour)
    bfs = tour + bfs
    # (3) long simulated multi-transaction dialogues
    sim = run.generate("GenSmtp", gen_cfg(core + ["noop", "authplain"], 40 if quick else 60, "sim", bodykinds=("ok", "nohdr", "unparseable"), **{k: kinds[k] for k in ("mailkinds", "rcptkinds")}),
                       simulate={"num": 400, "depth": 41 if quick else 61})
    sim = [x for x in sim if sum(1 for a in x if a["c"] == "body") >= 2][:150 if quick else 1500]
    run.cov["distinct_nontrivial"] += len({json.dumps(s, sort_keys=True) for s in bfs + sim if nontrivial(s)})
    run.cov["exhaustive"] = True
    namings = ["local", "full", "domain"]

    def configs(i):
        # quick: one naming mode x one policy per dialogue (rotating); thorough: all 12
        combos = [(n, p) for n in namings for p in range(len(POLICIES))]
        if quick:
            combos = [combos[(i + run.seed) % len(combos)]]
        # the recipient limit of the configuration is the one the sequences were generated for (tour: 2, others: 3)
        mr = 2 if i < ntour else 3

        def mk(rng, n, p):
            c = Concretiser(rng, naming=n, policy=POLICIES[p], max_rcpt=mr, max_bytes=20000 if i < ntour else 100000)
            if (i + run.seed) % 4 == 0:
                # fault injection: the store refuses deliveries to one of the mailboxes (alice's or bob's)
                l_, d_, _ = c.rc[["a1", "b"][(i // 4) % 2]]
                c.fail_mailbox = c.mailbox(l_, d_)
            return c
        return [(lambda rng, n=n, p=p: mk(rng, n, p)) for (n, p) in combos]

    stores = (lambda i: ["mem", "file"][(i + run.seed) % 2:][:1]) if quick else (lambda i: ["mem", "file"])
    beh = behaviours_from(run, bfs, configs, stores, "bfs")
    beh += behaviours_from(run, sim, configs, stores, "sim")
    run.cov["samples"] = [bfs[len(bfs) // 2], sim[0][:14]] if bfs and sim else []
    replay_and_validate(run, vh, beh, "c01", "C01 delivery exactly once per accepted recipient")
    run.cov["rule"] = ("TLC walks every edge (state, command) of the Smtp contract's bounded state graph once (transition tour; each edge is followed by a delivery to a fresh "
                       "recipient so that a stale envelope or a wrong session state becomes visible), enumerates every command sequence inside an open transaction over {EHLO/HELO, MAIL, "
                       "RCPT x 6 recipient classes, DATA, body ok/unparseable (tour: also a body over the size limit, which must be refused and leave no envelope behind), RSET} to the stated depth and simulates multi-transaction dialogues; each is spelled as protocol lines (mixed-case verbs) and played against the real "
                       "server with a real store; after every line the reply class and the whole store (per mailbox: sender, recipients, subject, content hash, size == "
                       "len(source), trace headers present) must be those of Smtp.tla: one new message per accepted storable recipient in the mailbox its address names, nothing otherwise. "
                       "non-trivial = reaches the end of a DATA block or has >= 2 MAIL/RCPT; distinct = distinct abstract dialogue")
    run.assumptions += ["recipient addresses are ordinary (corner cases of naming are C04)", "a store failure in the middle of a multi-recipient fan-out is not injected",
                        "quick tier: one naming mode x policy x store per dialogue (rotating); thorough: all 3 x 4 x 2"]


def report_crashes(run, crashes, what):
    for c in crashes:
        b = c["behaviour"]
        run.violation("%s: the server process died (%s) while handling this dialogue" % (what, "; ".join(c["signature"]) or "rc=%s" % c["rc"]),
                      {"behaviour": b, "crash": {k: c[k] for k in ("rc", "signature", "stderr_tail")}, "replay_kind": "smtp"})


def replay_and_validate_crashes(run, vh, behaviours, label, what_prefix):
    """like replay_and_validate, but a process death is attributed to the dialogue that caused it and reported"""
    if not behaviours:
        return
    names = sorted({n for b in behaviours for n in b["names"]})
    payload = [{k: v for k, v in b.items() if k != "_abs"} for b in behaviours]
    crashes = []
    tf = run.harness_parallel(vh, "smtp", payload, label, crashes=crashes)
    byid = {b["id"]: b for b in behaviours}
    for c in crashes:
        c["behaviour"] = byid.get(c["behaviour"]["id"], c["behaviour"])
    report_crashes(run, crashes, what_prefix)
    res = run.validate("SmtpTrace", TRACE_CFG % dict(mbs=q(names)), tf)
    run.cov["evaluations"] += len(behaviours)
    for r in res["rejections"]:
        b = byid.get(r["trace"], {})
        ev = r["rejected_event"]
        what = "%s: store=%s: step #%d %s -> reply %s %s (returned=%s): not explained by the Smtp contract" % (
            what_prefix, b.get("store"), r["rejected_event_index"],
            json.dumps({k: ev.get(k) for k in ("a", "c", "k", "verb", "arg", "complete") if k in ev}), ev.get("code"), ev.get("cls"), ev.get("returned"))
        run.violation(what, {"behaviour": b, "rejection": r, "replay_kind": "smtp"})
    return res


def cut_variants(beh, every, rng):
    """all behaviours obtained from a valid dialogue by cutting the client stream: steps before the cut are played
    normally, the cut step sends a prefix of its bytes and disconnects.  every: 1 = every byte offset;
    n > 1 = every command boundary +-2 bytes and every n-th byte"""
    out = []
    steps = beh["steps"]
    for j, st in enumerate(steps):
        data = st["send"]
        n = len(data)
        offs = set(range(0, n + 1)) if every == 1 else ({0, 1, 2, n - 2, n - 1, n} | set(range(0, n + 1, every)))
        for p in sorted(o for o in offs if 0 <= o <= n):
            abs_ = dict(st["abs"])
            abs_["complete"] = (p == n)
            abs_["cutat"] = p
            cut = {"kind": "cut", "abs": abs_, "send": data[:p]}
            out.append(dict(beh, id="%s-cut%d.%d" % (beh["id"], j, p), steps=steps[:j] + [cut]))
    return out


# --------------------------------------------------------------------------- C03
def c03(run, args):
    if args.replay:
        return replay_file(run, args)
    quick = run.tier == "quick"
    vh = run.build_harness()
    allmail = ("ok", "badsyntax", "sizebig", "sizebad", "badaddr", "origin", "null", "sizeok", "paramok")
    run.model_check("GenSmtp", gen_cfg(ALL_CMDS, 0, "mc", mailkinds=allmail, rcptkinds=("a1", "a2", "b", "c", "rej", "bad"),
                                       bodykinds=("ok", "nohdr", "unparseable", "big"), maxrcpts=(0, 2) if quick else (0, 1, 2, 3), tlsmodes=("off", "avail")), label="GenSmtp(contract model)")
    # the implementation-shaped model of the session loop (SmtpImpl.tla): every step of it is the contract's action for the same
    # command (label-preserving refinement); its two named deviations must make TLC find the predicted failures
    impl_cfg = lambda a, b: ("SPECIFICATION ISpec\nCONSTANTS\n  Mailbox = {\"A\", \"B\", \"C\"}\n  RsetOpensSession = %s\n  NoResetOn552 = %s\n  TlsConfigured = TRUE\n"
                             "INVARIANTS TypeOK EnvelopeOnlyInTransaction DataNeedsRecipient RcptCountBounded\nPROPERTIES Refines\nCONSTRAINT Bounded\nCHECK_DEADLOCK FALSE\n" % (a, b))
    run.model_check("SmtpImpl", impl_cfg("FALSE", "FALSE"), label="SmtpImpl refines Smtp (command by command)")
    for name, flags in (("RsetOpensSession", ("TRUE", "FALSE")), ("NoResetOn552", ("FALSE", "TRUE"))):
        rc, out, dt = run.tlc("SmtpImpl", impl_cfg(*flags), workers=4, timeout=600, heap="4g")
        predicted = [x for x in ("Refines", "EnvelopeOnlyInTransaction") if ("%s is violated" % x) in out]
        run.cov["stages"].append({"stage": "model-check", "module": "SmtpImpl(%s=TRUE)" % name, "mode": "prediction", "violated_as_predicted": predicted, "wall_s": round(dt, 1)})
        run.log("SmtpImpl with %s: predicted counterexample found for %s" % (name, predicted))
        if not predicted:
            raise Inconclusive("the deviation %s of SmtpImpl no longer produces its predicted failure: model and check have drifted apart" % name)
    # (0) STARTTLS configured: every edge over the commands whose meaning depends on where the session stands; an accepted
    #     STARTTLS is followed by a real TLS negotiation and the dialogue goes on encrypted (it must start over at the greeting)
    tls_cmds = ["helo", "mail", "rcpt", "data", "rset", "noop", "starttls", "authlogin", "quit"]
    tourtls = run.generate("GenSmtp", gen_cfg(tls_cmds, 80, "tour", mailkinds=("ok", "badaddr"), rcptkinds=("a1", "rej"), bodykinds=("ok",), maxrcpts=(2,),
                                              bound="Bound1" if quick else "Bound", tlsmodes=("avail",)), workers=4)
    tourtls = [x for x in tourtls if any(a["c"] == "starttls" for a in x)]
    # (1) every edge of the state graph over the full alphabet (malformed lines, AUTH sub-dialogues, ...)
    tour = run.generate("GenSmtp", gen_cfg(ALL_CMDS, 80, "tour", mailkinds=allmail, rcptkinds=("a1", "rej", "bad") if quick else ("a1", "a2", "c", "rej", "bad"),
                                           bodykinds=("ok", "nohdr", "unparseable", "big"), maxrcpts=(1,) if quick else (2,), bound="Bound1" if quick else "Bound"), workers=4)
    # (2) long random dialogues over the full alphabet
    sim = run.generate("GenSmtp", gen_cfg(ALL_CMDS, 50 if quick else 80, "sim", mailkinds=allmail, rcptkinds=("a1", "a2", "b", "c", "rej", "bad"),
                                          bodykinds=("ok", "nohdr", "unparseable")), simulate={"num": 300, "depth": 51 if quick else 81})
    sim = sim[:150 if quick else 1500]
    # (3) valid multi-transaction dialogues, cut at byte offsets
    valid = run.generate("GenSmtp", gen_cfg(["helo", "mail", "rcpt", "data", "rset", "quit"], 18, "sim", mailkinds=("ok",), rcptkinds=("a1", "b"), bodykinds=("ok",),
                                            only_ok=True), simulate={"num": 3000, "depth": 19, "seed": run.seed + 7})
    valid = [x for x in valid if sum(1 for a in x if a["c"] == "body") >= 2 and x[-1]["c"] == "quit" and len(x) <= 14]
    valid = valid[:3 if quick else 12]
    run.cov["distinct_nontrivial"] += len({json.dumps(x, sort_keys=True) for x in tour + sim if len(x) >= 3})
    run.cov["exhaustive"] = True
    mk = lambda rng: Concretiser(rng, naming="local", policy=POLICIES[0], max_rcpt=3)
    stores = (lambda i: ["mem", "file"][(i + run.seed) % 2:][:1]) if quick else (lambda i: ["mem", "file"])
    mkt = lambda rng: Concretiser(rng, naming="local", policy=POLICIES[0], max_rcpt=1 if quick else 2, max_bytes=5000)
    def mktls(rng):
        c = Concretiser(rng, naming="local", policy=POLICIES[0], max_rcpt=2, max_bytes=5000)
        c.tls = True
        return c
    beh = behaviours_from(run, tour, lambda i: [mkt], stores, "tour")
    # STARTTLS is behaviour the statement of C03 does not mention: its family is judged against the grown contract on its own,
    # a departure is recorded as a note (evidence, NOTE line), not as a violation of C03
    tlsb = behaviours_from(run, tourtls, lambda i: [mktls], stores, "tls")
    if tlsb:
        names = sorted({n for b in tlsb for n in b["names"]})
        ttf = run.harness_parallel(vh, "smtp", [{k: v for k, v in b.items() if k != "_abs"} for b in tlsb], "c03tls")
        tres = run.validate("SmtpTrace", TRACE_CFG % dict(mbs=q(names)), ttf, max_rej=5)
        run.cov["starttls_behaviours"] = len(tlsb)
        tby = {b["id"]: b for b in tlsb}
        for r in tres["rejections"]:
            ev = r["rejected_event"]
            run.note("STARTTLS family (Smtp.tla: StartTLS / Advertised / TlsStep): step #%d %s -> reply %s %s adv=%s upgraded=%s is not what the grown contract allows" % (
                r["rejected_event_index"], json.dumps({k: ev.get(k) for k in ("a", "c", "verb") if k in ev}), ev.get("code"), ev.get("cls"), ev.get("adv"), ev.get("upgraded")),
                {"behaviour": tby.get(r["trace"]), "rejection": r})
    beh += behaviours_from(run, sim, lambda i: [mk], stores, "sim")
    vb = behaviours_from(run, valid, lambda i: [lambda rng: Concretiser(rng, naming="local", policy=POLICIES[0], max_rcpt=3, mixed_verbs=False)],
                         lambda i: ["mem", "file"], "valid")
    # the same valid dialogues from a client that does not wait for the 354 nor for the answer to the end of the data: DATA, the
    # message and the line behind it leave in one write (what `nc < session.txt` does); replies and store must be the same
    pipe = []
    for b in vb:
        pipe.append(dict(b, id=b["id"] + "-pipelined", pipeline=True))
    cuts = []
    for b in vb:
        cuts += cut_variants(b, 5 if quick else 1, random.Random(run.seed))
    run.cov["distinct_nontrivial"] += len(cuts)
    run.cov["cut_points"] = len(cuts)
    run.cov["samples"] = [tour[len(tour) // 2], sim[0][:14], {"cut": cuts[len(cuts) // 2]["id"], "prefix": cuts[len(cuts) // 2]["steps"][-1]["send"][-30:]}] if tour and sim and cuts else []
    replay_and_validate_crashes(run, vh, beh + pipe + cuts, "c03", "C03 SMTP sequencing/isolation/atomicity")
    run.cov["rule"] = ("(1) TLC walks every (state, command) edge of the Smtp contract over the full alphabet (valid, out-of-order, malformed, over-long (70 KB), binary lines, AUTH "
                       "PLAIN/LOGIN sub-dialogues, mixed-case verbs by seed), each followed by a delivery that exposes stale envelope/session state; (2) long simulated dialogues; "
                       "(3) TLC-generated valid multi-transaction dialogues cut after byte offsets of the client stream (quick: every command boundary +-2 and every 5th byte; thorough: every byte). "
                       "Every line must get exactly one well-formed reply of the contract's class; after every line / after the cut the whole store must be the contract's; "
                       "a message is only stored by a completely transmitted DATA block; the server process must survive.  distinct = distinct abstract dialogue / cut point")
    run.assumptions += ["replies are constrained by class (2xx/3xx vs 4xx/5xx) and RFC line grammar, not wording", "over-long lines tested at 70 000 bytes (no 1 MiB line)",
                        "the dialogues run in a child process; a crash is attributed to the dialogue that was running"]


# --------------------------------------------------------------------------- C06
def c06(run, args):
    if args.replay:
        return replay_file(run, args)
    quick = run.tier == "quick"
    vh = run.build_harness()
    mk_ = ("ok", "paramok", "sizeok", "sizebig", "sizebad")
    bk_ = ("ok", "fitlarge", "big")
    run.model_check("GenSmtp", gen_cfg(["helo", "mail", "rcpt", "data", "rset", "quit"], 0, "mc", mailkinds=mk_, rcptkinds=("a1", "b"), bodykinds=bk_, maxrcpts=(2,)),
                    label="GenSmtp(size classes)")
    # 2-switch tour: every pair of consecutive edges (a refused command followed by each other command, ...)
    tour = run.generate("GenSmtp", gen_cfg(["helo", "mail", "rcpt", "data", "rset"], 80, "tour2", mailkinds=mk_, rcptkinds=("a1",), bodykinds=bk_, maxrcpts=(2,),
                                           bound="Bound1" if quick else "Bound"), workers=8)
    tour = [x for x in tour if any(a["c"] == "body" and a["k"] in ("big", "fitlarge") for a in x) or any(a["c"] == "mail" and a["k"] != "ok" for a in x)]
    run.cov["distinct_nontrivial"] += len({json.dumps(x, sort_keys=True) for x in tour})
    run.cov["exhaustive"] = True
    limits = [1000, 5000, 100000] + ([] if quick else [10240000])
    reps = 1 if quick else 2

    def configs(i):
        out = []
        for li, lim in enumerate(limits):
            if lim > 100000 and (i + run.seed) % 2000:
                continue        # the default 10 MB limit: a handful only (bodies of 10-100 MB)
            if lim == 100000 and not quick and (i + run.seed) % 20:
                continue        # thorough walks ~23 000 dialogues: bodies of 0.1-1 MB for one in twenty (memory)
            for r in range(reps if lim < 100000 else 1):
                out.append(lambda rng, lim=lim: Concretiser(rng, naming="local", policy=POLICIES[0], max_rcpt=3, max_bytes=lim))
        return out

    stores = (lambda i: ["mem", "file"][(i + run.seed) % 2:][:1]) if quick else (lambda i: ["mem", "file"])
    beh = behaviours_from(run, tour, configs, stores, "size")
    # a client that does not wait for replies (DATA, the message and the next line in one write), around a refused oversize message
    M, R = {"c": "mail", "k": "ok", "hook": "none"}, lambda k: {"c": "rcpt", "k": k, "hook": "none"}
    D, B = {"c": "data", "arg": False}, lambda k: {"c": "body", "k": k}
    H, Q = {"c": "helo", "verb": "EHLO", "arg": True}, {"c": "quit"}
    templates = [[H, M, R("a1"), D, B("big"), {"c": "rset"}, M, R("b"), D, B("ok"), Q],
                 [H, M, R("a1"), D, B("big"), M, R("a1"), D, B("fitlarge"), Q],
                 [H, M, R("a1"), R("b"), D, B("ok"), M, R("b"), D, B("big"), {"c": "noop"}, M, R("a1"), D, B("ok"), Q]]
    pb = behaviours_from(run, templates, lambda i: [(lambda rng, lim=lim: Concretiser(rng, naming="local", policy=POLICIES[0], max_rcpt=3, max_bytes=lim)) for lim in (1000, 5000)],
                         lambda i: ["mem", "file"], "pipelined")
    for b in pb:
        b["pipeline"] = True
    beh += pb
    run.cov["samples"] = [tour[len(tour) // 2]] if tour else []
    replay_and_validate(run, vh, beh, "c06", "C06 maximum message size")
    run.cov["rule"] = ("TLC walks every edge of the Smtp contract restricted to the size-relevant classes (MAIL with SIZE absent / within / = limit / above / unparsable; "
                       "DATA blocks small / 300-600 bytes under the limit / 300-600 bytes, 2x, 10x over it), each followed by a further small transaction on the same connection "
                       "(the session stays usable); limits 1000, 5000, 100000 bytes (thorough: 100000 for one dialogue in twenty, the default 10240000 for a handful); concrete sizes drawn by seed, two repetitions per edge in the thorough tier. "
                       "MAIL with SIZE > limit must be refused, an oversized DATA block must get a 4xx/5xx reply and store nothing, anything within the limit is accepted and stored")
    run.assumptions += ["sizes within +-300 bytes of the limit are not tested (the size may legitimately be counted with or without CRLF expansion)"]


# --------------------------------------------------------------------------- C05
C05_DOMS = ["d1.example", "d2.example", "d3.example"]
C05_ORIGINS = ["good.example", "spam.example", "a.wild.example", "spa1.example", "wild.example", "[ipv6:2001:db8:bad::1]", "[192.0.2.66]"]
C05_PATTERNS = [[], ["spam.example"], ["*.wild.example"], ["spa?.example"], ["*"], ["spam.example", "*.wild.example"], ["*.example"], ["????.example"],
                ["[ipv6:2001:db8:bad:*", "[192.0.2.66]"]]
# a second set of recipient domains: address literals (the configuration lists name them like any other domain)
C05_DOMS_LIT = ["[ipv6:2001:db8::1]", "[192.0.2.7]", "d3.example"]


def spell_domain(dom, rng):
    """a domain as a client writes it: mixed case; an IPv6 literal keeps its tag as 'IPv6:' and varies the hexadecimal digits"""
    if dom.startswith("[ipv6:"):
        return "[IPv6:" + mixcase(dom[6:], rng)
    return mixcase(dom, rng)


class PolicyConcretiser(Concretiser):
    """recipient classes a1/c/rej are three domains whose treatment depends on the configuration under test;
    domains are spelled in mixed case both in addresses and in the configuration (environment)"""

    def __init__(self, rng, policy, max_rcpt):
        super().__init__(rng, naming="local", policy=policy, max_rcpt=max_rcpt)
        self.mixed_cfg = True
        self.origins = C05_ORIGINS[rng.randrange(len(C05_ORIGINS)):] + C05_ORIGINS
        doms = policy.get("_doms", C05_DOMS)
        self.rc = {
            "a1": ("u1", doms[0], "u1@" + spell_domain(doms[0], rng)),
            "c": ("u2", doms[1], "U2+x@" + spell_domain(doms[1], rng)),
            "rej": ("u3", doms[2], "u3@" + spell_domain(doms[2], rng)),
        }


def c05_policies(quick, seed):
    """bounded lattice of configurations: every combination of (in accept, in reject, in store, in discard) for each domain
    (Latin-square style across the three domains), x both default switches, x reject-origin pattern sets, x recipient limit"""
    out = []
    n = 0
    for j in range(16):
        for da in (True, False):
            for ds in (True, False):
                combos = [(j + 5 * i) % 16 for i in range(3)]
                pol = dict(defaultAccept=da, defaultStore=ds, accept=[], reject=[], store=[], discard=[])
                doms = C05_DOMS_LIT if n % 4 == 1 else C05_DOMS
                if doms is C05_DOMS_LIT:
                    pol["_doms"] = doms
                for d, cb in zip(doms, combos):
                    if cb & 1:
                        pol["accept"].append(d)
                    if cb & 2:
                        pol["reject"].append(d)
                    if cb & 4:
                        pol["store"].append(d)
                    if cb & 8:
                        pol["discard"].append(d)
                pats = C05_PATTERNS if not quick else [C05_PATTERNS[(n + seed) % len(C05_PATTERNS)]]
                mrs = [0, 1, 2, 3] if not quick else [(n + seed) % 4]
                for pt in pats:
                    for mr in mrs:
                        out.append((dict(pol, rejectOrigin=pt), mr))
                n += 1
    return out


WILD_CFG = """SPECIFICATION TraceSpec
POSTCONDITION TraceAccepted
CHECK_DEADLOCK FALSE
"""


def c05(run, args):
    if args.replay:
        return replay_file(run, args)
    quick = run.tier == "quick"
    vh = run.build_harness()
    run.model_check("GenSmtp", gen_cfg(["helo", "mail", "rcpt", "data", "rset", "quit"], 0, "mc", mailkinds=("ok", "origin"), rcptkinds=("a1", "c", "rej"),
                                       bodykinds=("ok",), maxrcpts=(0, 1, 2, 3)), label="GenSmtp(policy classes)")
    # dialogues: every sequence of RCPT (three domains) / DATA / body inside a transaction, to a bounded depth
    dia = run.generate("GenSmtp", gen_cfg(["rcpt", "data"], 7 if quick else 8, "bfs", mailkinds=("ok",), rcptkinds=("a1", "c", "rej"), bodykinds=("ok",),
                                          maxrcpts=(3,), start_in_tx=True), workers=4)
    dia = [x for x in dia if sum(1 for a in x if a["c"] == "rcpt") >= 2]

    def with_bodies(seq):
        # whether DATA is accepted depends on the configuration under test, not on the generator's classes: always offer a
        # body after DATA (the driver sends it only after a 354)
        out = []
        for i, a in enumerate(seq):
            out.append(a)
            if a["c"] == "data" and not (i + 1 < len(seq) and seq[i + 1]["c"] == "body"):
                out.append({"c": "body", "k": "ok"})
        return out
    dia = [with_bodies(x) for x in dia]
    pols = c05_policies(quick, run.seed)
    run.cov["configurations"] = len(pols)
    run.cov["distinct_nontrivial"] += len(pols)
    run.cov["exhaustive"] = True
    per = 30 if quick else 60
    beh = []
    for ci, (pol, mr) in enumerate(pols):
        rng = random.Random("%d/%d" % (run.seed, ci))
        chosen = [dia[(ci * 131 + k * 17 + run.seed) % len(dia)] for k in range(per)]
        for k, seq in enumerate(chosen):
            conc = PolicyConcretiser(random.Random("%d/%d/%d" % (run.seed, ci, k)), pol, mr)
            st = ["mem", "file"][(ci + k) % 2] if quick or k % 4 else "file"
            beh.append({"id": "pol-%d-%d-%s" % (ci, k, st), "store": st, "env": conc.env(), "cfg": conc.cfg(), "names": conc.mailboxes(),
                        "steps": [conc.step(a) for a in seq], "_abs": seq})
    run.cov["samples"] = [{"policy": pols[3][0], "maxRcpt": pols[3][1], "env": beh[3 * per]["env"], "dialogue": beh[3 * per]["_abs"]}]
    replay_and_validate(run, vh, beh, "c05", "C05 domain policy")
    # the same decisions with several sessions at once (the addressing policy is shared by all session goroutines), under the race
    # detector: eight sessions per group against one server, each with its own dialogue; every session must still get its own answers
    vhr = run.build_harness(race=True)
    groups = []
    for g, ci in enumerate(range(0, len(pols), max(1, len(pols) // (4 if quick else 16)))):
        pol, mr = pols[ci]
        if not pol["rejectOrigin"]:
            pol = dict(pol, rejectOrigin=["spam.example", "*.wild.example", "spa?.example"])
        for k in range(8):
            conc = PolicyConcretiser(random.Random("%d/par/%d/%d" % (run.seed, g, k)), pol, mr)
            seq = [{"c": "helo", "verb": "EHLO", "arg": True}]
            for rep in range(10):
                seq += [{"c": "mail", "k": "ok", "hook": "none"}] + list(dia[(g * 53 + k * 7 + rep) % len(dia)][:3]) + [{"c": "rset"}]
            seq.append({"c": "quit"})
            seq = [a for a in seq if a["c"] != "body"]
            groups.append({"id": "par-%d-%d" % (g, k), "group": "g%d" % g, "store": ["mem", "file"][g % 2], "env": conc.env(), "cfg": conc.cfg(),
                           "names": conc.mailboxes(), "novisit": True, "steps": [conc.step(a) for a in seq if a["c"] != "data"], "_abs": seq})
    crashes = []
    gtf = run.harness_parallel(vhr, "smtp", [{k: v for k, v in b.items() if k != "_abs"} for b in groups], "c05par", procs=1, crashes=crashes)
    report_crashes(run, crashes, "C05 concurrent sessions (race detector / crash)")
    gres = run.validate("SmtpTrace", TRACE_CFG % dict(mbs=q(sorted({n for b in groups for n in b["names"]}))), gtf)
    run.cov["evaluations"] += len(groups)
    gby = {b["id"]: b for b in groups}
    for r in gres["rejections"]:
        ev = r["rejected_event"]
        run.violation("C05 concurrent sessions: session %s step #%d %s -> reply %s %s: not the decision the configuration prescribes (sessions share the addressing policy)" % (
            r["trace"], r["rejected_event_index"], json.dumps({k: ev.get(k) for k in ("c", "dom") if k in ev}), ev.get("code"), ev.get("cls")),
            {"behaviour": gby.get(r["trace"]), "rejection": r, "replay_kind": "smtp"})
    # wildcard table: every pattern of length <= 4 over {a,b,.,*,?} against every string of length <= 4 over {a,b,.}
    import itertools
    pal, sal = "ab.*?", "ab."
    maxp = 4
    pats = [""] + ["".join(t) for n in range(1, maxp + 1) for t in itertools.product(pal, repeat=n)]
    strs = [""] + ["".join(t) for n in range(1, 5) for t in itertools.product(sal, repeat=n)]
    if quick:
        strs = [s_ for s_ in strs if len(s_) <= 3]
    pairs = [[p_, s_] for p_ in pats for s_ in strs]
    chunks = [{"id": "w%d" % i, "pairs": pairs[i::16]} for i in range(16)]
    tf = run.harness_parallel(vh, "wild", chunks, "wild")
    res = run.validate("WildcardTrace", WILD_CFG, tf)
    run.cov["evaluations"] += len(pairs)
    run.cov["wildcard_pairs"] = len(pairs)
    for r in res["rejections"]:
        ev = r["rejected_event"]
        run.violation("C05 wildcard matching: MatchWithWildcards(%r, %r) = %s differs from the pattern semantics" % ("".join(ev["p"]), "".join(ev["s"]), ev["r"]),
                      {"pair": ev, "replay_kind": "wild"})
    run.cov["rule"] = ("(a) a bounded lattice of configurations (every membership combination of each of three domains in the accept/reject/store/discard lists, both default switches, "
                       "reject-origin pattern sets with exact/*/? patterns, recipient limit 0..3), loaded through config.Process() from the environment with mixed-case spellings; for each, "
                       "TLC-enumerated RCPT/DATA dialogues with mixed-case addresses are played on the real server; TLC computes every accept/reject/store decision with Policy.tla / Wildcard.tla "
                       "and validates replies and the whole store; (b) every wildcard pattern of length <= 4 over {a,b,.,*,?} against every string of length <= 3 (quick) / 4 (thorough) over {a,b,.}: "
                       "TLC evaluates Match and compares with the recorded answer of MatchWithWildcards")
    run.assumptions += ["local mailbox naming (domain-case handling of full/domain naming is C04)", "quick: one pattern set and one recipient limit per configuration (rotating with the seed)"]


# --------------------------------------------------------------------------- C17
LUA_UNIVERSAL = r"""
local function answer(a, sep)
  local function has(t) return string.find(a, sep .. t, 1, true) ~= nil end
  if has("gofirst") then return smtp.allow() end
  if has("allow") then return smtp.allow() end
  if has("denyc") then return smtp.deny(553, "custom text: 100% full; 5%d %s left") end
  if has("deny") then return smtp.deny() end
  if has("defer") then return smtp.defer() end
  if has("nil") then return nil end
  if has("num") then return 42 end
  if has("str") then return "allow" end
  if has("tbl") then return {action = "allow"} end
  if has("err") then error("boom") end
  if has("rterr") then local x = nil; return x.field end
  return nil
end

-- a handler that is going to fail (error, nil, wrong kind of value) first scribbles on what it was given: a handler
-- that did not answer must not have changed the transaction either
local function fails(a, sep)
  for _, t in ipairs({"nil", "num", "str", "tbl", "err", "rterr"}) do
    if string.find(a, sep .. t, 1, true) ~= nil then return true end
  end
  return false
end
local function scribble(session)
  pcall(function()
    if session.from ~= nil then session.from.address = "SCRIBBLED@EVIL.EXAMPLE" end
    for i = 1, #session.to do session.to[i].address = "SCRIBBLED" .. i .. "@EVIL.EXAMPLE" end
  end)
end

function inbucket.before.mail_from_accepted(session)
  if session.from == nil then return nil end
  local a = session.from.address
  if fails(a, "h-") then scribble(session) end
  return answer(a, "h-")
end

function inbucket.before.rcpt_to_accepted(session)
  local last = session.to[#session.to]
  local a = last.address
  if fails(a, "+h-") then scribble(session) end
  return answer(a, "+h-")
end

function inbucket.before.message_stored(msg)
  local s = msg.subject
  local function has(t) return string.find(s, t, 1, true) ~= nil end
  if has("hs-false") then return false end
  if has("hs-rw-all") then
    local res = inbound_message.new()
    res.mailboxes = {"hookbox1", "hookbox2"}
    res.from = address.new("Hook From", "hookfrom@h.example")
    res.to = { address.new("Hook To", "hookto@h.example") }
    res.subject = "hook subject"
    return res
  end
  if has("hs-rw-mbox") then msg.mailboxes = {"hookbox1"}; return msg end
  if has("hs-rw-empty") then msg.mailboxes = {}; return msg end
  if has("hs-rw-subj") then msg.subject = "rewritten subject"; return msg end
  if has("hs-mut-err") then msg.subject = "evil subject"; msg.from.address = "evil@x.example"; msg.to[1].name = "Evil"; error("boom") end
  if has("hs-mut-nil") then msg.subject = "evil subject"; msg.from.address = "evil@x.example"; return nil end
  if has("hs-num") then return 42 end
  if has("hs-str") then return "x" end
  if has("hs-badud") then return address.new("A", "a@b.example") end
  if has("hs-rterr") then local x = nil; return x.field end
  return nil
end
"""
LUA_NO_HANDLERS = "-- no handlers at all\n"
LUA_ECHO = r"""
function inbucket.before.mail_from_accepted(session)
  if string.find(session.from.address, "echo", 1, true) then return smtp.deny(550, "echo " .. session.from.address) end
  return nil
end
function inbucket.before.rcpt_to_accepted(session)
  local last = session.to[#session.to]
  if string.find(last.address, "boom", 1, true) then error("boom") end
  if string.find(last.address, "echo", 1, true) then return smtp.deny(551, "echo " .. session.from.address .. " " .. last.address) end
  return nil
end
function inbucket.before.message_stored(msg)
  msg.subject = "seen by hook: " .. msg.from.address .. " " .. msg.subject
  return msg
end
"""

HOOK_ANSWER = {
    "none": None, "nil": None, "num": None, "str": None, "tbl": None, "err": None, "rterr": None,
    "defer": {"action": "defer"}, "allow": {"action": "allow"},
    "deny": {"action": "deny", "code": 550, "text": "Mail denied by policy"},
    "denyc": {"action": "deny", "code": 553, "text": "custom text: 100% full; 5%d %s left"},
    "gofirst": {"action": "deny", "code": 521, "text": "go first"},
    "golast": {"action": "deny", "code": 522, "text": "go last"},
}
STORE_HOOKS = ["hs-none", "hs-false", "hs-rw-all", "hs-rw-mbox", "hs-rw-empty", "hs-rw-subj", "hs-mut-err", "hs-mut-nil", "hs-num", "hs-str", "hs-badud", "hs-rterr"]


class HookConcretiser(Concretiser):
    """spells hook answer classes into the addresses / subject the universal script keys on"""

    def __init__(self, rng, naming="local", policy=None, max_rcpt=3, with_script=True):
        super().__init__(rng, naming=naming, policy=policy, max_rcpt=max_rcpt)
        self.with_script = with_script

    def mailboxes(self):
        return sorted(set(super().mailboxes()) | {"hookbox1", "hookbox2"})

    def hook_answer(self, h):
        return HOOK_ANSWER[h] if self.with_script else None

    def step(self, a):
        c = a["c"]
        h = a.get("hook", "none")
        if c == "mail" and a["k"] in ("ok", "origin"):
            dom = "origin.example" if a["k"] == "ok" else "mail.spam.example"
            local = "sender" if h == "none" else "h-%s" % h
            addr = "%s@%s" % (local, dom)
            abs_ = dict(c="mail", syntax=True, sizeparse=True, addrok=True, sender={"addr": "<%s>" % addr}, domchars=list(dom))
            ans = self.hook_answer(h)
            if ans:
                abs_["hook"] = ans
            return self.line(abs_, "%s %s:<%s>" % (self.verb("MAIL"), self.verb("FROM"), addr))
        if c == "rcpt" and a["k"] != "bad":
            local, dom, addr = self.rc[a["k"]]
            if h != "none":
                addr = "%s+h-%s@%s" % (local, h, dom)
            abs_ = dict(c="rcpt", valid=True, dom=dom, addr="<%s>" % addr, mbox=self.mailbox(local, dom))
            ans = self.hook_answer(h)
            if ans:
                abs_["hook"] = ans
            return self.line(abs_, "%s %s:<%s>" % (self.verb("RCPT"), self.verb("TO"), addr))
        if c == "body" and a["k"].startswith("hs-"):
            st = super().body("ok")
            k = a["k"]
            # put the key into the subject header
            data = st["send"].encode("latin-1")
            subj = st["abs"]["subject"]
            new_subj = subj + " " + k
            data = data.replace(b"Subject: " + subj.encode(), b"Subject: " + new_subj.encode(), 1)
            st["send"] = latin(data)
            raw = data[:-3]        # without the terminating ".CRLF"
            un = re.sub(rb"(^|\n)\.\.", rb"\1.", raw)
            st["abs"]["subject"] = new_subj
            st["abs"]["size"] = len(un)
            st["abs"]["bodyhash"] = bodyhash(un)
            if self.with_script:
                base = dict(**{"from": st["abs"]["fromhdr"]}, to=st["abs"]["to"], subject=new_subj)
                if k == "hs-rw-all":
                    st["abs"]["hook"] = {"action": "replace", "mailboxes": ["hookbox1", "hookbox2"], "from": "Hook From <hookfrom@h.example>",
                                         "to": ["Hook To <hookto@h.example>"], "subject": "hook subject"}
                elif k == "hs-rw-mbox":
                    st["abs"]["hook"] = dict(base, action="replace", mailboxes=["hookbox1"])
                elif k == "hs-rw-empty":
                    st["abs"]["hook"] = dict(base, action="replace", mailboxes=[])
                elif k == "hs-rw-subj":
                    st["abs"]["hook"] = dict(base, action="replace-keep", subject="rewritten subject")
            return st
        return super().step(a)


def c17(run, args):
    if args.replay:
        return replay_file(run, args)
    quick = run.tier == "quick"
    vh = run.build_harness()
    vhr = run.build_harness(race=True)
    hooks_basic = ("none", "defer", "allow", "deny", "denyc", "nil", "num", "str", "tbl", "err", "rterr")
    hooks_go = hooks_basic + ("gofirst", "golast")
    run.model_check("GenSmtp", gen_cfg(["helo", "mail", "rcpt", "data", "rset", "quit"], 0, "mc", mailkinds=("ok", "origin"), rcptkinds=("a1", "c", "rej"),
                                       bodykinds=("ok",), hookkinds=hooks_go, maxrcpts=(1, 2)), label="GenSmtp(hook answers)")
    # every edge of the contract's state graph with every hook answer on MAIL and RCPT
    tour = run.generate("GenSmtp", gen_cfg(["helo", "mail", "rcpt", "data", "rset"], 80, "tour", mailkinds=("ok", "origin"), rcptkinds=("a1", "c", "rej"),
                                           bodykinds=("ok",), hookkinds=hooks_go, maxrcpts=(1,) if quick else (2,), bound="Bound1"), workers=4)
    # delivery with every before-message-stored variant, after every recipient combination
    deliv = run.generate("GenSmtp", gen_cfg(["rcpt", "data"], 6 if quick else 7, "bfs", mailkinds=("ok",), rcptkinds=("a1", "b", "c"), bodykinds=tuple(STORE_HOOKS),
                                            maxrcpts=(3,), start_in_tx=True), workers=4)
    deliv = [x for x in deliv if any(a["c"] == "body" for a in x)]
    if quick:
        deliv = deliv[run.seed % 3::3]
    run.cov["distinct_nontrivial"] += len({json.dumps(x, sort_keys=True) for x in tour + deliv})
    run.cov["exhaustive"] = True
    beh = []
    for i, seq in enumerate(tour):
        st = ["mem", "file"][(i + run.seed) % 2]
        for variant in (("script", True, True), ("nohandlers", False, False)) if (i % 5 == 0 or not quick) else (("script", True, True),):
            label, with_script, gohooks = variant
            if not with_script and any(a.get("hook") in ("gofirst", "golast") for a in seq):
                continue
            conc = HookConcretiser(random.Random("%d/%d" % (run.seed, i)), policy=POLICIES[i % 2 * 2], max_rcpt=1 if quick else 2, with_script=with_script)
            beh.append({"id": "hk-%d-%s-%s" % (i, label, st), "store": st, "env": conc.env(), "cfg": conc.cfg(), "names": conc.mailboxes(), "gohooks": gohooks,
                        "lua": LUA_UNIVERSAL if with_script else LUA_NO_HANDLERS, "steps": [conc.step(a) for a in seq], "_abs": seq})
    for i, seq in enumerate(deliv):
        st = ["mem", "file"][(i + run.seed) % 2]
        conc = HookConcretiser(random.Random("%d/d%d" % (run.seed, i)), naming=["local", "full", "domain"][i % 3], policy=POLICIES[i % 2], max_rcpt=3)
        beh.append({"id": "hs-%d-%s" % (i, st), "store": st, "env": conc.env(), "cfg": conc.cfg(), "names": conc.mailboxes(), "gohooks": False,
                    "lua": LUA_UNIVERSAL, "steps": [conc.step(a) for a in seq], "_abs": seq})
    run.cov["samples"] = [tour[len(tour) // 2], deliv[len(deliv) // 2]] if tour and deliv else []
    replay_and_validate(run, vh, beh, "c17", "C17 extension hooks")
    # concurrent sessions against one script, under the race detector: no cross-talk
    groups = []
    ng = 3 if quick else 12
    for g in range(ng):
        for k in range(8):
            rng = random.Random("%d/g%d/%d" % (run.seed, g, k))
            me = "echo%d.%d" % (g, k)
            conc = Concretiser(rng, naming="local", policy=POLICIES[0], max_rcpt=3)
            steps = [conc.step({"c": "helo", "verb": "EHLO", "arg": True})]
            # every session first makes the script fail once (an error raised in the recipient hook counts as no answer: the
            # reject policy then refuses the recipient); a failure must not leave anything behind that two later sessions share
            steps.append(conc.line(dict(c="mail", syntax=True, sizeparse=True, addrok=True, sender={"addr": "<first%d.%d@origin.example>" % (g, k)},
                                        domchars=list("origin.example")), "MAIL FROM:<first%d.%d@origin.example>" % (g, k)))
            for boom in range(2):
                steps.append(conc.line(dict(c="rcpt", valid=True, dom="reject.example", addr="<boom%d.%d@reject.example>" % (g, k), mbox="boom"),
                                       "RCPT TO:<boom%d.%d@reject.example>" % (g, k)))
            steps.append(conc.step({"c": "rset"}))
            for rep in range(6):
                deny = {"action": "deny", "code": 550, "text": "echo %s@origin.example" % me}
                steps.append(conc.line(dict(c="mail", syntax=True, sizeparse=True, addrok=True, sender={"addr": "<%s@origin.example>" % me},
                                            domchars=list("origin.example"), hook=deny), "MAIL FROM:<%s@origin.example>" % me))
                ok_sender = "plain%d.%d@origin.example" % (g, k)
                steps.append(conc.line(dict(c="mail", syntax=True, sizeparse=True, addrok=True, sender={"addr": "<%s>" % ok_sender},
                                            domchars=list("origin.example")), "MAIL FROM:<%s>" % ok_sender))
                rc_echo = "echo-r%d.%d@store.example" % (g, k)
                steps.append(conc.line(dict(c="rcpt", valid=True, dom="store.example", addr="<%s>" % rc_echo, mbox="echo-r%d.%d" % (g, k),
                                            hook={"action": "deny", "code": 551, "text": "echo %s %s" % (ok_sender, rc_echo)}), "RCPT TO:<%s>" % rc_echo))
                mine = "box%d.%d" % (g, k)
                steps.append(conc.line(dict(c="rcpt", valid=True, dom="store.example", addr="<%s@store.example>" % mine, mbox=mine), "RCPT TO:<%s@store.example>" % mine))
                steps.append(conc.step({"c": "data", "arg": False}))
                b = conc.body("nohdr")
                b["abs"]["hook"] = {"action": "replace-keep", "from": "<%s>" % ok_sender, "to": ["<%s@store.example>" % mine],
                                    "subject": "seen by hook: %s " % ok_sender}
                steps.append(b)
            steps.append(conc.step({"c": "quit"}))
            groups.append({"id": "par-%d-%d" % (g, k), "group": "g%d" % g, "store": ["mem", "file"][g % 2], "env": conc.env(), "cfg": conc.cfg(),
                           "names": ["box%d.%d" % (g, k)], "novisit": True, "lua": LUA_ECHO, "steps": steps, "_abs": ["8 concurrent sessions, echo script"]})
    crashes = []
    payload = [{k: v for k, v in b.items() if k != "_abs"} for b in groups]
    tf = run.harness_parallel(vhr, "smtp", payload, "c17par", procs=1, crashes=crashes)
    report_crashes(run, crashes, "C17 concurrent sessions (race detector / crash)")
    names = sorted({n for b in groups for n in b["names"]})
    res = run.validate("SmtpTrace", TRACE_CFG % dict(mbs=q(names)), tf)
    run.cov["evaluations"] += len(groups)
    byid = {b["id"]: b for b in groups}
    for r in res["rejections"]:
        ev = r["rejected_event"]
        run.violation("C17 concurrent sessions: session %s step #%d -> reply %s %r: a session saw another session's state (or the hook's answer was not honoured)" % (
            r["trace"], r["rejected_event_index"], ev.get("code"), ev.get("text")), {"behaviour": byid.get(r["trace"]), "rejection": r, "replay_kind": "smtp"})
    run.cov["rule"] = ("one universal Lua script answers according to a key spelled into the sender / recipient address / subject, so that TLC-generated dialogues exercise every answer class "
                       "(allow, deny(), deny(code,msg), defer, nil, number, string, table, error(), runtime error, handler absent) for before.mail_from_accepted and before.rcpt_to_accepted on every edge "
                       "of the contract's state graph (incl. senders/recipients that policy would refuse, the recipient limit, Go listeners ahead of and behind the Lua host for the first-answer rule), "
                       "and every before.message_stored variant (nil, false, replaced message, changed mailboxes, empty mailboxes, changed subject, mutate-then-error, mutate-then-nil, wrong types) after "
                       "every recipient combination; replies (code and text for deny) and the whole store are validated by TLC against Smtp.tla; plus 8 concurrent sessions per group against an echoing "
                       "script under the Go race detector")
    run.assumptions += ["hook answers are scripted by keys in addresses/subjects (one script), not by generating scripts from a grammar", "data races are observed by the race detector, not expressible in TLA+"]
