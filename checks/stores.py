"""Store-level checks: C07 (ordered-mailbox model), C08 (cap / size limit), C10 (reopen).

All three validate traces of the real memory and file stores against the Mailstore
contract (spec/Mailstore.tla) with spec/MailstoreTrace.tla; they differ in the
configurations and behaviours TLC generates.
"""
import json
import random

from lib.vlib import Inconclusive, sha1hex

MC_CFG = """SPECIFICATION MCSpec
CONSTANTS
  Mailbox = {"a", "b"}
  Sizes = {1, 2, 3}
  Metas = {"old", "young"}
  Caps = {%(caps)s}
  Limits = {%(limits)s}
  MaxAdds = %(maxadds)d
INVARIANTS IdsUnique CapInv SizeInv ArrivalInv ResultsInv
PROPERTIES StepPropsHold
CHECK_DEADLOCK FALSE
"""

GEN_CFG = """SPECIFICATION GSpec
CONSTANTS
  Mailbox = {%(mbs)s}
  Sizes = {%(sizes)s}
  Metas = {%(metas)s}
  Depth = %(depth)d
  ReopenCaps = {%(reopen)s}
  Ops = {%(ops)s}
  GenCap = 0
  GenLimit = 0
INVARIANT Emit
CHECK_DEADLOCK FALSE
"""

TRACE_CFG = """SPECIFICATION TraceSpec
CONSTANT Mailbox = {%(mbs)s}
INVARIANTS IdsUnique %(capinv)s SizeInv ArrivalInv
POSTCONDITION TraceAccepted
CHECK_DEADLOCK FALSE
"""


def bucket_pair(prefix_len, rng):
    """two distinct mailbox names whose sha1 hashes share the first prefix_len hex digits
    (3 = same lock bucket / level-1 directory, 6 = same level-2 directory)"""
    seen = {}
    i = rng.randrange(10 ** 6)
    while True:
        name = "u%d" % i
        h = sha1hex(name)[:prefix_len]
        if h in seen:
            return [seen[h], name]
        seen[h] = name
        i += 1


def name_sets(rng):
    return [
        ["alpha", "beta", "gamma"],
        ["user@example.com", "user@example.org", "other@example.com"],
        ["we!rd#$%&'*+-=?^_{|}~.name", "a/b", "x y"],
        bucket_pair(3, rng) + ["plain"],
        bucket_pair(6, rng) + ["plain2"],
    ]


def tla_set(xs):
    return ", ".join(json.dumps(x) if isinstance(x, str) else str(x) for x in xs)


def gen_cfg(nmb, sizes, metas, depth, reopen=(), scan=True, seen=True, ops=None):
    if ops is None:
        ops = ["add", "remove", "purge"] + (["scan"] if scan else []) + (["seen"] if seen else [])
    return GEN_CFG % dict(mbs=tla_set(range(nmb)), sizes=tla_set(sizes), metas=tla_set(metas), depth=depth,
                          reopen=tla_set(reopen), ops=tla_set(ops))


def with_probes(ops, unit, every=1):
    out = []
    for i, o in enumerate(ops):
        o = dict(o)
        o["size"] = o["size"] * unit
        out.append(o)
        if every and (i % every == every - 1 or i == len(ops) - 1):
            out.append({"op": "probe"})
    return out


def is_nontrivial(ops):
    """a behaviour is non-trivial when it delivers at least one message and then
    changes or removes something"""
    kinds = [o["op"] for o in ops]
    return "add" in kinds and any(k in kinds for k in ("remove", "purge", "seen", "scan", "reopen")) or kinds.count("add") >= 2


def replay_and_validate(run, vh, behaviours, label, what_prefix, capinv=True):
    """stage 4 + 5 for a list of concrete store behaviours"""
    if not behaviours:
        return
    names = sorted({n for b in behaviours for n in b["names"]})
    crashes = []
    tf = run.harness_parallel(vh, "store", behaviours, label, crashes=crashes)
    for c in crashes:
        b = c["behaviour"]
        run.violation("%s: the process died (%s) while the %s store (cap=%s maxkb=%s) executed this history" % (
            what_prefix, "; ".join(c["signature"][:1]) or "rc=%s" % c["rc"], b.get("store"), b.get("cap"), b.get("maxkb")),
            {"behaviour": b, "crash": {k: c[k] for k in ("rc", "signature", "stderr_tail")}, "replay_kind": "store"})
    res = run.validate("MailstoreTrace", TRACE_CFG % dict(mbs=tla_set(names), capinv="CapInv" if capinv else ""), tf)
    run.cov["evaluations"] += len(behaviours)
    byid = {b["id"]: b for b in behaviours}
    for r in res["rejections"]:
        b = byid.get(r["trace"], {})
        ev = r["rejected_event"]
        what = "%s: store=%s cap=%s maxkb=%s: event #%d '%s' (result %s) on mailbox %r is not explained by the Mailstore contract" % (
            what_prefix, b.get("store"), b.get("cap"), b.get("maxkb"), r["rejected_event_index"], ev.get("a"), ev.get("r"), ev.get("mb"))
        run.violation(what, {"behaviour": b, "rejection": r, "replay_kind": "store"})
    return res


def concretise(run, abstract, stores, configs, unit, rng, label, probe_every=1):
    """abstract op sequences x stores x configs -> concrete behaviours"""
    sets = name_sets(rng)
    out = []
    for i, ops in enumerate(abstract):
        for st in stores:
            for (cap, maxkb) in configs(i, st):
                names = sets[(i + len(out)) % len(sets)]
                out.append({"id": "%s-%d-%s-c%dk%d" % (label, i, st, cap, maxkb), "store": st, "cap": cap, "maxkb": maxkb,
                            "names": names, "ops": with_probes(ops, unit(i) if callable(unit) else unit, probe_every)})
    return out


def count_distinct(run, abstract):
    keys = {json.dumps(a, sort_keys=True) for a in abstract if is_nontrivial(a)}
    run.cov["distinct_nontrivial"] += len(keys)


def replay_file(run, args):
    d = json.load(open(args.replay))
    vh = run.build_harness()
    b = d["behaviour"]
    res = replay_and_validate(run, vh, [b], "replay", "replay")
    run.cov["samples"] = [b["ops"][:10]]
    run.cov["rule"] = "replay of one recorded behaviour"


# --------------------------------------------------------------------------- C07
def c07(run, args):
    if args.replay:
        return replay_file(run, args)
    quick = run.tier == "quick"
    rng = random.Random(run.seed)
    vh = run.build_harness()
    run.model_check("MCMailstore", MC_CFG % dict(caps="0", limits="0", maxadds=3 if quick else 4), label="MCMailstore(no limits)")
    # bounded-exhaustive mutator sequences (reads are added as probes after every step)
    bfs = run.generate("GenMailstore", gen_cfg(2, [1, 2], [0, 1], 3 if quick else 4))
    sim = run.generate("GenMailstore", gen_cfg(3, [1, 2, 3], [0, 1], 30 if quick else 60),
                       simulate={"num": 150 if quick else 1500, "depth": 31 if quick else 61})
    sim = sim[:100 if quick else 1500]
    count_distinct(run, bfs + sim)
    run.cov["exhaustive"] = True
    beh = concretise(run, bfs, ["mem", "file"], lambda i, st: [(0, 0)], 700, rng, "bfs")
    beh += concretise(run, sim, ["mem", "file"], lambda i, st: [(0, 0)], 700, rng, "sim", probe_every=5)
    # write faults below the store API (file store): while one delivery runs no file may grow beyond a limit (RLIMIT_FSIZE), so the
    # write of the message file fails part-way - in the buffered tail or in the middle of the copy; the delivery must be refused
    # and leave nothing, or be stored whole
    for k, (size, limit) in enumerate([(3000, 2048), (6000, 5096), (20000, 8192), (1500, 1024), (9000, 8192), (4097, 4096), (700, 650)]):
        for pre in (0, 2):
            ops = [{"op": "add", "mb": 0, "meta": 1, "size": 700} for _ in range(pre)]
            ops += [{"op": "addfault", "mb": 0, "meta": 1, "size": size, "limit": limit}, {"op": "probe"},
                    {"op": "add", "mb": 0, "meta": 1, "size": 700}, {"op": "probe"}, {"op": "addfault", "mb": 1, "meta": 1, "size": size, "limit": limit}, {"op": "probe"},
                    # ... and the mailboxes are listed while no further file can be opened (RLIMIT_NOFILE = 0)
                    {"op": "listfault", "mb": 0}, {"op": "listfault", "mb": 1}, {"op": "listfault", "mb": 2}, {"op": "probe"}]
            beh.append({"id": "fault-%d-%d" % (k, pre), "store": "file", "cap": 0, "maxkb": 0, "names": ["alpha", "beta", "gamma"], "ops": ops})
    run.cov["samples"] = [bfs[len(bfs) // 2], sim[0][:12]] if bfs and sim else []
    replay_and_validate(run, vh, beh, "c07", "C07 ordered-mailbox model")
    run.cov["rule"] = ("TLC enumerates every sequence of store mutators (add/seen/remove/purge/scan over 2 mailboxes, id references "
                       "live/removed/never-issued) up to the stated depth plus simulated long histories over 3 mailboxes; each is executed "
                       "on the real memory and file store with all by-id reads probed after every step; every event (result + whole-store "
                       "snapshot) is validated by TLC against Mailstore.tla.  non-trivial = delivers and then changes/removes something, or >= 2 deliveries; "
                       "distinct = distinct abstract operation sequence")
    run.assumptions += ["message content compared by sha256 prefix (64 bit) and length", "mailbox name classes: plain, with @, special characters, "
                        "pair sharing the lock bucket (sha1 prefix 3), pair sharing the level-2 directory (sha1 prefix 6)"]


# --------------------------------------------------------------------------- C08
def c08(run, args):
    if args.replay:
        return replay_file(run, args)
    quick = run.tier == "quick"
    rng = random.Random(run.seed)
    vh = run.build_harness()
    # the contract with every cap x limit combination, all eviction properties as action properties
    run.model_check("MCMailstore", MC_CFG % dict(caps="0, 1, 2", limits="0, 3, 5", maxadds=3 if quick else 4), label="MCMailstore(caps x limits)")
    # size unit 300 bytes: sizes 300/600/900; limits 1 KiB and 2 KiB; caps 0..3
    bfs = run.generate("GenMailstore", gen_cfg(2, [1, 2, 3], [1], 4, scan=False, seen=False))
    # thorough: every depth-4 sequence under EVERY cap x limit combination, plus a seed-chosen sample of the depth-5 sequences
    # (all of them would be ~40 M trace events) under two rotating combinations each
    bfs5 = []
    if not quick:
        bfs5 = run.generate("GenMailstore", gen_cfg(2, [1, 2, 3], [1], 5, scan=False, seen=False))
        bfs5 = [b for b in bfs5 if len(b) == 5]
        rng.shuffle(bfs5)
        bfs5 = bfs5[:20000]
    sim = run.generate("GenMailstore", gen_cfg(3, [1, 2, 3], [1], 120 if quick else 300, scan=False, seen=False),
                       simulate={"num": 100, "depth": 121 if quick else 301})
    sim = sim[:60 if quick else 240]
    count_distinct(run, bfs + bfs5 + sim)
    run.cov["exhaustive"] = True
    caps = [0, 1, 2, 3]
    mem_cfgs = [(c, k) for c in caps for k in (0, 1, 2)]
    file_cfgs = [(c, 0) for c in caps]

    def rotating(i, st, n=2):
        all_ = mem_cfgs if st == "mem" else file_cfgs
        return [all_[(i * (1 + 6 * j) + 3 * j + run.seed) % len(all_)] for j in range(n)]

    def cfgs_for(i, st):
        # quick: two configurations per behaviour and store, rotating so that all are covered; thorough: all
        return rotating(i, st) if quick else (mem_cfgs if st == "mem" else file_cfgs)

    # size unit 300 bytes, for every third sequence 400: a 1200-byte message is larger than the whole 1 KiB limit (it cannot stay)
    unit = lambda i: 400 if (i // 4 + run.seed) % 3 == 0 else 300      # (i // 4: not in step with the rotation of the configurations)
    beh = concretise(run, bfs, ["mem", "file"], cfgs_for, unit, rng, "bfs")
    beh += concretise(run, bfs5, ["mem", "file"], rotating, unit, rng, "bfs5")
    beh += concretise(run, sim, ["mem", "file"], (lambda i, st: (mem_cfgs if st == "mem" else file_cfgs)) if quick else (lambda i, st: rotating(i, st, 4)),
                      300, rng, "sim", probe_every=10)
    # the content file of the message the cap is about to evict has disappeared (file store): the delivery is still a delivery
    for cap in (1, 2, 3):
        for extra in (0, 1):
            ops = [{"op": "add", "mb": 0, "meta": 1, "size": 600} for _ in range(cap)] + [{"op": "probe"}]
            ops += [{"op": "addgone", "mb": 0, "meta": 1, "size": 600}, {"op": "probe"}] * (1 + extra) + [{"op": "add", "mb": 0, "meta": 1, "size": 600}, {"op": "probe"}]
            beh.append({"id": "gone-c%d-%d" % (cap, extra), "store": "file", "cap": cap, "maxkb": 0, "names": ["alpha", "beta", "gamma"], "ops": ops})
    run.cov["samples"] = [bfs[len(bfs) // 3], sim[0][:12]] if bfs and sim else []
    replay_and_validate(run, vh, beh, "c08", "C08 cap/size-limit eviction")
    run.cov["rule"] = ("TLC enumerates every add/remove/purge sequence (sizes 300/600/900 bytes, for a third of the sequences 400/800/1200 - a message larger than the whole 1 KiB limit; 2 mailboxes) up to the stated depth and simulates long "
                       "histories (drift); each runs on the memory store under cap x maxkb in {0,1,2,3} x {0,1,2 KiB} and on the file store under each cap; "
                       "after every operation the whole store must equal the contract state (most recent messages kept, globally oldest-first size eviction, "
                       "only as much as necessary, new message retrievable).  non-trivial/distinct as in C07")
    run.assumptions += ["sizes within the exact byte accounting of the store (Size() == len(source))", "quick tier runs two of the cap x limit combinations per enumerated sequence (rotating), thorough all for depth <= 4 and two (rotating) for a sample of 20000 depth-5 sequences"]


# --------------------------------------------------------------------------- C10
def c10(run, args):
    if args.replay:
        return replay_file(run, args)
    quick = run.tier == "quick"
    rng = random.Random(run.seed)
    vh = run.build_harness()
    run.model_check("MCMailstore", MC_CFG % dict(caps="0, 2", limits="0", maxadds=3 if quick else 4), label="MCMailstore(caps)")
    useful = lambda bs: [b for b in bs if any(o["op"] == "reopen" for o in b) and any(o["op"] == "add" for o in b)]
    bfs = run.generate("GenMailstore", gen_cfg(2, [1], [1], 4, reopen=[0, 1, 2], scan=False, seen=True))
    # one mailbox, deliveries and reopen with every cap only, deeper: reaches mailboxes several messages over a lowered cap
    bfs += run.generate("GenMailstore", gen_cfg(1, [1], [1], 6, reopen=[0, 1, 2, 3], ops=["add"]))
    # keep only sequences with at least one reopen that is followed or preceded by a mutation
    bfs = useful(bfs)
    # thorough: a seed-chosen sample of the next depths as well (all of them: ~600 000 sequences, ~25 GB of traces)
    deeper = []
    if not quick:
        d5 = [b for b in useful(run.generate("GenMailstore", gen_cfg(2, [1], [1], 5, reopen=[0, 1, 2], scan=False, seen=True))) if len(b) == 5]
        d8 = [b for b in useful(run.generate("GenMailstore", gen_cfg(1, [1], [1], 8, reopen=[0, 1, 2, 3], ops=["add"]))) if len(b) >= 7]
        rng.shuffle(d5)
        rng.shuffle(d8)
        deeper = d5[:30000] + d8[:30000]
    sim = run.generate("GenMailstore", gen_cfg(3, [1, 2], [0, 1], 40 if quick else 80, reopen=[0, 1, 2, 3]),
                       simulate={"num": 100, "depth": 41 if quick else 81})
    sim = sim[:80 if quick else 800]
    count_distinct(run, bfs + deeper + sim)
    run.cov["exhaustive"] = True
    beh = concretise(run, bfs, ["file"], lambda i, st: [(0, 0), (2, 0)] if not quick else [((i + run.seed) % 2 * 2, 0)], 500, rng, "bfs")
    beh += concretise(run, deeper, ["file"], lambda i, st: [((i + run.seed) % 2 * 2, 0)], 500, rng, "deep")
    beh += concretise(run, sim, ["file"], lambda i, st: [(0, 0), (3, 0)], 500, rng, "sim", probe_every=4)
    # the server is stopped and started again between any two operations: every mutating operation runs in a fresh child
    # process on the same path (process-global state such as the id counter starts over)
    prs = run.generate("GenMailstore", gen_cfg(2, [1], [1], 4, scan=False, seen=True))
    prs = [b for b in prs if sum(1 for o in b if o["op"] == "add") >= 2]
    rng.shuffle(prs)
    prs = prs[:150 if quick else 1500]
    pb = concretise(run, prs, ["file"], lambda i, st: [((i + run.seed) % 2 * 2, 0)], 500, rng, "proc", probe_every=2)
    # ids that do not ascend in arrival order: the id counter is driven to the end of its range, the next deliveries get
    # ...-9998, ...-9999, ...-0000 (within one second); order, "latest", cap eviction and what a reopen shows follow arrival
    for cap in (0, 2):
        A = {"op": "add", "mb": 0, "meta": 1, "size": 500}
        ops = [A, {"op": "wrapids", "mb": 0}, A, A, A, {"op": "probe"}, {"op": "reopen", "id": cap}, {"op": "probe"}, A, {"op": "probe"}, {"op": "reopen", "id": cap}, {"op": "probe"}]
        beh.append({"id": "wrap-c%d" % cap, "store": "file", "cap": cap, "maxkb": 0, "names": ["alpha", "beta", "gamma"], "ops": ops})
    for b in pb:
        b["procs"] = True
    run.cov["restart_behaviours"] = len(pb)
    beh += pb
    run.cov["samples"] = [bfs[len(bfs) // 3], sim[0][:12]] if bfs and sim else []
    replay_and_validate(run, vh, beh, "c10", "C10 durability across reopen", capinv=False)
    run.cov["rule"] = ("TLC enumerates every mutator sequence with a close-and-reopen of the file store inserted at every position (contract: reopen is a "
                       "stuttering step: same ids, order, metadata, seen flags, sizes, content; the reopened store may be configured with another cap, which applies from the next delivery on), plus long simulated histories with many reopen points; "
                       "all operations after a reopen (deliveries, cap eviction, retention scan) are validated against the contract like any other")
    run.assumptions += ["reopen = a new file.Store on the same path in the same process; the restart family runs every mutating operation in a fresh child process (id counter and all other process state start over)"]


# --------------------------------------------------------------------------- C16
def c16(run, args):
    if args.replay and json.load(open(args.replay)).get("replay_kind") == "conc":
        b = json.load(open(args.replay))["behaviour"]
        vh = run.build_harness()
        ctf = run.harness_parallel(vh, "conc", [b], "c16conc", procs=1)
        cres = run.validate("LinTrace", LIN_CFG % dict(mbs=tla_set(b["names"])), ctf, max_rej=2)
        for r in cres["rejections"]:
            run.violation("C16 concurrent removals (replay): the history is not explained (events / final store) at event #%d" % r["rejected_event_index"],
                          {"behaviour": b, "rejection": r, "replay_kind": "conc"})
        run.cov["rule"] = "replay of one recorded concurrent behaviour"
        return
    if args.replay:
        return replay_file(run, args)
    quick = run.tier == "quick"
    rng = random.Random(run.seed)
    vh = run.build_harness()
    run.model_check("MCMailstore", MC_CFG % dict(caps="0, 1, 2", limits="0, 3", maxadds=3 if quick else 4), label="MCMailstore(caps x limits)")
    # the implementation-shaped model of the path an after-event takes (DispatcherImpl.tla: lanes per listener name, drain
    # goroutines): C16's statements hold on it as written; each named deviation (the code before a67b2b3 and three seeded
    # changes) must make TLC find its predicted failure
    disp_cfg = lambda msgs, pe, re_, sn, sb: ("SPECIFICATION Spec\nCONSTANTS\n  Msgs = {%s}\n  PerEvent = %s\n  RetireEarly = %s\n  SplitNames = %s\n  SharedBatch = %s\n  DropBeyond = 0\n"
                                              "INVARIANTS NoOverlap InOrderOnce StoredBeforeDeleted NothingLost NoStranded\nCHECK_DEADLOCK FALSE\n" % (msgs, pe, re_, sn, sb))
    F, T = "FALSE", "TRUE"
    run.model_check("DispatcherImpl", disp_cfg("1, 2, 3" if quick else "1, 2, 3, 4", F, F, F, F), label="DispatcherImpl (as written)", workers=4)
    live_cfg = lambda sb: ("SPECIFICATION FairSpec\nCONSTANTS\n  Msgs = {1, 2}\n  PerEvent = FALSE\n  RetireEarly = FALSE\n  SplitNames = FALSE\n  SharedBatch = %s\n  DropBeyond = 0\n"
                           "PROPERTIES EventuallyHandled\nCHECK_DEADLOCK FALSE\n" % sb)
    run.model_check("DispatcherImpl", live_cfg(F), label="DispatcherImpl liveness: EventuallyHandled", workers=2)
    # a bounded lane that drops its oldest call (seeded C16i; the histories replayed on the real code are too short to fill a lane of
    # 1024, so this deviation is covered by the model only): TLC must find an event that is never handed over
    rc, out, dt = run.tlc("DispatcherImpl", disp_cfg("1, 2", F, F, F, F).replace("DropBeyond = 0", "DropBeyond = 1"), workers=4, timeout=600, heap="4g")
    dropped = [x for x in ("InOrderOnce", "NothingLost", "StoredBeforeDeleted") if ("Invariant %s is violated" % x) in out]
    run.cov["stages"].append({"stage": "model-check", "module": "DispatcherImpl(DropBeyond=1)", "mode": "prediction", "violated_as_predicted": dropped, "wall_s": round(dt, 1)})
    if not dropped:
        raise Inconclusive("the deviation DropBeyond of DispatcherImpl no longer produces its predicted failure: model and check have drifted apart")
    rc, out, dt = run.tlc("DispatcherImpl", live_cfg(T), workers=2, timeout=600, heap="4g")
    lost = "Temporal property EventuallyHandled was violated" in out
    run.cov["stages"].append({"stage": "model-check", "module": "DispatcherImpl liveness (SharedBatch=TRUE)", "mode": "prediction", "violated_as_predicted": ["EventuallyHandled"] if lost else [], "wall_s": round(dt, 1)})
    if not lost:
        raise Inconclusive("the deviation SharedBatch of DispatcherImpl no longer violates EventuallyHandled: model and check have drifted apart")
    for name, flags in (("PerEvent", (T, F, F, F)), ("RetireEarly", (F, T, F, F)), ("SplitNames", (F, F, T, F)), ("SharedBatch", (F, F, F, T))):
        rc, out, dt = run.tlc("DispatcherImpl", disp_cfg("1, 2", *flags), workers=4, timeout=600, heap="4g")
        predicted = [x for x in ("NoOverlap", "InOrderOnce", "StoredBeforeDeleted", "NothingLost") if ("Invariant %s is violated" % x) in out]
        run.cov["stages"].append({"stage": "model-check", "module": "DispatcherImpl(%s=TRUE)" % name, "mode": "prediction", "violated_as_predicted": predicted, "wall_s": round(dt, 1)})
        run.log("DispatcherImpl with %s: predicted counterexample found for %s" % (name, predicted))
        if not predicted:
            raise Inconclusive("the deviation %s of DispatcherImpl no longer produces its predicted failure: model and check have drifted apart" % name)
    bfs = run.generate("GenMailstore", gen_cfg(2, [1, 2], [1], 4, scan=True, seen=False))
    # thorough: every depth-4 sequence under every limit combination, and a seed-chosen sample of the depth-5 sequences
    # (all ~94 000 of them under nine combinations would be ~10 M trace events) under one rotating combination each
    bfs5 = []
    if not quick:
        bfs5 = [b for b in run.generate("GenMailstore", gen_cfg(2, [1, 2], [1], 5, scan=True, seen=False)) if len(b) == 5]
        rng.shuffle(bfs5)
        bfs5 = bfs5[:15000]
    sim = run.generate("GenMailstore", gen_cfg(3, [1, 2, 3], [1], 40 if quick else 100, scan=True, seen=False),
                       simulate={"num": 100, "depth": 41 if quick else 101})
    sim = sim[:40 if quick else 400]
    count_distinct(run, bfs + bfs5 + sim)
    run.cov["exhaustive"] = True
    mem_cfgs = [(c, k) for c in (0, 1, 2) for k in (0, 4)]
    file_cfgs = [(c, 0) for c in (0, 1, 2)]

    def cfgs_for(i, st):
        all_ = mem_cfgs if st == "mem" else file_cfgs
        return all_ if not quick else [all_[(i + run.seed) % len(all_)]]

    plain = [["alpha", "beta", "gamma"], ["inbox1", "inbox2", "inbox3"]]

    def mk(abstract, label, hold, probe_every, one_cfg=False):
        out = []
        for i, ops in enumerate(abstract):
            for st in ("mem", "file"):
                all_ = mem_cfgs if st == "mem" else file_cfgs
                for (cap, maxkb) in ([all_[(i + run.seed) % len(all_)]] if one_cfg else cfgs_for(i, st)):
                    o = [dict(x, size=x["size"] * 1000) for x in ops]
                    out.append({"id": "%s-%d-%s-c%dk%d-h%d" % (label, i, st, cap, maxkb, hold), "store": st, "cap": cap, "maxkb": maxkb,
                                "names": plain[i % 2], "events": True, "hold_ms": hold, "ops": o})
        return out
    def multi(abstract):
        """adjacent deliveries become ONE transaction with several recipients (a recipient may name the same mailbox again,
        plus-addressed); in a share of them the store refuses the last or the middle copy (the manager takes the others back)"""
        out = []
        for n, ops in enumerate(abstract):
            o, j, merged = [], 0, 0
            while j < len(ops):
                x = dict(ops[j])
                if x["op"] == "add":
                    k = j + 1
                    while k < len(ops) and ops[k]["op"] == "add" and k - j < 3:
                        k += 1
                    also = [y["mb"] for y in ops[j + 1:k]]
                    if not also and (n + j) % 3 == 0:
                        also = [x["mb"]]
                    if also:
                        merged += 1
                        x["also"] = also
                        x["fail_at"] = [0, 0, len(also) + 1, 2][(n + j) % 4]
                    j = k
                else:
                    j += 1
                o.append(x)
            if merged:
                out.append(o)
        return out
    # (a) exactly-once: no hold; (b) ordering: every listener invocation takes 2 ms while the next operations run;
    # (m) multi-recipient transactions, also refused ones
    beh = mk(bfs, "bfs", 0, 0) + mk(bfs[run.seed % 7::7], "ord", 2, 0) + mk(sim, "sim", 0, 0) + mk(sim[::4], "simord", 1, 0)
    mb_ = multi(bfs)
    beh += mk(mb_[run.seed % 2::2] if quick else mb_, "multi", 0, 0, one_cfg=not quick) + mk(mb_[run.seed % 9::9], "multiord", 1, 0, one_cfg=not quick) + mk(multi(sim), "multisim", 0, 0)
    beh += mk(bfs5, "bfs5", 0, 0, one_cfg=True)
    # (l) the listener is a Lua script with both after-hooks (its slow "stored" handler is still busy when the removal that
    #     follows is announced): the script, too, must see every event once, one at a time, stored before deleted
    lua = mk(bfs[run.seed % 5::5] + mb_[run.seed % 7::7], "lua", 0, 0, one_cfg=True)
    for b in lua:
        b["lua"] = True
    beh += lua
    # (f) write faults (file store, RLIMIT_FSIZE): a delivery to a mailbox at its cap whose message file fits but whose index
    #     rewrite does not is refused: nothing may have been announced for it (the message it would have evicted is still there)
    for k, limit in enumerate(range(550, 1750, 60)):
        for cap in (1, 2, 3):
            ops = [{"op": "add", "mb": 0, "meta": 1, "size": 1000} for _ in range(cap + k % 2)]
            # (the manager puts ~150-350 bytes of trace headers and subject in front of the body)
            ops += [{"op": "addfault", "mb": 0, "meta": 1, "size": max(20, limit - 520), "limit": limit}, {"op": "add", "mb": 0, "meta": 1, "size": 1000}, {"op": "remove", "mb": 0, "id": 1},
                    {"op": "purge", "mb": 0}]
            beh.append({"id": "fault-%d-c%d" % (k, cap), "store": "file", "cap": cap, "maxkb": 0, "names": plain[0], "events": True, "hold_ms": 0, "ops": ops})
    run.cov["samples"] = [bfs[len(bfs) // 3], sim[0][:12]] if bfs and sim else []
    replay_and_validate(run, vh, beh, "c16", "C16 after-events")
    # (c) removals racing each other: several clients remove / purge the same messages at the same moment (web UI against REST
    #     delete, POP3 against retention, delete against cap eviction); the history must linearize AND every message that left
    #     must have been announced exactly once (LinTrace: EventsOK at the final event)
    conc = []
    for k in range(8 if quick else 24):
        st = ["mem", "file"][k % 2]
        cap, maxkb = [(0, 0), (2, 0), (0, 0), (0, 2)][k % 4] if st == "mem" else [(0, 0), (2, 0)][(k // 2) % 2]
        order = [1, 2, 3]
        rng.shuffle(order)
        threads = []
        for j in range(3 + k % 3):
            t = [{"op": "remove", "mb": 0, "id": i} for i in (order if j % 2 == 0 else order[::-1])]
            if (j + k) % 3 == 0:
                t.insert(rng.randrange(len(t) + 1), {"op": "purge", "mb": 0})
            if (j + k) % 4 == 1:
                t.insert(rng.randrange(len(t) + 1), {"op": "add", "mb": 0, "meta": 1, "size": 600})
            threads.append(t)
        conc.append({"id": "race-%d-%s-c%dk%d" % (k, st, cap, maxkb), "store": st, "cap": cap, "maxkb": maxkb, "names": ["alpha", "beta", "gamma"],
                     "pre": [{"op": "add", "mb": 0, "meta": 1, "size": 600} for _ in range(3)], "threads": threads,
                     "repeat": (400 if st == "mem" else 60) * (1 if quick else 3)})
    # (c') the same with listeners coming and going: while the removals race, other listeners of the same broker are replaced,
    #      removed and added again, and the 'stored' hook under the recorded listener's name is re-registered; the recorded
    #      'deleted' listener - never touched itself - must still get every event exactly once and one at a time
    for k in range(6 if quick else 18):
        st = ["mem", "file"][k % 2]
        ids = list(range(1, 7))
        threads = []
        for j in range(3):
            rng.shuffle(ids)
            t = [{"op": "remove", "mb": 0, "id": i} for i in ids]
            if (j + k) % 3 == 0:
                t.insert(rng.randrange(len(t) + 1), {"op": "purge", "mb": 0})
            threads.append(t)
        conc.append({"id": "churn-%d-%s" % (k, st), "store": st, "cap": 0, "maxkb": 0, "names": ["alpha", "beta", "gamma"], "churn": True,
                     "pre": [{"op": "add", "mb": 0, "meta": 1, "size": 600} for _ in range(6)], "threads": threads,
                     "repeat": (300 if st == "mem" else 60) * (1 if quick else 3)})
    ctf = run.harness_parallel(vh, "conc", conc, "c16conc", procs=8)
    cres = run.validate("LinTrace", LIN_CFG % dict(mbs=tla_set(["alpha", "beta", "gamma"])), ctf, max_rej=2)
    run.cov["evaluations"] += cres["traces"]
    cby = {b["id"]: b for b in conc}
    for r in cres["rejections"]:
        b = cby.get(str(r["trace"]).split("#")[0], {})
        ev = r["rejected_event"]
        if ev.get("a") == "final":
            what = ("C16 after-events under concurrent removals (%s store cap=%s maxkb=%s): the 'deleted' events %s are not exactly one per message that left the mailbox "
                    "(or the final store is not what the calls' results explain)") % (b.get("store"), b.get("cap"), b.get("maxkb"), [(e["mb"], e["id"]) for e in ev.get("evs", [])])
        else:
            what = "C16 concurrent removals (%s store): the history is not explained by the Mailstore contract at event #%d (%s %s -> %s)" % (
                b.get("store"), r["rejected_event_index"], ev.get("a"), ev.get("k", ""), ev.get("r"))
        run.violation(what, {"behaviour": dict(b, repeat=200), "rejection": r, "replay_kind": "conc"})
    run.cov["rule"] = ("the C07/C08 histories (adds through StoreManager.Deliver, removals by delete, purge, cap, size limit, retention scan) on both stores with every limit combination, also with "
                       "adjacent deliveries merged into one multi-recipient transaction (the same mailbox named twice included) of which the store refuses one copy in a share of cases "
                       "(every store call the manager makes is then its own trace event); "
                       "a listener on both after-event brokers records every invocation with entry/exit stamps from one counter; at the end of each history TLC checks that the multiset of events "
                       "equals what the contract's state changes require (exactly one stored per entering, one deleted per leaving message), that no two invocations overlap, stored precedes deleted "
                       "per message, and stored events of one mailbox arrive in arrival order; in the ordering variants each invocation takes 1-2 ms so that the following operations emit while it runs; "
                       "the same with a Lua script (after.message_stored / after.message_deleted, a slow stored handler) as the listener; "
                       "plus racing removals: 3-5 goroutines remove / purge the same three messages of one mailbox at the same moment (hundreds of runs per configuration): the history must "
                       "linearize and the 'deleted' events must be exactly one per message that left (LinTrace)")
    run.assumptions += ["quiescence: the history ends when no invocation started or finished for 5 ms", "size limit 4 KiB with messages of 1-3 KB so that a new message always survives its own delivery"]


# --------------------------------------------------------------------------- C11
def c11(run, args):
    quick = run.tier == "quick"
    rng = random.Random(run.seed)
    vh = run.build_harness()
    if args.replay:
        d = json.load(open(args.replay))
        behaviours = [d["behaviour"]]
    else:
        run.model_check("MCMailstore", MC_CFG % dict(caps="0, 2", limits="0", maxadds=3), label="MCMailstore(caps)")
        # the implementation-shaped model of one mailbox directory: every operation is its sequence of file-system mutations, the
        # process may die between any two: Readable and AllOrNothing at every crash point
        F = "FALSE"
        for cap, maxid in ((0, 4), (1, 4), (2, 5)) if quick else ((0, 5), (1, 5), (2, 6), (3, 6)):
            run.model_check("FileStoreImpl", FSIMPL_CFG % dict(cap=cap, maxid=maxid, inplace=F, evictfirst=F, rmfirst=F),
                            label="FileStoreImpl(cap=%d): crash-safe" % cap, workers=4)
        # the three named deviations (the code before its repairs): TLC must find the predicted crash states (predictions, never verdicts)
        pred = {}
        for name, flags in (("IndexInPlace", ("TRUE", F, F)), ("EvictBeforeAdd", (F, "TRUE", F)), ("RemoveAllFirst", (F, F, "TRUE"))):
            rc, out, dt = run.tlc("FileStoreImpl", FSIMPL_CFG % dict(cap=2, maxid=5, inplace=flags[0], evictfirst=flags[1], rmfirst=flags[2]), workers=4, timeout=300, heap="4g")
            pred[name] = [x for x in ("Readable", "AllOrNothing", "ConsistentWhenIdle") if ("Invariant %s is violated" % x) in out]
        run.cov["stages"].append({"stage": "model-check", "module": "FileStoreImpl(deviations)", "mode": "prediction", "violated_as_predicted": pred})
        run.log("FileStoreImpl deviations: predicted violations %s" % pred)
        # pre-history + target operation = every mutator sequence to a bounded depth; the last operation is the one that is interrupted
        bfs = run.generate("GenMailstore", gen_cfg(2, [1], [1], 4 if quick else 5, scan=False, seen=True))
        bfs = [b for b in bfs if b[-1]["op"] in ("add", "seen", "remove", "purge")]
        # a mailbox whose index spans several 4096-byte buffers
        longpre = [{"op": "add", "mb": 0, "id": 0, "meta": 1, "size": 1} for _ in range(70)]
        tails = run.generate("GenMailstore", gen_cfg(1, [1], [1], 1, scan=False, seen=True))
        big = [longpre + t for t in tails] + [longpre + [{"op": "remove", "mb": 0, "id": 35, "meta": 0, "size": 0}], longpre + [{"op": "seen", "mb": 0, "id": 70, "meta": 0, "size": 0}]]
        count_distinct(run, bfs + big)
        run.cov["exhaustive"] = True
        sets = [bucket_pair(3, rng) + ["other"], bucket_pair(6, rng) + ["other"], ["alpha", "beta", "gamma"]]
        behaviours = []
        for i, ops in enumerate(bfs + big):
            caps = [0, 2] if not quick else [[0, 2][(i + run.seed) % 2]]
            if len(ops) > 20:
                caps = [0, 70]
            for cap in caps:
                behaviours.append({"id": "cr-%d-c%d" % (i, cap), "store": "file", "cap": cap, "maxkb": 0, "names": sets[i % len(sets)],
                                   "ops": [dict(o, size=o["size"] * 600) for o in ops]})
        run.cov["samples"] = [bfs[len(bfs) // 2]]
    names = sorted({n for b in behaviours for n in b["names"]})
    tf = run.harness_parallel(vh, "crash", behaviours, "c11", procs=12)
    res = run.validate("MailstoreTrace", TRACE_CFG % dict(mbs=tla_set(names), capinv="CapInv"), tf)
    run.cov["evaluations"] += res["events"]
    ncrash = sum(1 for l in open(tf) if '"a":"crash"' in l)
    run.cov["crash_states"] = ncrash
    byid = {b["id"]: b for b in behaviours}
    for r in res["rejections"]:
        b = byid.get(r["trace"], {})
        ev = r["rejected_event"]
        if ev.get("a") == "crash":
            tgt = b["ops"][-1]
            what = ("C11 crash consistency: file store cap=%s: process dies at %s (hook #%s, %s) while %s on mailbox %r: after restart open=%s list/visit errors=%s body read errors=%s new delivery=%s; "
                    "the state is neither the one before nor the one after the operation, or the store is unusable") % (
                b.get("cap"), ev.get("site"), ev.get("k"), ev.get("variant"), tgt["op"], ev.get("mb"), ev.get("open"), ev.get("serr"), ev.get("rerr"), ev.get("deliver"))
        else:
            what = "C11: event #%d '%s' of the pre-history is not explained by the Mailstore contract" % (r["rejected_event_index"], ev.get("a"))
        run.violation(what, {"behaviour": b, "rejection": {k: v for k, v in r.items() if k != "accepted_prefix"}, "replay_kind": "crash"})
    run.cov["rule"] = ("fault enumeration: for every mutator sequence to the stated depth over mailboxes that share the level-1 / level-2 directories (plus a mailbox whose index spans several "
                       "write buffers), the last operation is interrupted at every file-system mutation point of the file store (hook before/after mkdir, raw create/copy/flush/close, index "
                       "create/encode/flush/close, raw remove, recursive directory removal), including the shorter states a buffered writer can leave (every 4096-byte multiple, empty) and partial "
                       "recursive removals; each on-disk state is opened by a fresh store and TLC checks: no error listing/visiting/reading, state = before or after the operation, new delivery accepted")
    run.assumptions += ["process death with an intact operating system: everything written before the instant of death is on disk; power loss (unsynced page cache) is not modelled",
                        "partial recursive removal is enumerated in sorted and reverse-sorted directory order", "retention scan is not a target operation (the property names deliver, mark, remove, purge)"]


# --------------------------------------------------------------------------- C09
FSIMPL_CFG = """SPECIFICATION Spec
CONSTANTS
  Cap = %(cap)d
  MaxId = %(maxid)d
  IndexInPlace = %(inplace)s
  EvictBeforeAdd = %(evictfirst)s
  RemoveAllFirst = %(rmfirst)s
INVARIANTS Readable AllOrNothing ConsistentWhenIdle
CHECK_DEADLOCK FALSE
"""

IMPL_CFG = """SPECIFICATION Spec
CONSTANTS
  Thread = {t1, t2, t3}
  Mailbox = {"a", "b"}
  Cap = %(cap)d
  Limit = %(limit)d
  Programs <- AllPrograms
  OldEnforcer = %(old)s
INVARIANTS NoCrash AccountInv AtRestInv
PROPERTIES RefinesContract
CHECK_DEADLOCK FALSE
"""

LIN_CFG = """SPECIFICATION TraceSpec
CONSTANT Mailbox = {%(mbs)s}
INVARIANTS IdsUnique ArrivalInv OverLimitIsDoomed
POSTCONDITION TraceAccepted
CHECK_DEADLOCK FALSE
"""


def c09(run, args):
    quick = run.tier == "quick"
    rng = random.Random(run.seed)
    vhr = run.build_harness(race=True)
    if args.replay:
        d = json.load(open(args.replay))
        behaviours = [dict(d["behaviour"], repeat=50)]
    else:
        run.model_check("MCMailstore", MC_CFG % dict(caps="0, 2", limits="0, 3", maxadds=3), label="MCMailstore(caps x limits)")
        # the implementation-shaped model of the memory store: every interleaving of three clients refines the concurrent contract
        for cap, limit in ((0, 4), (2, 4), (0, 0)) if quick else ((0, 4), (2, 4), (0, 0), (2, 5), (3, 0), (0, 6), (3, 5)):   # the model starts with two messages per mailbox (4 units): cap >= 2, limit >= 4
            run.model_check("MCMemStoreImpl", IMPL_CFG % dict(cap=cap, limit=limit, old="FALSE"), label="MemStoreImpl(cap=%d,limit=%d) refines ConcMailstore" % (cap, limit))
        # the named deviation "code before the accounting fix": TLC must find the predicted defects (a prediction, never a verdict)
        rc, out, dt = run.tlc("MCMemStoreImpl", IMPL_CFG % dict(cap=0, limit=4, old="TRUE"), workers=8, timeout=600, heap="8g")
        predicted = [x for x in ("NoCrash", "RefinesContract", "AccountInv") if ("%s is violated" % x) in out]
        run.cov["stages"].append({"stage": "model-check", "module": "MemStoreImpl(OldEnforcer=TRUE)", "mode": "prediction",
                                  "violated_as_predicted": predicted, "wall_s": round(dt, 1)})
        run.log("MemStoreImpl with OldEnforcer: predicted counterexample found for %s" % predicted)
        # programs: TLC-enumerated operation sequences dealt out to 2 or 3 concurrent clients; id references point at the
        # messages of the sequential set-up (two per mailbox) or at an id that was never issued
        seqs = run.generate("GenMailstore", gen_cfg(2, [1], [1], 4 if quick else 5, scan=False, seen=True))
        seqs = [s_ for s_ in seqs if sum(1 for o in s_ if o["op"] in ("remove", "purge", "seen")) >= 1 and any(o["op"] == "add" for o in s_)]
        rng.shuffle(seqs)
        seqs = seqs[:400 if quick else 4000]
        count_distinct(run, seqs)
        sets = [bucket_pair(3, rng) + ["other"], ["alpha", "beta", "gamma"], bucket_pair(6, rng) + ["other"]]
        mem_cfgs = [(0, 0), (2, 0), (0, 2), (2, 2)]
        file_cfgs = [(0, 0), (2, 0)]
        pre = [{"op": "add", "mb": m, "meta": 1, "size": 600} for m in (0, 1) for _ in range(2)]
        reads = ["list", "latest", "get", "visit"]
        behaviours = []
        for i, ops in enumerate(seqs):
            nthreads = 2 + (i % 2)
            threads = [[] for _ in range(nthreads)]
            for j, o in enumerate(ops):
                o = dict(o, size=600, id=((o["id"] - 1) % 3) + 1 if o["id"] else 0)
                threads[j % nthreads].append(o)
                if rng.random() < 0.5:
                    threads[(j + 1) % nthreads].append({"op": rng.choice(reads), "mb": rng.randrange(2), "id": rng.randrange(1, 4)})
            for st in ("mem", "file"):
                cfgs = mem_cfgs if st == "mem" else file_cfgs
                cap, maxkb = cfgs[(i + run.seed) % len(cfgs)]
                behaviours.append({"id": "lin-%d-%s-c%dk%d" % (i, st, cap, maxkb), "store": st, "cap": cap, "maxkb": maxkb, "names": sets[i % len(sets)],
                                   "pre": pre, "threads": threads, "repeat": 6 if quick else 12})
        # first touch: several clients hit a mailbox that does not exist yet at the same moment (creation inside withMailbox / mkdir)
        for k in range(12 if quick else 60):
            st = ["mem", "file"][k % 2]
            cfgs = mem_cfgs if st == "mem" else file_cfgs
            cap, maxkb = cfgs[k % len(cfgs)]
            fresh = [[{"op": "add", "mb": 1, "meta": 1, "size": 600}] + ([{"op": rng.choice(["list", "latest"]), "mb": 1, "id": 1}] if j == 0 else [{"op": "add", "mb": 1, "meta": 1, "size": 600}])
                     for j in range(4 + k % 2)]
            behaviours.append({"id": "first-%d-%s-c%dk%d" % (k, st, cap, maxkb), "store": st, "cap": cap, "maxkb": maxkb, "names": sets[k % len(sets)],
                               "pre": [p_ for p_ in pre if p_["mb"] == 0], "threads": fresh, "repeat": 60})
        # neighbours: two mailboxes in ONE first-level hash directory of the file store (same lock bucket), each emptied and refilled
        # over and over by its own client: the shared parent directory is removed with the last mailbox in it and re-made by the next
        # delivery (nothing else keeps it alive: only these two mailboxes exist)
        for k in range(4 if quick else 16):
            pair = bucket_pair(3, rng)
            st = "file" if k % 4 else "mem"
            cyc = 4 + k % 3
            behaviours.append({"id": "nbr-%d-%s" % (k, st), "store": st, "cap": 0, "maxkb": 0, "names": pair + ["unused"],
                               "pre": [{"op": "add", "mb": 0, "meta": 1, "size": 600}],
                               "threads": [[{"op": o, "mb": 0, "meta": 1, "size": 600} for _ in range(cyc) for o in ("purge", "add")],
                                           [{"op": o, "mb": 1, "meta": 1, "size": 600} for _ in range(cyc) for o in ("add", "purge")]],
                               "repeat": 150 if quick else 400})
        # walks: one client walks the whole store over and over while two others keep writing to the mailboxes (which stay
        # non-empty throughout): every walk must be shown every one of them (LinTrace: need)
        for k in range(4 if quick else 12):
            st = ["file", "mem"][k % 2]
            wr = lambda m: [{"op": o, "mb": m, "meta": 1, "size": 600, "id": 1 + j % 2} for j in range(5) for o in ("seen", "add")]
            behaviours.append({"id": "walk-%d-%s" % (k, st), "store": st, "cap": 0, "maxkb": 0, "names": sets[k % len(sets)], "pre": pre,
                               "threads": [[{"op": "visit", "mb": 0, "id": 0} for _ in range(8)], wr(0), wr(1)], "repeat": 40 if quick else 120})
        # poison: one mailbox's index is damaged and a walk of the store has run into it; its bucket mate is then used
        for k in range(2 if quick else 6):
            behaviours.append({"id": "poison-%d" % k, "store": "file", "cap": 0, "maxkb": 0, "names": bucket_pair(3, rng) + ["other%d" % k], "pre": [], "threads": [],
                               "poison": True, "repeat": 3})
        # bursts: 8 deliveries at once to a mailbox that does not exist yet, many times (judged on the outcome, no search needed)
        for k in range(4):
            st = ["mem", "file"][k % 2]
            behaviours.append({"id": "burst-%d-%s" % (k, st), "store": st, "cap": 0, "maxkb": 0, "names": sets[k % len(sets)], "pre": [], "threads": [],
                               "burst": 8, "repeat": (3000 if st == "mem" else 300) * (1 if quick else 4)})
        run.cov["samples"] = [behaviours[0]["threads"], behaviours[-1]["threads"]]
    names = sorted({n for b in behaviours for n in b["names"]})
    # bursts also run without the race detector (more parallelism in the window between lookup and creation)
    if not args.replay:
        vh = run.build_harness()
        btf = run.harness_parallel(vh, "conc", [dict(b, id=b["id"] + "-norace") for b in behaviours if b.get("burst")], "c09burst", procs=4)
        bres = run.validate("LinTrace", LIN_CFG % dict(mbs=tla_set(names)), btf, max_rej=2)
        for r in bres["rejections"]:
            ev = r["rejected_event"]
            run.violation("C09 concurrent use: %d simultaneous first deliveries to a new mailbox: results %s but the mailbox holds %s" % (
                len(ev.get("adds", [])), [(a["r"], a["id"]) for a in ev.get("adds", [])], [[m["id"] for m in x["msgs"]] for x in ev.get("s", []) if x["mb"] == ev.get("mb")]),
                {"behaviour": {"id": str(r["trace"]).split("#")[0], "burst": 8, "store": "mem" if "mem" in str(r["trace"]) else "file", "cap": 0, "maxkb": 0,
                               "names": behaviours[0]["names"], "pre": [], "threads": [], "repeat": 3000}, "rejection": r, "replay_kind": "conc"})
    crashes = []
    tf = run.harness_parallel(vhr, "conc", behaviours, "c09", procs=12, crashes=crashes)
    byid = {b["id"]: b for b in behaviours}
    for c in crashes:
        b = c["behaviour"]
        kind = "data race" if any("DATA RACE" in x for x in c["signature"]) else "crash"
        run.violation("C09 concurrent use: %s of the process (%s) while %d clients used the %s store (cap=%s maxkb=%s) concurrently" % (
            kind, "; ".join(c["signature"][:1]) or "rc=%s" % c["rc"], len(b.get("threads", [])), b.get("store"), b.get("cap"), b.get("maxkb")),
            {"behaviour": b, "crash": {k: c[k] for k in ("rc", "signature", "stderr_tail")}, "replay_kind": "conc"})
    res = run.validate("LinTrace", LIN_CFG % dict(mbs=tla_set(names)), tf, max_rej=2)
    run.cov["evaluations"] += res["traces"]
    for r in res["rejections"]:
        b = byid.get(str(r["trace"]).split("#")[0], {})
        ev = r["rejected_event"]
        if ev.get("a") == "stuck":
            what = "C09 concurrent use: operations did not complete (deadlock?) on the %s store" % b.get("store")
        else:
            what = ("C09 concurrent use: store=%s cap=%s maxkb=%s: the history is not linearizable against the Mailstore contract: no sequential order consistent with real time explains "
                    "event #%d (%s %s on %r -> %s)") % (b.get("store"), b.get("cap"), b.get("maxkb"), r["rejected_event_index"], ev.get("a"), ev.get("k", ""), ev.get("mb"), ev.get("r"))
        run.violation(what, {"behaviour": b, "rejection": r, "replay_kind": "conc"})
    run.cov["rule"] = ("TLC-enumerated operation sequences (add/seen/remove/purge over two mailboxes that may share a lock bucket / hash directory, id references to existing and "
                       "never-issued messages) are dealt out to 2-3 goroutines, interleaved with reads (list, latest, get, visit), and run several times each against the real memory store "
                       "(cap x maxkb) and file store (cap) under the Go race detector; every call is stamped before and after from one atomic counter; TLC searches for a linearization of each "
                       "history against the Mailstore contract that also ends in the observed final store; a crash, a race report or calls that do not return are attributed to the history")
    run.assumptions += ["interleavings are those the Go scheduler produces over repeated runs (not enumerated)", "a retention scan is not one atomic operation and is checked in C12",
                        "VisitMailboxes is treated as one read per mailbox, each linearized between the start of the visit and its callback"]
