package main

// Concurrent-use driver for the stores (C09).  After a sequential set-up phase several goroutines
// call the real store concurrently.  Every call is recorded with a stamp taken immediately before
// the call and one taken immediately after it returned, both from one atomic counter, which gives
// the real-time order without comparing clocks.  The history (inv/res events in stamp order) and
// the final state of the store are written out; TLC decides linearizability (spec/LinTrace.tla).
// The binary is built with -race by the check: a data race or a panic kills the process, which
// the orchestrator attributes to the history that was running.

import (
	"bytes"
	"encoding/json"
	"fmt"
	"math/rand"
	"os"
	"path/filepath"
	"runtime"
	"sort"
	"sync"
	"sync/atomic"
	"time"

	"github.com/inbucket/inbucket/v3/pkg/extension"
	"github.com/inbucket/inbucket/v3/pkg/extension/event"
	"github.com/inbucket/inbucket/v3/pkg/message"
	"github.com/inbucket/inbucket/v3/pkg/storage"

	"verif/harness/internal/tr"
)

type concBehaviour struct {
	ID      string      `json:"id"`
	Store   string      `json:"store"`
	Cap     int         `json:"cap"`
	MaxKB   int         `json:"maxkb"`
	Names   []string    `json:"names"`
	Pre     []storeOp   `json:"pre"`
	Threads [][]storeOp `json:"threads"`
	Repeat  int         `json:"repeat"`
	Burst   int         `json:"burst"`  // > 0: that many goroutines each deliver once to the (not yet existing) mailbox Names[1] at the same moment
	Churn   bool        `json:"churn"`  // other after-event listeners are registered, replaced and removed while the threads run
	Poison  bool        `json:"poison"` // file store: the index of mailbox Names[1] is damaged, the store is walked (which fails), then Names[0] (same lock bucket) is used
}

type concInput struct {
	Seed       int64           `json:"seed"`
	Behaviours []concBehaviour `json:"behaviours"`
}

type stamped struct {
	at int64
	ev tr.Ev
}

func runConcHistory(w *tr.Writer, b concBehaviour, rep int, seed int64, scratch string) {
	hid := fmt.Sprintf("%s#%d", b.ID, rep)
	rng := rand.New(rand.NewSource(seed))
	host := extension.NewHost()
	// C16 under concurrency: every after-event of the history is recorded and reported with the final state
	rec := &evRec{}
	churnNames := []string{"churn-a", "churn-b", "churn-c"}
	idle := func(event.MessageMetadata) {}
	if b.Churn {
		// other listeners, registered in front of the recorded one, come and go while events flow; the recorded
		// listener works for a moment on each event so that its queue is not always empty
		rec.hold = 100 * time.Microsecond
		for _, n := range churnNames {
			host.Events.AfterMessageDeleted.AddListener(n, idle)
		}
	}
	host.Events.AfterMessageDeleted.AddListener("verif", func(m event.MessageMetadata) { rec.invoke("deleted", m) })
	host.Events.AfterMessageStored.AddListener("verif", func(m event.MessageMetadata) { rec.invoke("stored", m) })
	dir := filepath.Join(scratch, "store-"+b.ID+fmt.Sprint(rep))
	if b.Store == "file" {
		_ = os.MkdirAll(dir, 0o770)
		defer os.RemoveAll(dir)
	}
	st, err := newStore(b.Store, b.Cap, b.MaxKB, dir, host)
	if err != nil {
		w.Emit(tr.Ev{"a": "harness-error", "t": hid, "err": err.Error()})
		return
	}
	w.Emit(tr.Ev{"a": "reset", "t": hid, "store": b.Store, "cap": b.Cap, "limit": b.MaxKB * 1024})
	w.Flush()
	issued := make([][]string, len(b.Names))
	realID := func(mb, k int) string {
		if k >= 1 && k <= len(issued[mb]) {
			return issued[mb][k-1]
		}
		if b.Store == "file" {
			return fmt.Sprintf("20200101T000000-%04d", 9000+k)
		}
		return fmt.Sprint(900000 + k)
	}
	snapInto := func(ev tr.Ev) {
		snap, serr := tr.Snapshot(st, b.Names)
		ev["s"] = snap
		if serr == nil {
			serr = []string{}
		}
		ev["serr"] = serr
	}
	type prepared struct {
		op   storeOp
		name string
		id   string
		body []byte
		d    *message.Delivery
		meta tr.Meta
	}
	prep := func(op storeOp) prepared {
		p := prepared{op: op, name: b.Names[op.Mb]}
		switch op.Op {
		case "add":
			m := mkMeta(rng, op.Meta, p.name)
			p.body = mkBody(rng, op.Size)
			p.d = &message.Delivery{Meta: m, Reader: bytes.NewReader(p.body)}
			wr := tr.ProjectMsg(&message.Delivery{Meta: m, Reader: bytes.NewReader(p.body)})
			wr.Meta.Hash = tr.HashBytes(p.body)
			p.meta = wr.Meta
		case "get", "seen", "remove":
			p.id = realID(op.Mb, op.ID)
		}
		return p
	}
	// sequential set-up
	for i, op := range b.Pre {
		p := prep(op)
		id, err := st.AddMessage(p.d)
		ev := tr.Ev{"a": "add", "t": hid, "i": i, "mb": p.name, "id": id, "r": errClass(err), "size": len(p.body), "meta": p.meta}
		if err == nil {
			issued[op.Mb] = append(issued[op.Mb], id)
		}
		snapInto(ev)
		w.Emit(ev)
	}
	if b.Poison {
		// an unreadable mailbox must not take its neighbours with it: after a walk of the store that ran into it, every
		// operation on another mailbox (here one that shares its lock bucket) still returns
		p1 := prep(storeOp{Op: "add", Mb: 1, Meta: 1, Size: 300})
		_, _ = st.AddMessage(p1.d)
		damaged := 0
		_ = filepath.Walk(dir, func(p string, info os.FileInfo, err error) error {
			if err == nil && !info.IsDir() && filepath.Base(p) == "index.gob" {
				if raw, rerr := os.ReadFile(p); rerr == nil && len(raw) > 40 {
					// the index that lists exactly one message is the one just created
					if ms, _ := st.GetMessages(b.Names[1]); len(ms) == 1 && bytes.Contains(raw, []byte(ms[0].ID())) {
						_ = os.WriteFile(p, raw[:len(raw)/2], 0o660)
						damaged++
					}
				}
			}
			return nil
		})
		verr := st.VisitMailboxes(func([]storage.Message) bool { return true })
		ev := tr.Ev{"a": "poison", "t": hid, "mb": b.Names[0], "damaged": damaged, "visit": errClass(verr) != "ok"}
		within := func(f func() error) string {
			ch := make(chan error, 1)
			go func() { ch <- f() }()
			select {
			case err := <-ch:
				return errClass(err)
			case <-time.After(5 * time.Second):
				return "stuck"
			}
		}
		p0 := prep(storeOp{Op: "add", Mb: 0, Meta: 1, Size: 300})
		ev["add"] = within(func() error { _, err := st.AddMessage(p0.d); return err })
		ev["list"] = within(func() error { _, err := st.GetMessages(b.Names[0]); return err })
		ev["purge"] = within(func() error { return st.PurgeMessages(b.Names[0]) })
		ev["add2"] = within(func() error {
			_, err := st.AddMessage(prep(storeOp{Op: "add", Mb: 2, Meta: 1, Size: 300}).d)
			return err
		})
		w.Emit(ev)
		return
	}
	if b.Burst > 0 {
		// first touch: all goroutines deliver to a mailbox nobody has used yet; one event records every result
		ps := make([]prepared, b.Burst)
		for i := range ps {
			ps[i] = prep(storeOp{Op: "add", Mb: 1, Meta: 1, Size: 300})
		}
		type dres struct {
			ID   string  `json:"id"`
			R    string  `json:"r"`
			Size int     `json:"size"`
			Meta tr.Meta `json:"meta"`
		}
		out := make([]dres, b.Burst)
		startB := make(chan struct{})
		var wgB sync.WaitGroup
		for i := range ps {
			wgB.Add(1)
			go func(i int) {
				defer wgB.Done()
				<-startB
				id, err := st.AddMessage(ps[i].d)
				out[i] = dres{ID: id, R: errClass(err), Size: len(ps[i].body), Meta: ps[i].meta}
			}(i)
		}
		close(startB)
		wgB.Wait()
		ev := tr.Ev{"a": "burst", "t": hid, "mb": b.Names[1], "adds": out}
		snapInto(ev)
		w.Emit(ev)
		return
	}
	// concurrent phase: everything the goroutines need is prepared beforehand
	plans := make([][]prepared, len(b.Threads))
	for ti, ops := range b.Threads {
		for _, op := range ops {
			plans[ti] = append(plans[ti], prep(op))
		}
	}
	var seq int64
	var opn int64
	var mu sync.Mutex
	var evs []stamped
	record := func(inv, res int64, call tr.Ev) {
		n := atomic.AddInt64(&opn, 1)
		call["t"] = hid
		call["op"] = n
		a := tr.Ev{}
		bb := tr.Ev{}
		for k, v := range call {
			a[k] = v
			bb[k] = v
		}
		a["a"] = "inv"
		bb["a"] = "res"
		mu.Lock()
		evs = append(evs, stamped{inv, a}, stamped{res, bb})
		mu.Unlock()
	}
	start := make(chan struct{})
	var wg sync.WaitGroup
	for ti := range plans {
		wg.Add(1)
		go func(plan []prepared) {
			defer wg.Done()
			<-start
			for _, p := range plan {
				call := tr.Ev{"k": p.op.Op, "mb": p.name}
				inv := atomic.AddInt64(&seq, 1)
				switch p.op.Op {
				case "add":
					id, err := st.AddMessage(p.d)
					res := atomic.AddInt64(&seq, 1)
					call["r"], call["id"], call["size"], call["meta"] = errClass(err), id, len(p.body), p.meta
					record(inv, res, call)
				case "remove":
					err := st.RemoveMessage(p.name, p.id)
					res := atomic.AddInt64(&seq, 1)
					call["r"], call["id"] = errClass(err), p.id
					record(inv, res, call)
				case "seen":
					err := st.MarkSeen(p.name, p.id)
					res := atomic.AddInt64(&seq, 1)
					call["r"], call["id"] = errClass(err), p.id
					record(inv, res, call)
				case "purge":
					err := st.PurgeMessages(p.name)
					res := atomic.AddInt64(&seq, 1)
					call["r"] = errClass(err)
					record(inv, res, call)
				case "get", "latest":
					id := p.id
					if p.op.Op == "latest" {
						id = "latest"
					}
					m, err := st.GetMessage(p.name, id)
					var pm interface{}
					r := errClass(err)
					if err == nil {
						if m == nil {
							r = "nil"
						} else {
							pm = tr.ProjectLite(m)
						}
					}
					res := atomic.AddInt64(&seq, 1)
					call["r"], call["id"] = r, id
					if pm != nil {
						call["msg"] = pm
					}
					record(inv, res, call)
				case "list":
					ms, err := st.GetMessages(p.name)
					pm := tr.ProjectLites(ms)
					res := atomic.AddInt64(&seq, 1)
					call["r"], call["msgs"] = errClass(err), pm
					record(inv, res, call)
				case "visit":
					// a visit is a series of reads, one per mailbox, each within [start of the visit, its callback]
					visited := []string{}
					verr := st.VisitMailboxes(func(ms []storage.Message) bool {
						if len(ms) > 0 {
							pm := tr.ProjectLites(ms)
							res := atomic.AddInt64(&seq, 1)
							record(inv, res, tr.Ev{"k": "list", "mb": ms[0].Mailbox(), "r": "ok", "msgs": pm, "via": "visit"})
							visited = append(visited, ms[0].Mailbox())
						}
						return true
					})
					if verr == nil {
						// the walk as a whole: which mailboxes it was shown
						res := atomic.AddInt64(&seq, 1)
						record(inv, res, tr.Ev{"k": "visitdone", "mb": p.name, "r": "ok", "visited": visited})
					}
					if verr != nil {
						res := atomic.AddInt64(&seq, 1)
						record(inv, res, tr.Ev{"k": "visit-error", "mb": p.name, "r": errClass(verr)})
					}
				}
			}
		}(plans[ti])
	}
	done := make(chan struct{})
	go func() { wg.Wait(); close(done) }()
	churned := make(chan struct{})
	if !b.Churn {
		close(churned)
	}
	if b.Churn {
		// the recorded 'deleted' listener itself is never touched: what changes are the other names of its broker
		// (replaced, removed, added again) and the 'stored' hook registered under its name (no 'stored' event occurs here)
		go func() {
			defer close(churned)
			for i := 0; ; i++ {
				select {
				case <-done:
					return
				default:
				}
				n := churnNames[i%len(churnNames)]
				switch i % 4 {
				case 0, 1:
					host.Events.AfterMessageDeleted.AddListener(n, idle)
				case 2:
					host.Events.AfterMessageDeleted.RemoveListener(n)
					host.Events.AfterMessageDeleted.AddListener(n, idle)
				case 3:
					host.Events.AfterMessageStored.AddListener("verif", idle)
				}
				runtime.Gosched()
			}
		}()
	}
	close(start)
	select {
	case <-done:
	case <-time.After(20 * time.Second):
		w.Emit(tr.Ev{"a": "stuck", "t": hid, "what": "concurrent operations did not complete within 20 s"})
		w.Flush()
		return
	}
	sort.Slice(evs, func(i, j int) bool { return evs[i].at < evs[j].at })
	for _, e := range evs {
		w.Emit(e.ev)
	}
	<-churned
	if b.Churn {
		// the recording 'stored' hook is back before the sentinels are sent
		host.Events.AfterMessageStored.AddListener("verif", func(m event.MessageMetadata) { rec.invoke("stored", m) })
	}
	fin := tr.Ev{"a": "final", "t": hid, "evs": flushEvents(host, rec)}
	snapInto(fin)
	w.Emit(fin)
}

func cmdConc(args []string) error {
	if len(args) != 2 {
		return fmt.Errorf("usage: vh conc <behaviours.json> <trace.ndjson>")
	}
	raw, err := os.ReadFile(args[0])
	if err != nil {
		return err
	}
	var in concInput
	if err := json.Unmarshal(raw, &in); err != nil {
		return err
	}
	w, err := tr.NewWriter(args[1])
	if err != nil {
		return err
	}
	defer w.Close()
	base := ""
	if st, err := os.Stat("/dev/shm"); err == nil && st.IsDir() {
		base = "/dev/shm"
	}
	scratch, err := os.MkdirTemp(base, "vh-conc-")
	if err != nil {
		return err
	}
	defer os.RemoveAll(scratch)
	for i, b := range in.Behaviours {
		n := b.Repeat
		if n < 1 {
			n = 1
		}
		for r := 0; r < n; r++ {
			runConcHistory(w, b, r, in.Seed*1000003+int64(i)*131+int64(r), scratch)
		}
	}
	fmt.Fprintf(os.Stderr, "conc: %d behaviours, %d events\n", len(in.Behaviours), w.N)
	return nil
}
