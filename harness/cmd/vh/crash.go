package main

// Crash-point driver for the file store (C11).  A behaviour is a pre-history of store
// operations followed by one target operation.  While the target runs, the file store's
// verification hook fires before/after every file-system mutation; at each firing the driver
// copies the store directory: that copy is exactly what a process killed at that instant leaves
// on disk (user-space buffers are lost, everything written so far is there).  For the file being
// written it also derives the shorter states a buffered writer can leave (every multiple of the
// buffer size, and empty), and for a directory being removed recursively the states in which
// only some of its files are gone.  Every such state is then opened by a fresh file store, which
// visits all mailboxes, lists every mailbox, reads every body and delivers one new message to
// the affected mailbox.  Only observations are recorded; TLC judges them (MailstoreTrace.tla).

import (
	"bytes"
	"encoding/json"
	"fmt"
	"io"
	"os"
	"path/filepath"
	"sort"
	"strings"

	"github.com/inbucket/inbucket/v3/pkg/extension"
	"github.com/inbucket/inbucket/v3/pkg/message"
	"github.com/inbucket/inbucket/v3/pkg/storage"
	"github.com/inbucket/inbucket/v3/pkg/storage/file"

	"verif/harness/internal/tr"
)

type crashState struct {
	dir   string
	site  string
	k     int
	label string
}

func copyTree(src, dst string) error {
	return filepath.Walk(src, func(p string, info os.FileInfo, err error) error {
		if err != nil {
			return err
		}
		rel, _ := filepath.Rel(src, p)
		t := filepath.Join(dst, rel)
		if info.IsDir() {
			return os.MkdirAll(t, 0o770)
		}
		b, err := os.ReadFile(p)
		if err != nil {
			return err
		}
		return os.WriteFile(t, b, 0o660)
	})
}

// observeRecovery opens the crashed directory with a fresh store and records what a reader sees.
func observeRecovery(dir string, cap int, names []string, target string, probeBody []byte) tr.Ev {
	ev := tr.Ev{}
	host := extension.NewHost()
	st, err := newStore("file", cap, 0, dir, host)
	if err != nil {
		ev["open"] = err.Error()
		return ev
	}
	ev["open"] = "ok"
	snap, serr := tr.Snapshot(st, names)
	ev["s"] = snap
	if serr == nil {
		serr = []string{}
	}
	ev["serr"] = serr
	// every message's body must be readable in full
	rerr := []string{}
	for _, nm := range names {
		ms, err := st.GetMessages(nm)
		if err != nil {
			continue // already in serr
		}
		for _, m := range ms {
			r, err := m.Source()
			if err != nil {
				rerr = append(rerr, nm+"/"+m.ID()+": "+err.Error())
				continue
			}
			b, err := io.ReadAll(r)
			_ = r.Close()
			if err != nil || int64(len(b)) != m.Size() {
				rerr = append(rerr, fmt.Sprintf("%s/%s: read %d of %d bytes: %v", nm, m.ID(), len(b), m.Size(), err))
			}
		}
	}
	ev["rerr"] = rerr
	// the store accepts new mail for the affected mailbox
	meta := mkMetaFixed(target)
	id, err := st.AddMessage(&message.Delivery{Meta: meta, Reader: bytes.NewReader(probeBody)})
	ev["deliver"] = errClass(err)
	ev["newid"] = id
	w := tr.ProjectMsg(&message.Delivery{Meta: meta, Reader: bytes.NewReader(probeBody)})
	w.Meta.Hash = tr.HashBytes(probeBody)
	ev["newmeta"] = w.Meta
	ev["newsize"] = len(probeBody)
	snap2, serr2 := tr.Snapshot(st, names)
	ev["s2"] = snap2
	if serr2 == nil {
		serr2 = []string{}
	}
	ev["serr2"] = serr2
	return ev
}

func runCrashBehaviour(w *tr.Writer, b storeBehaviour, seed int64, scratch string) {
	if len(b.Ops) == 0 {
		return
	}
	pre := b
	pre.Ops = b.Ops[:len(b.Ops)-1]
	target := b.Ops[len(b.Ops)-1]
	dir := filepath.Join(scratch, "store-"+b.ID)
	_ = os.MkdirAll(dir, 0o770)
	defer os.RemoveAll(dir)
	// the pre-history and the target are executed by the ordinary store driver; the hook is armed
	// only while the target operation runs
	states := []crashState{}
	k := 0
	armed := false
	crashRoot := filepath.Join(scratch, "crash-"+b.ID)
	_ = os.MkdirAll(crashRoot, 0o770)
	defer os.RemoveAll(crashRoot)
	seq := []string{}
	file.VerifHook = func(site, path string) {
		if !armed || strings.HasPrefix(site, "visit.") {
			return
		}
		seq = append(seq, site)
		k++
		base := filepath.Join(crashRoot, fmt.Sprintf("%03d", k))
		if err := copyTree(dir, base); err != nil {
			return
		}
		states = append(states, crashState{dir: base, site: site, k: k, label: "as-is"})
		rel, _ := filepath.Rel(dir, path)
		switch {
		case site == "add.raw.copied" || site == "index.encoded" || site == "index.create" || site == "add.raw.create":
			// shorter states of the file being written: every multiple of the 4096-byte buffer, and empty
			fi, err := os.Stat(filepath.Join(base, rel))
			if err != nil {
				return
			}
			for n := int64(0); n < fi.Size(); n += 4096 {
				v := filepath.Join(crashRoot, fmt.Sprintf("%03d-t%d", k, n))
				if copyTree(base, v) == nil && os.Truncate(filepath.Join(v, rel), n) == nil {
					states = append(states, crashState{dir: v, site: site, k: k, label: fmt.Sprintf("truncated-%d", n)})
				}
			}
		case site == "rmdir.all.before":
			// RemoveAll deletes entry by entry, in directory order (unspecified): sorted and reverse-sorted prefixes
			ents, err := os.ReadDir(filepath.Join(base, rel))
			if err != nil {
				return
			}
			namesl := []string{}
			for _, e := range ents {
				namesl = append(namesl, e.Name())
			}
			sort.Strings(namesl)
			for _, rev := range []bool{false, true} {
				order := append([]string{}, namesl...)
				if rev {
					for i, j := 0, len(order)-1; i < j; i, j = i+1, j-1 {
						order[i], order[j] = order[j], order[i]
					}
				}
				for n := 1; n <= len(order); n++ {
					v := filepath.Join(crashRoot, fmt.Sprintf("%03d-r%v%d", k, rev, n))
					if copyTree(base, v) != nil {
						continue
					}
					for _, nm := range order[:n] {
						_ = os.Remove(filepath.Join(v, rel, nm))
					}
					states = append(states, crashState{dir: v, site: site, k: k, label: fmt.Sprintf("removed-%d-of-%d-rev=%v", n, len(order), rev)})
				}
			}
		}
	}
	defer func() { file.VerifHook = nil }()
	// run pre-history + target through the ordinary driver (emits reset + one event per op)
	armAt := len(pre.Ops)
	runStoreBehaviourHooked(w, b, seed, scratch, dir, func(i int) { armed = i == armAt }, func(i int) { armed = false })
	// the file-system mutations the interrupted operation went through, by hook site (judged against FileStoreProg)
	if target.Op == "add" || target.Op == "seen" || target.Op == "remove" || target.Op == "purge" {
		tn := ""
		if target.Mb >= 0 && target.Mb < len(b.Names) {
			tn = b.Names[target.Mb]
		}
		w.Emit(tr.Ev{"a": "sites", "t": b.ID, "op": target.Op, "mb": tn, "seq": seq})
	}
	// now the crash states
	name := ""
	if target.Mb >= 0 && target.Mb < len(b.Names) {
		name = b.Names[target.Mb]
	}
	if target.Op == "scan" || name == "" {
		name = b.Names[0]
	}
	probe := []byte("Subject: after the crash\r\n\r\nnew mail\r\n")
	for _, cs := range states {
		ev := observeRecovery(cs.dir, b.Cap, b.Names, name, probe)
		ev["a"] = "crash"
		ev["t"] = b.ID
		ev["site"] = cs.site
		ev["k"] = cs.k
		ev["variant"] = cs.label
		ev["mb"] = name
		w.Emit(ev)
	}
}

func cmdCrash(args []string) error {
	if len(args) != 2 {
		return fmt.Errorf("usage: vh crash <behaviours.json> <trace.ndjson>")
	}
	raw, err := os.ReadFile(args[0])
	if err != nil {
		return err
	}
	var in storeInput
	if err := json.Unmarshal(raw, &in); err != nil {
		return err
	}
	w, err := tr.NewWriter(args[1])
	if err != nil {
		return err
	}
	defer w.Close()
	base := ""
	if st, err := os.Stat("/dev/shm"); err == nil && st.IsDir() {
		base = "/dev/shm"
	}
	scratch, err := os.MkdirTemp(base, "vh-crash-")
	if err != nil {
		return err
	}
	defer os.RemoveAll(scratch)
	for i, b := range in.Behaviours {
		runCrashBehaviour(w, b, in.Seed*1000003+int64(i), scratch)
	}
	fmt.Fprintf(os.Stderr, "crash: %d behaviours, %d events\n", len(in.Behaviours), w.N)
	return nil
}

var _ storage.Store
