package main

// Driver for message transparency (C02).  For every message body of a batch it
// plays one real SMTP session (smtp.Server.VerifServeConn on a pipe) as the client
// of spec/DotCodec.tla - a dot is doubled at the start of the data and after every
// LF, the data is ended by CRLF "." CRLF - and then reads the message back through
// the four read interfaces of the same server: storage.Store.GetMessage().Source(),
// REST /api/v1/mailbox/{name}/{id}/source and web UI /serve/mailbox/{name}/{id}/source
// through the real router, POP3 RETR through pop3.Server.VerifServeConn, un-stuffing
// as a correct client.  It records, per interface, the length of what came back and
// the length and hash of its canonical form (Canon, smtp.go), the sizes the interfaces
// report, and the projection of the stored source into leading header lines + the rest.
// Projections only, no pass/fail logic: the relations are evaluated by TLC
// (spec/DotCodecTrace.tla).

import (
	"bufio"
	"bytes"
	"encoding/base64"
	"encoding/json"
	"fmt"
	"io"
	"net"
	"net/http"
	"net/http/httptest"
	"os"
	"path/filepath"
	"strconv"
	"strings"
	"time"

	"github.com/inbucket/inbucket/v3/pkg/config"
	"github.com/inbucket/inbucket/v3/pkg/extension"
	"github.com/inbucket/inbucket/v3/pkg/message"
	"github.com/inbucket/inbucket/v3/pkg/msghub"
	"github.com/inbucket/inbucket/v3/pkg/policy"
	"github.com/inbucket/inbucket/v3/pkg/rest"
	"github.com/inbucket/inbucket/v3/pkg/server/pop3"
	"github.com/inbucket/inbucket/v3/pkg/server/smtp"
	"github.com/inbucket/inbucket/v3/pkg/server/web"
	"github.com/inbucket/inbucket/v3/pkg/storage"
	"github.com/inbucket/inbucket/v3/pkg/webui"

	"verif/harness/internal/tr"
)

type dcDigest struct {
	Len  int    `json:"len"`
	CLen int    `json:"clen"`
	H    string `json:"h"`
}

type dcItem struct {
	B      string    `json:"b"`      // body id, echoed
	Frame  bool      `json:"frame"`  // body placed behind the batch's header block
	Body   string    `json:"body"`   // base64
	Cls    *[]string `json:"cls"`    // class string of the body (absent for large bodies), echoed
	Quirk  *bool     `json:"quirk"`  // prediction of the model, echoed
	PExp   *dcDigest `json:"pexp"`   // the concretiser's Canon(frame ++ body ++ pad)
	Alt    *dcDigest `json:"alt"`    // the concretiser's expectation under the implementation-shaped reader, when it differs
	AltCls *[]string `json:"altcls"` // ... and its class string (body part)
	Strict bool      `json:"strict"` // send as the RFC-strict client; recorded as an observation only
	Kind   string    `json:"kind"`   // enum | sample | special name, echoed
}

type dcBehaviour struct {
	ID      string   `json:"id"`
	Store   string   `json:"store"`
	Frame   string   `json:"frame_b64"` // the fixed valid header block (ends with an empty line)
	Items   []dcItem `json:"items"`
	Timeout int      `json:"timeout_ms"`
	Debug   bool     `json:"netdebug"` // the servers run with -netdebug (traffic transcript on stdout)
}

type dcInput struct {
	Seed       int64         `json:"seed"`
	Behaviours []dcBehaviour `json:"behaviours"`
}

// ---------------------------------------------------------------- the client of the contract

func endsCRLF(b []byte) bool { return len(b) >= 2 && b[len(b)-2] == '\r' && b[len(b)-1] == '\n' }

// dcPad: the CRLF a client adds when the last line of the data has none.
func dcPad(data []byte) []byte {
	if len(data) == 0 || endsCRLF(data) {
		return nil
	}
	return []byte("\r\n")
}

// dcStuff doubles a dot at the start of the data and after every LF (strict: only after CRLF).
func dcStuff(data []byte, strict bool) []byte {
	out := make([]byte, 0, len(data)+len(data)/32+8)
	bol := true
	var prev byte
	for _, c := range data {
		if bol && c == '.' {
			out = append(out, '.')
		}
		out = append(out, c)
		if strict {
			bol = c == '\n' && prev == '\r'
		} else {
			bol = c == '\n'
		}
		prev = c
	}
	return out
}

// dcUnstuffRef is the reference reader of DotCodec.tla (transparent): returns the data, whether the
// terminator was seen, and how many bytes were left behind it.
func dcUnstuffRef(wire []byte) (data []byte, done bool, rest int) {
	out := make([]byte, 0, len(wire))
	bol := true
	i := 0
	for i < len(wire) {
		c := wire[i]
		if bol && c == '.' {
			r := wire[i+1:]
			if len(r) >= 2 && r[0] == '\r' && r[1] == '\n' {
				return out, true, len(r) - 2
			}
			if len(r) >= 1 && r[0] == '\n' {
				return out, true, len(r) - 1
			}
			if len(r) == 0 {
				return out, false, 0
			}
			out = append(out, r[0])
			bol = false
			i += 2
			continue
		}
		out = append(out, c)
		bol = c == '\n'
		i++
	}
	return out, false, 0
}

func dcDigestOf(b []byte) dcDigest {
	c := Canon(b)
	return dcDigest{Len: len(b), CLen: len(c), H: tr.HashBytes(c)}
}

// ---------------------------------------------------------------- projections

func dcClass(c byte) string {
	switch {
	case c == '.':
		return "DOT"
	case c == '\r':
		return "CR"
	case c == '\n':
		return "LF"
	case c == 0:
		return "NUL"
	case c >= 0x80:
		return "HI"
	}
	return "CH"
}

type dcHdr struct {
	Lines []string `json:"lines"`
	Whole bool     `json:"whole"`
}

// dcSplit cuts the canonical stored source into its last `want' bytes and what is in front of them,
// and projects the front part: the class of each of its lines and whether it consists of whole lines.
func dcSplit(canon []byte, want int) (dcHdr, dcDigest) {
	if want > len(canon) {
		want = len(canon)
	}
	if want < 0 {
		want = 0
	}
	front, tail := canon[:len(canon)-want], canon[len(canon)-want:]
	h := dcHdr{Lines: []string{}}
	h.Whole = (len(front) > 0 && front[len(front)-1] == '\n') || (len(front) > 0 && len(tail) == 0)
	lines := bytes.Split(front, []byte("\n"))
	if len(lines) > 0 && len(lines[len(lines)-1]) == 0 {
		lines = lines[:len(lines)-1]
	}
	for i, ln := range lines {
		if i >= 12 {
			h.Lines = append(h.Lines, "other")
			break
		}
		low := strings.ToLower(string(ln[:min(len(ln), 16)]))
		switch {
		case strings.HasPrefix(low, "return-path:"):
			h.Lines = append(h.Lines, "return-path")
		case strings.HasPrefix(low, "received:"):
			h.Lines = append(h.Lines, "received")
		case len(ln) > 0 && (ln[0] == ' ' || ln[0] == '\t'):
			h.Lines = append(h.Lines, "cont")
		default:
			h.Lines = append(h.Lines, "other")
		}
	}
	return h, dcDigest{Len: len(tail), CLen: len(tail), H: tr.HashBytes(tail)}
}

// dcLongLine: offset of the first line of the raw source whose content (without its LF) is longer
// than 65535 bytes, and the canonical length of the source in front of it; -1, -1 if there is none.
func dcLongLine(src []byte) (int, int) {
	start := 0
	for start < len(src) {
		n := bytes.IndexByte(src[start:], '\n')
		l := n
		if n < 0 {
			l = len(src) - start
		}
		if l > 65535 {
			return start, len(Canon(src[:start]))
		}
		if n < 0 {
			break
		}
		start += n + 1
	}
	return -1, -1
}

// ---------------------------------------------------------------- environment

type dcEnv struct {
	store  storage.Store
	mgr    *message.StoreManager
	smtp   *smtp.Server
	pop3   *pop3.Server
	router http.Handler
	dir    string
	sid    int
}

func dcSetup(b dcBehaviour, scratch string) (*dcEnv, error) {
	setEnv(map[string]string{
		"INBUCKET_MAILBOXNAMING":        "local",
		"INBUCKET_SMTP_DOMAIN":          "inbucket.test",
		"INBUCKET_SMTP_DEFAULTACCEPT":   "true",
		"INBUCKET_SMTP_DEFAULTSTORE":    "true",
		"INBUCKET_SMTP_MAXMESSAGEBYTES": "50000000",
	})
	root, err := config.Process()
	if err != nil {
		return nil, fmt.Errorf("config.Process: %v", err)
	}
	root.SMTP.Debug = b.Debug
	host := extension.NewHost()
	e := &dcEnv{dir: filepath.Join(scratch, "store-"+b.ID)}
	if b.Store == "file" {
		_ = os.MkdirAll(e.dir, 0o770)
	}
	if e.store, err = newStore(b.Store, 0, 0, e.dir, host); err != nil {
		return nil, err
	}
	ap := &policy.Addressing{Config: root}
	e.mgr = &message.StoreManager{AddrPolicy: ap, Store: e.store, ExtHost: host}
	e.smtp = smtp.NewServer(root.SMTP, e.mgr, ap, host)
	if e.pop3, err = pop3.NewServer(config.POP3{Addr: "127.0.0.1:0", Domain: "inbucket.test", Timeout: 120 * time.Second, Debug: b.Debug}, e.store); err != nil {
		return nil, err
	}
	// as pkg/server/lifecycle.go FullAssembly, on a fresh router
	web.Router = web.NewRouter()
	webui.SetupRoutes(web.Router.PathPrefix("/serve/").Subrouter())
	rest.SetupRoutes(web.Router.PathPrefix("/api/").Subrouter())
	web.NewServer(root, e.mgr, &msghub.Hub{})
	e.router = web.Router
	return e, nil
}

// dcSay writes data in the background (the peer may answer before it has consumed everything) and reads one SMTP reply.
func dcSay(c net.Conn, br *bufio.Reader, data []byte, timeout time.Duration) reply {
	_ = c.SetWriteDeadline(time.Now().Add(timeout))
	werr := make(chan error, 1)
	go func() { _, err := c.Write(data); werr <- err }()
	rp := readReply(c, br, timeout)
	select {
	case <-werr:
	case <-time.After(timeout):
	}
	return rp
}

// dcDeliver plays one SMTP session that transmits wire after the 354; returns the reply to the end of
// the data ("none" with code 0 when the dialogue did not get that far) and the number of further replies
// the server sent before the client hung up (strict client: the rest of the data read as commands).
func (e *dcEnv) dcDeliver(mbox string, wire []byte, timeout time.Duration, drain bool) (rp reply, stage string, extra int, returned bool) {
	sc, cc := net.Pipe()
	done := make(chan struct{})
	e.sid++
	go func(id int) { e.smtp.VerifServeConn(id, sc); close(done) }(e.sid)
	br := bufio.NewReader(cc)
	rp = reply{Cls: "none"}
	stage = "banner"
	if readReply(cc, br, timeout).Cls == "ok" {
		stage = "ehlo"
		if dcSay(cc, br, []byte("EHLO client.example\r\n"), timeout).Cls == "ok" {
			stage = "mail"
			if dcSay(cc, br, []byte("MAIL FROM:<sender@origin.example>\r\n"), timeout).Cls == "ok" {
				stage = "rcpt"
				// the inspected mailbox is the SECOND recipient of the transaction (a decoy comes first): every recipient,
				// not just the first, must get the whole message
				dcSay(cc, br, []byte("RCPT TO:<decoy@store.example>\r\n"), timeout)
				if dcSay(cc, br, []byte("RCPT TO:<"+mbox+"@store.example>\r\n"), timeout).Cls == "ok" {
					stage = "data"
					if r := dcSay(cc, br, []byte("DATA\r\n"), timeout); r.Code == 354 {
						stage = "body"
						rp = dcSay(cc, br, wire, timeout)
						if drain {
							for {
								x := readReply(cc, br, 150*time.Millisecond)
								if x.Cls == "none" || x.Cls == "closed" {
									break
								}
								extra++
							}
						} else if rp.Cls == "ok" || rp.Cls == "fail" {
							dcSay(cc, br, []byte("QUIT\r\n"), timeout)
						}
					}
				}
			}
		}
	}
	cc.Close()
	select {
	case <-done:
		returned = true
	case <-time.After(timeout):
	}
	return
}

func (e *dcEnv) count(mbox string) (total, inbox int, id string, msg storage.Message) {
	_ = e.store.VisitMailboxes(func(ms []storage.Message) bool {
		total += len(ms)
		return true
	})
	ms, _ := e.store.GetMessages(mbox)
	inbox = len(ms)
	if len(ms) > 0 {
		id, msg = ms[0].ID(), ms[0]
	}
	return
}

func (e *dcEnv) httpGet(target string) (status int, body []byte) {
	defer func() {
		if r := recover(); r != nil {
			status, body = -1, []byte(fmt.Sprint(r))
		}
	}()
	req := httptest.NewRequest(http.MethodGet, target, nil)
	w := httptest.NewRecorder()
	e.router.ServeHTTP(w, req)
	return w.Code, w.Body.Bytes()
}

type dcPop struct {
	Cls   string `json:"cls"`   // status indicator of the reply to RETR: ok | fail | malformed | none | closed
	Term  bool   `json:"term"`  // the multi-line reply was ended by "."
	Stale bool   `json:"stale"` // the next command (NOOP) was answered by a left-over -ERR line
	Junk  bool   `json:"junk"`  // ... or by something that is no status line at all (the reply went on behind its ".")
	Lines int    `json:"lines"`
	Login string `json:"login"`
	dcDigest
}

// dcRetr logs in to the mailbox over POP3, asks LIST 1 and RETR 1 and un-stuffs the multi-line reply
// as a correct client: a line ends at LF, ".CRLF" ends the reply, one leading dot is removed.
func (e *dcEnv) dcRetr(mbox string, timeout time.Duration) (p dcPop, listed int) {
	listed = -1
	sc, cc := net.Pipe()
	done := make(chan struct{})
	e.sid++
	go func(id int) {
		defer close(done)
		defer func() {
			if r := recover(); r != nil {
				_ = sc.Close()
			}
		}()
		e.pop3.VerifServeConn(id, sc)
	}(e.sid)
	br := bufio.NewReaderSize(cc, 1<<16)
	line := func() (string, bool) {
		_ = cc.SetReadDeadline(time.Now().Add(timeout))
		s, err := br.ReadString('\n')
		return s, err == nil
	}
	// the pipe is synchronous and the server may still be writing something the client does not expect:
	// write in the background, read in the foreground
	say := func(cmd string) (string, bool) {
		_ = cc.SetWriteDeadline(time.Now().Add(timeout))
		werr := make(chan error, 1)
		go func() { _, err := cc.Write([]byte(cmd + "\r\n")); werr <- err }()
		s, ok := line()
		select {
		case <-werr:
		case <-time.After(timeout):
		}
		return s, ok
	}
	defer func() {
		cc.Close()
		select {
		case <-done:
		case <-time.After(timeout):
		}
	}()
	p.Cls = "none"
	p.Login = "banner"
	if s, ok := line(); !ok || !strings.HasPrefix(s, "+OK") {
		return
	}
	p.Login = "user"
	if s, ok := say("USER " + mbox); !ok || !strings.HasPrefix(s, "+OK") {
		return
	}
	p.Login = "pass"
	if s, ok := say("PASS secret"); !ok || !strings.HasPrefix(s, "+OK") {
		return
	}
	p.Login = "ok"
	if s, ok := say("LIST 1"); ok && strings.HasPrefix(s, "+OK 1 ") {
		if n, err := strconv.Atoi(strings.TrimSpace(s[len("+OK 1 "):])); err == nil {
			listed = n
		}
	}
	s, ok := say("RETR 1")
	switch {
	case !ok:
		p.Cls = "closed"
		return
	case s == "+OK\r\n" || strings.HasPrefix(s, "+OK "):
		p.Cls = "ok"
	case strings.HasPrefix(s, "-ERR"):
		p.Cls = "fail"
		return
	default:
		p.Cls = "malformed"
		return
	}
	var got bytes.Buffer
	for {
		_ = cc.SetReadDeadline(time.Now().Add(timeout))
		l, err := br.ReadBytes('\n')
		if err != nil {
			got.Write(l)
			break
		}
		p.Lines++
		if bytes.Equal(l, []byte(".\r\n")) {
			p.Term = true
			break
		}
		if l[0] == '.' {
			l = l[1:]
		}
		got.Write(l)
	}
	p.dcDigest = dcDigestOf(got.Bytes())
	if p.Term {
		// what does the server say next?  A correct reply to NOOP, or something left over from RETR.  The server may
		// be in the middle of writing more (and then never reads the NOOP): read one line, then hang up.
		_ = cc.SetWriteDeadline(time.Now().Add(timeout))
		werr := make(chan error, 1)
		go func() { _, err := cc.Write([]byte("NOOP\r\n")); werr <- err }()
		s, ok := line()
		p.Stale = ok && strings.HasPrefix(s, "-ERR")
		p.Junk = ok && !strings.HasPrefix(s, "-ERR") && !strings.HasPrefix(s, "+OK")
		cc.Close()
		<-werr
	}
	return
}

// ---------------------------------------------------------------- one batch

func runDotCodecBehaviour(w *tr.Writer, b dcBehaviour, scratch string) {
	e, err := dcSetup(b, scratch)
	if err != nil {
		w.Emit(tr.Ev{"a": "harness-error", "t": b.ID, "err": err.Error()})
		return
	}
	if b.Store == "file" {
		defer os.RemoveAll(e.dir)
	}
	frame, err := base64.StdEncoding.DecodeString(b.Frame)
	if err != nil {
		w.Emit(tr.Ev{"a": "harness-error", "t": b.ID, "err": "frame: " + err.Error()})
		return
	}
	timeout := 20 * time.Second
	if b.Timeout > 0 {
		timeout = time.Duration(b.Timeout) * time.Millisecond
	}
	w.Emit(tr.Ev{"a": "reset", "t": b.ID, "store": b.Store})
	w.Flush()
	for i, it := range b.Items {
		body, err := base64.StdEncoding.DecodeString(it.Body)
		if err != nil {
			w.Emit(tr.Ev{"a": "harness-error", "t": b.ID, "err": "body: " + err.Error()})
			return
		}
		mbox := fmt.Sprintf("m%d", i)
		data := body
		fr := "raw"
		fclen := 0
		if it.Frame {
			data = append(append([]byte{}, frame...), body...)
			fr = "hdr"
			fclen = len(crlfRun.ReplaceAll(frame, []byte("\n")))
		}
		sent := append(append([]byte{}, data...), dcPad(data)...)
		wire := append(dcStuff(sent, it.Strict), []byte(".\r\n")...)
		exp := dcDigestOf(sent)
		ev := tr.Ev{"a": "obs", "t": b.ID, "i": i, "b": it.B, "kind": it.Kind, "backend": b.Store, "frame": fr, "fclen": fclen,
			"bodylen": len(body), "exp": exp}
		if it.Cls != nil {
			ev["cls"] = *it.Cls
		}
		if it.Quirk != nil {
			ev["quirk"] = *it.Quirk
		}
		if it.PExp != nil {
			ev["pexp"] = it.PExp
		}
		if it.Alt != nil {
			ev["alt"] = it.Alt
		}
		if it.AltCls != nil {
			ev["altcls"] = *it.AltCls
		}
		if !it.Strict {
			back, done, rest := dcUnstuffRef(wire)
			ev["wireok"] = done && rest == 0 && bytes.Equal(back, sent)
		} else {
			ev["a"] = "strictobs"
		}
		rp, stage, extra, returned := e.dcDeliver(mbox, wire, timeout, it.Strict)
		ev["smtp"] = tr.Ev{"cls": rp.Cls, "code": rp.Code, "stage": stage, "extra": extra, "returned": returned}
		_ = e.store.PurgeMessages("decoy")
		total, inbox, id, msg := e.count(mbox)
		ev["total"], ev["inbox"] = total, inbox
		if msg != nil {
			var src []byte
			if r, err := msg.Source(); err == nil {
				src, _ = io.ReadAll(r)
				_ = r.Close()
			} else {
				ev["sourceerr"] = err.Error()
			}
			canon := Canon(src)
			ev["store"] = dcDigestOf(src)
			ev["hdr"], ev["tail"] = splitEv(canon, exp.CLen)
			if it.Alt != nil {
				ev["althdr"], ev["alttail"] = splitEv(canon, it.Alt.CLen)
			}
			k := min(len(canon), 32)
			tc := make([]string, 0, k)
			for _, c := range canon[len(canon)-k:] {
				tc = append(tc, dcClass(c))
			}
			ev["tailcls"] = tc
			if !it.Strict {
				size := tr.Ev{"store": msg.Size(), "rest": -1, "pop3": -1}
				if st, body := e.httpGet("/api/v1/mailbox/" + mbox); st == 200 {
					var hs []struct {
						ID   string `json:"id"`
						Size int64  `json:"size"`
					}
					if json.Unmarshal(body, &hs) == nil {
						for _, h := range hs {
							if h.ID == id {
								size["rest"] = h.Size
							}
						}
					}
				}
				for _, v := range [][2]string{{"rest", "/api/v1/mailbox/"}, {"web", "/serve/mailbox/"}} {
					st, body := e.httpGet(v[1] + mbox + "/" + id + "/source")
					d := dcDigestOf(body)
					ev[v[0]] = tr.Ev{"status": st, "len": d.Len, "clen": d.CLen, "h": d.H}
				}
				p, listed := e.dcRetr(mbox, timeout)
				size["pop3"] = listed
				ev["pop3"] = p
				ev["size"] = size
				ev["ph"] = ""
				if p.CLen <= len(canon) {
					ev["ph"] = tr.HashBytes(canon[:p.CLen])
				}
				ev["longat"], ev["clongat"] = dcLongLine(src)
			}
		}
		_ = e.store.PurgeMessages(mbox)
		if left, _, _, _ := e.count(mbox); left != 0 {
			// something was stored elsewhere (or cannot be removed): start the next body on an empty store
			_ = e.store.VisitMailboxes(func(ms []storage.Message) bool {
				if len(ms) > 0 {
					_ = e.store.PurgeMessages(ms[0].Mailbox())
				}
				return true
			})
		}
		w.Emit(ev)
	}
}

func splitEv(canon []byte, want int) (dcHdr, tr.Ev) {
	h, t := dcSplit(canon, want)
	return h, tr.Ev{"clen": t.CLen, "h": t.H}
}

func cmdDotCodec(args []string) error {
	if len(args) != 2 {
		return fmt.Errorf("usage: vh dotcodec <behaviours.json> <trace.ndjson>")
	}
	raw, err := os.ReadFile(args[0])
	if err != nil {
		return err
	}
	var in dcInput
	if err := json.Unmarshal(raw, &in); err != nil {
		return err
	}
	w, err := tr.NewWriter(args[1])
	if err != nil {
		return err
	}
	defer w.Close()
	base := ""
	if st, err := os.Stat("/dev/shm"); err == nil && st.IsDir() {
		base = "/dev/shm"
	}
	scratch, err := os.MkdirTemp(base, "vh-dotcodec-")
	if err != nil {
		return err
	}
	defer os.RemoveAll(scratch)
	n := 0
	for _, b := range in.Behaviours {
		runDotCodecBehaviour(w, b, scratch)
		n += len(b.Items)
	}
	fmt.Fprintf(os.Stderr, "dotcodec: %d batches, %d bodies, %d events\n", len(in.Behaviours), n, w.N)
	return nil
}
