package main

// End-to-end driver for the composed contract (spec/Inbucket.tla): the services are assembled by
// server.FullAssembly exactly as cmd/inbucket does, started on loopback ports, and then used only
// through their network interfaces: SMTP and POP3 over TCP, the REST API over HTTP, the monitor
// over WebSocket (v2).  After every step the driver lists every mailbox through the REST API and
// records that as the observed state.  No pass/fail logic.

import (
	"bufio"
	"context"
	"encoding/json"
	"fmt"
	"io"
	"net"
	"net/http"
	"net/url"
	"os"
	"path/filepath"
	"strings"
	"sync"
	"time"

	"github.com/gorilla/websocket"
	"github.com/inbucket/inbucket/v3/pkg/config"
	"github.com/inbucket/inbucket/v3/pkg/extension/event"
	"github.com/inbucket/inbucket/v3/pkg/server"
	"github.com/inbucket/inbucket/v3/pkg/storage"
	"github.com/inbucket/inbucket/v3/pkg/storage/file"
	"github.com/inbucket/inbucket/v3/pkg/storage/mem"

	"verif/harness/internal/tr"
)

type e2eStep struct {
	K    string   `json:"k"` // deliver | delete | purge | seen | join | drain | leave | poplogin | popdele | popquit | popdrop
	To   []string `json:"to"`
	Subj string   `json:"subj"`
	Mb   string   `json:"mb"`
	N    int      `json:"n"` // 1-based position in the mailbox (delete/seen) or in the POP3 listing (popdele)
	Mon  int      `json:"mon"`
	Ver  string   `json:"ver"` // join: monitor protocol "v1" (stored messages only) | "v2"
}

type e2eBehaviour struct {
	ID    string    `json:"id"`
	Names []string  `json:"names"`
	Steps []e2eStep `json:"steps"`
}

type e2eInput struct {
	Seed       int64          `json:"seed"`
	Store      string         `json:"store"`
	HistLen    int            `json:"histlen"`
	Cap        int            `json:"cap"` // INBUCKET_STORAGE_MAILBOXMSGCAP (0 = none)
	Behaviours []e2eBehaviour `json:"behaviours"`
}

type e2eMon struct {
	conn *websocket.Conn
	mu   sync.Mutex
	evs  []tr.Ev
	n    int64
}

func (m *e2eMon) reader() {
	for {
		_, data, err := m.conn.ReadMessage()
		if err != nil {
			return
		}
		var e struct {
			Mailbox    string `json:"mailbox"` // v1: the message header itself
			ID         string `json:"id"`
			Variant    string `json:"variant"`
			Identifier *struct {
				Mailbox string `json:"mailbox"`
				ID      string `json:"id"`
			} `json:"identifier"`
			Header *struct {
				Mailbox string `json:"mailbox"`
				ID      string `json:"id"`
			} `json:"header"`
		}
		if json.Unmarshal(data, &e) != nil {
			continue
		}
		ev := tr.Ev{"variant": e.Variant, "mb": "", "id": ""}
		if e.Header != nil {
			ev["mb"], ev["id"] = e.Header.Mailbox, e.Header.ID
		} else if e.Identifier != nil {
			ev["mb"], ev["id"] = e.Identifier.Mailbox, e.Identifier.ID
		} else if e.Variant == "" && e.ID != "" {
			ev["variant"], ev["mb"], ev["id"] = "message-stored", e.Mailbox, e.ID // protocol v1
		}
		m.mu.Lock()
		m.evs = append(m.evs, ev)
		m.n++
		m.mu.Unlock()
	}
}

// take waits until nothing has arrived for quiet, then hands over what has been received
func (m *e2eMon) take(quiet time.Duration) []tr.Ev {
	last := int64(-1)
	for {
		m.mu.Lock()
		n := m.n
		m.mu.Unlock()
		if n == last {
			break
		}
		last = n
		time.Sleep(quiet)
	}
	m.mu.Lock()
	out := m.evs
	m.evs = nil
	m.mu.Unlock()
	if out == nil {
		out = []tr.Ev{}
	}
	return out
}

func freePort() (string, error) {
	l, err := net.Listen("tcp4", "127.0.0.1:0")
	if err != nil {
		return "", err
	}
	defer l.Close()
	return l.Addr().String(), nil
}

type e2eEnv struct {
	svc      *server.Services
	base     string // http://127.0.0.1:port
	wsbase   string
	smtpAddr string
	popAddr  string
	// a listener of our own on the after-events, to know when the event pipeline is quiet
	mu     sync.Mutex
	events int64
}

func (e *e2eEnv) settle() {
	// wait until no after-event has been emitted for a while, then until the hub has run its queue
	last := int64(-1)
	for {
		e.mu.Lock()
		n := e.events
		e.mu.Unlock()
		if n == last {
			break
		}
		last = n
		time.Sleep(15 * time.Millisecond)
	}
	done := make(chan struct{})
	go func() { e.svc.MsgHub.Sync(); close(done) }()
	select {
	case <-done:
	case <-time.After(3 * time.Second):
	}
}

func (e *e2eEnv) list(mb string) ([]tr.Ev, string) {
	resp, err := http.Get(e.base + "/api/v1/mailbox/" + url.PathEscape(mb))
	if err != nil {
		return nil, "error: " + err.Error()
	}
	defer resp.Body.Close()
	body, _ := io.ReadAll(resp.Body)
	if resp.StatusCode != 200 {
		return nil, fmt.Sprintf("status %d", resp.StatusCode)
	}
	var hs []struct {
		ID      string `json:"id"`
		Subject string `json:"subject"`
		Seen    bool   `json:"seen"`
	}
	if err := json.Unmarshal(body, &hs); err != nil {
		return nil, "json: " + err.Error()
	}
	out := []tr.Ev{}
	for _, h := range hs {
		out = append(out, tr.Ev{"id": h.ID, "subj": h.Subject, "seen": h.Seen})
	}
	return out, ""
}

func (e *e2eEnv) snapshot(names []string) ([]tr.Ev, []string) {
	boxes, errs := []tr.Ev{}, []string{}
	for _, n := range names {
		ms, es := e.list(n)
		if es != "" {
			errs = append(errs, n+": "+es)
			continue
		}
		if len(ms) > 0 {
			boxes = append(boxes, tr.Ev{"mb": n, "msgs": ms})
		}
	}
	return boxes, errs
}

func smtpSend(addr string, to []string, subj string) int {
	c, err := net.DialTimeout("tcp4", addr, 3*time.Second)
	if err != nil {
		return -1
	}
	defer c.Close()
	br := bufio.NewReader(c)
	if readReply(c, br, 5*time.Second).Cls != "ok" {
		return -2
	}
	say := func(s string) reply {
		_ = c.SetWriteDeadline(time.Now().Add(5 * time.Second))
		_, _ = c.Write([]byte(s))
		return readReply(c, br, 5*time.Second)
	}
	if say("EHLO e2e.example\r\n").Cls != "ok" || say("MAIL FROM:<e2e@sender.example>\r\n").Cls != "ok" {
		return -3
	}
	for _, t := range to {
		if say("RCPT TO:<"+t+"@inbucket.example>\r\n").Cls != "ok" {
			return -4
		}
	}
	if say("DATA\r\n").Code != 354 {
		return -5
	}
	rp := say("From: e2e@sender.example\r\nSubject: " + subj + "\r\n\r\nbody of " + subj + "\r\n.\r\n")
	say("QUIT\r\n")
	return rp.Code
}

type popConn struct {
	c  net.Conn
	br *bufio.Reader
}

func (p *popConn) line() string {
	_ = p.c.SetReadDeadline(time.Now().Add(5 * time.Second))
	s, err := p.br.ReadString('\n')
	if err != nil {
		return "!" + err.Error()
	}
	return strings.TrimRight(s, "\r\n")
}
func (p *popConn) say(s string) string {
	_ = p.c.SetWriteDeadline(time.Now().Add(5 * time.Second))
	_, _ = p.c.Write([]byte(s + "\r\n"))
	return p.line()
}

func cmdE2E(args []string) error {
	if len(args) != 2 {
		return fmt.Errorf("usage: vh e2e <behaviours.json> <trace.ndjson>")
	}
	raw, err := os.ReadFile(args[0])
	if err != nil {
		return err
	}
	var in e2eInput
	if err := json.Unmarshal(raw, &in); err != nil {
		return err
	}
	w, err := tr.NewWriter(args[1])
	if err != nil {
		return err
	}
	defer w.Close()
	scratch, err := os.MkdirTemp("", "vh-e2e-")
	if err != nil {
		return err
	}
	defer os.RemoveAll(scratch)
	// ---- assembly exactly as cmd/inbucket: configuration from the environment, FullAssembly, Start
	storage.Constructors["file"] = file.New
	storage.Constructors["memory"] = mem.New
	webAddr, err := freePort()
	if err != nil {
		return err
	}
	env := map[string]string{
		"INBUCKET_SMTP_ADDR": "127.0.0.1:0", "INBUCKET_POP3_ADDR": "127.0.0.1:0", "INBUCKET_WEB_ADDR": webAddr,
		"INBUCKET_WEB_MONITORHISTORY": fmt.Sprint(in.HistLen), "INBUCKET_MAILBOXNAMING": "local",
		"INBUCKET_STORAGE_TYPE": map[string]string{"mem": "memory", "file": "file"}[in.Store],
		"INBUCKET_WEB_UIDIR":    filepath.Join(scratch, "ui"), "INBUCKET_LUA_PATH": filepath.Join(scratch, "none.lua"),
		"INBUCKET_STORAGE_RETENTIONPERIOD": "24h", "INBUCKET_STORAGE_MAILBOXMSGCAP": fmt.Sprint(in.Cap),
	}
	if in.Store == "file" {
		env["INBUCKET_STORAGE_PARAMS"] = "path:" + filepath.Join(scratch, "store")
	}
	setEnv(env)
	conf, err := config.Process()
	if err != nil {
		return fmt.Errorf("config: %v", err)
	}
	svc, err := server.FullAssembly(conf)
	if err != nil {
		return fmt.Errorf("FullAssembly: %v", err)
	}
	ctx, cancel := context.WithCancel(context.Background())
	defer cancel()
	ready := make(chan struct{})
	svc.Start(ctx, func() { close(ready) })
	select {
	case <-ready:
	case err := <-svc.Notify():
		return fmt.Errorf("service failed to start: %v", err)
	case <-time.After(10 * time.Second):
		return fmt.Errorf("services not ready within 10 s")
	}
	e := &e2eEnv{svc: svc, base: "http://" + webAddr, wsbase: "ws://" + webAddr,
		smtpAddr: svc.SMTPServer.VerifAddr().String(), popAddr: svc.POP3Server.VerifAddr().String()}
	count := func(event.MessageMetadata) { e.mu.Lock(); e.events++; e.mu.Unlock() }
	svc.ExtHost.Events.AfterMessageStored.AddListener("zz-verif", count)
	svc.ExtHost.Events.AfterMessageDeleted.AddListener("zz-verif", count)

	for _, b := range in.Behaviours {
		// start from an empty store: purge every mailbox through the API
		for _, n := range b.Names {
			req, _ := http.NewRequest(http.MethodDelete, e.base+"/api/v1/mailbox/"+url.PathEscape(n), nil)
			if resp, err := http.DefaultClient.Do(req); err == nil {
				resp.Body.Close()
			}
		}
		e.settle()
		mons := map[int]*e2eMon{}
		var pop *popConn
		var popIDs []string
		snapInto := func(ev tr.Ev) {
			s, errs := e.snapshot(b.Names)
			ev["s"] = s
			if errs == nil {
				errs = []string{}
			}
			ev["serr"] = errs
		}
		rev := tr.Ev{"a": "reset", "t": b.ID, "histlen": in.HistLen, "cap": in.Cap, "store": in.Store}
		snapInto(rev)
		w.Emit(rev)
		for i, st := range b.Steps {
			ev := tr.Ev{"a": st.K, "t": b.ID, "i": i}
			switch st.K {
			case "deliver":
				ev["to"], ev["subj"] = st.To, st.Subj
				ev["code"] = smtpSend(e.smtpAddr, st.To, st.Subj)
			case "delete", "seen":
				ms, _ := e.list(st.Mb)
				ev["mb"] = st.Mb
				id := "no-such-id"
				if st.N >= 1 && st.N <= len(ms) {
					id = ms[st.N-1]["id"].(string)
				}
				ev["id"] = id
				method, body := http.MethodDelete, io.Reader(nil)
				if st.K == "seen" {
					method, body = http.MethodPatch, strings.NewReader(`{"seen":true}`)
				}
				req, _ := http.NewRequest(method, e.base+"/api/v1/mailbox/"+url.PathEscape(st.Mb)+"/"+id, body)
				resp, err := http.DefaultClient.Do(req)
				if err != nil {
					ev["status"] = -1
				} else {
					ev["status"] = resp.StatusCode
					resp.Body.Close()
				}
			case "purge":
				ev["mb"] = st.Mb
				req, _ := http.NewRequest(http.MethodDelete, e.base+"/api/v1/mailbox/"+url.PathEscape(st.Mb), nil)
				resp, err := http.DefaultClient.Do(req)
				if err != nil {
					ev["status"] = -1
				} else {
					ev["status"] = resp.StatusCode
					resp.Body.Close()
				}
			case "join":
				ver := st.Ver
				if ver == "" {
					ver = "v2"
				}
				ev["mon"], ev["filter"], ev["ver"] = st.Mon, st.Mb, ver
				u := e.wsbase + "/api/" + ver + "/monitor/messages"
				if st.Mb != "" {
					// the mailbox is named the way clients name it: canonically, in mixed case, with an extension, as an address
					spelled := []string{st.Mb, strings.ToUpper(st.Mb[:1]) + st.Mb[1:], st.Mb + "+watch", strings.ToUpper(st.Mb) + "+x@Example.COM", st.Mb + "@example.com"}[(i+st.Mon)%5]
					ev["spelled"] = spelled
					u += "/" + url.PathEscape(spelled)
				}
				conn, _, err := websocket.DefaultDialer.Dial(u, nil)
				if err != nil {
					ev["r"] = "error: " + err.Error()
				} else {
					m := &e2eMon{conn: conn}
					mons[st.Mon] = m
					go m.reader()
					ev["r"] = "ok"
				}
			case "badjoin":
				// a request to the monitor URL that does not become a WebSocket: a plain GET, or a handshake from a foreign origin
				u := strings.Replace(e.wsbase, "ws://", "http://", 1) + "/api/v2/monitor/messages"
				if st.Mb != "" {
					u += "/" + url.PathEscape(st.Mb)
				}
				req, _ := http.NewRequest(http.MethodGet, u, nil)
				if st.Ver == "origin" {
					req.Header.Set("Connection", "Upgrade")
					req.Header.Set("Upgrade", "websocket")
					req.Header.Set("Sec-WebSocket-Version", "13")
					req.Header.Set("Sec-WebSocket-Key", "dGhlIHNhbXBsZSBub25jZQ==")
					req.Header.Set("Origin", "http://evil.example")
				}
				resp, err := http.DefaultClient.Do(req)
				if err != nil {
					ev["status"] = -1
				} else {
					ev["status"] = resp.StatusCode
					resp.Body.Close()
				}
			case "drain":
				ev["mon"] = st.Mon
				e.settle()
				if m := mons[st.Mon]; m != nil {
					ev["evs"] = m.take(60 * time.Millisecond)
				} else {
					ev["evs"] = []tr.Ev{}
				}
			case "leave":
				ev["mon"] = st.Mon
				if m := mons[st.Mon]; m != nil {
					m.conn.Close()
					delete(mons, st.Mon)
				}
			case "poplogin":
				ev["mb"] = st.Mb
				c, err := net.DialTimeout("tcp4", e.popAddr, 3*time.Second)
				if err != nil {
					ev["r"] = "error: " + err.Error()
					break
				}
				pop = &popConn{c: c, br: bufio.NewReader(c)}
				pop.line()
				pop.say("USER " + st.Mb)
				ev["r"] = strings.SplitN(pop.say("PASS x"), " ", 2)[0]
				popIDs = []string{}
				if strings.HasPrefix(pop.say("UIDL"), "+OK") {
					for {
						l := pop.line()
						if l == "." || strings.HasPrefix(l, "!") {
							break
						}
						f := strings.Fields(l)
						if len(f) == 2 {
							popIDs = append(popIDs, f[1])
						}
					}
				}
				ev["uidl"] = popIDs
			case "popdele":
				ev["n"] = st.N
				if pop != nil {
					ev["r"] = strings.SplitN(pop.say(fmt.Sprintf("DELE %d", st.N)), " ", 2)[0]
				}
			case "popquit":
				if pop != nil {
					ev["r"] = strings.SplitN(pop.say("QUIT"), " ", 2)[0]
					_, _ = io.ReadAll(pop.br) // until the server closes
					pop.c.Close()
					pop = nil
				}
			case "popdrop":
				if pop != nil {
					pop.c.Close()
					pop = nil
					time.Sleep(20 * time.Millisecond)
				}
			}
			e.settle()
			snapInto(ev)
			w.Emit(ev)
		}
		for _, m := range mons {
			m.conn.Close()
		}
		if pop != nil {
			pop.c.Close()
		}
		w.Flush()
	}
	cancel()
	fmt.Fprintf(os.Stderr, "e2e: %d behaviours, %d events\n", len(in.Behaviours), w.N)
	return nil
}
