package main

// Driver for the real message hub and the real WebSocket listeners (C15).
//
// Every behaviour gets a fresh msghub.Hub (real msghub.New + go hub.Start(ctx)).  Listeners
// live in slots 1..3: the real msgListenerV1 / msgListenerV2 obtained through the constructor
// hook (rest.VerifNewListenerV1/V2: no socket, Take stands in for the socket writer, the two
// Close calls of a disconnect are those WSReader and WSWriter make) and a recording mock that
// implements msghub.Listener, can answer every call with an error from some moment on
// ("fail") and can hold the hub goroutine inside one call ("gate") until released.
//
// After every step the driver probes progress with hub.Sync() run in a goroutine and a
// deadline (5 s by default): "ok" | "stuck" | "held" (the armed mock was entered and is
// holding the hub goroutine: no probe result expected until the release).  Each step emits
// one event with the step echoed, the probe result, the number of events queued in every
// socket listener, the calls every mock has received since the previous event, the event a
// take returned and the number of panics the hub recovered during the step.  The final
// "end" event releases a held gate, empties every socket listener's queue (as its writer
// would) until Sync returns and records everything that was still queued, in order.
// No pass/fail logic.

import (
	"context"
	"encoding/json"
	"fmt"
	"net/mail"
	"os"
	"strings"
	"sync"
	"sync/atomic"
	"time"

	"github.com/inbucket/inbucket/v3/pkg/extension"
	"github.com/inbucket/inbucket/v3/pkg/extension/event"
	"github.com/inbucket/inbucket/v3/pkg/msghub"
	"github.com/inbucket/inbucket/v3/pkg/rest"
	"github.com/rs/zerolog"
	zlog "github.com/rs/zerolog/log"

	"verif/harness/internal/tr"
)

const hubSlots = 3

type hubStep struct {
	C      string `json:"c"`      // dispatch | delete | join | leave | fail | disconnect | take | release
	Mb     string `json:"mb"`     // dispatch, delete
	ID     string `json:"id"`     // dispatch, delete
	Gate   int    `json:"gate"`   // dispatch, delete: slot of the mock to arm before the call (0: none)
	Slot   int    `json:"slot"`   // join, leave, fail, disconnect, take
	Kind   string `json:"kind"`   // join: v1 | v2 | mock
	Filter string `json:"filter"` // join: mailbox filter of a socket listener ("" = all)
	Broken bool   `json:"broken"` // join: the mock fails from its first call on
	Armed  bool   `json:"armed"`  // join: the mock holds the hub in its first call (history playback)
}

type hubBehaviour struct {
	ID     string    `json:"id"`
	N      int       `json:"n"`       // history length
	SyncMs int       `json:"sync_ms"` // deadline of the progress probe
	Ext    bool      `json:"ext"`     // stored/deleted events enter through the extension host's after-events
	Burst  bool      `json:"burst"`   // with ext: events are announced back to back without waiting for the hub; nothing is compared until "release"
	Steps  []hubStep `json:"steps"`
}

type hubInput struct {
	Seed       int64          `json:"seed"`
	Behaviours []hubBehaviour `json:"behaviours"`
}

// HEv is a hub event as a listener sees it.
type HEv struct {
	K   string `json:"k"` // stored | deleted
	Mb  string `json:"mb"`
	ID  string `json:"id"`
	Err bool   `json:"err"` // mock: the call was answered with an error
}

// hubMock is the recording listener.
type hubMock struct {
	mu      sync.Mutex
	calls   []HEv
	broken  bool
	armed   bool
	gate    chan struct{} // closed by the driver to let the held call return
	entered chan struct{} // closed by the mock when the armed call has been entered
}

func newHubMock() *hubMock { return &hubMock{} }

func (m *hubMock) call(k, mb, id string) error {
	m.mu.Lock()
	idx := len(m.calls)
	m.calls = append(m.calls, HEv{K: k, Mb: mb, ID: id})
	var wait chan struct{}
	if m.armed {
		m.armed = false
		wait = m.gate
		close(m.entered)
	}
	m.mu.Unlock()
	if wait != nil {
		<-wait
	}
	m.mu.Lock()
	defer m.mu.Unlock()
	if m.broken {
		m.calls[idx].Err = true
		return fmt.Errorf("mock listener failed")
	}
	return nil
}

func (m *hubMock) Receive(msg event.MessageMetadata) error {
	return m.call("stored", msg.Mailbox, msg.ID)
}
func (m *hubMock) Delete(mailbox string, id string) error { return m.call("deleted", mailbox, id) }

func (m *hubMock) arm() (gate, entered chan struct{}) {
	m.mu.Lock()
	defer m.mu.Unlock()
	m.armed = true
	m.gate = make(chan struct{})
	m.entered = make(chan struct{})
	return m.gate, m.entered
}

func (m *hubMock) disarm() {
	m.mu.Lock()
	m.armed = false
	m.mu.Unlock()
}

// panicCounter counts the "Operation panicked" lines the hub logs when runOp recovers.
type panicCounter struct{ n int64 }

func (p *panicCounter) Write(b []byte) (int, error) {
	if strings.Contains(string(b), "panicked") {
		atomic.AddInt64(&p.n, 1)
	}
	return len(b), nil
}

type hubRun struct {
	hub      *msghub.Hub
	host     *extension.Host
	real     [hubSlots + 1]rest.VerifListener
	mock     [hubSlots + 1]*hubMock
	reported [hubSlots + 1]int // number of mock calls already written to the trace
	held     chan struct{}     // gate channel of the mock holding the hub (nil: not held)
	heldMock *hubMock
	deadline time.Duration
	stuckAt  time.Time // when the first probe that is still unanswered was issued (zero: none)
	oldest   chan struct{}
	panics   *panicCounter
	lastPan  int64
	witness  *hubWitness
	burst    bool // a burst is under way: comparison is deferred (reported like a held hub)
	emitted  int  // burst: after-events announced through the extension host
	handed   int  // burst: broadcasts the witness has seen
}

func (r *hubRun) startSync() chan struct{} {
	done := make(chan struct{})
	go func() {
		r.hub.Sync()
		close(done)
	}()
	return done
}

// probe: does the hub work off its queue?  entered: the armed mock's signal (nil: none armed).
func (r *hubRun) probe(entered <-chan struct{}) string {
	done := r.startSync()
	wait := r.deadline
	if r.oldest != nil {
		select {
		case <-r.oldest:
			r.oldest = nil
		default:
			// an earlier probe has been unanswered for the full deadline already: the hub has
			// shown no progress since; operations are run in order, so this probe cannot be
			// answered before that one
			wait = 300 * time.Millisecond
		}
	}
	t := time.NewTimer(wait)
	defer t.Stop()
	select {
	case <-done:
		r.oldest = nil
		return "ok"
	case <-entered:
		return "held"
	case <-t.C:
		if r.oldest == nil {
			r.oldest = done
		}
		return "stuck"
	}
}

func (r *hubRun) queued() []int {
	q := make([]int, hubSlots)
	for i := 1; i <= hubSlots; i++ {
		if r.real[i] != nil {
			q[i-1] = r.real[i].Queued()
		}
	}
	return q
}

func (r *hubRun) newCalls() [][]HEv {
	out := make([][]HEv, hubSlots)
	for i := 1; i <= hubSlots; i++ {
		out[i-1] = []HEv{}
		if m := r.mock[i]; m != nil {
			m.mu.Lock()
			// a call that is still being held has no answer yet: it is reported once it has one
			n := len(m.calls)
			if r.heldMock == m && n > r.reported[i] {
				n--
			}
			out[i-1] = append(out[i-1], m.calls[r.reported[i]:n]...)
			r.reported[i] = n
			m.mu.Unlock()
		}
	}
	return out
}

func hubMeta(mb, id string) event.MessageMetadata {
	return event.MessageMetadata{
		Mailbox: mb, ID: id,
		From:    &mail.Address{Address: "from@example.com"},
		To:      []*mail.Address{{Address: mb + "@example.com"}},
		Date:    time.Date(2020, 1, 2, 3, 4, 5, 0, time.UTC),
		Subject: "subject " + id, Size: 100,
	}
}

func runHubBehaviour(w *tr.Writer, b hubBehaviour, pc *panicCounter) {
	ctx, cancel := context.WithCancel(context.Background())
	host := extension.NewHost()
	r := &hubRun{hub: msghub.New(b.N, host), host: host, deadline: 5 * time.Second, panics: pc}
	if b.SyncMs > 0 {
		r.deadline = time.Duration(b.SyncMs) * time.Millisecond
	}
	r.lastPan = atomic.LoadInt64(&pc.n)
	go r.hub.Start(ctx)
	if b.Ext {
		r.witness = &hubWitness{ch: make(chan struct{}, 4096)}
		r.hub.AddListener(r.witness)
		r.hub.Sync()
	}
	w.Emit(tr.Ev{"t": b.ID, "a": "reset", "n": b.N, "ext": b.Ext})

	for _, s := range b.Steps {
		ev := tr.Ev{"t": b.ID, "a": s.C}
		var entered <-chan struct{}
		var armedMock *hubMock
		var armedGate chan struct{}
		arm := func(slot int) {
			// end-to-end behaviours are sequential: the hand-over by the extension host's goroutine
			// has no defined order relative to operations the driver queues directly
			if !b.Ext && r.held == nil && slot >= 1 && slot <= hubSlots && r.mock[slot] != nil {
				armedMock = r.mock[slot]
				g, e := armedMock.arm()
				armedGate, entered = g, e
			}
		}
		switch s.C {
		case "dispatch", "delete":
			ev["mb"], ev["id"], ev["gate"] = s.Mb, s.ID, s.Gate
			arm(s.Gate)
			md := hubMeta(s.Mb, s.ID)
			switch {
			case s.C == "dispatch" && b.Ext:
				r.host.Events.AfterMessageStored.Emit(&md)
			case s.C == "dispatch":
				r.hub.Dispatch(md)
			case b.Ext:
				r.host.Events.AfterMessageDeleted.Emit(&md)
			default:
				r.hub.Delete(s.Mb, s.ID)
			}
			if b.Ext && b.Burst {
				r.burst = true
				r.emitted++
			} else if b.Ext {
				r.awaitHandOver(entered)
			}
		case "join":
			ev["slot"], ev["kind"], ev["filter"], ev["broken"], ev["armed"] = s.Slot, s.Kind, s.Filter, s.Broken, s.Armed
			switch s.Kind {
			case "v1":
				r.real[s.Slot] = rest.VerifNewListenerV1(r.hub, s.Filter)
			case "v2":
				r.real[s.Slot] = rest.VerifNewListenerV2(r.hub, s.Filter)
			default:
				m := newHubMock()
				m.broken = s.Broken
				r.mock[s.Slot] = m
				if s.Armed {
					arm(s.Slot)
				}
				r.hub.AddListener(m)
			}
		case "leave":
			ev["slot"] = s.Slot
			if m := r.mock[s.Slot]; m != nil {
				r.hub.RemoveListener(m)
			}
		case "fail":
			ev["slot"] = s.Slot
			if m := r.mock[s.Slot]; m != nil {
				m.mu.Lock()
				m.broken = true
				m.mu.Unlock()
			}
		case "disconnect":
			ev["slot"] = s.Slot
			if l := r.real[s.Slot]; l != nil {
				if r.burst {
					// let the hand-over get as far as it gets (the hub may be waiting for this listener's full buffer)
					for quiet := 0; quiet < 5; {
						select {
						case <-r.witness.ch:
							r.handed++
							quiet = 0
						case <-time.After(10 * time.Millisecond):
							quiet++
						}
					}
				}
				ev["qbefore"] = l.Queued()
				closed := make(chan struct{})
				go func() {
					l.Close() // the socket reader's deferred Close
					l.Close() // the socket writer's deferred Close
					close(closed)
				}()
				select {
				case <-closed:
					ev["closed_ok"] = true
				case <-time.After(r.deadline):
					ev["closed_ok"] = false // Close() itself does not return: the socket's goroutines hang with it
				}
			}
		case "take":
			ev["slot"] = s.Slot
			tk := tr.Ev{"got": false, "open": true, "k": "", "mb": "", "id": ""}
			if l := r.real[s.Slot]; l != nil {
				variant, mb, id, got, open := l.Take()
				tk = tr.Ev{"got": got, "open": open, "k": hubVariant(variant), "mb": mb, "id": id}
			}
			ev["taken"] = tk
		case "release":
			if r.burst {
				// the burst ends: every announced event must reach the hub (the witness sees each broadcast) before the probe is queued
				limit := time.After(r.deadline)
			wait:
				for r.handed < r.emitted {
					select {
					case <-r.witness.ch:
						r.handed++
					case <-limit:
						break wait
					}
				}
				ev["handed"], ev["emitted"] = r.handed, r.emitted
				r.burst = false
			}
			if r.held != nil {
				close(r.held)
				r.held, r.heldMock = nil, nil
			}
		}
		// progress probe
		switch {
		case r.held != nil || r.burst:
			ev["sync"] = "held"
		default:
			res := r.probe(entered)
			ev["sync"] = res
			if res == "held" {
				r.held, r.heldMock = armedGate, armedMock
			} else if armedMock != nil {
				armedMock.disarm()
			}
		}
		ev["held"] = r.held != nil || r.burst
		ev["q"] = r.queued()
		ev["calls"] = r.newCalls()
		p := atomic.LoadInt64(&pc.n)
		ev["panics"] = p - r.lastPan
		r.lastPan = p
		w.Emit(ev)
	}

	// end: release, then act as every socket writer until the hub has worked off its queue
	if r.held != nil {
		close(r.held)
		r.held, r.heldMock = nil, nil
	}
	drained := make([][]HEv, hubSlots)
	closed := make([]bool, hubSlots)
	for i := range drained {
		drained[i] = []HEv{}
	}
	drain := func() {
		for i := 1; i <= hubSlots; i++ {
			l := r.real[i]
			for l != nil && !closed[i-1] {
				variant, mb, id, got, open := l.Take()
				if !open {
					closed[i-1] = true
				}
				if !got {
					break
				}
				drained[i-1] = append(drained[i-1], HEv{K: hubVariant(variant), Mb: mb, ID: id})
			}
		}
	}
	done := r.startSync()
	limit := time.Now().Add(r.deadline)
	res := "stuck"
	for time.Now().Before(limit) {
		drain()
		select {
		case <-done:
			res = "ok"
		case <-time.After(time.Millisecond):
		}
		if res == "ok" {
			break
		}
	}
	drain()
	p := atomic.LoadInt64(&pc.n)
	w.Emit(tr.Ev{"t": b.ID, "a": "end", "sync": res, "held": false, "q": r.queued(), "drained": drained, "closed": closed,
		"calls": r.newCalls(), "panics": p - r.lastPan})
	if res == "ok" {
		cancel() // nothing is called on the hub after this
	} else {
		_ = cancel // a hub that does not move is left alone (its goroutine is lost with the process)
	}
}

// hubWitness is an extra listener outside the slots (end-to-end behaviours only): the extension
// host hands an after-event to the hub on its own goroutine, so the driver waits until the hub
// has started the broadcast (the witness was called) before it queues the progress probe.
type hubWitness struct{ ch chan struct{} }

func (x *hubWitness) Receive(event.MessageMetadata) error { x.ch <- struct{}{}; return nil }
func (x *hubWitness) Delete(string, string) error         { x.ch <- struct{}{}; return nil }

// awaitHandOver: the witness was called, or the armed mock holds the hub (which may be before
// the witness's turn), or the hub is not moving (the probe that follows will say so).
func (r *hubRun) awaitHandOver(entered <-chan struct{}) {
	if r.held != nil {
		return // queued behind the held operation: nothing to wait for
	}
	t := time.NewTimer(time.Second)
	defer t.Stop()
	select {
	case <-r.witness.ch:
	case <-entered: // closed channel: the probe sees it as well
	case <-t.C:
	}
}

func hubVariant(v string) string {
	switch v {
	case "message-stored":
		return "stored"
	case "message-deleted":
		return "deleted"
	}
	return v
}

func cmdHub(args []string) error {
	if len(args) != 2 {
		return fmt.Errorf("usage: vh hub <behaviours.json> <trace.ndjson>")
	}
	raw, err := os.ReadFile(args[0])
	if err != nil {
		return err
	}
	var in hubInput
	if err := json.Unmarshal(raw, &in); err != nil {
		return err
	}
	w, err := tr.NewWriter(args[1])
	if err != nil {
		return err
	}
	defer w.Close()
	// the hub reports a recovered panic of an operation only through its logger
	pc := &panicCounter{}
	zlog.Logger = zerolog.New(pc)
	zerolog.SetGlobalLevel(zerolog.ErrorLevel)
	for _, b := range in.Behaviours {
		runHubBehaviour(w, b, pc)
		w.Flush()
	}
	fmt.Fprintf(os.Stderr, "hub: %d behaviours, %d events\n", len(in.Behaviours), w.N)
	return nil
}
