package main

// Shutdown driver (C19).  One behaviour = one real smtp.Server or pop3.Server on a loopback
// port (plus retention scanner and message hub started on the same context), real TCP clients
// that are driven to a protocol state and parked there, context cancellation, Drain called in
// a goroutine of its own, and the clients' further steps in the order the schedule prescribes.
// The spawn gate (smtp.VerifSpawnHook / pop3.VerifSpawnHook) holds a freshly accepted session
// goroutine before its first statement when the schedule asks for it.
//
// Every event carries "e" (client steps also "b"): numbers from ONE counter under ONE mutex,
// taken when the step ends (begins); events are written in the order of "e".  The return of
// Drain is an event of its own ("drained"), emitted by the goroutine that called Drain.
// Wall-clock time is used only as "did not happen within D".  No pass/fail logic here: all
// judging is done by TLC with spec/LifecycleTrace.tla.

import (
	"bufio"
	"bytes"
	"context"
	"crypto/ecdsa"
	"crypto/elliptic"
	crand "crypto/rand"
	"crypto/tls"
	"crypto/x509"
	"crypto/x509/pkix"
	"encoding/json"
	"encoding/pem"
	"fmt"
	"hash/fnv"
	"io"
	"math/big"
	"net"
	"net/mail"
	"os"
	"os/exec"
	"path/filepath"
	"sort"
	"strings"
	"sync"
	"time"

	"github.com/inbucket/inbucket/v3/pkg/config"
	"github.com/inbucket/inbucket/v3/pkg/extension"
	"github.com/inbucket/inbucket/v3/pkg/extension/event"
	"github.com/inbucket/inbucket/v3/pkg/message"
	"github.com/inbucket/inbucket/v3/pkg/msghub"
	"github.com/inbucket/inbucket/v3/pkg/policy"
	"github.com/inbucket/inbucket/v3/pkg/server/pop3"
	"github.com/inbucket/inbucket/v3/pkg/server/smtp"
	"github.com/inbucket/inbucket/v3/pkg/storage"
)

type lcExchange struct {
	Send  string `json:"send"`  // bytes to send (code points 0..255)
	Reply string `json:"reply"` // line: one reply expected | none: nothing is expected back (first part of a DATA body)
}

type lcStep struct {
	Kind  string       `json:"kind"` // open | step | quit | hangup | release | cancel | drain | newconn
	S     int          `json:"s"`
	Gated bool         `json:"gated"` // open: hold the session goroutine at the spawn gate
	To    string       `json:"to"`    // step: the stage reached
	Mbs   []string     `json:"mbs"`   // open: the session's mailboxes (recipients / the POP3 user)
	Tag   string       `json:"tag"`   // open: subject of the message the session transmits
	Marks []int        `json:"marks"` // open: the positions the POP3 session marks
	Ex    []lcExchange `json:"ex"`
}

type lcInit struct {
	Mb    string   `json:"mb"`
	Subjs []string `json:"subjs"`
	Size  int      `json:"size"`
}

type lcBehaviour struct {
	ID           string   `json:"id"`
	Proto        string   `json:"proto"` // smtp | pop3
	Store        string   `json:"store"` // mem | file
	Hub          string   `json:"hub"`   // wired: the hub listens to the store's extension host (full assembly) | detached
	Names        []string `json:"names"`
	Init         []lcInit `json:"init"`
	Steps        []lcStep `json:"steps"`
	ScanWaitMS   int      `json:"scan_wait_ms"` // sleep before the cancel step (the scanner's first scan starts after one minute)
	SleepMS      int      `json:"retention_sleep_ms"`
	RetentionOff bool     `json:"retention_off"` // retention period 0 (scanner disabled): Start returns at once, Join must still return
	Isolate      bool     `json:"isolate"`       // run in a child process; its death is recorded as an event
	TimeoutMS    int      `json:"timeout_ms"`    // the servers' idle timeout (default 600 s, never reached)
	TLS          bool     `json:"tls"`           // smtp: the listener is an SMTPS listener (ForceTLS); clients speak TLS and a hangup is a TCP reset
}

type lcInput struct {
	Seed       int64         `json:"seed"`
	Behaviours []lcBehaviour `json:"behaviours"`
}

// lcLog: the one counter and the one mutex.
type lcLog struct {
	mu sync.Mutex
	n  int
	f  *os.File
	w  *bufio.Writer
	N  int
}

func (l *lcLog) tick() int {
	l.mu.Lock()
	defer l.mu.Unlock()
	l.n++
	return l.n
}

func (l *lcLog) emit(ev map[string]interface{}) {
	l.mu.Lock()
	defer l.mu.Unlock()
	l.n++
	ev["e"] = l.n
	b, err := json.Marshal(ev)
	if err != nil {
		panic(err)
	}
	l.w.Write(b)
	l.w.WriteByte('\n')
	l.w.Flush()
	l.N++
}

func (l *lcLog) raw(lines []byte) {
	l.mu.Lock()
	defer l.mu.Unlock()
	l.w.Write(lines)
	l.w.Flush()
	l.N += bytes.Count(lines, []byte("\n"))
}

// spawn gate: installed once per process; holds as many new session goroutines as are armed.
type lcTicket struct{ release chan struct{} }
type lcGate struct {
	mu      sync.Mutex
	armed   int
	entered chan *lcTicket
}

var theGate = &lcGate{entered: make(chan *lcTicket, 16)}

func (g *lcGate) hook() {
	g.mu.Lock()
	if g.armed == 0 {
		g.mu.Unlock()
		return
	}
	g.armed--
	g.mu.Unlock()
	t := &lcTicket{release: make(chan struct{})}
	g.entered <- t
	<-t.release
}

func (g *lcGate) arm(n int) {
	g.mu.Lock()
	g.armed = n
	g.mu.Unlock()
}

type lcSubj struct {
	Mb   string   `json:"mb"`
	Subj []string `json:"subj"`
}

func lcSnapshot(s storage.Store, known []string) (boxes []lcSubj, errs []string) {
	boxes, errs = []lcSubj{}, []string{}
	isKnown := map[string]bool{}
	for _, k := range known {
		isKnown[k] = true
	}
	add := func(name string, ms []storage.Message) {
		if len(ms) == 0 {
			return
		}
		b := lcSubj{Mb: name}
		for _, m := range ms {
			b.Subj = append(b.Subj, m.Subject())
		}
		boxes = append(boxes, b)
	}
	for _, name := range known {
		ms, err := s.GetMessages(name)
		if err != nil {
			errs = append(errs, "list "+name+": "+err.Error())
			continue
		}
		add(name, ms)
	}
	// anything stored under a name nobody planned
	if err := s.VisitMailboxes(func(ms []storage.Message) bool {
		if len(ms) > 0 && !isKnown[ms[0].Mailbox()] {
			add(ms[0].Mailbox(), ms)
		}
		return true
	}); err != nil {
		errs = append(errs, "visit: "+err.Error())
	}
	sort.Slice(boxes, func(i, j int) bool { return boxes[i].Mb < boxes[j].Mb })
	return
}

type lcClient struct {
	conn   net.Conn
	br     *bufio.Reader
	ticket *lcTicket
	gone   bool // the driver closed the connection
}

type lcServer interface {
	Start(ctx context.Context, readyFunc func())
	Drain()
	VerifAddr() net.Addr
}

func lcDomain(id string) string {
	h := fnv.New64a()
	h.Write([]byte(id))
	return fmt.Sprintf("lc%x.test", h.Sum64())
}

func lcMessage(subject string, size int) []byte {
	var b bytes.Buffer
	fmt.Fprintf(&b, "Subject: %s\r\nFrom: prefill@example.org\r\n\r\n", subject)
	for b.Len() < size {
		b.WriteString("line of the message body, fifty-odd characters long\r\n")
	}
	return b.Bytes()
}

// lcSelfSigned writes a throw-away certificate and key for the SMTPS listener.
func lcSelfSigned(dir, id string) (string, string, error) {
	priv, err := ecdsa.GenerateKey(elliptic.P256(), crand.Reader)
	if err != nil {
		return "", "", err
	}
	tmpl := &x509.Certificate{SerialNumber: big.NewInt(1), Subject: pkix.Name{CommonName: "verif.test"}, NotBefore: time.Now().Add(-time.Hour),
		NotAfter: time.Now().Add(24 * time.Hour), KeyUsage: x509.KeyUsageDigitalSignature, ExtKeyUsage: []x509.ExtKeyUsage{x509.ExtKeyUsageServerAuth},
		DNSNames: []string{"verif.test"}, IPAddresses: []net.IP{net.ParseIP("127.0.0.1")}}
	der, err := x509.CreateCertificate(crand.Reader, tmpl, tmpl, &priv.PublicKey, priv)
	if err != nil {
		return "", "", err
	}
	kb, err := x509.MarshalECPrivateKey(priv)
	if err != nil {
		return "", "", err
	}
	h := fnv.New64a()
	h.Write([]byte(id))
	crt := filepath.Join(dir, fmt.Sprintf("tls-%x.crt", h.Sum64()))
	key := filepath.Join(dir, fmt.Sprintf("tls-%x.key", h.Sum64()))
	if err := os.WriteFile(crt, pem.EncodeToMemory(&pem.Block{Type: "CERTIFICATE", Bytes: der}), 0o600); err != nil {
		return "", "", err
	}
	if err := os.WriteFile(key, pem.EncodeToMemory(&pem.Block{Type: "EC PRIVATE KEY", Bytes: kb}), 0o600); err != nil {
		return "", "", err
	}
	return crt, key, nil
}

func waitClosed(ch <-chan struct{}, d time.Duration) bool {
	select {
	case <-ch:
		return true
	case <-time.After(d):
		return false
	}
}

func runLifecycleBehaviour(lg *lcLog, b lcBehaviour, scratch string) {
	fail := func(err error) {
		lg.emit(map[string]interface{}{"a": "harness-error", "t": b.ID, "err": err.Error()})
	}
	// ---- assembly, as server.FullAssembly wires it (without the web server)
	setEnv(map[string]string{})
	root, err := config.Process()
	if err != nil {
		fail(err)
		return
	}
	domain := lcDomain(b.ID)
	idleTimeout := 600 * time.Second
	if b.TimeoutMS > 0 {
		idleTimeout = time.Duration(b.TimeoutMS) * time.Millisecond
	}
	root.SMTP.Addr, root.SMTP.Domain, root.SMTP.Timeout = "127.0.0.1:0", domain, idleTimeout
	root.POP3.Addr, root.POP3.Domain, root.POP3.Timeout = "127.0.0.1:0", domain, idleTimeout
	sleep := 200 * time.Millisecond
	if b.SleepMS > 0 {
		sleep = time.Duration(b.SleepMS) * time.Millisecond
	}
	root.Storage.RetentionPeriod, root.Storage.RetentionSleep = 24*time.Hour, sleep
	host := extension.NewHost()
	dir := filepath.Join(scratch, "store-"+b.ID)
	if b.Store == "file" {
		_ = os.MkdirAll(dir, 0o770)
		defer os.RemoveAll(dir)
	}
	store, err := newStore(b.Store, 0, 0, dir, host)
	if err != nil {
		fail(err)
		return
	}
	hubHost := host
	if b.Hub != "wired" {
		hubHost = extension.NewHost()
	}
	hub := msghub.New(30, hubHost)
	ap := &policy.Addressing{Config: root}
	mgr := &message.StoreManager{AddrPolicy: ap, Store: store, ExtHost: host}
	// the scanner walks a store of its own with three young mailboxes, so that a scan takes 3 x RetentionSleep
	scanStore, err := newStore("mem", 0, 0, "", extension.NewHost())
	if err != nil {
		fail(err)
		return
	}
	for i := 1; i <= 3; i++ {
		mb := fmt.Sprintf("scan%d", i)
		_, err := scanStore.AddMessage(&message.Delivery{
			Meta:   event.MessageMetadata{Mailbox: mb, From: &mail.Address{Address: "a@example.org"}, To: []*mail.Address{{Address: mb + "@example.com"}}, Date: time.Now(), Subject: mb},
			Reader: bytes.NewReader(lcMessage(mb, 100))})
		if err != nil {
			fail(err)
			return
		}
	}
	scannerCfg := root.Storage
	if b.RetentionOff {
		scannerCfg.RetentionPeriod = 0
	}
	scanner := storage.NewRetentionScanner(scannerCfg, scanStore)
	scanner2 := storage.NewRetentionScanner(root.Storage, scanStore) // for a scan that is under way when shutdown is requested
	var server lcServer
	var tcpOf = map[int]*net.TCPConn{}
	if b.Proto == "smtp" {
		if b.TLS {
			crt, key, err := lcSelfSigned(scratch, b.ID)
			if err != nil {
				fail(err)
				return
			}
			defer os.Remove(crt)
			defer os.Remove(key)
			root.SMTP.TLSEnabled, root.SMTP.ForceTLS, root.SMTP.TLSCert, root.SMTP.TLSPrivKey = true, true, crt, key
		}
		server = smtp.NewServer(root.SMTP, mgr, ap, host)
	} else {
		if b.TLS {
			crt, key, err := lcSelfSigned(scratch, b.ID)
			if err != nil {
				fail(err)
				return
			}
			defer os.Remove(crt)
			defer os.Remove(key)
			root.POP3.TLSEnabled, root.POP3.ForceTLS, root.POP3.TLSCert, root.POP3.TLSPrivKey = true, true, crt, key
		}
		ps, err := pop3.NewServer(root.POP3, store)
		if err != nil {
			fail(err)
			return
		}
		server = ps
	}
	// prefill (POP3 mailboxes)
	for _, in := range b.Init {
		for k, subj := range in.Subjs {
			_, err := store.AddMessage(&message.Delivery{
				Meta: event.MessageMetadata{Mailbox: in.Mb, From: &mail.Address{Address: "prefill@example.org"},
					To: []*mail.Address{{Address: in.Mb + "@" + domain}}, Date: time.Now().Add(time.Duration(k) * time.Second), Subject: subj},
				Reader: bytes.NewReader(lcMessage(subj, in.Size+37*k))})
			if err != nil {
				fail(err)
				return
			}
		}
	}
	snap := func(ev map[string]interface{}) {
		s, serr := lcSnapshot(store, b.Names)
		ev["snap"] = s
		ev["serr"] = serr
	}

	// ---- start
	ctx, cancel := context.WithCancel(context.Background())
	defer cancel()
	ready, startRet, hubRet, scanRet, doscanRet := make(chan struct{}), make(chan struct{}), make(chan struct{}), make(chan struct{}), make(chan struct{})
	go func() { server.Start(ctx, func() { close(ready) }); close(startRet) }()
	select {
	case <-ready:
	case <-startRet:
		fail(fmt.Errorf("listener did not start"))
		return
	case <-time.After(5 * time.Second):
		fail(fmt.Errorf("listener not ready within 5 s"))
		return
	}
	addr := server.VerifAddr().String()
	go func() { hub.Start(ctx); close(hubRet) }()
	go func() { scanner.Start(ctx) }()
	go func() { scanner.Join(); close(scanRet) }()

	rev := map[string]interface{}{"a": "reset", "t": b.ID, "proto": b.Proto, "hub": b.Hub, "store": b.Store}
	snap(rev)
	lg.emit(rev)

	const replyTimeout = 5 * time.Second
	clients := map[int]*lcClient{}
	readBanner := func(c *lcClient, d time.Duration) string {
		if b.Proto == "smtp" {
			return readReply(c.conn, c.br, d).Cls
		}
		return readPopReply(c.conn, c.br, d, false, "").Cls
	}
	exchange := func(c *lcClient, ex lcExchange) string {
		_ = c.conn.SetWriteDeadline(time.Now().Add(replyTimeout))
		if _, err := c.conn.Write(latin1Bytes(ex.Send)); err != nil {
			return "closed"
		}
		if ex.Reply == "none" {
			return ""
		}
		if b.Proto == "smtp" {
			return readReply(c.conn, c.br, replyTimeout).Cls
		}
		return readPopReply(c.conn, c.br, replyTimeout, false, "").Cls
	}
	drainCalled := false
	drainRet := make(chan struct{})
	cancelled := false

	for i, st := range b.Steps {
		ev := map[string]interface{}{"a": st.Kind, "t": b.ID, "i": i}
		if st.S > 0 {
			ev["s"] = st.S
		}
		withSnap := false
		ev["b"] = lg.tick()
		switch st.Kind {
		case "open":
			ev["s"], ev["gated"], ev["mbs"], ev["tag"] = st.S, st.Gated, st.Mbs, st.Tag
			if st.Marks == nil {
				st.Marks = []int{}
			}
			ev["marks"] = st.Marks
			if st.Gated {
				theGate.arm(1)
			}
			conn, err := net.DialTimeout("tcp4", addr, 2*time.Second)
			if err != nil {
				theGate.arm(0)
				ev["conn"], ev["banner"], ev["entered"] = "error: "+err.Error(), "", false
				break
			}
			if b.TLS {
				if tc, ok := conn.(*net.TCPConn); ok {
					tcpOf[st.S] = tc
				}
				conn = tls.Client(conn, &tls.Config{InsecureSkipVerify: true}) // handshake with the first read or write
			}
			c := &lcClient{conn: conn, br: bufio.NewReader(conn)}
			clients[st.S] = c
			ev["conn"] = "ok"
			if st.Gated {
				select {
				case c.ticket = <-theGate.entered:
					ev["entered"] = true
				case <-time.After(5 * time.Second):
					theGate.arm(0)
					ev["entered"] = false
				}
				ev["banner"] = ""
			} else {
				ev["entered"] = false
				ev["banner"] = readBanner(c, replyTimeout)
			}
		case "release":
			c := clients[st.S]
			if c == nil || c.ticket == nil {
				ev["banner"] = "harness-error: nothing held"
				break
			}
			close(c.ticket.release)
			c.ticket = nil
			ev["banner"] = readBanner(c, 3*time.Second)
		case "step", "quit":
			c := clients[st.S]
			replies := []string{}
			want := 0
			for _, ex := range st.Ex {
				if ex.Reply != "none" {
					want++
				}
				if c == nil {
					continue
				}
				r := exchange(c, ex)
				if ex.Reply != "none" {
					replies = append(replies, r)
				}
				if r == "closed" || r == "none" {
					break
				}
			}
			ev["to"], ev["want"], ev["replies"] = st.To, want, replies
			if st.Kind == "quit" && c != nil {
				// the server closes the connection after its reply
				_ = c.conn.SetReadDeadline(time.Now().Add(2 * time.Second))
				_, err := c.br.ReadByte()
				ev["eof"] = err == io.EOF
				c.conn.Close()
				c.gone = true
			}
			withSnap = true
		case "hangup":
			if c := clients[st.S]; c != nil && !c.gone {
				if tc := tcpOf[st.S]; tc != nil {
					// the client dies: no close_notify, the kernel resets the connection
					_ = tc.SetLinger(0)
					tc.Close()
				} else {
					c.conn.Close()
				}
				c.gone = true
			}
		case "cancel":
			if b.ScanWaitMS > 0 {
				time.Sleep(time.Duration(b.ScanWaitMS) * time.Millisecond)
			}
			// a scan that is under way right now (three mailboxes, RetentionSleep after each)
			go func() { _ = scanner2.DoScan(ctx); close(doscanRet) }()
			time.Sleep(2 * time.Millisecond)
			cancel()
			cancelled = true
			ev["start"] = waitClosed(startRet, 5*time.Second)
			ev["hub"] = waitClosed(hubRet, 2*time.Second)
			// the scanner waits in selects on the context: it stops at once, also in the middle of its pause between two
			// mailboxes, however long that pause is configured
			ev["scan"] = waitClosed(scanRet, sleep/4+time.Second)
			ev["doscan"] = waitClosed(doscanRet, sleep/4+time.Second)
		case "drain":
			if drainCalled {
				ev["a"] = "harness-error"
				ev["err"] = "drain twice"
				break
			}
			drainCalled = true
			// the "drain" event goes out before Drain is called, "drained" when it has returned
			lg.emit(ev)
			ev = nil
			go func() {
				server.Drain()
				lg.emit(map[string]interface{}{"a": "drained", "t": b.ID})
				close(drainRet)
			}()
			// give a return that is going to happen at once the time to be recorded before the next step begins
			waitClosed(drainRet, 15*time.Millisecond)
		case "idleout":
			// every open client falls silent and keeps its connection: the server ends each session itself when its idle
			// timeout (timeout_ms) expires.  "idleout" goes out before the wait, "idledone" says what each client then saw.
			ids := []int{}
			for id, c := range clients {
				if !c.gone && c.ticket == nil {
					ids = append(ids, id)
				}
			}
			sort.Ints(ids)
			ev["ss"] = ids
			lg.emit(ev)
			ev = map[string]interface{}{"a": "idledone", "t": b.ID, "i": i}
			eofs, lines := []bool{}, []int{}
			until := time.Now().Add(idleTimeout + 3*time.Second)
			for _, id := range ids {
				c := clients[id]
				_ = c.conn.SetReadDeadline(until)
				n := 0
				ended := false
				for {
					line, err := c.br.ReadString('\n')
					if len(line) > 0 {
						n++
					}
					if err != nil {
						ne, isNet := err.(net.Error)
						ended = !(isNet && ne.Timeout())
						break
					}
				}
				eofs, lines = append(eofs, ended), append(lines, n)
				c.conn.Close()
				c.gone = true
			}
			ev["eof"], ev["lines"] = eofs, lines
			ev["b"] = lg.tick()
		case "plainconn":
			// a client that does not speak TLS to the TLS listener (a scanner, a health probe): its handshake fails
			conn, err := net.DialTimeout("tcp4", addr, time.Second)
			if err == nil {
				_ = conn.SetDeadline(time.Now().Add(500 * time.Millisecond))
				_, _ = conn.Write([]byte("QUIT\r\n\r\n\r\n"))
				buf := make([]byte, 256)
				_, _ = conn.Read(buf)
				conn.Close()
			}
			ev["r"] = "done"
		case "newconn":
			conn, err := net.DialTimeout("tcp4", addr, time.Second)
			ev["ours"] = false
			if err != nil {
				if strings.Contains(err.Error(), "refused") {
					ev["r"] = "refused"
				} else {
					ev["r"] = "error: " + err.Error()
				}
				break
			}
			ev["r"] = "connected"
			_ = conn.SetReadDeadline(time.Now().Add(300 * time.Millisecond))
			buf := make([]byte, 512)
			n, _ := conn.Read(buf)
			ev["ours"] = strings.Contains(string(buf[:n]), domain)
			conn.Close()
		default:
			ev["a"] = "harness-error"
			ev["err"] = "unknown step kind " + st.Kind
		}
		if ev != nil {
			if withSnap {
				snap(ev)
			}
			lg.emit(ev)
		}
	}

	// ---- end: every client goes away; a called Drain gets 5 s from here
	end := map[string]interface{}{"a": "end", "t": b.ID, "b": lg.tick()}
	for _, c := range clients {
		if c.ticket != nil {
			close(c.ticket.release)
			c.ticket = nil
		}
		if !c.gone {
			c.conn.Close()
			c.gone = true
		}
	}
	if !cancelled {
		cancel()
		waitClosed(startRet, 5*time.Second)
	}
	end["drained"] = drainCalled && waitClosed(drainRet, 5*time.Second)
	end["drain_called"] = drainCalled
	snap(end)
	lg.emit(end)
}

// runIsolated runs one behaviour in a child process and copies its trace; a death of the child is recorded.
func runIsolated(lg *lcLog, b lcBehaviour, seed int64, scratch string) {
	b.Isolate = false
	bf := filepath.Join(scratch, "child-beh.json")
	tf := filepath.Join(scratch, "child-trace.ndjson")
	raw, _ := json.Marshal(lcInput{Seed: seed, Behaviours: []lcBehaviour{b}})
	if err := os.WriteFile(bf, raw, 0o600); err != nil {
		lg.emit(map[string]interface{}{"a": "harness-error", "t": b.ID, "err": err.Error()})
		return
	}
	os.Remove(tf)
	cmd := exec.Command(os.Args[0], "lifecycle", bf, tf)
	cmd.Env = append(os.Environ(), "VH_LC_SCRATCH="+scratch)
	var stderr bytes.Buffer
	cmd.Stderr = &stderr
	err := cmd.Run()
	lines, _ := os.ReadFile(tf)
	if n := bytes.LastIndexByte(lines, '\n'); n >= 0 {
		lines = lines[:n+1] // complete lines only
	} else {
		lines = nil
	}
	lg.raw(lines)
	if err != nil {
		sig := ""
		for _, l := range strings.Split(stderr.String(), "\n") {
			if strings.HasPrefix(l, "panic:") || strings.HasPrefix(l, "fatal error:") {
				sig = strings.TrimSpace(l)
				break
			}
		}
		tail := stderr.String()
		if len(tail) > 1500 {
			tail = tail[:1500]
		}
		lg.emit(map[string]interface{}{"a": "died", "t": b.ID, "sig": sig, "rc": cmd.ProcessState.ExitCode(), "stderr": tail})
	}
}

func cmdLifecycle(args []string) error {
	if len(args) != 2 {
		return fmt.Errorf("usage: vh lifecycle <behaviours.json> <trace.ndjson>")
	}
	raw, err := os.ReadFile(args[0])
	if err != nil {
		return err
	}
	var in lcInput
	if err := json.Unmarshal(raw, &in); err != nil {
		return err
	}
	f, err := os.Create(args[1])
	if err != nil {
		return err
	}
	defer f.Close()
	lg := &lcLog{f: f, w: bufio.NewWriterSize(f, 1<<16)}
	base := ""
	if st, err := os.Stat("/dev/shm"); err == nil && st.IsDir() {
		base = "/dev/shm"
	}
	// a child process (runIsolated) works inside its parent's scratch directory: nothing is left behind when it dies
	scratch := os.Getenv("VH_LC_SCRATCH")
	if scratch == "" {
		scratch, err = os.MkdirTemp(base, "vh-lifecycle-")
		if err != nil {
			return err
		}
		defer os.RemoveAll(scratch)
	}
	smtp.VerifSpawnHook = theGate.hook
	pop3.VerifSpawnHook = theGate.hook
	for _, b := range in.Behaviours {
		if b.Isolate {
			runIsolated(lg, b, in.Seed, scratch)
		} else {
			runLifecycleBehaviour(lg, b, scratch)
		}
	}
	fmt.Fprintf(os.Stderr, "lifecycle: %d behaviours, %d events\n", len(in.Behaviours), lg.N)
	return nil
}
