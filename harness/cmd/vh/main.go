// vh is the conformance harness: drivers that execute behaviours against the
// real inbucket packages (built from /repo's working tree) and record traces.
package main

import (
	"fmt"
	"os"

	"github.com/rs/zerolog"
)

var commands = map[string]func([]string) error{
	"store":      cmdStore,
	"crash":      cmdCrash,
	"e2e":        cmdE2E,
	"startfault": cmdStartFault,
	"storeop":    cmdStoreOp,
	"conc":       cmdConc,
	"smtp":       cmdSMTP,
	"rest":       cmdRest,
	"restrace":   cmdRestRace,
	"sanitize":   cmdSanitize,
	"pop3":       cmdPOP3,
	"pop3tls":    cmdPop3Tls,
	"naming":     cmdNaming,
	"wild":       cmdWild,
	"retention":  cmdRetention,
	"lifecycle":  cmdLifecycle,
	"dotcodec":   cmdDotCodec,
	"hub":        cmdHub,
}

func main() {
	zerolog.SetGlobalLevel(zerolog.Disabled)
	if len(os.Args) < 2 {
		fmt.Fprintln(os.Stderr, "usage: vh <command> ...")
		os.Exit(2)
	}
	c, ok := commands[os.Args[1]]
	if !ok {
		fmt.Fprintln(os.Stderr, "unknown command", os.Args[1])
		os.Exit(2)
	}
	if err := c(os.Args[2:]); err != nil {
		fmt.Fprintln(os.Stderr, "harness error:", err)
		os.Exit(2)
	}
}
