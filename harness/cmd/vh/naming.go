package main

// Driver for mailbox naming (C04).  For every behaviour (one address in one
// naming mode, with its variants spelled out by the concretiser) it asks the
// real naming code for every string - policy.Addressing.NewRecipient (the
// receive path, what RCPT TO uses) and message.StoreManager.MailboxForAddress
// (the lookup path, what every REST / web UI handler uses) - and then for the
// name the receive path produced, and records the answers as an observation
// table.  For behaviours marked e2e it additionally delivers one message to
// the address through a real SMTP session (smtp.Server.VerifServeConn), reads
// from the store which mailboxes hold it, and asks the real HTTP router
// (REST list / REST show / web UI show) for every string of the table.
// No pass/fail logic: the relations are evaluated by TLC (NamingTrace.tla).

import (
	"bufio"
	"encoding/json"
	"fmt"
	"net"
	"net/http"
	"net/http/httptest"
	"net/url"
	"os"
	"regexp"
	"sort"
	"strings"
	"time"

	"github.com/inbucket/inbucket/v3/pkg/config"
	"github.com/inbucket/inbucket/v3/pkg/extension"
	"github.com/inbucket/inbucket/v3/pkg/message"
	"github.com/inbucket/inbucket/v3/pkg/msghub"
	"github.com/inbucket/inbucket/v3/pkg/policy"
	"github.com/inbucket/inbucket/v3/pkg/rest"
	"github.com/inbucket/inbucket/v3/pkg/server/smtp"
	"github.com/inbucket/inbucket/v3/pkg/server/web"
	"github.com/inbucket/inbucket/v3/pkg/storage"
	"github.com/inbucket/inbucket/v3/pkg/storage/mem"
	"github.com/inbucket/inbucket/v3/pkg/webui"

	"verif/harness/internal/tr"
)

type namingRowIn struct {
	Role string `json:"role"`
	Q    string `json:"q"`
}

type namingBehaviour struct {
	ID   string                 `json:"id"`
	Mode string                 `json:"mode"` // local | full | domain
	Abs  map[string]interface{} `json:"abs"`  // abstract address, echoed
	Rows []namingRowIn          `json:"rows"`
	E2E  bool                   `json:"e2e"`
}

type namingInput struct {
	Seed       int64             `json:"seed"`
	Behaviours []namingBehaviour `json:"behaviours"`
}

// nameRes is the projection of one answer of the naming code.
type nameRes struct {
	OK   bool   `json:"ok"`
	Name string `json:"name"`
	Err  string `json:"err,omitempty"`
}

type namingRow struct {
	Role string  `json:"role"`
	Q    string  `json:"q"`
	Rcpt nameRes `json:"rcpt"`
	Look nameRes `json:"look"`
}

type namingLookup struct {
	Via     string `json:"via"` // rest-list | rest-show | web-show
	Role    string `json:"role"`
	Q       string `json:"q"`
	RcptOK  bool   `json:"rcptok"`
	Status  int    `json:"status"`
	Found   bool   `json:"found"`
	Mailbox string `json:"mailbox"`
}

type namingEnv struct {
	mode   string
	root   *config.Root
	ap     *policy.Addressing
	store  storage.Store
	mgr    *message.StoreManager
	server *smtp.Server
}

var (
	namingWebMode string // which environment the package-level web router currently serves
	namingRoutes  bool
)

func newNamingEnv(mode string) (*namingEnv, error) {
	setEnv(map[string]string{
		"INBUCKET_MAILBOXNAMING":      mode,
		"INBUCKET_SMTP_DOMAIN":        "inbucket.test",
		"INBUCKET_STORAGE_TYPE":       "memory",
		"INBUCKET_SMTP_DEFAULTACCEPT": "true",
		"INBUCKET_SMTP_DEFAULTSTORE":  "true",
	})
	root, err := config.Process()
	if err != nil {
		return nil, fmt.Errorf("config.Process: %v", err)
	}
	host := extension.NewHost()
	st, err := mem.New(config.Storage{Params: map[string]string{}}, host)
	if err != nil {
		return nil, err
	}
	ap := &policy.Addressing{Config: root}
	mgr := &message.StoreManager{AddrPolicy: ap, Store: st, ExtHost: host}
	return &namingEnv{mode: mode, root: root, ap: ap, store: st, mgr: mgr,
		server: smtp.NewServer(root.SMTP, mgr, ap, host)}, nil
}

// serveWeb makes the package-level router of pkg/server/web (as that package constructs it) serve this
// environment: routes as pkg/server/lifecycle.go wires them, registered once per process; web.NewServer
// sets the package-level manager the handlers use.
func (e *namingEnv) serveWeb() {
	if namingWebMode == e.mode {
		return
	}
	if !namingRoutes {
		webui.SetupRoutes(web.Router.PathPrefix("/serve/").Subrouter())
		rest.SetupRoutes(web.Router.PathPrefix("/api/").Subrouter())
		namingRoutes = true
	}
	web.NewServer(e.root, e.mgr, &msghub.Hub{})
	namingWebMode = e.mode
}

func (e *namingEnv) ask(q string) (rc, lk nameRes) {
	if r, err := e.ap.NewRecipient(q); err != nil {
		rc = nameRes{Err: err.Error()}
	} else {
		rc = nameRes{OK: true, Name: r.Mailbox}
	}
	if n, err := e.mgr.MailboxForAddress(q); err != nil {
		lk = nameRes{Err: err.Error()}
	} else {
		lk = nameRes{OK: true, Name: n}
	}
	return
}

// held lists the mailboxes of the store that hold a message, with the id of the first one.
func (e *namingEnv) held() (names []string, id string, err error) {
	err = e.store.VisitMailboxes(func(ms []storage.Message) bool {
		if len(ms) > 0 {
			names = append(names, ms[0].Mailbox())
			if id == "" {
				id = ms[0].ID()
			}
		}
		return true
	})
	sort.Strings(names)
	if names == nil {
		names = []string{}
	}
	return
}

func (e *namingEnv) purge() {
	names, _, _ := e.held()
	for _, n := range names {
		_ = e.store.PurgeMessages(n)
	}
}

// httpGet sends one GET to the real router; the target is built the way a client builds it:
// the string percent-encoded as one path segment.
func httpGet(target string) (status int, body []byte) {
	defer func() {
		if r := recover(); r != nil {
			status, body = -1, []byte(fmt.Sprint(r))
		}
	}()
	req := httptest.NewRequest(http.MethodGet, target, nil)
	req.Header.Set("Accept", "application/json")
	w := httptest.NewRecorder()
	web.Router.ServeHTTP(w, req)
	return w.Code, w.Body.Bytes()
}

type jsonHdr struct {
	Mailbox string `json:"mailbox"`
	ID      string `json:"id"`
}

func (e *namingEnv) lookups(rows []namingRow, id string) []namingLookup {
	out := []namingLookup{}
	for _, r := range rows {
		seg := url.PathEscape(r.Q)
		// REST: list the mailbox
		lk := namingLookup{Via: "rest-list", Role: r.Role, Q: r.Q, RcptOK: r.Rcpt.OK}
		st, body := httpGet("/api/v1/mailbox/" + seg)
		lk.Status = st
		if st == 200 {
			var hs []jsonHdr
			if json.Unmarshal(body, &hs) == nil {
				for _, h := range hs {
					if h.ID == id {
						lk.Found, lk.Mailbox = true, h.Mailbox
					}
				}
			}
		}
		out = append(out, lk)
		// REST and web UI: show the message
		for _, v := range [][2]string{{"rest-show", "/api/v1/mailbox/"}, {"web-show", "/serve/mailbox/"}} {
			lk := namingLookup{Via: v[0], Role: r.Role, Q: r.Q, RcptOK: r.Rcpt.OK}
			st, body := httpGet(v[1] + seg + "/" + id)
			lk.Status = st
			if st == 200 {
				var h jsonHdr
				if json.Unmarshal(body, &h) == nil && h.ID == id {
					lk.Found, lk.Mailbox = true, h.Mailbox
				}
			}
			out = append(out, lk)
		}
		// REST and web UI: the message source (the Received line the delivery path wrote names the mailbox)
		for _, v := range [][2]string{{"rest-source", "/api/v1/mailbox/"}, {"web-source", "/serve/mailbox/"}} {
			lk := namingLookup{Via: v[0], Role: r.Role, Q: r.Q, RcptOK: r.Rcpt.OK}
			st, body := httpGet(v[1] + seg + "/" + id + "/source")
			lk.Status = st
			if st == 200 && strings.Contains(string(body), "Subject: naming probe") {
				lk.Found = true
				if m := recvdFor.FindSubmatch(body); m != nil {
					lk.Mailbox = string(m[1])
				}
			}
			out = append(out, lk)
		}
	}
	return out
}

var recvdFor = regexp.MustCompile(`(?m)^\s+for <([^\r\n]*)>; `)

// deliver plays one SMTP session: EHLO, MAIL, RCPT TO:<addr>, DATA, message, QUIT.
func (e *namingEnv) deliver(sid int, addr string, ev tr.Ev) {
	timeout := 5 * time.Second
	sc, cc := net.Pipe()
	done := make(chan struct{})
	go func() { e.server.VerifServeConn(sid, sc); close(done) }()
	br := bufio.NewReader(cc)
	say := func(line string) reply {
		_ = cc.SetWriteDeadline(time.Now().Add(timeout))
		werr := make(chan error, 1)
		go func() { _, err := cc.Write([]byte(line)); werr <- err }()
		rp := readReply(cc, br, timeout)
		select {
		case <-werr:
		case <-time.After(timeout):
		}
		return rp
	}
	ev["rcptcls"], ev["rcptcode"], ev["datacls"] = "none", 0, "none"
	banner := readReply(cc, br, timeout)
	if banner.Cls == "ok" && say("EHLO client.example\r\n").Cls == "ok" && say("MAIL FROM:<sender@origin.example>\r\n").Cls == "ok" {
		rp := say("RCPT TO:<" + addr + ">\r\n")
		ev["rcptcls"], ev["rcptcode"] = rp.Cls, rp.Code
		if rp.Cls == "ok" && say("DATA\r\n").Cls == "ok" {
			rp = say("From: Sender <sender@origin.example>\r\nSubject: naming probe\r\n\r\nbody\r\n.\r\n")
			ev["datacls"] = rp.Cls
		}
		say("QUIT\r\n")
	}
	cc.Close()
	select {
	case <-done:
	case <-time.After(timeout):
		ev["stuck"] = true
	}
}

func cmdNaming(args []string) error {
	if len(args) != 2 {
		return fmt.Errorf("usage: vh naming <behaviours.json> <trace.ndjson>")
	}
	raw, err := os.ReadFile(args[0])
	if err != nil {
		return err
	}
	var in namingInput
	if err := json.Unmarshal(raw, &in); err != nil {
		return err
	}
	w, err := tr.NewWriter(args[1])
	if err != nil {
		return err
	}
	defer w.Close()
	envs := map[string]*namingEnv{}
	ne2e := 0
	// one naming mode after the other: the package-level web router serves one environment at a time
	sort.SliceStable(in.Behaviours, func(i, j int) bool { return in.Behaviours[i].Mode < in.Behaviours[j].Mode })
	for i, b := range in.Behaviours {
		e := envs[b.Mode]
		if e == nil {
			if e, err = newNamingEnv(b.Mode); err != nil {
				w.Emit(tr.Ev{"a": "harness-error", "t": b.ID, "err": err.Error()})
				continue
			}
			envs[b.Mode] = e
		}
		w.Emit(tr.Ev{"a": "reset", "t": b.ID, "mode": b.Mode, "abs": b.Abs})
		rows := make([]namingRow, 0, len(b.Rows)+1)
		bi := -1
		for _, r := range b.Rows {
			row := namingRow{Role: r.Role, Q: r.Q}
			row.Rcpt, row.Look = e.ask(r.Q)
			rows = append(rows, row)
			if r.Role == "orig" && bi < 0 {
				bi = len(rows) - 1
			}
		}
		if bi >= 0 && rows[bi].Rcpt.OK {
			// the produced name, fed back in
			row := namingRow{Role: "name", Q: rows[bi].Rcpt.Name}
			row.Rcpt, row.Look = e.ask(row.Q)
			rows = append(rows, row)
		}
		w.Emit(tr.Ev{"a": "table", "t": b.ID, "rows": rows})
		if !b.E2E || bi < 0 {
			continue
		}
		base := rows[bi]
		ne2e++
		e.serveWeb()
		e.purge()
		ev := tr.Ev{"a": "e2e", "t": b.ID, "q": base.Q, "rcptok": base.Rcpt.OK, "rname": base.Rcpt.Name}
		e.deliver(i+1, base.Q, ev)
		names, id, verr := e.held()
		ev["held"] = names
		ev["id"] = id
		if verr != nil {
			ev["visiterr"] = verr.Error()
		}
		if id != "" {
			ev["lookups"] = e.lookups(rows, id)
		} else {
			ev["lookups"] = []namingLookup{}
		}
		w.Emit(ev)
	}
	fmt.Fprintf(os.Stderr, "naming: %d behaviours (%d end-to-end), %d events\n", len(in.Behaviours), ne2e, w.N)
	return nil
}
