package main

// Line-protocol driver for the real POP3 server (C13).  It sends exactly the
// bytes the behaviour prescribes over a pipe to a real session
// (pop3.Server.VerifServeConn), records the reply to every line (status
// indicator, whether a multi-line reply was terminated, the numbers of a STAT
// reply, the (number, value) pairs of LIST / UIDL replies) and the projected
// state of the whole store (ids and sizes per mailbox) before login and after
// every step.  Environment steps act directly on the real store object.
// No pass/fail logic.

import (
	"bufio"
	"bytes"
	"encoding/json"
	"fmt"
	"io"
	"net"
	"net/mail"
	"os"
	"path/filepath"
	"regexp"
	"sort"
	"strconv"
	"strings"
	"sync"
	"time"

	"github.com/inbucket/inbucket/v3/pkg/config"
	"github.com/inbucket/inbucket/v3/pkg/extension"
	"github.com/inbucket/inbucket/v3/pkg/extension/event"
	"github.com/inbucket/inbucket/v3/pkg/message"
	"github.com/inbucket/inbucket/v3/pkg/server/pop3"
	"github.com/inbucket/inbucket/v3/pkg/storage"

	"verif/harness/internal/tr"
)

type popStep struct {
	Kind  string                 `json:"kind"`  // line | cut | drop | connect | env
	Abs   map[string]interface{} `json:"abs"`   // abstract fields, echoed into the event
	Send  string                 `json:"send"`  // bytes to send (code points 0..255)
	Multi bool                   `json:"multi"` // a +OK reply to this line is multi-line (RFC 1939)
	Parse string                 `json:"parse"` // "" | stat | list | uidl: which numbers to extract from a +OK reply
	Ends  bool                   `json:"ends"`  // the session is expected to end after the reply: wait for it before the snapshot
	Op    string                 `json:"op"`    // env: deliver | remove | purge
	Mb    string                 `json:"mb"`
	Size  int                    `json:"size"` // deliver: bytes
	Ref   int                    `json:"ref"`  // deliver: reference number of the new message; remove: reference of the message to remove
}

type popBehaviour struct {
	ID         string    `json:"id"`
	Store      string    `json:"store"`
	Names      []string  `json:"names"`
	Steps      []popStep `json:"steps"`
	Timeout    int       `json:"timeout_ms"`
	SrvTimeout int       `json:"srv_timeout_ms"` // POP3 idle timeout of the server (default 120 s)
}

type popInput struct {
	Seed       int64          `json:"seed"`
	Behaviours []popBehaviour `json:"behaviours"`
}

// PMsg / PBox: the projection of the store the Pop3 contract talks about.
type PMsg struct {
	ID   string `json:"id"`
	Size int64  `json:"size"`
}
type PBox struct {
	Mb   string `json:"mb"`
	Msgs []PMsg `json:"msgs"`
}

func popProject(ms []storage.Message) []PMsg {
	out := make([]PMsg, 0, len(ms))
	for _, m := range ms {
		out = append(out, PMsg{ID: m.ID(), Size: m.Size()})
	}
	return out
}

// popSnapshot: union of what VisitMailboxes and GetMessages(known names) show; when
// both agree there is one entry per non-empty mailbox.
func popSnapshot(s storage.Store, known []string) (boxes []PBox, errs []string) {
	seen := map[string]bool{}
	add := func(b PBox) {
		if len(b.Msgs) == 0 {
			return
		}
		k, _ := json.Marshal(b)
		if !seen[string(k)] {
			seen[string(k)] = true
			boxes = append(boxes, b)
		}
	}
	err := s.VisitMailboxes(func(ms []storage.Message) bool {
		if len(ms) > 0 {
			add(PBox{Mb: ms[0].Mailbox(), Msgs: popProject(ms)})
		}
		return true
	})
	if err != nil {
		errs = append(errs, "visit: "+err.Error())
	}
	for _, name := range known {
		ms, err := s.GetMessages(name)
		if err != nil {
			errs = append(errs, "list "+name+": "+err.Error())
			continue
		}
		add(PBox{Mb: name, Msgs: popProject(ms)})
	}
	sort.Slice(boxes, func(i, j int) bool { return boxes[i].Mb < boxes[j].Mb })
	if boxes == nil {
		boxes = []PBox{}
	}
	if errs == nil {
		errs = []string{}
	}
	return
}

type popPair struct {
	N  int    `json:"n"`
	V  string `json:"v"`
	IV int    `json:"iv"` // v as a number, -1 when it is not one (or does not fit 31 bits)
}

type popReply struct {
	Cls      string // ok | fail | malformed | none (nothing within the deadline) | closed
	Multi    bool   // a multi-line body was read
	Term     bool   // ... and it was terminated by "."
	Lines    int    // lines received in all
	Count    int    // STAT
	Size     int
	Pairs    []popPair
	BadLines int // body lines (or a first line) that should carry numbers and do not
	First    string
	Body     []string // parse == "capa": the body lines
}

var (
	popStatRe = regexp.MustCompile(`^\+OK ([0-9]{1,9}) ([0-9]{1,9})( .*)?$`)
	popPairRe = regexp.MustCompile(`^([0-9]{1,9}) ([!-~]+)$`)
	popOneRe  = regexp.MustCompile(`^\+OK ([0-9]{1,9}) ([!-~]+)$`)
)

func mkPair(n, v string) popPair {
	p := popPair{V: v, IV: -1}
	p.N, _ = strconv.Atoi(n)
	if regexp.MustCompile(`^[0-9]{1,9}$`).MatchString(v) {
		p.IV, _ = strconv.Atoi(v)
	}
	return p
}

func readPopReply(c net.Conn, br *bufio.Reader, timeout time.Duration, multi bool, parse string) popReply {
	rp := popReply{Count: -1, Size: -1, Pairs: []popPair{}}
	readLine := func() (string, string) {
		_ = c.SetReadDeadline(time.Now().Add(timeout))
		line, err := br.ReadString('\n')
		if err != nil {
			if ne, ok := err.(net.Error); ok && ne.Timeout() {
				return line, "none"
			}
			return line, "closed"
		}
		return line, ""
	}
	line, bad := readLine()
	if bad != "" {
		rp.Cls = bad
		return rp
	}
	rp.Lines = 1
	rp.First = line
	if !strings.HasSuffix(line, "\r\n") {
		rp.Cls = "malformed"
		return rp
	}
	text := strings.TrimSuffix(line, "\r\n")
	switch {
	case text == "+OK" || strings.HasPrefix(text, "+OK "):
		rp.Cls = "ok"
	case text == "-ERR" || strings.HasPrefix(text, "-ERR "):
		rp.Cls = "fail"
	default:
		rp.Cls = "malformed"
		return rp
	}
	if rp.Cls != "ok" {
		return rp
	}
	if parse == "stat" {
		if m := popStatRe.FindStringSubmatch(text); m != nil {
			rp.Count, _ = strconv.Atoi(m[1])
			rp.Size, _ = strconv.Atoi(m[2])
		}
	}
	if !multi {
		if parse == "list" || parse == "uidl" {
			if m := popOneRe.FindStringSubmatch(text); m != nil {
				rp.Pairs = append(rp.Pairs, mkPair(m[1], m[2]))
			} else {
				rp.BadLines++
			}
		}
		return rp
	}
	rp.Multi = true
	for {
		l, bad := readLine()
		if bad != "" {
			return rp // not terminated
		}
		rp.Lines++
		if l == ".\r\n" {
			rp.Term = true
			return rp
		}
		if parse == "capa" {
			rp.Body = append(rp.Body, l)
		}
		if parse == "list" || parse == "uidl" {
			if m := popPairRe.FindStringSubmatch(strings.TrimSuffix(l, "\r\n")); m != nil && strings.HasSuffix(l, "\r\n") {
				rp.Pairs = append(rp.Pairs, mkPair(m[1], m[2]))
			} else {
				rp.BadLines++
			}
		}
	}
}

func latin1Bytes(s string) []byte {
	rs := []rune(s)
	b := make([]byte, len(rs))
	for i, r := range rs {
		b[i] = byte(r)
	}
	return b
}

// popBody builds a message source of exactly size bytes (size >= 40): a small header,
// then text lines, one of them starting with a dot.
func popBody(ref, size int) []byte {
	var b bytes.Buffer
	fmt.Fprintf(&b, "Subject: m%d\r\n\r\n.dot %d\r\n", ref, ref)
	for b.Len() < size {
		b.WriteString("line of the message body, fifty-odd characters long\r\n")
	}
	out := b.Bytes()[:size]
	return out
}

type popSession struct {
	client net.Conn
	br     *bufio.Reader
	done   chan struct{}
	mu     sync.Mutex
	panicv string
}

func (p *popSession) panicText() string {
	p.mu.Lock()
	defer p.mu.Unlock()
	return p.panicv
}

func runPOP3Behaviour(w *tr.Writer, b popBehaviour, scratch string) {
	dir := filepath.Join(scratch, "store-"+b.ID)
	if b.Store == "file" {
		_ = os.MkdirAll(dir, 0o770)
		defer os.RemoveAll(dir)
	}
	store, err := newStore(b.Store, 0, 0, dir, extension.NewHost())
	if err != nil {
		w.Emit(tr.Ev{"a": "harness-error", "t": b.ID, "err": err.Error()})
		return
	}
	srvTimeout := 120 * time.Second
	if b.SrvTimeout > 0 {
		srvTimeout = time.Duration(b.SrvTimeout) * time.Millisecond
	}
	server, err := pop3.NewServer(config.POP3{Addr: "127.0.0.1:0", Domain: "inbucket.test", Timeout: srvTimeout}, store)
	if err != nil {
		w.Emit(tr.Ev{"a": "harness-error", "t": b.ID, "err": err.Error()})
		return
	}
	timeout := 5 * time.Second
	if b.Timeout > 0 {
		timeout = time.Duration(b.Timeout) * time.Millisecond
	}
	snap := func(ev tr.Ev) {
		s, serr := popSnapshot(store, b.Names)
		ev["s"] = s
		ev["serr"] = serr
	}
	rev := tr.Ev{"a": "reset", "t": b.ID, "store": b.Store}
	snap(rev)
	w.Emit(rev)
	w.Flush()

	var ssn *popSession
	sid := 0
	connect := func() popReply {
		sc, cc := net.Pipe()
		s := &popSession{client: cc, br: bufio.NewReader(cc), done: make(chan struct{})}
		sid++
		go func(id int) {
			defer close(s.done)
			defer func() {
				if r := recover(); r != nil {
					s.mu.Lock()
					s.panicv = fmt.Sprint(r)
					s.mu.Unlock()
					_ = sc.Close()
				}
			}()
			server.VerifServeConn(id, sc)
		}(sid)
		ssn = s
		return readPopReply(s.client, s.br, timeout, false, "")
	}
	put := func(ev tr.Ev, rp popReply) {
		ev["cls"] = rp.Cls
		ev["multi"] = rp.Multi
		ev["term"] = rp.Term
		ev["nlines"] = rp.Lines
		ev["stat"] = map[string]int{"count": rp.Count, "size": rp.Size}
		ev["pairs"] = rp.Pairs
		ev["badlines"] = rp.BadLines
		ev["panic"] = ssn.panicText()
	}
	waitEnd := func() bool {
		select {
		case <-ssn.done:
			return true
		case <-time.After(timeout):
			return false
		}
	}
	ended := func() bool {
		select {
		case <-ssn.done:
			return true
		default:
			return false
		}
	}
	cev := tr.Ev{"a": "connect", "t": b.ID}
	put(cev, connect())
	snap(cev)
	w.Emit(cev)
	closed := false // the client side has been closed by the driver
	issued := map[int]string{}
	for i, st := range b.Steps {
		ev := tr.Ev{"a": "cmd", "t": b.ID, "i": i}
		for k, v := range st.Abs {
			ev[k] = v
		}
		switch st.Kind {
		case "env":
			ev["a"] = "env"
			ev["mb"] = st.Mb
			switch st.Op {
			case "deliver":
				body := popBody(st.Ref, st.Size)
				meta := event.MessageMetadata{
					Mailbox: st.Mb,
					From:    &mail.Address{Address: "sender@example.org"},
					To:      []*mail.Address{{Address: st.Mb + "@example.com"}},
					Date:    baseTime.Add(time.Duration(st.Ref) * time.Second),
					Subject: fmt.Sprintf("m%d", st.Ref),
				}
				id, err := store.AddMessage(&message.Delivery{Meta: meta, Reader: bytes.NewReader(body)})
				ev["r"] = errClass(err)
				ev["id"] = id
				ev["size"] = len(body)
				if err == nil {
					issued[st.Ref] = id
				}
			case "remove":
				id, ok := issued[st.Ref]
				if !ok {
					id = "never-issued"
				}
				ev["id"] = id
				ev["r"] = errClass(store.RemoveMessage(st.Mb, id))
			case "purge":
				ev["r"] = errClass(store.PurgeMessages(st.Mb))
			default:
				ev["r"] = "harness-error: unknown env op"
			}
		case "connect":
			if !closed {
				ssn.client.Close()
				waitEnd()
			}
			closed = false
			ev["a"] = "connect"
			put(ev, connect())
		case "idle":
			// say nothing until the server's idle timeout ends the session; then hang up
			ev["a"] = "drop"
			if !closed {
				_ = ssn.client.SetReadDeadline(time.Now().Add(srvTimeout + 2*time.Second))
				_, _ = io.ReadAll(ssn.br)
				ssn.client.Close()
				closed = true
			}
			ev["returned"] = waitEnd()
			ev["panic"] = ssn.panicText()
		case "drop", "cut":
			// optionally send an unterminated prefix, then hang up
			ev["a"] = "drop"
			if !closed {
				if st.Send != "" {
					data := latin1Bytes(st.Send)
					_ = ssn.client.SetWriteDeadline(time.Now().Add(timeout))
					_, _ = ssn.client.Write(data)
				}
				ssn.client.Close()
				closed = true
			}
			ev["returned"] = waitEnd()
			ev["panic"] = ssn.panicText()
		default:
			if closed {
				put(ev, popReply{Cls: "closed", Count: -1, Size: -1, Pairs: []popPair{}})
				ev["returned"] = ended()
				break
			}
			data := latin1Bytes(st.Send)
			_ = ssn.client.SetWriteDeadline(time.Now().Add(timeout))
			// the server may answer before it has consumed everything (pipe): write in the background
			werr := make(chan error, 1)
			go func(c net.Conn) { _, err := c.Write(data); werr <- err }(ssn.client)
			rp := readPopReply(ssn.client, ssn.br, timeout, st.Multi, st.Parse)
			select {
			case <-werr:
			case <-time.After(timeout):
			}
			if st.Ends {
				ev["returned"] = waitEnd()
			} else {
				ev["returned"] = ended()
			}
			put(ev, rp)
		}
		snap(ev)
		w.Emit(ev)
	}
	// end of the behaviour: anything the server still wants to say, then hang up
	end := tr.Ev{"a": "end", "t": b.ID, "extra": 0}
	if !closed {
		if !ended() {
			_ = ssn.client.SetReadDeadline(time.Now().Add(30 * time.Millisecond))
			extra, _ := io.ReadAll(ssn.br)
			end["extra"] = len(extra)
		}
		ssn.client.Close()
	}
	end["returned"] = waitEnd()
	end["panic"] = ssn.panicText()
	snap(end)
	w.Emit(end)
}

func cmdPOP3(args []string) error {
	if len(args) != 2 {
		return fmt.Errorf("usage: vh pop3 <behaviours.json> <trace.ndjson>")
	}
	raw, err := os.ReadFile(args[0])
	if err != nil {
		return err
	}
	var in popInput
	if err := json.Unmarshal(raw, &in); err != nil {
		return err
	}
	w, err := tr.NewWriter(args[1])
	if err != nil {
		return err
	}
	defer w.Close()
	base := ""
	if st, err := os.Stat("/dev/shm"); err == nil && st.IsDir() {
		base = "/dev/shm"
	}
	scratch, err := os.MkdirTemp(base, "vh-pop3-")
	if err != nil {
		return err
	}
	defer os.RemoveAll(scratch)
	for _, b := range in.Behaviours {
		runPOP3Behaviour(w, b, scratch)
	}
	fmt.Fprintf(os.Stderr, "pop3: %d behaviours, %d events\n", len(in.Behaviours), w.N)
	return nil
}
