package main

// STLS driver for the POP3 server (contract Pop3Tls.tla): several connections to ONE real pop3.Server, opened,
// used and closed in the order the behaviour says.  Per step the driver records only what the server answered:
// whether CAPA lists STLS, whether STLS was accepted, and whether the TLS negotiation that follows an acceptance
// succeeded (the rest of that connection's dialogue is then encrypted).

import (
	"bufio"
	"bytes"
	"crypto/tls"
	"encoding/json"
	"fmt"
	"net"
	"net/mail"
	"os"
	"strings"
	"time"

	"github.com/inbucket/inbucket/v3/pkg/config"
	"github.com/inbucket/inbucket/v3/pkg/extension"
	"github.com/inbucket/inbucket/v3/pkg/extension/event"
	"github.com/inbucket/inbucket/v3/pkg/message"
	"github.com/inbucket/inbucket/v3/pkg/server/pop3"

	"verif/harness/internal/tr"
)

type ptStep struct {
	K string `json:"k"` // open | close | login | capa | stls
	C int    `json:"c"`
}

type ptBehaviour struct {
	ID         string   `json:"id"`
	Configured bool     `json:"configured"`
	Steps      []ptStep `json:"steps"`
}

type ptInput struct {
	Seed       int64         `json:"seed"`
	Behaviours []ptBehaviour `json:"behaviours"`
}

type ptConn struct {
	conn net.Conn
	br   *bufio.Reader
	done chan struct{}
}

func runPop3Tls(w *tr.Writer, b ptBehaviour, scratch string, sid *int) {
	cfg := config.POP3{Addr: "127.0.0.1:0", Domain: "inbucket.test", Timeout: 60 * time.Second}
	if b.Configured {
		crt, key, err := lcSelfSigned(scratch, b.ID)
		if err != nil {
			w.Emit(tr.Ev{"a": "harness-error", "t": b.ID, "err": err.Error()})
			return
		}
		defer os.Remove(crt)
		defer os.Remove(key)
		cfg.TLSEnabled, cfg.TLSCert, cfg.TLSPrivKey = true, crt, key
	}
	store, err := newStore("mem", 0, 0, "", extension.NewHost())
	if err == nil {
		_, err = store.AddMessage(&message.Delivery{
			Meta:   event.MessageMetadata{Mailbox: "alice", From: &mail.Address{Address: "a@example.org"}, To: []*mail.Address{{Address: "alice@example.com"}}, Date: time.Now(), Subject: "one"},
			Reader: bytes.NewReader([]byte("Subject: one\r\n\r\nbody\r\n"))})
	}
	if err != nil {
		w.Emit(tr.Ev{"a": "harness-error", "t": b.ID, "err": err.Error()})
		return
	}
	srv, err := pop3.NewServer(cfg, store)
	if err != nil {
		w.Emit(tr.Ev{"a": "harness-error", "t": b.ID, "err": err.Error()})
		return
	}
	w.Emit(tr.Ev{"a": "reset", "t": b.ID, "configured": b.Configured})
	const timeout = 5 * time.Second
	conns := map[int]*ptConn{}
	say := func(c *ptConn, line string, multi bool) popReply {
		parse := ""
		if multi {
			parse = "capa"
		}
		_ = c.conn.SetWriteDeadline(time.Now().Add(timeout))
		werr := make(chan error, 1)
		go func() { _, err := c.conn.Write([]byte(line)); werr <- err }()
		rp := readPopReply(c.conn, c.br, timeout, multi, parse)
		select {
		case <-werr:
		case <-time.After(timeout):
		}
		return rp
	}
	for i, st := range b.Steps {
		ev := tr.Ev{"a": st.K, "t": b.ID, "i": i, "c": st.C}
		c := conns[st.C]
		switch st.K {
		case "open":
			sc, cc := net.Pipe()
			c = &ptConn{conn: cc, br: bufio.NewReader(cc), done: make(chan struct{})}
			conns[st.C] = c
			*sid++
			go func(id int, d chan struct{}) { srv.VerifServeConn(id, sc); close(d) }(*sid, c.done)
			ev["greeting"] = readPopReply(c.conn, c.br, timeout, false, "").Cls
		case "close":
			if c != nil {
				c.conn.Close()
				select {
				case <-c.done:
					ev["returned"] = true
				case <-time.After(timeout):
					ev["returned"] = false
				}
				delete(conns, st.C)
			}
		case "login":
			rp := say(c, "USER alice\r\n", false)
			if rp.Cls == "ok" {
				rp = say(c, "PASS secret\r\n", false)
			}
			ev["cls"] = rp.Cls
		case "capa":
			rp := say(c, "CAPA\r\n", true)
			ev["cls"] = rp.Cls
			offered := false
			for _, l := range rp.Body {
				if strings.EqualFold(strings.TrimSpace(l), "STLS") {
					offered = true
				}
			}
			ev["offered"] = offered
		case "stls":
			rp := say(c, "STLS\r\n", false)
			ev["cls"] = rp.Cls
			ev["upgraded"] = false
			if rp.Cls == "ok" {
				tc := tls.Client(c.conn, &tls.Config{InsecureSkipVerify: true})
				_ = c.conn.SetDeadline(time.Now().Add(timeout))
				if err := tc.Handshake(); err == nil {
					ev["upgraded"] = true
					c.conn, c.br = tc, bufio.NewReader(tc)
				} else {
					ev["tlserr"] = err.Error()
				}
			}
		}
		w.Emit(ev)
	}
	for _, c := range conns {
		c.conn.Close()
		select {
		case <-c.done:
		case <-time.After(timeout):
		}
	}
}

func cmdPop3Tls(args []string) error {
	if len(args) != 2 {
		return fmt.Errorf("usage: vh pop3tls <behaviours.json> <trace.ndjson>")
	}
	raw, err := os.ReadFile(args[0])
	if err != nil {
		return err
	}
	var in ptInput
	if err := json.Unmarshal(raw, &in); err != nil {
		return err
	}
	w, err := tr.NewWriter(args[1])
	if err != nil {
		return err
	}
	defer w.Close()
	scratch, err := os.MkdirTemp("", "vh-pop3tls-")
	if err != nil {
		return err
	}
	defer os.RemoveAll(scratch)
	sid := 0
	for _, b := range in.Behaviours {
		runPop3Tls(w, b, scratch, &sid)
	}
	fmt.Fprintf(os.Stderr, "pop3tls: %d behaviours, %d events\n", len(in.Behaviours), w.N)
	return nil
}
