package main

// procStore executes every mutating store operation in a fresh child process on the same storage
// path (C10: "the server is stopped and started again" between any two operations: process-global
// state such as the file store's id counter starts over each time).  Reads use a store object of
// the driver's own process (the file store keeps nothing in memory between calls).

import (
	"bytes"
	"encoding/json"
	"errors"
	"fmt"
	"io"
	"net/mail"
	"os"
	"os/exec"
	"time"

	"github.com/inbucket/inbucket/v3/pkg/extension"
	"github.com/inbucket/inbucket/v3/pkg/extension/event"
	"github.com/inbucket/inbucket/v3/pkg/message"
	"github.com/inbucket/inbucket/v3/pkg/storage"
)

type procOp struct {
	Dir      string          `json:"dir"`
	Cap      int             `json:"cap"`
	Op       string          `json:"op"`
	Mb       string          `json:"mb"`
	ID       string          `json:"id"`
	From     *mail.Address   `json:"from"`
	To       []*mail.Address `json:"to"`
	Date     time.Time       `json:"date"`
	Subject  string          `json:"subject"`
	BodyFile string          `json:"bodyfile"`
}

type procRes struct {
	R  string `json:"r"`
	ID string `json:"id"`
}

type procStore struct {
	storage.Store // reads
	dir           string
	cap           int
}

func (p *procStore) child(op procOp) (procRes, error) {
	op.Dir, op.Cap = p.dir, p.cap
	in, _ := json.Marshal(op)
	cmd := exec.Command(os.Args[0], "storeop")
	cmd.Stdin = bytes.NewReader(in)
	out, err := cmd.Output()
	if err != nil {
		return procRes{}, fmt.Errorf("child process failed: %v", err)
	}
	var r procRes
	if err := json.Unmarshal(out, &r); err != nil {
		return procRes{}, fmt.Errorf("child process output: %v", err)
	}
	return r, nil
}

func resErr(r procRes, err error) error {
	switch {
	case err != nil:
		return err
	case r.R == "ok":
		return nil
	case r.R == "notexist":
		return storage.ErrNotExist
	default:
		return errors.New(r.R)
	}
}

func (p *procStore) AddMessage(m storage.Message) (string, error) {
	src, err := m.Source()
	if err != nil {
		return "", err
	}
	body, _ := io.ReadAll(src)
	f, err := os.CreateTemp(p.dir, "body-*")
	if err != nil {
		return "", err
	}
	_, _ = f.Write(body)
	_ = f.Close()
	defer os.Remove(f.Name())
	r, err := p.child(procOp{Op: "add", Mb: m.Mailbox(), From: m.From(), To: m.To(), Date: m.Date(), Subject: m.Subject(), BodyFile: f.Name()})
	return r.ID, resErr(r, err)
}
func (p *procStore) MarkSeen(mb, id string) error {
	return resErr(p.child(procOp{Op: "seen", Mb: mb, ID: id}))
}
func (p *procStore) RemoveMessage(mb, id string) error {
	return resErr(p.child(procOp{Op: "remove", Mb: mb, ID: id}))
}
func (p *procStore) PurgeMessages(mb string) error {
	return resErr(p.child(procOp{Op: "purge", Mb: mb}))
}

// cmdStoreOp is the child: one operation on a file store opened in this (new) process.
func cmdStoreOp(args []string) error {
	raw, err := io.ReadAll(os.Stdin)
	if err != nil {
		return err
	}
	var op procOp
	if err := json.Unmarshal(raw, &op); err != nil {
		return err
	}
	st, err := newStore("file", op.Cap, 0, op.Dir, extension.NewHost())
	if err != nil {
		return err
	}
	res := procRes{}
	switch op.Op {
	case "add":
		body, err := os.ReadFile(op.BodyFile)
		if err != nil {
			return err
		}
		d := &message.Delivery{Meta: event.MessageMetadata{Mailbox: op.Mb, From: op.From, To: op.To, Date: op.Date, Subject: op.Subject}, Reader: bytes.NewReader(body)}
		id, err := st.AddMessage(d)
		res.ID, res.R = id, errClass(err)
	case "seen":
		res.R = errClass(st.MarkSeen(op.Mb, op.ID))
	case "remove":
		res.R = errClass(st.RemoveMessage(op.Mb, op.ID))
	case "purge":
		res.R = errClass(st.PurgeMessages(op.Mb))
	default:
		return fmt.Errorf("unknown op %q", op.Op)
	}
	out, _ := json.Marshal(res)
	_, err = os.Stdout.Write(out)
	return err
}
