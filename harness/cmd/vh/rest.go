package main

// Driver for the HTTP interfaces (C14): REST API /api/v1, web UI back-end /serve and
// the bundled Go client pkg/rest/client.
//
// Each behaviour gets the real router (web.Router reassigned, routes mounted as
// FullAssembly does, incl. the base path prefix), the real message.StoreManager and a
// real store (memory or file), served over loopback by one httptest server.  A step is
// either a delivery (StoreManager.Deliver to a recipient address, through the real
// naming policy) or a request: raw HTTP with exactly the request target the behaviour
// prescribes, or the corresponding method of pkg/rest/client.  After every step the
// driver records the status class, the decoded response fields (projection), every HTTP
// restExchange the client made (`dropped' when the connection ended without a response) and
// the projected state of the whole store.  No pass/fail logic.

import (
	"bytes"
	"encoding/json"
	"fmt"
	"io"
	"log"
	"net/http"
	"net/http/httptest"
	"os"
	"path/filepath"
	"regexp"
	"sort"
	"strconv"
	"strings"
	"sync"
	"time"

	"github.com/inbucket/inbucket/v3/pkg/config"
	"github.com/inbucket/inbucket/v3/pkg/extension"
	"github.com/inbucket/inbucket/v3/pkg/message"
	"github.com/inbucket/inbucket/v3/pkg/msghub"
	"github.com/inbucket/inbucket/v3/pkg/policy"
	"github.com/inbucket/inbucket/v3/pkg/rest"
	"github.com/inbucket/inbucket/v3/pkg/rest/client"
	"github.com/inbucket/inbucket/v3/pkg/server/web"
	"github.com/inbucket/inbucket/v3/pkg/storage"
	"github.com/inbucket/inbucket/v3/pkg/stringutil"
	"github.com/inbucket/inbucket/v3/pkg/webui"

	"verif/harness/internal/tr"
)

type restStep struct {
	Kind string `json:"kind"` // deliver | req
	// deliver
	Mb   string                 `json:"mb"`   // mailbox the step is about (canonical name, as the concretiser computed it)
	From string                 `json:"from"` // envelope sender
	To   string                 `json:"to"`   // recipient address
	Src  string                 `json:"src"`  // message source (code points 0..255 = bytes)
	Abs  map[string]interface{} `json:"abs"`  // facts about the concrete input, echoed into the event
	// req
	Route string `json:"route"` // list get source seen delete purge uiget uihtml uisource
	Via   string `json:"via"`   // http | client
	How   string `json:"how"`   // client only: direct | header | message (convenience methods)
	Name  string `json:"name"`  // mailbox name as spelled in the request
	EName string `json:"ename"` // raw http: the name as it appears in the request target (escaped)
	IDRef int    `json:"idref"` // k-th id issued in the mailbox (beyond: never issued); 0 = "latest"
	Body  string `json:"body"`  // body class (seen)
	Send  string `json:"send"`  // raw http: request body bytes
}

type restSpelling struct {
	Mb   string `json:"mb"`
	Name string `json:"name"`
}

type restBehaviour struct {
	ID          string                 `json:"id"`
	Store       string                 `json:"store"`
	Env         map[string]string      `json:"env"`
	Base        string                 `json:"base"`
	ClientSlash bool                   `json:"client_slash"` // the bundled client is given the base URL with a trailing slash
	Cfg         map[string]interface{} `json:"cfg"`
	Names       []string               `json:"names"`
	Spellings   []restSpelling         `json:"spellings"`
	Steps       []restStep             `json:"steps"`
}

type restInput struct {
	Seed       int64           `json:"seed"`
	Behaviours []restBehaviour `json:"behaviours"`
}

// restMeta / restMsg / restBox: projection of the store for the Rest contract.
type restMeta struct {
	From    string   `json:"from"`
	To      []string `json:"to"`
	Subject string   `json:"subject"`
	Date    string   `json:"date"`
	Millis  string   `json:"millis"`
	Hash    string   `json:"hash"`
	SrcLen  int      `json:"srclen"`
}
type restMsg struct {
	ID   string   `json:"id"`
	Meta restMeta `json:"meta"`
	Size int64    `json:"size"`
	Seen bool     `json:"seen"`
}
type restBox struct {
	Mb   string    `json:"mb"`
	Msgs []restMsg `json:"msgs"`
}

const restDateFmt = "2006-01-02T15:04:05.000000000Z"

func restFmtDate(t time.Time) (string, string) {
	return t.UTC().Format(restDateFmt), strconv.FormatInt(t.UnixNano()/1000000, 10)
}

func restProjectMsg(m storage.Message) restMsg {
	out := restMsg{ID: m.ID(), Size: m.Size(), Seen: m.Seen()}
	out.Meta.From = stringutil.StringAddress(m.From())
	out.Meta.To = stringutil.StringAddressList(m.To())
	if out.Meta.To == nil {
		out.Meta.To = []string{}
	}
	out.Meta.Subject = m.Subject()
	out.Meta.Date, out.Meta.Millis = restFmtDate(m.Date())
	r, err := m.Source()
	if err != nil {
		out.Meta.Hash = "source-error:" + err.Error()
		return out
	}
	b, err := io.ReadAll(r)
	_ = r.Close()
	if err != nil {
		out.Meta.Hash = "read-error:" + err.Error()
		return out
	}
	out.Meta.Hash = tr.HashBytes(b)
	out.Meta.SrcLen = len(b)
	return out
}

func restProjectMsgs(ms []storage.Message) []restMsg {
	out := make([]restMsg, 0, len(ms))
	for _, m := range ms {
		out = append(out, restProjectMsg(m))
	}
	return out
}

// restSnapshot: union of what VisitMailboxes shows and what GetMessages shows for every
// known name (two differing views of one mailbox leave two entries, which no abstract
// state matches).
func restSnapshot(s storage.Store, known []string) (boxes []restBox, errs []string) {
	seen := map[string]bool{}
	add := func(b restBox) {
		if len(b.Msgs) == 0 {
			return
		}
		k, _ := json.Marshal(b)
		if !seen[string(k)] {
			seen[string(k)] = true
			boxes = append(boxes, b)
		}
	}
	err := s.VisitMailboxes(func(ms []storage.Message) bool {
		if len(ms) > 0 {
			add(restBox{Mb: ms[0].Mailbox(), Msgs: restProjectMsgs(ms)})
		}
		return true
	})
	if err != nil {
		errs = append(errs, "visit: "+err.Error())
	}
	for _, name := range known {
		ms, err := s.GetMessages(name)
		if err != nil {
			errs = append(errs, "list "+name+": "+err.Error())
			continue
		}
		add(restBox{Mb: name, Msgs: restProjectMsgs(ms)})
	}
	sort.Slice(boxes, func(i, j int) bool { return boxes[i].Mb < boxes[j].Mb })
	if boxes == nil {
		boxes = []restBox{}
	}
	if errs == nil {
		errs = []string{}
	}
	return
}

var crlfRunRest = regexp.MustCompile(`\r*\n`)

// restNormBody: line endings of a body part normalised (CR*LF -> LF), trailing newlines dropped.
func restNormBody(s string) string {
	out := crlfRunRest.ReplaceAllString(s, "\n")
	return strings.TrimRight(out, "\n")
}

func restHashBody(s string) string { return tr.HashBytes([]byte(restNormBody(s))) }

// ---- response projections -------------------------------------------------------------

type restJSONHdr struct {
	Mailbox     *string   `json:"mailbox"`
	ID          *string   `json:"id"`
	From        *string   `json:"from"`
	To          []string  `json:"to"`
	Subject     *string   `json:"subject"`
	Date        time.Time `json:"date"`
	PosixMillis int64     `json:"posix-millis"`
	Size        int64     `json:"size"`
	Seen        bool      `json:"seen"`
	Body        *struct {
		Text string `json:"text"`
		HTML string `json:"html"`
	} `json:"body"`
}

func restStr(p *string) string {
	if p == nil {
		return "<absent>"
	}
	return *p
}

func restHdrEv(mailbox, id, from string, to []string, subject string, date time.Time, millis int64, size int64, seen bool) tr.Ev {
	if to == nil {
		to = []string{}
	}
	d, _ := restFmtDate(date)
	return tr.Ev{"mailbox": mailbox, "id": id, "from": from, "to": to, "subject": subject, "date": d,
		"millis": strconv.FormatInt(millis, 10), "size": size, "seen": seen}
}

func (h *restJSONHdr) ev() tr.Ev {
	return restHdrEv(restStr(h.Mailbox), restStr(h.ID), restStr(h.From), h.To, restStr(h.Subject), h.Date, h.PosixMillis, h.Size, h.Seen)
}

func restStatusClass(code int) string {
	switch {
	case code == 200:
		return "ok"
	case code == 404:
		return "notfound"
	case code >= 300 && code < 400:
		return "redirect"
	default:
		return "error"
	}
}

// ---- recording transport (client exchanges) -----------------------------------------

type restExchange struct {
	M string `json:"m"`
	P string `json:"p"`
	C int    `json:"c"` // status code; 0: the connection ended without a response
}

type restRecTransport struct {
	mu   sync.Mutex
	next http.RoundTripper
	log  []restExchange
}

func (t *restRecTransport) RoundTrip(req *http.Request) (*http.Response, error) {
	resp, err := t.next.RoundTrip(req)
	x := restExchange{M: req.Method, P: req.URL.EscapedPath(), C: 0}
	if err == nil {
		x.C = resp.StatusCode
	}
	t.mu.Lock()
	t.log = append(t.log, x)
	t.mu.Unlock()
	return resp, err
}

func (t *restRecTransport) take() []restExchange {
	t.mu.Lock()
	out := t.log
	t.log = nil
	t.mu.Unlock()
	if out == nil {
		out = []restExchange{}
	}
	return out
}

// ---- server ---------------------------------------------------------------------------

type restServer struct {
	mu      sync.Mutex
	handler http.Handler
	srv     *httptest.Server
}

func (s *restServer) ServeHTTP(w http.ResponseWriter, r *http.Request) {
	s.mu.Lock()
	h := s.handler
	s.mu.Unlock()
	h.ServeHTTP(w, r)
}

func newRestServer() *restServer {
	s := &restServer{handler: http.NotFoundHandler()}
	s.srv = httptest.NewUnstartedServer(s)
	// a handler panic is recovered by net/http, which logs it and closes the connection:
	// the log is not needed, the closed connection is what the trace records
	s.srv.Config.ErrorLog = log.New(io.Discard, "", 0)
	s.srv.Start()
	return s
}

type restEnv struct {
	store storage.Store
	mgr   *message.StoreManager
	ap    *policy.Addressing
	dir   string
}

func setupRest(b restBehaviour, scratch string, rs *restServer) (*restEnv, error) {
	setEnv(b.Env)
	root, err := config.Process()
	if err != nil {
		return nil, fmt.Errorf("config.Process: %v", err)
	}
	host := extension.NewHost()
	e := &restEnv{dir: filepath.Join(scratch, "store-"+b.ID)}
	if b.Store == "file" {
		_ = os.MkdirAll(e.dir, 0o770)
	}
	e.store, err = newStore(b.Store, 0, 0, e.dir, host)
	if err != nil {
		return nil, err
	}
	e.ap = &policy.Addressing{Config: root}
	e.mgr = &message.StoreManager{AddrPolicy: e.ap, Store: e.store, ExtHost: host}
	hub := msghub.New(root.Web.MonitorHistory, host)
	// as pkg/server/lifecycle.go FullAssembly, on a fresh router
	web.Router = web.NewRouter()
	prefix := stringutil.MakePathPrefixer(root.Web.BasePath)
	webui.SetupRoutes(web.Router.PathPrefix(prefix("/serve/")).Subrouter())
	rest.SetupRoutes(web.Router.PathPrefix(prefix("/api/")).Subrouter())
	web.NewServer(root, e.mgr, hub)
	rs.mu.Lock()
	rs.handler = web.Router
	rs.mu.Unlock()
	return e, nil
}

func restLatin1(s string) []byte {
	rs := []rune(s)
	b := make([]byte, len(rs))
	for i, r := range rs {
		b[i] = byte(r)
	}
	return b
}

func runRestBehaviour(w *tr.Writer, b restBehaviour, scratch string, rs *restServer) {
	e, err := setupRest(b, scratch, rs)
	if err != nil {
		w.Emit(tr.Ev{"a": "harness-error", "t": b.ID, "err": err.Error()})
		return
	}
	if b.Store == "file" {
		defer os.RemoveAll(e.dir)
	}
	// the behaviour's claims about which mailbox each spelled name denotes are inputs of
	// the contract: they must be the naming policy's (else the behaviour is ill-formed)
	for _, sp := range b.Spellings {
		got, err := e.mgr.MailboxForAddress(sp.Name)
		if err != nil || got != sp.Mb {
			w.Emit(tr.Ev{"a": "harness-error", "t": b.ID, "err": fmt.Sprintf("spelling %q denotes mailbox %q (err %v), behaviour says %q", sp.Name, got, err, sp.Mb)})
			return
		}
	}
	snap := func(ev tr.Ev) {
		s, serr := restSnapshot(e.store, b.Names)
		ev["s"] = s
		ev["serr"] = serr
	}
	rev := tr.Ev{"a": "reset", "t": b.ID, "cfg": b.Cfg, "store": b.Store}
	snap(rev)
	w.Emit(rev)

	raw := &http.Client{
		Transport:     &http.Transport{DisableKeepAlives: true},
		CheckRedirect: func(*http.Request, []*http.Request) error { return http.ErrUseLastResponse },
		Timeout:       20 * time.Second,
	}
	rec := &restRecTransport{next: &http.Transport{DisableKeepAlives: true}}
	// users configure the client's base URL with or without a trailing slash: both spellings occur
	clientBase := rs.srv.URL + b.Base
	if b.ClientSlash {
		clientBase += "/"
	}
	cl, err := client.New(clientBase, client.WithTransport(rec))
	if err != nil {
		w.Emit(tr.Ev{"a": "harness-error", "t": b.ID, "err": "client.New: " + err.Error()})
		return
	}
	issued := map[string][]string{}
	realID := func(mb string, k int) string {
		if k == 0 {
			return "latest"
		}
		if k >= 1 && k <= len(issued[mb]) {
			return issued[mb][k-1]
		}
		if b.Store == "file" {
			return fmt.Sprintf("20200101T000000-%04d", 9000+k)
		}
		return fmt.Sprint(900000 + k)
	}

	for i, st := range b.Steps {
		ev := tr.Ev{"t": b.ID, "i": i, "mb": st.Mb}
		for k, v := range st.Abs {
			ev[k] = v
		}
		switch st.Kind {
		case "deliver":
			ev["a"] = "deliver"
			ev["to"] = st.To
			ev["r"] = "ok"
			origin, err := e.ap.ParseOrigin(st.From)
			if err != nil {
				ev["r"] = "err:origin:" + err.Error()
			}
			rcpt, err := e.ap.NewRecipient(st.To)
			if err != nil {
				ev["r"] = "err:recipient:" + err.Error()
			}
			if ev["r"] == "ok" {
				err = e.mgr.Deliver(origin, []*policy.Recipient{rcpt}, "Received: from verif ([127.0.0.1]) by inbucket.test\r\n", restLatin1(st.Src))
				if err != nil {
					ev["r"] = "err:deliver:" + err.Error()
				}
			}
			// the new message: the id now listed in the mailbox that was not issued before
			ev["id"] = ""
			ev["msg"] = tr.Ev{}
			ev["landed"] = ""
			ev["fresh"] = 0
			if rcpt != nil {
				ev["landed"] = rcpt.Mailbox
				known := map[string]bool{}
				for _, id := range issued[rcpt.Mailbox] {
					known[id] = true
				}
				ms, _ := e.store.GetMessages(rcpt.Mailbox)
				fresh := []storage.Message{}
				for _, m := range ms {
					if !known[m.ID()] {
						fresh = append(fresh, m)
					}
				}
				ev["fresh"] = len(fresh)
				if len(fresh) == 1 {
					pm := restProjectMsg(fresh[0])
					ev["id"] = pm.ID
					ev["msg"] = pm
					issued[rcpt.Mailbox] = append(issued[rcpt.Mailbox], pm.ID)
				}
			}
		case "req":
			ev["a"] = "req"
			id := ""
			if st.Route != "list" && st.Route != "purge" {
				id = realID(st.Mb, st.IDRef)
			}
			ev["route"], ev["via"], ev["how"], ev["name"], ev["id"], ev["body"] = st.Route, st.Via, st.How, st.Name, id, st.Body
			if st.Via == "client" {
				restClientStep(ev, cl, rec, st, id)
			} else {
				restRawStep(ev, raw, rs.srv.URL+b.Base, st, id)
			}
		default:
			ev["a"] = "harness-error"
			ev["err"] = "unknown step kind " + st.Kind
		}
		snap(ev)
		w.Emit(ev)
	}
}

// restRawStep issues one raw HTTP request and projects the response.
func restRawStep(ev tr.Ev, hc *http.Client, base string, st restStep, id string) {
	method, path := "GET", ""
	api, ui := "/api/v1/mailbox/"+st.EName, "/serve/mailbox/"+st.EName
	switch st.Route {
	case "list":
		path = api
	case "purge":
		method, path = "DELETE", api
	case "get":
		path = api + "/" + id
	case "source":
		path = api + "/" + id + "/source"
	case "seen":
		method, path = "PATCH", api+"/"+id
	case "delete":
		method, path = "DELETE", api+"/"+id
	case "uiget":
		path = ui + "/" + id
	case "uihtml":
		path = ui + "/" + id + "/html"
	case "uisource":
		path = ui + "/" + id + "/source"
	}
	ev["target"] = path
	ev["resp"] = tr.Ev{}
	ev["http"] = []restExchange{}
	var body io.Reader
	if st.Route == "seen" && st.Body != "none" {
		body = bytes.NewReader(restLatin1(st.Send))
	}
	req, err := http.NewRequest(method, base+path, body)
	if err != nil {
		ev["a"] = "harness-error"
		ev["err"] = "NewRequest: " + err.Error()
		return
	}
	if got := req.URL.EscapedPath(); !strings.HasSuffix(got, path) {
		ev["a"] = "harness-error"
		ev["err"] = fmt.Sprintf("request target would be %q, behaviour says %q", got, path)
		return
	}
	req.Header.Set("Accept", "application/json")
	resp, err := hc.Do(req)
	if err != nil {
		ev["st"] = "dropped"
		ev["code"] = 0
		ev["err"] = err.Error()
		return
	}
	data, rerr := io.ReadAll(resp.Body)
	_ = resp.Body.Close()
	if st.Route == "uiget" {
		restAttachProbes(ev, hc, base, ui, id)
	}
	ev["code"] = resp.StatusCode
	ev["st"] = restStatusClass(resp.StatusCode)
	if rerr != nil {
		ev["st"] = "dropped"
		ev["err"] = "body: " + rerr.Error()
		return
	}
	if resp.StatusCode != 200 {
		return
	}
	switch st.Route {
	case "list":
		var hs []*restJSONHdr
		if err := json.Unmarshal(data, &hs); err != nil {
			ev["resp"] = tr.Ev{"malformed": err.Error()}
			return
		}
		msgs := []tr.Ev{}
		for _, h := range hs {
			if h == nil {
				msgs = append(msgs, tr.Ev{"null": true})
				continue
			}
			msgs = append(msgs, h.ev())
		}
		ev["resp"] = tr.Ev{"msgs": msgs}
	case "get", "uiget":
		var h restJSONHdr
		if err := json.Unmarshal(data, &h); err != nil {
			ev["resp"] = tr.Ev{"malformed": err.Error()}
			return
		}
		m := h.ev()
		if st.Route == "get" {
			if h.Body == nil {
				m["text"], m["html"] = "<absent>", "<absent>"
			} else {
				m["text"], m["html"] = restHashBody(h.Body.Text), restHashBody(h.Body.HTML)
			}
		}
		ev["resp"] = tr.Ev{"msg": m}
	case "source", "uisource":
		ev["resp"] = tr.Ev{"hash": tr.HashBytes(data), "len": len(data)}
	case "uihtml":
		ev["resp"] = tr.Ev{"html": restHashBody(string(data))}
	}
}

// restAttachProbes requests attachments of the message by numbers no message has (the driver's messages carry none): the
// links the API hands out for attachments lead to this route.  Only whether each request was answered is recorded.
func restAttachProbes(ev tr.Ev, hc *http.Client, base, ui, id string) {
	probes := []tr.Ev{}
	for _, num := range []string{"0", "7", "-1", "-2147483648", "%2D1", "4294967296", "x"} {
		pe := tr.Ev{"num": num, "c": 0}
		if req, err := http.NewRequest("GET", base+ui+"/"+id+"/attach/"+num+"/file.bin", nil); err == nil {
			if resp, err := hc.Do(req); err == nil {
				_, _ = io.Copy(io.Discard, resp.Body)
				_ = resp.Body.Close()
				pe["c"] = resp.StatusCode
			} else {
				pe["err"] = err.Error()
			}
		}
		probes = append(probes, pe)
	}
	ev["attach"] = probes
}

func restClientHdr(h *client.MessageHeader) tr.Ev {
	if h == nil || h.JSONMessageHeaderV1 == nil {
		return tr.Ev{"null": true}
	}
	return restHdrEv(h.Mailbox, h.ID, h.From, h.To, h.Subject, h.Date, h.PosixMillis, h.Size, h.Seen)
}

// restClientStep performs one operation through pkg/rest/client.
func restClientStep(ev tr.Ev, cl *client.Client, rec *restRecTransport, st restStep, id string) {
	ev["resp"] = tr.Ev{}
	var err error
	done := func() {
		// a panic inside the client library is an answer of its own kind (the contract knows no such answer)
		if r := recover(); r != nil {
			err = nil
			ev["http"] = rec.take()
			ev["st"], ev["err"], ev["resp"] = "panic", fmt.Sprint(r), tr.Ev{}
			return
		}
		ev["http"] = rec.take()
		if err != nil {
			ev["st"] = "err"
			ev["err"] = err.Error()
			ev["resp"] = tr.Ev{}
		} else {
			ev["st"] = "ok"
		}
	}
	defer done()
	// convenience methods hang off the values ListMailbox / GetMessage return
	var hdr *client.MessageHeader
	var msg *client.Message
	switch st.How {
	case "header":
		var hs []*client.MessageHeader
		hs, err = cl.ListMailbox(st.Name)
		if err != nil {
			return
		}
		for _, h := range hs {
			if h != nil && h.JSONMessageHeaderV1 != nil && h.ID == id {
				hdr = h
			}
		}
		if hdr == nil {
			err = fmt.Errorf("verif: id %s not listed by ListMailbox", id)
			return
		}
	case "message":
		msg, err = cl.GetMessage(st.Name, id)
		if err != nil {
			return
		}
	}
	switch st.Route {
	case "list":
		var hs []*client.MessageHeader
		hs, err = cl.ListMailbox(st.Name)
		if err == nil {
			msgs := []tr.Ev{}
			for _, h := range hs {
				msgs = append(msgs, restClientHdr(h))
			}
			ev["resp"] = tr.Ev{"msgs": msgs}
		}
	case "get":
		var m *client.Message
		switch {
		case hdr != nil:
			m, err = hdr.GetMessage()
		case msg != nil:
			m = msg
		default:
			m, err = cl.GetMessage(st.Name, id)
		}
		if err == nil {
			if m == nil || m.JSONMessageV1 == nil {
				ev["resp"] = tr.Ev{"null": true}
				return
			}
			x := restHdrEv(m.Mailbox, m.ID, m.From, m.To, m.Subject, m.Date, m.PosixMillis, m.Size, m.Seen)
			if m.Body == nil {
				x["text"], x["html"] = "<absent>", "<absent>"
			} else {
				x["text"], x["html"] = restHashBody(m.Body.Text), restHashBody(m.Body.HTML)
			}
			ev["resp"] = tr.Ev{"msg": x}
		}
	case "source":
		var buf *bytes.Buffer
		switch {
		case hdr != nil:
			buf, err = hdr.GetSource()
		case msg != nil:
			buf, err = msg.GetSource()
		default:
			buf, err = cl.GetMessageSource(st.Name, id)
		}
		if err == nil {
			if buf == nil {
				ev["resp"] = tr.Ev{"null": true}
				return
			}
			ev["resp"] = tr.Ev{"hash": tr.HashBytes(buf.Bytes()), "len": buf.Len()}
		}
	case "seen":
		err = cl.MarkSeen(st.Name, id)
	case "delete":
		switch {
		case hdr != nil:
			err = hdr.Delete()
		case msg != nil:
			err = msg.Delete()
		default:
			err = cl.DeleteMessage(st.Name, id)
		}
	case "purge":
		err = cl.PurgeMailbox(st.Name)
	default:
		err = fmt.Errorf("verif: the client has no operation %q", st.Route)
	}
}

func cmdRest(args []string) error {
	if len(args) != 2 {
		return fmt.Errorf("usage: vh rest <behaviours.json> <trace.ndjson>")
	}
	rawIn, err := os.ReadFile(args[0])
	if err != nil {
		return err
	}
	var in restInput
	if err := json.Unmarshal(rawIn, &in); err != nil {
		return err
	}
	w, err := tr.NewWriter(args[1])
	if err != nil {
		return err
	}
	defer w.Close()
	base := ""
	if st, err := os.Stat("/dev/shm"); err == nil && st.IsDir() {
		base = "/dev/shm"
	}
	scratch, err := os.MkdirTemp(base, "vh-rest-")
	if err != nil {
		return err
	}
	defer os.RemoveAll(scratch)
	rs := newRestServer()
	defer rs.srv.Close()
	for _, b := range in.Behaviours {
		runRestBehaviour(w, b, scratch, rs)
	}
	fmt.Fprintf(os.Stderr, "rest: %d behaviours, %d events\n", len(in.Behaviours), w.N)
	return nil
}
