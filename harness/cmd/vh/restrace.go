package main

// Fetch-while-delivering driver (C14): one goroutine delivers numbered messages to a mailbox through the
// manager while the other fetches /api/v1/mailbox/<name>/latest (and the web UI's counterpart) through the
// real router over HTTP.  Every delivery and every fetch is stamped before and after from one atomic
// counter.  Only observations are recorded; TLC judges them (RestRaceTrace.tla): what a fetch shows must
// be ONE message the store held (id, subject and body of the same delivery), and the one that was the
// latest at some moment between the request and the response.

import (
	"encoding/json"
	"fmt"
	"io"
	"net/http"
	"os"
	"regexp"
	"strconv"
	"sync"
	"sync/atomic"
	"time"

	"github.com/inbucket/inbucket/v3/pkg/message"
	"github.com/inbucket/inbucket/v3/pkg/policy"

	"verif/harness/internal/tr"
)

type restRaceBehaviour struct {
	ID         string            `json:"id"`
	Store      string            `json:"store"`
	Env        map[string]string `json:"env"`
	Base       string            `json:"base"`
	Mailbox    string            `json:"mailbox"`
	Deliveries int               `json:"deliveries"`
	PauseUS    int               `json:"pause_us"` // pause between deliveries
	UI         bool              `json:"ui"`       // fetch through /serve/mailbox/... instead of /api/v1/mailbox/...
}

type restRaceInput struct {
	Seed       int64               `json:"seed"`
	Behaviours []restRaceBehaviour `json:"behaviours"`
}

var raceNum = regexp.MustCompile(`race-(\d+)`)
var racePayload = regexp.MustCompile(`payload-(\d+)`)

func numIn(re *regexp.Regexp, s string) int {
	m := re.FindStringSubmatch(s)
	if m == nil {
		return -1
	}
	n, _ := strconv.Atoi(m[1])
	return n
}

func runRestRace(w *tr.Writer, b restRaceBehaviour, scratch string, rs *restServer) {
	e, err := setupRest(restBehaviour{ID: b.ID, Store: b.Store, Env: b.Env, Base: b.Base}, scratch, rs)
	if err != nil {
		w.Emit(tr.Ev{"a": "harness-error", "t": b.ID, "err": err.Error()})
		return
	}
	if b.Store == "file" {
		defer os.RemoveAll(e.dir)
	}
	w.Emit(tr.Ev{"a": "reset", "t": b.ID, "store": b.Store})
	w.Flush()
	var seq int64
	type del struct {
		K   int    `json:"k"`
		ID  string `json:"id"`
		R   string `json:"r"`
		Inv int64  `json:"inv"`
		Res int64  `json:"res"`
	}
	type get struct {
		St     int    `json:"st"`
		ID     string `json:"id"`
		SubjK  int    `json:"subj_k"`
		BodyK  int    `json:"body_k"`
		HdrK   int    `json:"hdr_k"`
		Inv    int64  `json:"inv"`
		Res    int64  `json:"res"`
		Decode string `json:"decode"`
	}
	dels := []del{}
	var mu sync.Mutex
	ids := []string{}
	rs2 := &recStore{Store: e.store}
	rs2.added = func(mb, id string, err error) { mu.Lock(); ids = append(ids, id); mu.Unlock() }
	rs2.remove = func(string, string, error) {}
	mgr := &message.StoreManager{AddrPolicy: e.ap, Store: rs2, ExtHost: e.mgr.ExtHost}
	origin, _ := e.ap.ParseOrigin("sender@origin.example")
	rcpt, rerr := e.ap.NewRecipient(b.Mailbox + "@example.com")
	if rerr != nil {
		w.Emit(tr.Ev{"a": "harness-error", "t": b.ID, "err": rerr.Error()})
		return
	}
	done := make(chan struct{})
	go func() {
		defer close(done)
		for k := 1; k <= b.Deliveries; k++ {
			src := fmt.Sprintf("From: Sender <sender@origin.example>\r\nSubject: race-%d\r\nX-Race: hdr-%d\r\n\r\npayload-%d\r\n", k, k, k)
			inv := atomic.AddInt64(&seq, 1)
			err := mgr.Deliver(origin, []*policy.Recipient{rcpt}, "Received: from verif ([127.0.0.1]) by inbucket.test\r\n", []byte(src))
			res := atomic.AddInt64(&seq, 1)
			d := del{K: k, R: errClass(err), Inv: inv, Res: res}
			mu.Lock()
			if len(ids) == k {
				d.ID = ids[k-1]
			}
			mu.Unlock()
			dels = append(dels, d)
			if b.PauseUS > 0 {
				time.Sleep(time.Duration(b.PauseUS) * time.Microsecond)
			}
		}
	}()
	hc := &http.Client{Timeout: 20 * time.Second}
	url := rs.srv.URL + b.Base + "/api/v1/mailbox/" + rcpt.Mailbox + "/latest"
	if b.UI {
		url = rs.srv.URL + b.Base + "/serve/mailbox/" + rcpt.Mailbox + "/latest"
	}
	gets := []get{}
	fetch := func() {
		g := get{SubjK: -1, BodyK: -1, HdrK: -1}
		g.Inv = atomic.AddInt64(&seq, 1)
		req, _ := http.NewRequest("GET", url, nil)
		req.Header.Set("Accept", "application/json")
		resp, err := hc.Do(req)
		if err != nil {
			g.Res = atomic.AddInt64(&seq, 1)
			g.St, g.Decode = -1, err.Error()
			gets = append(gets, g)
			return
		}
		body, _ := io.ReadAll(resp.Body)
		_ = resp.Body.Close()
		g.Res = atomic.AddInt64(&seq, 1)
		g.St = resp.StatusCode
		if resp.StatusCode == 200 {
			var m struct {
				ID      string              `json:"id"`
				Subject string              `json:"subject"`
				Header  map[string][]string `json:"header"`
				Body    struct {
					Text string `json:"text"`
				} `json:"body"`
				Text string `json:"text"` // web UI spelling
			}
			if err := json.Unmarshal(body, &m); err != nil {
				g.Decode = err.Error()
			} else {
				g.ID, g.SubjK = m.ID, numIn(raceNum, m.Subject)
				g.BodyK = numIn(racePayload, m.Body.Text+m.Text)
				if h := m.Header["X-Race"]; len(h) > 0 {
					g.HdrK = numIn(regexp.MustCompile(`hdr-(\d+)`), h[0])
				} else {
					g.HdrK = g.BodyK // the web UI answer carries no header map
				}
			}
		}
		gets = append(gets, g)
	}
loop:
	for {
		select {
		case <-done:
			break loop
		default:
			fetch()
		}
	}
	fetch()
	w.Emit(tr.Ev{"a": "race", "t": b.ID, "mb": rcpt.Mailbox, "dels": dels, "gets": gets, "ui": b.UI})
}

func cmdRestRace(args []string) error {
	if len(args) != 2 {
		return fmt.Errorf("usage: vh restrace <behaviours.json> <trace.ndjson>")
	}
	raw, err := os.ReadFile(args[0])
	if err != nil {
		return err
	}
	var in restRaceInput
	if err := json.Unmarshal(raw, &in); err != nil {
		return err
	}
	w, err := tr.NewWriter(args[1])
	if err != nil {
		return err
	}
	defer w.Close()
	scratch, err := os.MkdirTemp("", "vh-restrace-")
	if err != nil {
		return err
	}
	defer os.RemoveAll(scratch)
	rs := newRestServer()
	defer rs.srv.Close()
	for _, b := range in.Behaviours {
		runRestRace(w, b, scratch, rs)
		w.Flush()
	}
	fmt.Fprintf(os.Stderr, "restrace: %d behaviours, %d events\n", len(in.Behaviours), w.N)
	return nil
}
