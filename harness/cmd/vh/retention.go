package main

// Driver for the retention scanner (C12).  A behaviour sets up mailboxes whose messages are
// dated whole hours before (or after) the reference instant of the behaviour, then drives the
// real storage.RetentionScanner on a real memory or file store: DoScan directly, or Start/Join
// (the run loop).  The scanner is given a wrapper around the real store that delegates every
// call; its VisitMailboxes wraps the scanner's visitor so that, from inside the scanning
// goroutine, right after the k-th mailbox has been handled (the visitor sleeps retentionSleep
// before it returns), the driver can run one environment operation on the real store or cancel
// the context.  On the file store the gate hook file.VerifHook (build tag verif) additionally
// lets the driver act between the directory levels of the unlocked walk.
//
// No pass/fail logic: after every step the whole store is projected (tr.Snapshot, message dates
// mapped to whole hours of age) and recorded together with the error class DoScan returned and
// "returned within retentionSleep/4 + 300 ms (scan) / + 2 s (run loop) of the shutdown request" booleans.  TLC judges the
// trace against spec/Retention.tla with spec/RetentionTrace.tla.

import (
	"bytes"
	"context"
	"encoding/json"
	"errors"
	"fmt"
	"io/fs"
	"math"
	"math/rand"
	"net/mail"
	"os"
	"path/filepath"
	"sort"
	"strings"
	"sync"
	"time"

	"github.com/inbucket/inbucket/v3/pkg/config"
	"github.com/inbucket/inbucket/v3/pkg/extension"
	"github.com/inbucket/inbucket/v3/pkg/extension/event"
	"github.com/inbucket/inbucket/v3/pkg/message"
	"github.com/inbucket/inbucket/v3/pkg/storage"
	"github.com/inbucket/inbucket/v3/pkg/storage/file"
	"github.com/inbucket/inbucket/v3/pkg/stringutil"

	"verif/harness/internal/tr"
)

type retStep struct {
	C    string `json:"c"`    // env | cancel
	Op   string `json:"op"`   // deliver | remove | purge
	TC   string `json:"tc"`   // target class: visited | unvisited | next | fresh
	TI   int    `json:"ti"`   // rank within the class (by name)
	Site string `json:"site"` // w | l1 | l2 | l3 | mbox
	X    string `json:"x"`    // remove: first | last
	How  string `json:"how"`  // cancel: before | between | sleep | wait
	K    int    `json:"k"`    // number of mailboxes the scan has handled when the step runs
	Age  int    `json:"age"`  // deliver: age of the new message in hours
	done bool
}

type retBehaviour struct {
	ID      string    `json:"id"`
	Store   string    `json:"store"`
	Names   []string  `json:"names"`
	PeriodH int       `json:"period_h"`
	SleepMS int       `json:"sleep_ms"`
	Init    [][]int   `json:"init"` // per name: ages (hours) of the messages present at the start
	Mode    string    `json:"mode"` // scan | loop | loopscan
	Steps   []retStep `json:"steps"`
	Size    int       `json:"size"`
}

type retInput struct {
	Seed       int64          `json:"seed"`
	Behaviours []retBehaviour `json:"behaviours"`
}

// RMsg / RBox: the projection of the store the Retention contract talks about.
type RMsg struct {
	ID   string `json:"id"`
	Age  int    `json:"age"`
	Hash string `json:"hash"`
	Size int64  `json:"size"`
}
type RBox struct {
	Mb   string `json:"mb"`
	Msgs []RMsg `json:"msgs"`
}

type retRun struct {
	b      retBehaviour
	rng    *rand.Rand
	real   storage.Store
	t0     time.Time
	sleep  time.Duration
	ctx    context.Context
	cancel context.CancelFunc

	mu          sync.Mutex
	evs         []tr.Ev
	inSnap      bool
	visits      int      // mailboxes handled so far in the current scan
	visited     []string // their names (non-empty ones)
	startFull   []string // names that held mail when the scan started
	tCancel     time.Time
	cancelFired bool
	cancelLog   bool
	cancelHow   string
	tScan       time.Time
	loopMode    bool
	exitCh      chan error
	scans       int
	removals    int // RemoveMessage calls made by the scan so far
}

func (r *retRun) emit(ev tr.Ev) {
	ev["t"] = r.b.ID
	r.mu.Lock()
	r.evs = append(r.evs, ev)
	r.mu.Unlock()
}

func (r *retRun) ageOf(dateStr string) int {
	d, err := time.Parse("2006-01-02T15:04:05.000000000Z", dateStr)
	if err != nil {
		return -999999
	}
	return int(math.Round(r.t0.Sub(d).Hours()))
}

func (r *retRun) snapInto(ev tr.Ev) {
	r.inSnap = true
	boxes, serr := tr.Snapshot(r.real, r.b.Names)
	r.inSnap = false
	out := make([]RBox, 0, len(boxes))
	for _, bx := range boxes {
		rb := RBox{Mb: bx.Mb, Msgs: make([]RMsg, 0, len(bx.Msgs))}
		for _, m := range bx.Msgs {
			rb.Msgs = append(rb.Msgs, RMsg{ID: m.ID, Age: r.ageOf(m.Meta.Date), Hash: m.Meta.Hash, Size: m.Size})
		}
		out = append(out, rb)
	}
	if serr == nil {
		serr = []string{}
	}
	ev["s"] = out
	ev["serr"] = serr
}

func (r *retRun) deliver(name string, age int, during bool, site string) {
	body := mkBody(r.rng, r.b.Size+r.rng.Intn(200))
	date := r.t0.Add(-time.Duration(age) * time.Hour).Add(time.Duration(r.rng.Intn(1000)) * time.Millisecond)
	meta := event.MessageMetadata{
		Mailbox: name,
		From:    &mail.Address{Address: fmt.Sprintf("from%d@example.org", r.rng.Intn(100))},
		To:      []*mail.Address{{Address: name + "@example.com"}},
		Date:    date,
		Subject: subjects[r.rng.Intn(len(subjects))],
	}
	id, err := r.real.AddMessage(&message.Delivery{Meta: meta, Reader: bytes.NewReader(body)})
	ev := tr.Ev{"a": "env", "c": "deliver", "mb": name, "id": id, "r": errClass(err), "during": during, "site": site,
		"msg": RMsg{ID: id, Age: age, Hash: tr.HashBytes(body), Size: int64(len(body))}}
	r.snapInto(ev)
	r.emit(ev)
}

func sortedCopy(xs []string) []string {
	out := append([]string{}, xs...)
	sort.Strings(out)
	return out
}

func contains(xs []string, x string) bool {
	for _, y := range xs {
		if x == y {
			return true
		}
	}
	return false
}

// resolve maps a target class + rank to a concrete mailbox name, relative to the progress of the scan.
func (r *retRun) resolve(st *retStep, next string) string {
	var class []string
	switch st.TC {
	case "visited":
		class = sortedCopy(r.visited)
	case "next":
		if next == "" {
			return ""
		}
		return next
	case "unvisited":
		for _, n := range sortedCopy(r.startFull) {
			if !contains(r.visited, n) && n != next {
				class = append(class, n)
			}
		}
	case "fresh":
		for _, n := range sortedCopy(r.b.Names) {
			if !contains(r.visited, n) && !contains(r.startFull, n) {
				class = append(class, n)
			}
		}
	}
	if len(class) == 0 {
		return ""
	}
	return class[st.TI%len(class)]
}

// runEnv performs one scheduled environment operation on the real store.
func (r *retRun) runEnv(st *retStep, next string) {
	st.done = true
	name := r.resolve(st, next)
	if name == "" {
		return
	}
	switch st.Op {
	case "deliver":
		r.deliver(name, st.Age, true, st.Site)
	case "remove":
		ms, err := r.real.GetMessages(name)
		if err != nil || len(ms) == 0 {
			return
		}
		m := ms[0]
		if st.X == "last" {
			m = ms[len(ms)-1]
		}
		id := m.ID()
		ev := tr.Ev{"a": "env", "c": "remove", "mb": name, "id": id, "during": true, "site": st.Site, "tc": st.TC}
		ev["r"] = errClass(r.real.RemoveMessage(name, id))
		r.snapInto(ev)
		r.emit(ev)
	case "purge":
		ev := tr.Ev{"a": "env", "c": "purge", "mb": name, "during": true, "site": st.Site, "tc": st.TC}
		ev["r"] = errClass(r.real.PurgeMessages(name))
		r.snapInto(ev)
		r.emit(ev)
	case "refill":
		// the mailbox is emptied and new (young) mail arrives in it
		ev := tr.Ev{"a": "env", "c": "purge", "mb": name, "during": true, "site": st.Site, "tc": st.TC}
		ev["r"] = errClass(r.real.PurgeMessages(name))
		r.snapInto(ev)
		r.emit(ev)
		r.deliver(name, st.Age, true, st.Site)
		r.deliver(name, st.Age, true, st.Site)
	}
}

func (r *retRun) logCancel() {
	ev := tr.Ev{"a": "cancel", "how": r.cancelHow}
	r.snapInto(ev)
	r.emit(ev)
	r.cancelLog = true
}

// doCancel requests shutdown from the scanning (or driving) goroutine: observe, log, cancel.
func (r *retRun) doCancel(how string) {
	r.mu.Lock()
	already := r.cancelFired
	r.mu.Unlock()
	if already {
		return
	}
	r.cancelHow = how
	r.logCancel()
	r.mu.Lock()
	r.cancelFired = true
	r.tCancel = time.Now()
	r.mu.Unlock()
	r.cancel()
}

// retWrap is the store handed to the scanner: it delegates everything to the real store.
type retWrap struct {
	storage.Store
	r *retRun
}

// RemoveMessage is what the scan calls for every expired message of the list it was handed: the
// driver can act between the scan's look at a mailbox and its removals there (site "r": before
// the K-th removal of the scan, on the mailbox being worked on).
func (w *retWrap) RemoveMessage(mailbox, id string) error {
	r := w.r
	r.removals++
	if r.scans == 1 {
		for i := range r.b.Steps {
			st := &r.b.Steps[i]
			if st.C == "env" && st.Site == "r" && st.K == r.removals && !st.done {
				st.TC = "next"
				r.runEnv(st, mailbox)
			}
		}
	}
	return w.Store.RemoveMessage(mailbox, id)
}

// PurgeMessages: should the scanner ever empty a mailbox wholesale, that is a destructive call like a removal: the
// environment steps planned for "the k-th removal" run before it (e.g. a delivery to that mailbox).
func (w *retWrap) PurgeMessages(mailbox string) error {
	r := w.r
	r.removals++
	if r.scans == 1 {
		for i := range r.b.Steps {
			st := &r.b.Steps[i]
			if st.C == "env" && st.Site == "r" && st.K == r.removals && !st.done {
				st.TC = "next"
				r.runEnv(st, mailbox)
			}
		}
	}
	return w.Store.PurgeMessages(mailbox)
}

func (w *retWrap) VisitMailboxes(f func([]storage.Message) bool) error {
	r := w.r
	r.scans++
	r.visits = 0
	r.visited = nil
	r.tScan = time.Now()
	if r.loopMode {
		r.beginScan()
	}
	// position 0, site "w": after the scan has fixed its cutoff, before the store is asked for its mailboxes
	for i := range r.b.Steps {
		st := &r.b.Steps[i]
		if st.C == "env" && st.Site == "w" && st.K == 0 && !st.done && r.scans == 1 {
			r.runEnv(st, "")
		}
	}
	err := w.Store.VisitMailboxes(func(ms []storage.Message) bool {
		k := r.visits + 1
		for i := range r.b.Steps {
			st := &r.b.Steps[i]
			if st.C == "cancel" && st.How == "sleep" && st.K == k && !st.done && r.scans == 1 {
				st.done = true
				// the visitor will be asleep (retentionSleep) when this fires
				delay := r.sleep * 2 / 5
				go func() {
					time.Sleep(delay)
					r.mu.Lock()
					if !r.cancelFired {
						r.cancelFired = true
						r.cancelHow = "sleep"
						r.tCancel = time.Now()
					}
					r.mu.Unlock()
					r.cancel()
				}()
			}
		}
		cont := f(ms)
		r.visits = k
		name := ""
		if len(ms) > 0 {
			name = ms[0].Mailbox()
			r.visited = append(r.visited, name)
		}
		// a shutdown request made by the timer while the visitor ran is logged here, on the scanning goroutine
		r.mu.Lock()
		pending := r.cancelFired && !r.cancelLog
		r.mu.Unlock()
		if pending {
			r.logCancel()
		}
		ev := tr.Ev{"a": "visit", "k": k, "mb": name, "n": len(ms), "cont": cont}
		r.snapInto(ev)
		r.emit(ev)
		if cont && r.scans == 1 {
			for i := range r.b.Steps {
				st := &r.b.Steps[i]
				if st.done || st.K != k {
					continue
				}
				if st.C == "env" && st.Site == "w" {
					r.runEnv(st, "")
				} else if st.C == "cancel" && st.How == "between" {
					st.done = true
					r.doCancel("between")
				}
			}
		}
		return cont
	})
	if r.loopMode {
		r.endScan(err, true)
	}
	return err
}

// hook is installed as file.VerifHook while a scan of a file store runs (direct mode only).
func (r *retRun) hook(site, path string) {
	if r.inSnap || !strings.HasPrefix(site, "visit.") {
		return
	}
	short := map[string]string{"visit.l1.listed": "l1", "visit.l2.listed": "l2", "visit.l3.listed": "l3", "visit.mbox": "mbox"}[site]
	for i := range r.b.Steps {
		st := &r.b.Steps[i]
		if st.C != "env" || st.done || st.Site != short || st.K != r.visits {
			continue
		}
		next := ""
		if short != "l1" {
			// the mailbox whose directories the walk is about to open
			for _, n := range sortedCopy(r.b.Names) {
				if strings.HasPrefix(stringutil.HashMailboxName(n), path) && !contains(r.visited, n) {
					next = n
					break
				}
			}
			if next == "" {
				continue // a directory of no mailbox we know (wait for the next firing)
			}
		}
		r.runEnv(st, next)
	}
}

func retErrClass(err error) string {
	switch {
	case err == nil:
		return "ok"
	case errors.Is(err, fs.ErrNotExist):
		return "enoent"
	default:
		return "other"
	}
}

func (r *retRun) beginScan() {
	r.startFull = nil
	for _, n := range r.b.Names {
		if ms, err := r.real.GetMessages(n); err == nil && len(ms) > 0 {
			r.startFull = append(r.startFull, n)
		}
	}
	ev := tr.Ev{"a": "scanstart", "scan": r.scans}
	r.snapInto(ev)
	r.emit(ev)
}

func (r *retRun) endScan(err error, returned bool) {
	r.mu.Lock()
	pending := r.cancelFired && !r.cancelLog
	fired, tc := r.cancelFired, r.tCancel
	r.mu.Unlock()
	if pending {
		r.logCancel()
	}
	now := time.Now()
	from := r.tScan
	if fired && tc.After(from) {
		from = tc
	}
	el := now.Sub(from)
	ev := tr.Ev{"a": "scanend", "rc": retErrClass(err), "r": errClass(err), "returned": returned, "cancelled": fired,
		// "promptly": the scanner waits in a select on the context, so a request is seen at once - also in the middle of its
		// pause between two mailboxes, however long that pause is configured (a quarter of it plus 300 ms is allowed)
		"within": !fired || el <= r.sleep/4+300*time.Millisecond, "elapsed_ms": el.Milliseconds(), "visits": r.visits}
	r.snapInto(ev)
	r.emit(ev)
	if r.loopMode && r.exitCh != nil {
		select {
		case r.exitCh <- err:
		default:
		}
	}
}

func waitFor(ch <-chan struct{}, d time.Duration) bool {
	select {
	case <-ch:
		return true
	case <-time.After(d):
		return false
	}
}

func runRetentionBehaviour(b retBehaviour, seed int64, scratch string) ([]tr.Ev, error) {
	r := &retRun{b: b, rng: rand.New(rand.NewSource(seed)), sleep: time.Duration(b.SleepMS) * time.Millisecond}
	host := extension.NewHost()
	dir := filepath.Join(scratch, "ret-"+b.ID)
	if b.Store == "file" {
		_ = os.MkdirAll(dir, 0o770)
		defer os.RemoveAll(dir)
	}
	st, err := newStore(b.Store, 0, 0, dir, host)
	if err != nil {
		return nil, err
	}
	r.real = st
	r.t0 = time.Now()
	r.ctx, r.cancel = context.WithCancel(context.Background())
	defer r.cancel()
	ev := tr.Ev{"a": "reset", "store": b.Store, "period": b.PeriodH, "sleep_ms": b.SleepMS, "mode": b.Mode}
	r.snapInto(ev)
	r.emit(ev)
	// set-up: message j of mailbox i, round-robin over the mailboxes so that arrival interleaves
	for j := 0; ; j++ {
		any := false
		for i, ages := range b.Init {
			if j < len(ages) && i < len(b.Names) {
				r.deliver(b.Names[i], ages[j], false, "")
				any = true
			}
		}
		if !any {
			break
		}
	}
	rs := storage.NewRetentionScanner(config.Storage{RetentionPeriod: time.Duration(b.PeriodH) * time.Hour, RetentionSleep: r.sleep}, &retWrap{Store: st, r: r})
	bound := r.sleep/4 + 2*time.Second
	switch b.Mode {
	case "scan":
		for i := range b.Steps {
			if b.Steps[i].C == "cancel" && b.Steps[i].How == "before" {
				r.b.Steps[i].done = true
				r.doCancel("before")
			}
		}
		if b.Store == "file" {
			file.VerifHook = r.hook
			defer func() { file.VerifHook = nil }()
		}
		r.scans = 0
		r.beginScan()
		r.tScan = time.Now()
		done := make(chan struct{})
		var serr error
		go func() { serr = rs.DoScan(r.ctx); close(done) }()
		deadline := time.Duration(len(b.Names)+2)*r.sleep + 5*time.Second
		if waitFor(done, deadline) {
			r.endScan(serr, true)
		} else {
			// the scan did not return: record what is visible now; the goroutine is abandoned
			r.endScan(nil, false)
			r.cancel()
			waitFor(done, 5*time.Second)
		}
	case "loop", "loopscan":
		r.loopMode = true
		r.exitCh = make(chan error, 4)
		started := make(chan struct{})
		tStart := time.Now()
		go func() { rs.Start(r.ctx); close(started) }()
		sev := tr.Ev{"a": "start"}
		if b.PeriodH == 0 {
			sev["returned"] = waitFor(started, 2*time.Second)
		} else {
			sev["returned"] = false
			time.Sleep(20 * time.Millisecond)
		}
		r.snapInto(sev)
		r.emit(sev)
		from := tStart
		if b.PeriodH > 0 {
			if b.Mode == "loopscan" {
				// wait for the scan the loop starts after its one-minute delay
				select {
				case <-r.exitCh:
				case <-time.After(90 * time.Second):
					return r.evs, fmt.Errorf("behaviour %s: the run loop started no scan within 90 s", b.ID)
				}
			}
			r.doCancel("wait") // no-op if shutdown was already requested during the scan
			r.mu.Lock()
			from = r.tCancel
			r.mu.Unlock()
		}
		joined := make(chan struct{})
		go func() { rs.Join(); close(joined) }()
		okStart := waitFor(started, bound+3*time.Second)
		okJoin := waitFor(joined, bound+3*time.Second)
		el := time.Since(from)
		jev := tr.Ev{"a": "join", "returned": okStart && okJoin, "within": okStart && okJoin && el <= bound, "elapsed_ms": el.Milliseconds()}
		r.snapInto(jev)
		r.emit(jev)
	default:
		return r.evs, fmt.Errorf("behaviour %s: unknown mode %q", b.ID, b.Mode)
	}
	return r.evs, nil
}

func cmdRetention(args []string) error {
	if len(args) != 2 {
		return fmt.Errorf("usage: vh retention <behaviours.json> <trace.ndjson>")
	}
	raw, err := os.ReadFile(args[0])
	if err != nil {
		return err
	}
	var in retInput
	if err := json.Unmarshal(raw, &in); err != nil {
		return err
	}
	w, err := tr.NewWriter(args[1])
	if err != nil {
		return err
	}
	defer w.Close()
	base := ""
	if st, err := os.Stat("/dev/shm"); err == nil && st.IsDir() {
		base = "/dev/shm"
	}
	scratch, err := os.MkdirTemp(base, "vh-ret-")
	if err != nil {
		return err
	}
	defer os.RemoveAll(scratch)
	// the behaviours that wait out the run loop's one-minute delay run concurrently, first (they do not
	// use the process-wide file-store hook); everything else runs one at a time afterwards
	var wg sync.WaitGroup
	var emu sync.Mutex
	var firstErr error
	for i, b := range in.Behaviours {
		if b.Mode != "loopscan" {
			continue
		}
		wg.Add(1)
		go func(i int, b retBehaviour) {
			defer wg.Done()
			evs, err := runRetentionBehaviour(b, in.Seed*1000003+int64(i), scratch)
			emu.Lock()
			defer emu.Unlock()
			if err != nil && firstErr == nil {
				firstErr = err
			}
			if err == nil {
				w.EmitBlock(evs)
			}
		}(i, b)
	}
	wg.Wait()
	if firstErr != nil {
		return firstErr
	}
	for i, b := range in.Behaviours {
		if b.Mode == "loopscan" {
			continue
		}
		evs, err := runRetentionBehaviour(b, in.Seed*1000003+int64(i), scratch)
		if err != nil {
			return err
		}
		w.EmitBlock(evs)
	}
	fmt.Fprintf(os.Stderr, "retention: %d behaviours, %d events\n", len(in.Behaviours), w.N)
	return nil
}
