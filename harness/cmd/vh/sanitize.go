package main

// Driver and projections for C18 (message HTML and text shown in the web UI).
//
// For every concrete input it calls the real code - sanitize.HTML,
// web.TextToHTML, or the web UI's JSON message endpoint webui.MailboxMessage
// for a message stored through the real StoreManager - and records one event
// with the PROJECTION of the output.  The projection re-parses the output the
// way a browser would: with the tree-building parser html.ParseFragment (the
// sanitiser and bluemonday only see the token stream), URL schemes after the
// URL Standard's stripping, and the style attributes split by the small
// declaration-list parser below (CSS Syntax Level 3, written independently of
// the gorilla scanner the code under test uses).
//
// No pass/fail logic here: SanitizeTrace.tla judges the projections.

import (
	"crypto/sha256"
	"encoding/base64"
	"encoding/hex"
	"encoding/json"
	"fmt"
	"net/http/httptest"
	"os"
	"runtime/debug"
	"sort"
	"strconv"
	"strings"
	"unicode/utf8"

	"github.com/inbucket/inbucket/v3/pkg/config"
	"github.com/inbucket/inbucket/v3/pkg/extension"
	"github.com/inbucket/inbucket/v3/pkg/message"
	"github.com/inbucket/inbucket/v3/pkg/policy"
	"github.com/inbucket/inbucket/v3/pkg/server/web"
	"github.com/inbucket/inbucket/v3/pkg/storage"
	"github.com/inbucket/inbucket/v3/pkg/webui"
	"github.com/inbucket/inbucket/v3/pkg/webui/sanitize"
	"golang.org/x/net/html"
	"golang.org/x/net/html/atom"

	"verif/harness/internal/tr"
)

type sanCase struct {
	Sp    string `json:"sp"`    // name of the spelling (echoed)
	Via   string `json:"via"`   // html | text | web
	B64   string `json:"b64"`   // input: the HTML (html, web) or the text (text)
	Txt64 string `json:"txt64"` // web: the text/plain part
}

type sanBehaviour struct {
	ID    string      `json:"id"`
	Kind  string      `json:"kind"` // css | html | text
	Abs   interface{} `json:"abs"`  // the abstract case, echoed into the reset event
	Cases []sanCase   `json:"cases"`
}

type sanInput struct {
	Seed       int64          `json:"seed"`
	Behaviours []sanBehaviour `json:"behaviours"`
}

// ---------------------------------------------------------------- projection

// EAttr is one (element, attribute) pair.
type EAttr struct {
	E string `json:"e"`
	N string `json:"n"`
}

// HProj is the projection record of Sanitize.tla.
type HProj struct {
	Elems   []string `json:"elems"`
	Attrs   []string `json:"attrs"`
	EAttrs  []EAttr  `json:"eattrs"`
	Schemes []string `json:"schemes"`
	Props   []string `json:"props"`
	Text    string   `json:"text"`
	TextH   string   `json:"texth"`
}

// attributes whose value is a URL
var urlAttrs = map[string]bool{"href": true, "xlink:href": true, "src": true, "action": true, "formaction": true,
	"data": true, "poster": true, "background": true, "cite": true, "longdesc": true, "codebase": true,
	"manifest": true, "lowsrc": true, "dynsrc": true}

// urlScheme: the scheme a browser's URL parser sees (URL Standard: leading and
// trailing C0 control or space stripped, ASCII tab and newline removed
// anywhere), lower-cased; "" for a relative reference.
func urlScheme(v string) string {
	v = strings.TrimFunc(v, func(r rune) bool { return r <= 0x20 })
	v = strings.NewReplacer("\t", "", "\n", "", "\r", "").Replace(v)
	for i := 0; i < len(v); i++ {
		c := v[i]
		switch {
		case c == ':':
			if i == 0 {
				return ""
			}
			return strings.ToLower(v[:i])
		case c >= 'a' && c <= 'z' || c >= 'A' && c <= 'Z':
		case i > 0 && (c >= '0' && c <= '9' || c == '+' || c == '-' || c == '.'):
		default:
			return ""
		}
	}
	return ""
}

type projAcc struct {
	elems, attrs, schemes, props map[string]bool
	eattrs                       map[EAttr]bool
	text                         strings.Builder
}

func (a *projAcc) walk(n *html.Node, withText bool) {
	switch n.Type {
	case html.ElementNode:
		name := strings.ToLower(n.Data)
		a.elems[name] = true
		for _, at := range n.Attr {
			k := strings.ToLower(at.Key)
			if at.Namespace != "" {
				k = at.Namespace + ":" + k
			}
			a.attrs[k] = true
			a.eattrs[EAttr{name, k}] = true
			if urlAttrs[k] {
				a.schemes[urlScheme(at.Val)] = true
			}
			if k == "style" {
				for _, p := range cssProps(at.Val) {
					a.props[p] = true
				}
			}
		}
	case html.TextNode:
		if withText {
			a.text.WriteString(n.Data)
		}
	}
	for c := n.FirstChild; c != nil; c = c.NextSibling {
		a.walk(c, withText)
	}
}

func keys(m map[string]bool) []string {
	out := make([]string, 0, len(m))
	for k := range m {
		out = append(out, k)
	}
	sort.Strings(out)
	return out
}

func hashText(s string) string {
	h := sha256.Sum256([]byte(s))
	return hex.EncodeToString(h[:8])
}

// projectHTML parses s as the content of a body-level element (what the UI's
// innerHTML assignment does), with scripting on and off, and unites what the
// two trees contain.  The text content is that of the scripting-on tree.
func projectHTML(s string) HProj {
	a := &projAcc{elems: map[string]bool{}, attrs: map[string]bool{}, schemes: map[string]bool{}, props: map[string]bool{}, eattrs: map[EAttr]bool{}}
	for _, scripting := range []bool{true, false} {
		ctx := &html.Node{Type: html.ElementNode, Data: "div", DataAtom: atom.Div}
		nodes, err := html.ParseFragmentWithOptions(strings.NewReader(s), ctx, html.ParseOptionEnableScripting(scripting))
		if err != nil {
			a.elems["#parse-error:"+err.Error()] = true
			continue
		}
		for _, n := range nodes {
			a.walk(n, scripting)
		}
	}
	delete(a.schemes, "")
	p := HProj{Elems: keys(a.elems), Attrs: keys(a.attrs), Schemes: keys(a.schemes), Props: keys(a.props), EAttrs: []EAttr{}}
	for ea := range a.eattrs {
		p.EAttrs = append(p.EAttrs, ea)
	}
	sort.Slice(p.EAttrs, func(i, j int) bool {
		if p.EAttrs[i].E != p.EAttrs[j].E {
			return p.EAttrs[i].E < p.EAttrs[j].E
		}
		return p.EAttrs[i].N < p.EAttrs[j].N
	})
	t := a.text.String()
	p.Text, p.TextH = t, hashText(t)
	return p
}

// HSets is the part of the projection the HTML invariants are stated over.
type HSets struct {
	Elems   []string `json:"elems"`
	Attrs   []string `json:"attrs"`
	Schemes []string `json:"schemes"`
	Props   []string `json:"props"`
}

// TSets is the part of the projection TextFullyEscaped is stated over (plus
// the URL schemes of the anchors, recorded but not judged).
type TSets struct {
	Elems   []string `json:"elems"`
	EAttrs  []EAttr  `json:"eattrs"`
	Schemes []string `json:"schemes"`
	Text    string   `json:"text"`
	TextH   string   `json:"texth"`
}

func htmlSets(s string) HSets {
	p := projectHTML(s)
	return HSets{Elems: p.Elems, Attrs: p.Attrs, Schemes: p.Schemes, Props: p.Props}
}

func textSets(s string) TSets {
	p := projectHTML(s)
	return TSets{Elems: p.Elems, EAttrs: p.EAttrs, Schemes: p.Schemes, Text: p.Text, TextH: p.TextH}
}

// canonText: the original text as the text content of an HTML rendering can
// show it: every line break is one LF, and NUL (which an HTML parser drops)
// is dropped.
func canonText(s string) string {
	s = strings.NewReplacer("\r\n", "\n", "\r", "\n", "\x00", "").Replace(s)
	return s
}

type wantText struct {
	Text  string `json:"text"`
	TextH string `json:"texth"`
}

func want(s string) wantText {
	c := canonText(s)
	return wantText{Text: c, TextH: hashText(c)}
}

// ------------------------------------------- independent declaration splitter

const (
	ctWS = iota
	ctSemi
	ctColon
	ctIdent
	ctFunc
	ctAt
	ctOpen
	ctClose
	ctOther
)

type cssTok struct {
	k int
	v string
	c rune
}

func cssIsWS(c rune) bool    { return c == ' ' || c == '\t' || c == '\n' }
func cssIsDigit(c rune) bool { return c >= '0' && c <= '9' }
func cssIsHex(c rune) bool   { return cssIsDigit(c) || c >= 'a' && c <= 'f' || c >= 'A' && c <= 'F' }
func cssIsNameStart(c rune) bool {
	return c >= 'a' && c <= 'z' || c >= 'A' && c <= 'Z' || c == '_' || c >= 0x80
}
func cssIsName(c rune) bool { return cssIsNameStart(c) || cssIsDigit(c) || c == '-' }

type cssLexer struct {
	r []rune
	i int
}

func (z *cssLexer) at(k int) rune {
	if z.i+k < len(z.r) {
		return z.r[z.i+k]
	}
	return -1
}

// validEscape: a backslash at offset k not followed by a newline.
func (z *cssLexer) validEscape(k int) bool { return z.at(k) == '\\' && z.at(k+1) != '\n' }

func (z *cssLexer) startsIdent(k int) bool {
	c := z.at(k)
	switch {
	case c == '-':
		d := z.at(k + 1)
		return d == '-' || d >= 0 && cssIsNameStart(d) || z.validEscape(k+1)
	case c >= 0 && cssIsNameStart(c):
		return true
	case c == '\\':
		return z.validEscape(k)
	}
	return false
}

func (z *cssLexer) startsNumber(k int) bool {
	c := z.at(k)
	if c == '+' || c == '-' {
		k++
		c = z.at(k)
	}
	if c == '.' {
		return cssIsDigit(z.at(k + 1))
	}
	return c >= 0 && cssIsDigit(c)
}

// consumeEscape: z.i is just after the backslash.
func (z *cssLexer) consumeEscape() rune {
	c := z.at(0)
	if c < 0 {
		return 0xFFFD
	}
	if cssIsHex(c) {
		v := 0
		n := 0
		for n < 6 && z.at(0) >= 0 && cssIsHex(z.at(0)) {
			d, _ := strconv.ParseInt(string(z.at(0)), 16, 32)
			v = v*16 + int(d)
			z.i++
			n++
		}
		if z.at(0) >= 0 && cssIsWS(z.at(0)) {
			z.i++
		}
		if v == 0 || v >= 0xD800 && v <= 0xDFFF || v > 0x10FFFF {
			return 0xFFFD
		}
		return rune(v)
	}
	z.i++
	return c
}

func (z *cssLexer) consumeName() string {
	var b strings.Builder
	for {
		c := z.at(0)
		switch {
		case c >= 0 && cssIsName(c):
			b.WriteRune(c)
			z.i++
		case z.validEscape(0):
			z.i++
			b.WriteRune(z.consumeEscape())
		default:
			return b.String()
		}
	}
}

func (z *cssLexer) consumeString(q rune) {
	for {
		c := z.at(0)
		switch {
		case c < 0:
			return
		case c == q:
			z.i++
			return
		case c == '\n':
			return // bad string: the newline is not part of it
		case c == '\\':
			z.i++
			if z.at(0) < 0 {
				return
			}
			if z.at(0) == '\n' {
				z.i++
			} else {
				z.consumeEscape()
			}
		default:
			z.i++
		}
	}
}

// consumeURL: z.i is after "url(" and optional white space, not at a quote.
func (z *cssLexer) consumeURL() {
	bad := false
	for {
		c := z.at(0)
		switch {
		case c < 0:
			return
		case c == ')':
			z.i++
			return
		case bad:
			if z.validEscape(0) {
				z.i++
				z.consumeEscape()
			} else {
				z.i++
			}
		case cssIsWS(c):
			for z.at(0) >= 0 && cssIsWS(z.at(0)) {
				z.i++
			}
			if z.at(0) != ')' && z.at(0) >= 0 {
				bad = true
			}
		case c == '"' || c == '\'' || c == '(' || c <= 8 || c == 0xB || c >= 0xE && c <= 0x1F || c == 0x7F:
			bad = true
			z.i++
		case c == '\\':
			if z.validEscape(0) {
				z.i++
				z.consumeEscape()
			} else {
				bad = true
				z.i++
			}
		default:
			z.i++
		}
	}
}

func (z *cssLexer) consumeNumeric() {
	if z.at(0) == '+' || z.at(0) == '-' {
		z.i++
	}
	for z.at(0) >= 0 && cssIsDigit(z.at(0)) {
		z.i++
	}
	if z.at(0) == '.' && cssIsDigit(z.at(1)) {
		z.i++
		for z.at(0) >= 0 && cssIsDigit(z.at(0)) {
			z.i++
		}
	}
	if z.at(0) == 'e' || z.at(0) == 'E' {
		k := 1
		if z.at(1) == '+' || z.at(1) == '-' {
			k = 2
		}
		if cssIsDigit(z.at(k)) {
			z.i += k
			for z.at(0) >= 0 && cssIsDigit(z.at(0)) {
				z.i++
			}
		}
	}
	if z.startsIdent(0) {
		z.consumeName()
	} else if z.at(0) == '%' {
		z.i++
	}
}

func (z *cssLexer) identLike() cssTok {
	name := z.consumeName()
	if z.at(0) != '(' {
		return cssTok{k: ctIdent, v: name}
	}
	z.i++
	if strings.EqualFold(name, "url") {
		k := 0
		for z.at(k) >= 0 && cssIsWS(z.at(k)) {
			k++
		}
		if z.at(k) == '"' || z.at(k) == '\'' {
			return cssTok{k: ctFunc, v: name}
		}
		z.i += k
		z.consumeURL()
		return cssTok{k: ctOther, v: "url"}
	}
	return cssTok{k: ctFunc, v: name}
}

func cssTokenize(s string) []cssTok {
	s = strings.NewReplacer("\r\n", "\n", "\r", "\n", "\f", "\n", "\x00", "\uFFFD").Replace(s)
	z := &cssLexer{r: []rune(s)}
	var out []cssTok
	for z.i < len(z.r) {
		c := z.at(0)
		switch {
		case c == '/' && z.at(1) == '*':
			z.i += 2
			for z.i < len(z.r) && !(z.at(0) == '*' && z.at(1) == '/') {
				z.i++
			}
			z.i += 2
		case cssIsWS(c):
			for z.at(0) >= 0 && cssIsWS(z.at(0)) {
				z.i++
			}
			out = append(out, cssTok{k: ctWS})
		case c == '"' || c == '\'':
			z.i++
			z.consumeString(c)
			out = append(out, cssTok{k: ctOther, v: "string"})
		case c == '#':
			z.i++
			if z.at(0) >= 0 && cssIsName(z.at(0)) || z.validEscape(0) {
				z.consumeName()
			}
			out = append(out, cssTok{k: ctOther, v: "#"})
		case c == '(' || c == '[' || c == '{':
			z.i++
			out = append(out, cssTok{k: ctOpen, c: c})
		case c == ')' || c == ']' || c == '}':
			z.i++
			out = append(out, cssTok{k: ctClose, c: c})
		case c == ';':
			z.i++
			out = append(out, cssTok{k: ctSemi})
		case c == ':':
			z.i++
			out = append(out, cssTok{k: ctColon})
		case z.startsNumber(0):
			z.consumeNumeric()
			out = append(out, cssTok{k: ctOther, v: "num"})
		case c == '-' && z.at(1) == '-' && z.at(2) == '>':
			z.i += 3
			out = append(out, cssTok{k: ctOther, v: "cdc"})
		case c == '<' && z.at(1) == '!' && z.at(2) == '-' && z.at(3) == '-':
			z.i += 4
			out = append(out, cssTok{k: ctOther, v: "cdo"})
		case c == '@':
			z.i++
			if z.startsIdent(0) {
				out = append(out, cssTok{k: ctAt, v: z.consumeName()})
			} else {
				out = append(out, cssTok{k: ctOther, v: "@"})
			}
		case z.startsIdent(0):
			out = append(out, z.identLike())
		default:
			z.i++
			out = append(out, cssTok{k: ctOther, v: string(c)})
		}
	}
	return out
}

func cssMirror(c rune) rune {
	switch c {
	case '(':
		return ')'
	case '[':
		return ']'
	}
	return '}'
}

// cssProps: "consume a list of declarations" (CSS Syntax Level 3, 5.4.5): the
// lower-cased property name of every declaration (identifier, optional white
// space, colon) of a style attribute.  Blocks and functions nest, so a `;'
// inside one does not end a declaration.
func cssProps(style string) []string {
	toks := cssTokenize(style)
	p := 0
	var block func(closer rune)
	block = func(closer rune) {
		for p < len(toks) {
			t := toks[p]
			p++
			switch {
			case t.k == ctClose && t.c == closer:
				return
			case t.k == ctOpen:
				block(cssMirror(t.c))
			case t.k == ctFunc:
				block(')')
			}
		}
	}
	component := func(t cssTok) {
		if t.k == ctOpen {
			block(cssMirror(t.c))
		} else if t.k == ctFunc {
			block(')')
		}
	}
	rest := func() {
		for p < len(toks) {
			t := toks[p]
			p++
			if t.k == ctSemi {
				return
			}
			component(t)
		}
	}
	set := map[string]bool{}
	for p < len(toks) {
		t := toks[p]
		p++
		switch t.k {
		case ctWS, ctSemi:
		case ctAt:
			for p < len(toks) {
				t2 := toks[p]
				p++
				if t2.k == ctSemi {
					break
				}
				if t2.k == ctOpen && t2.c == '{' {
					block('}')
					break
				}
				component(t2)
			}
		case ctIdent:
			for p < len(toks) && toks[p].k == ctWS {
				p++
			}
			if p < len(toks) && toks[p].k == ctColon {
				p++
				set[strings.ToLower(t.v)] = true
			}
			rest()
		default:
			component(t)
			rest()
		}
	}
	return keys(set)
}

// ------------------------------------------------------------------ drivers

func quoteShort(s string) string {
	if len(s) > 400 {
		s = s[:400]
		for !utf8.ValidString(s) && len(s) > 396 {
			s = s[:len(s)-1]
		}
		return strconv.QuoteToASCII(s) + "..."
	}
	return strconv.QuoteToASCII(s)
}

func callSanitize(in string) (out string, errText string, panicText string) {
	defer func() {
		if r := recover(); r != nil {
			panicText = fmt.Sprintf("%v | %s", r, firstFrames(debug.Stack()))
			if panicText == "" {
				panicText = "panic"
			}
		}
	}()
	o, err := sanitize.HTML(in)
	if err != nil {
		errText = "error: " + err.Error()
	}
	return o, errText, ""
}

func callTextToHTML(in string) (out string, panicText string) {
	defer func() {
		if r := recover(); r != nil {
			panicText = fmt.Sprintf("%v | %s", r, firstFrames(debug.Stack()))
		}
	}()
	return web.TextToHTML(in), ""
}

func firstFrames(stack []byte) string {
	lines := strings.Split(string(stack), "\n")
	var keep []string
	for _, l := range lines {
		l = strings.TrimSpace(l)
		if strings.Contains(l, "inbucket") || strings.Contains(l, "bluemonday") || strings.Contains(l, "gorilla") || strings.Contains(l, "x/net") {
			keep = append(keep, l)
			if len(keep) == 4 {
				break
			}
		}
	}
	return strings.Join(keep, " <- ")
}

// sanitizerFailedMarker is what MailboxMessage serves when sanitize.HTML returned an error.
const sanitizerFailedMarker = "Inbucket HTML sanitizer failed."

type webEnv struct {
	store storage.Store
	mgr   *message.StoreManager
	ap    *policy.Addressing
	n     int
}

func newWebEnv() (*webEnv, error) {
	setEnv(map[string]string{})
	root, err := config.Process()
	if err != nil {
		return nil, fmt.Errorf("config.Process: %v", err)
	}
	host := extension.NewHost()
	st, err := newStore("mem", 0, 0, "", host)
	if err != nil {
		return nil, err
	}
	ap := &policy.Addressing{Config: root}
	return &webEnv{store: st, ap: ap, mgr: &message.StoreManager{AddrPolicy: ap, Store: st, ExtHost: host}}, nil
}

func b64Lines(b []byte) string {
	s := base64.StdEncoding.EncodeToString(b)
	var sb strings.Builder
	for len(s) > 76 {
		sb.WriteString(s[:76] + "\r\n")
		s = s[76:]
	}
	sb.WriteString(s + "\r\n")
	return sb.String()
}

func mimeMessage(htmlPart, textPart []byte, n int) []byte {
	var sb strings.Builder
	sb.WriteString("From: Sender <sender@origin.example>\r\nTo: c18@store.example\r\n")
	sb.WriteString(fmt.Sprintf("Subject: c18 case %d\r\nMessage-Id: <%d@verif>\r\nMIME-Version: 1.0\r\n", n, n))
	part := func(ct string, b []byte) string {
		return "Content-Type: " + ct + "; charset=utf-8\r\nContent-Transfer-Encoding: base64\r\n\r\n" + b64Lines(b)
	}
	switch {
	case len(htmlPart) > 0 && len(textPart) > 0:
		sb.WriteString("Content-Type: multipart/alternative; boundary=\"verifbnd\"\r\n\r\n")
		sb.WriteString("--verifbnd\r\n" + part("text/plain", textPart))
		sb.WriteString("--verifbnd\r\n" + part("text/html", htmlPart))
		sb.WriteString("--verifbnd--\r\n")
	case len(htmlPart) > 0:
		sb.WriteString(part("text/html", htmlPart))
	default:
		sb.WriteString(part("text/plain", textPart))
	}
	return []byte(sb.String())
}

// jsonTransported: the string as a JSON reply can carry it (encoding/json
// replaces bytes that are not valid UTF-8 by U+FFFD; that is the transport,
// not the rendering).
func jsonTransported(s string) string {
	b, err := json.Marshal(s)
	if err != nil {
		return s
	}
	var out string
	if json.Unmarshal(b, &out) != nil {
		return s
	}
	return out
}

// webObservation stores the message through the real manager and asks the web
// UI endpoint for it.  The "original" HTML and text are what the manager hands
// to the endpoint (msg.HTML(), msg.Text()).
func (e *webEnv) observe(ev tr.Ev, htmlPart, textPart []byte) {
	e.n++
	fail := func(what string, err error) {
		ev["a"] = "harness-error"
		ev["err"] = what + ": " + err.Error()
	}
	origin, err := e.ap.ParseOrigin("sender@origin.example")
	if err != nil {
		fail("origin", err)
		return
	}
	rcpt, err := e.ap.NewRecipient("c18@store.example")
	if err != nil {
		fail("recipient", err)
		return
	}
	if err := e.mgr.Deliver(origin, []*policy.Recipient{rcpt}, "Received: from verif", mimeMessage(htmlPart, textPart, e.n)); err != nil {
		fail("deliver", err)
		return
	}
	defer e.store.PurgeMessages(rcpt.Mailbox)
	ms, err := e.store.GetMessages(rcpt.Mailbox)
	if err != nil || len(ms) != 1 {
		fail("list", fmt.Errorf("%v (%d messages)", err, len(ms)))
		return
	}
	id := ms[0].ID()
	msg, err := e.mgr.GetMessage(rcpt.Mailbox, id)
	if err != nil || msg == nil {
		fail("get", fmt.Errorf("%v", err))
		return
	}
	inHTML, inText := msg.HTML(), msg.Text()
	ev["inhtml"] = quoteShort(inHTML)
	ev["intext"] = quoteShort(inText)
	ev["inp"] = htmlSets(inHTML)
	ev["want"] = want(jsonTransported(inText))

	rec := httptest.NewRecorder()
	req := httptest.NewRequest("GET", "/serve/mailbox/"+rcpt.Mailbox+"/"+id, nil)
	ctx := &web.Context{Vars: map[string]string{"name": rcpt.Mailbox, "id": id}, Manager: e.mgr, IsJSON: true}
	status, panicText, herr := 0, "", ""
	func() {
		defer func() {
			if r := recover(); r != nil {
				panicText = fmt.Sprintf("%v | %s", r, firstFrames(debug.Stack()))
			}
		}()
		if err := webui.MailboxMessage(rec, req, ctx); err != nil {
			herr = "handler error: " + err.Error() // web.Handler turns this into a 500
			status = 500
		}
	}()
	if status == 0 {
		status = rec.Code
	}
	var body struct {
		HTML *string `json:"html"`
		Text *string `json:"text"`
	}
	outHTML, outText := "", ""
	if panicText == "" && status == 200 {
		if err := json.Unmarshal(rec.Body.Bytes(), &body); err != nil || body.HTML == nil || body.Text == nil {
			herr = "reply is not the message JSON"
		} else {
			outHTML, outText = *body.HTML, *body.Text
		}
	}
	if outHTML == sanitizerFailedMarker {
		herr = sanitizerFailedMarker
	}
	ev["status"] = status
	ev["err"] = herr
	ev["panic"] = panicText
	ev["html"] = htmlSets(outHTML)
	ev["text"] = textSets(outText)
	ev["rawhtml"] = quoteShort(outHTML)
	ev["rawtext"] = quoteShort(outText)
}

func cmdSanitize(args []string) error {
	if len(args) != 2 {
		return fmt.Errorf("usage: vh sanitize <behaviours.json> <trace.ndjson>")
	}
	raw, err := os.ReadFile(args[0])
	if err != nil {
		return err
	}
	var in sanInput
	if err := json.Unmarshal(raw, &in); err != nil {
		return err
	}
	w, err := tr.NewWriter(args[1])
	if err != nil {
		return err
	}
	defer w.Close()
	var wenv *webEnv
	for _, b := range in.Behaviours {
		w.Emit(tr.Ev{"a": "reset", "t": b.ID, "kind": b.Kind, "abs": b.Abs})
		w.Flush() // a fatal error (stack overflow) in the code under test is attributed to this behaviour
		for i, c := range b.Cases {
			input, err := base64.StdEncoding.DecodeString(c.B64)
			if err != nil {
				return fmt.Errorf("behaviour %s case %d: %v", b.ID, i, err)
			}
			ev := tr.Ev{"t": b.ID, "i": i, "sp": c.Sp}
			switch c.Via {
			case "html":
				out, errText, panicText := callSanitize(string(input))
				ev["a"] = "html"
				ev["in"] = quoteShort(string(input))
				ev["err"] = errText
				ev["panic"] = panicText
				ev["raw"] = quoteShort(out)
				ev["out"] = htmlSets(out)
				ev["inp"] = htmlSets(string(input))
			case "text":
				out, panicText := callTextToHTML(string(input))
				ev["a"] = "text"
				ev["in"] = quoteShort(string(input))
				ev["panic"] = panicText
				ev["raw"] = quoteShort(out)
				ev["out"] = textSets(out)
				ev["want"] = want(string(input))
			case "web":
				if wenv == nil {
					if wenv, err = newWebEnv(); err != nil {
						return err
					}
				}
				txt, err := base64.StdEncoding.DecodeString(c.Txt64)
				if err != nil {
					return fmt.Errorf("behaviour %s case %d: %v", b.ID, i, err)
				}
				ev["a"] = "web"
				wenv.observe(ev, input, txt)
			default:
				return fmt.Errorf("behaviour %s case %d: unknown via %q", b.ID, i, c.Via)
			}
			w.Emit(ev)
		}
	}
	fmt.Fprintf(os.Stderr, "sanitize: %d behaviours, %d events\n", len(in.Behaviours), w.N)
	return nil
}
