package main

// Line-protocol driver for the real SMTP server (C01, C03, C05, C06, C17).
// It sends exactly the bytes the behaviour prescribes over a pipe to a real
// session (smtp.Server.VerifServeConn), records the reply to every line and the
// projected state of the whole store after every step.  No pass/fail logic.

import (
	"bufio"
	"bytes"
	"crypto/tls"
	"encoding/base64"
	"encoding/json"
	"fmt"
	"io"
	"net"
	"os"
	"path/filepath"
	"regexp"
	"sort"
	"strings"
	"sync"
	"time"

	"github.com/inbucket/inbucket/v3/pkg/config"
	"github.com/inbucket/inbucket/v3/pkg/extension"
	"github.com/inbucket/inbucket/v3/pkg/extension/event"
	"github.com/inbucket/inbucket/v3/pkg/extension/luahost"
	"github.com/inbucket/inbucket/v3/pkg/message"
	"github.com/inbucket/inbucket/v3/pkg/policy"
	"github.com/inbucket/inbucket/v3/pkg/server/smtp"
	"github.com/inbucket/inbucket/v3/pkg/storage"
	"github.com/inbucket/inbucket/v3/pkg/stringutil"
	"github.com/rs/zerolog"

	"verif/harness/internal/tr"
)

type lineStep struct {
	Kind string                 `json:"kind"` // line | body | cut | connect
	Abs  map[string]interface{} `json:"abs"`
	Send string                 `json:"send"` // bytes to send (latin-1 escaped as JSON string) ...
	B64  string                 `json:"b64"`  // ... or base64
}

type smtpBehaviour struct {
	ID          string                 `json:"id"`
	Store       string                 `json:"store"`
	Cap         int                    `json:"cap"`
	MaxKB       int                    `json:"maxkb"`
	Env         map[string]string      `json:"env"`
	Lua         string                 `json:"lua"`
	Cfg         map[string]interface{} `json:"cfg"` // abstract configuration, echoed into the reset event
	Names       []string               `json:"names"`
	Steps       []lineStep             `json:"steps"`
	Timeout     int                    `json:"timeout_ms"`
	GoHooks     bool                   `json:"gohooks"` // Go listeners ahead of / behind the Lua host (first-answer rule, C17)
	NoVisit     bool                   `json:"novisit"` // snapshot only the behaviour's own mailboxes (parallel sessions)
	Group       string                 `json:"group"`
	TLS         bool                   `json:"tls"`          // STARTTLS is configured (TLSEnabled with a throw-away certificate)
	Pipeline    bool                   `json:"pipeline"`     // the client does not wait: DATA, the message and the line behind it go out in one write
	FailMailbox string                 `json:"fail_mailbox"` // fault injection: the store refuses every message for this mailbox   // behaviours with the same non-empty group share one server and run concurrently
}

type smtpInput struct {
	Seed       int64           `json:"seed"`
	Behaviours []smtpBehaviour `json:"behaviours"`
}

// SMsg is the projection of a stored message as SMTP-level contracts see it.
type SMsg struct {
	From     string   `json:"from"`
	To       []string `json:"to"`
	Subject  string   `json:"subject"`
	Size     int64    `json:"size"`
	SrcLen   int      `json:"srclen"`
	Hdrs     bool     `json:"hdrs"`
	BodyHash string   `json:"bodyhash"`
	BodyLen  int      `json:"bodylen"`
}
type SBox struct {
	Mb   string `json:"mb"`
	Msgs []SMsg `json:"msgs"`
}

var crlfRun = regexp.MustCompile(`\r*\n`)

// Canon: line-ending normalisation of DESIGN.md C02: every maximal CR*LF becomes LF,
// then at most one trailing LF is dropped.
func Canon(b []byte) []byte {
	out := crlfRun.ReplaceAll(b, []byte("\n"))
	if len(out) > 0 && out[len(out)-1] == '\n' {
		out = out[:len(out)-1]
	}
	return out
}

// splitTrace separates the server's trace headers (Return-Path, Received with its
// continuation line) from the rest of a stored source.
func splitTrace(src []byte) (ok bool, rest []byte) {
	lines := bytes.SplitN(src, []byte("\n"), 4)
	if len(lines) < 4 {
		return false, src
	}
	if !bytes.HasPrefix(lines[0], []byte("Return-Path: <")) || !bytes.HasPrefix(lines[1], []byte("Received: from ")) ||
		!bytes.HasPrefix(lines[2], []byte("  for <")) {
		return false, src
	}
	return true, lines[3]
}

func projectSMsg(m storage.Message) SMsg {
	out := SMsg{From: stringutil.StringAddress(m.From()), To: stringutil.StringAddressList(m.To()), Subject: m.Subject(), Size: m.Size()}
	if out.To == nil {
		out.To = []string{}
	}
	r, err := m.Source()
	if err != nil {
		out.BodyHash = "source-error:" + err.Error()
		return out
	}
	b, _ := io.ReadAll(r)
	_ = r.Close()
	out.SrcLen = len(b)
	ok, rest := splitTrace(b)
	out.Hdrs = ok
	c := Canon(rest)
	out.BodyHash = tr.HashBytes(c)
	out.BodyLen = len(c)
	return out
}

func smtpSnapshot(s storage.Store, known []string, visit bool) (boxes []SBox, errs []string) {
	seen := map[string]bool{}
	add := func(b SBox) {
		if len(b.Msgs) == 0 {
			return
		}
		k, _ := json.Marshal(b)
		if !seen[string(k)] {
			seen[string(k)] = true
			boxes = append(boxes, b)
		}
	}
	var err error
	if visit {
		err = s.VisitMailboxes(func(ms []storage.Message) bool {
			if len(ms) > 0 {
				b := SBox{Mb: ms[0].Mailbox()}
				for _, m := range ms {
					b.Msgs = append(b.Msgs, projectSMsg(m))
				}
				add(b)
			}
			return true
		})
	}
	if err != nil {
		errs = append(errs, "visit: "+err.Error())
	}
	for _, name := range known {
		ms, err := s.GetMessages(name)
		if err != nil {
			errs = append(errs, "list "+name+": "+err.Error())
			continue
		}
		b := SBox{Mb: name}
		for _, m := range ms {
			b.Msgs = append(b.Msgs, projectSMsg(m))
		}
		add(b)
	}
	sort.Slice(boxes, func(i, j int) bool { return boxes[i].Mb < boxes[j].Mb })
	if boxes == nil {
		boxes = []SBox{}
	}
	if errs == nil {
		errs = []string{}
	}
	return
}

// faultStore refuses every delivery to one mailbox (C01: a store failure during the fan-out).
type faultStore struct {
	storage.Store
	fail string
}

func (f *faultStore) AddMessage(m storage.Message) (string, error) {
	if m.Mailbox() == f.fail {
		return "", fmt.Errorf("injected store failure for mailbox %q", f.fail)
	}
	return f.Store.AddMessage(m)
}

type reply struct {
	Cls   string // ok | fail | closed | none (timeout) | malformed
	Code  int
	Text  string // text of the last line
	Lines int
	WF    bool
	Raw   []string
}

var replyLine = regexp.MustCompile(`^([0-9]{3})([ -])(.*)\r\n$`)

func readReply(c net.Conn, br *bufio.Reader, timeout time.Duration) reply {
	rp := reply{WF: true}
	_ = c.SetReadDeadline(time.Now().Add(timeout))
	first := -1
	for {
		line, err := br.ReadString('\n')
		if err != nil {
			if line != "" {
				rp.Raw = append(rp.Raw, line)
			}
			if ne, ok := err.(net.Error); ok && ne.Timeout() {
				rp.Cls = "none"
			} else {
				rp.Cls = "closed"
			}
			rp.WF = false
			return rp
		}
		rp.Raw = append(rp.Raw, line)
		rp.Lines++
		m := replyLine.FindStringSubmatch(line)
		if m == nil {
			rp.WF = false
			rp.Cls = "malformed"
			return rp
		}
		code := 0
		fmt.Sscanf(m[1], "%d", &code)
		if first < 0 {
			first = code
		} else if code != first {
			rp.WF = false
		}
		if m[2] == " " {
			rp.Code = code
			rp.Text = m[3]
			if code >= 200 && code < 400 {
				rp.Cls = "ok"
			} else {
				rp.Cls = "fail"
			}
			return rp
		}
	}
}

func stepBytes(s lineStep) []byte {
	if s.B64 != "" {
		b, _ := base64.StdEncoding.DecodeString(s.B64)
		return b
	}
	// JSON strings carry bytes as code points 0..255
	rs := []rune(s.Send)
	b := make([]byte, len(rs))
	for i, r := range rs {
		b[i] = byte(r)
	}
	return b
}

var inbucketEnv = regexp.MustCompile(`^INBUCKET_`)

func setEnv(env map[string]string) {
	for _, kv := range os.Environ() {
		k := strings.SplitN(kv, "=", 2)[0]
		if inbucketEnv.MatchString(k) {
			os.Unsetenv(k)
		}
	}
	for k, v := range env {
		os.Setenv(k, v)
	}
}

type smtpEnv struct {
	root   *config.Root
	host   *extension.Host
	store  storage.Store
	mgr    *message.StoreManager
	server *smtp.Server
	dir    string
}

func setupSMTP(b smtpBehaviour, scratch string) (*smtpEnv, error) {
	if b.TLS {
		crt, key, err := lcSelfSigned(scratch, b.ID)
		if err != nil {
			return nil, err
		}
		env := map[string]string{"INBUCKET_SMTP_TLSENABLED": "true", "INBUCKET_SMTP_TLSCERT": crt, "INBUCKET_SMTP_TLSPRIVKEY": key}
		for k, v := range b.Env {
			env[k] = v
		}
		b.Env = env
		defer os.Remove(crt)
		defer os.Remove(key)
	}
	setEnv(b.Env)
	root, err := config.Process()
	if err != nil {
		return nil, fmt.Errorf("config.Process: %v", err)
	}
	e := &smtpEnv{root: root, host: extension.NewHost()}
	goHook := func(prefix string, code int, text string, last bool) func(event.SMTPSession) *event.SMTPResponse {
		return func(ses event.SMTPSession) *event.SMTPResponse {
			addr := ""
			if last && len(ses.To) > 0 {
				addr = ses.To[len(ses.To)-1].Address
			} else if !last && ses.From != nil {
				addr = ses.From.Address
			}
			if strings.Contains(addr, prefix) {
				return &event.SMTPResponse{Action: event.ActionDeny, ErrorCode: code, ErrorMsg: text}
			}
			return nil
		}
	}
	if b.GoHooks {
		e.host.Events.BeforeMailFromAccepted.AddListener("verif-first", goHook("gofirst", 521, "go first", false))
		e.host.Events.BeforeRcptToAccepted.AddListener("verif-first", goHook("gofirst", 521, "go first", true))
	}
	if b.Lua != "" {
		if _, err := luahost.NewFromReader(zerolog.Nop(), e.host, strings.NewReader(b.Lua), "verif.lua"); err != nil {
			return nil, fmt.Errorf("lua: %v", err)
		}
	}
	if b.GoHooks {
		for _, px := range []struct {
			p string
			c int
			t string
		}{{"golast", 522, "go last"}, {"allow", 523, "must not be asked"}, {"deny", 523, "must not be asked"}} {
			px := px
			e.host.Events.BeforeMailFromAccepted.AddListener("verif-last-"+px.p, goHook(px.p, px.c, px.t, false))
			e.host.Events.BeforeRcptToAccepted.AddListener("verif-last-"+px.p, goHook(px.p, px.c, px.t, true))
		}
	}
	e.dir = filepath.Join(scratch, "store-"+b.ID)
	if b.Store == "file" {
		_ = os.MkdirAll(e.dir, 0o770)
	}
	e.store, err = newStore(b.Store, b.Cap, b.MaxKB, e.dir, e.host)
	if err != nil {
		return nil, err
	}
	ap := &policy.Addressing{Config: root}
	var mstore storage.Store = e.store
	if b.FailMailbox != "" {
		mstore = &faultStore{Store: e.store, fail: b.FailMailbox}
	}
	e.mgr = &message.StoreManager{AddrPolicy: ap, Store: mstore, ExtHost: e.host}
	e.server = smtp.NewServer(root.SMTP, e.mgr, ap, e.host)
	return e, nil
}

func runSMTPBehaviour(w *tr.Writer, b smtpBehaviour, scratch string) {
	e, err := setupSMTP(b, scratch)
	if err != nil {
		w.Emit(tr.Ev{"a": "harness-error", "t": b.ID, "err": err.Error()})
		return
	}
	if b.Store == "file" {
		defer os.RemoveAll(e.dir)
	}
	runSMTPSession(w, b, e, 0)
}

// runSMTPGroup runs several behaviours as concurrent sessions of one server (C17: handlers invoked from
// many sessions at once).  Each behaviour observes only its own mailboxes.
func runSMTPGroup(w *tr.Writer, bs []smtpBehaviour, scratch string) {
	e, err := setupSMTP(bs[0], scratch)
	if err != nil {
		w.Emit(tr.Ev{"a": "harness-error", "t": bs[0].ID, "err": err.Error()})
		return
	}
	if bs[0].Store == "file" {
		defer os.RemoveAll(e.dir)
	}
	// the sessions' events are written when they end: should the process die, this line says which group was running
	w.Emit(tr.Ev{"a": "marker", "t": bs[0].ID})
	w.Flush()
	var wg sync.WaitGroup
	for i, b := range bs {
		wg.Add(1)
		go func(i int, b smtpBehaviour) {
			defer wg.Done()
			// events of one session are buffered and written as one block so that traces do not interleave
			bw := &tr.Writer{}
			runSMTPSessionTo(bw, w, b, e, i*100)
		}(i, b)
	}
	wg.Wait()
}

func runSMTPSessionTo(buf *tr.Writer, w *tr.Writer, b smtpBehaviour, e *smtpEnv, sidBase int) {
	evs := []tr.Ev{}
	emit := func(ev tr.Ev) { evs = append(evs, ev) }
	runSMTPSessionEmit(emit, func() {}, b, e, sidBase)
	w.EmitBlock(evs)
}

func runSMTPSession(w *tr.Writer, b smtpBehaviour, e *smtpEnv, sidBase int) {
	runSMTPSessionEmit(w.Emit, w.Flush, b, e, sidBase)
}

func runSMTPSessionEmit(emit func(tr.Ev), flush func(), b smtpBehaviour, e *smtpEnv, sidBase int) {
	timeout := 5 * time.Second
	if b.Timeout > 0 {
		timeout = time.Duration(b.Timeout) * time.Millisecond
	}
	snap := func(ev tr.Ev) {
		s, serr := smtpSnapshot(e.store, b.Names, !b.NoVisit)
		ev["s"] = s
		ev["serr"] = serr
	}
	rev := tr.Ev{"a": "reset", "t": b.ID, "cfg": b.Cfg, "store": b.Store}
	snap(rev)
	emit(rev)
	flush()

	var client net.Conn
	var br *bufio.Reader
	var done chan struct{}
	sid := sidBase
	connect := func() reply {
		sc, cc := net.Pipe()
		client, br = cc, bufio.NewReader(cc)
		done = make(chan struct{})
		sid++
		go func(d chan struct{}) {
			e.server.VerifServeConn(sid, sc)
			close(d)
		}(done)
		return readReply(client, br, timeout)
	}
	put := func(ev tr.Ev, rp reply) {
		ev["cls"] = rp.Cls
		ev["code"] = rp.Code
		ev["text"] = rp.Text
		ev["wf"] = rp.WF
		ev["lines"] = rp.Lines
	}
	cev := tr.Ev{"a": "connect", "t": b.ID}
	put(cev, connect())
	snap(cev)
	emit(cev)
	closed := false
	lastCode := 0
	presentUntil := -1 // pipelining: steps up to this index have been written already
	for i, st := range b.Steps {
		ev := tr.Ev{"a": "cmd", "t": b.ID, "i": i}
		for k, v := range st.Abs {
			ev[k] = v
		}
		switch st.Kind {
		case "connect":
			if !closed {
				client.Close()
				<-done
			}
			closed = false
			ev["a"] = "connect"
			put(ev, connect())
		case "cut":
			// send a prefix and drop the connection
			data := stepBytes(st)
			_ = client.SetWriteDeadline(time.Now().Add(timeout))
			_, _ = client.Write(data)
			client.Close()
			closed = true
			ev["a"] = "cut"
			select {
			case <-done:
				ev["returned"] = true
			case <-time.After(timeout):
				ev["returned"] = false
			}
		default:
			if st.Kind == "body" && lastCode != 354 {
				// a client sends message data only after the server's 354
				ev["a"] = "skipped"
				break
			}
			if closed {
				ev["cls"] = "closed"
				ev["code"] = 0
				ev["text"] = ""
				ev["wf"] = false
				ev["lines"] = 0
				break
			}
			data := stepBytes(st)
			if b.Pipeline && presentUntil >= i {
				data = nil // already written together with an earlier line: only the reply is read
			} else if b.Pipeline && st.Abs["c"] == "data" {
				// a client that does not wait for the 354 (nor for the answer to the end of the data): DATA, the whole
				// message and the line behind it leave in ONE write
				for j := i + 1; j < len(b.Steps) && j <= i+2; j++ {
					if b.Steps[j].Kind == "connect" || b.Steps[j].Kind == "cut" {
						break
					}
					data = append(data, stepBytes(b.Steps[j])...)
					presentUntil = j
				}
				ev["ahead"] = true
			}
			_ = client.SetWriteDeadline(time.Now().Add(timeout))
			// the server may answer before it has consumed everything (pipe): write in the background
			werr := make(chan error, 1)
			go func() {
				if data == nil {
					werr <- nil
					return
				}
				_, err := client.Write(data)
				werr <- err
			}()
			rp := readReply(client, br, timeout)
			select {
			case <-werr:
			case <-time.After(timeout):
			}
			put(ev, rp)
			lastCode = rp.Code
			if rp.Cls == "closed" {
				closed = true
			}
			switch ev["c"] {
			case "helo":
				// does the greeting offer STARTTLS?
				adv := false
				for _, l := range rp.Raw {
					if strings.Contains(strings.ToUpper(l), "STARTTLS") {
						adv = true
					}
				}
				ev["adv"] = adv
			case "starttls":
				if rp.Code == 220 {
					// the client negotiates TLS on the same connection; the rest of the dialogue is encrypted
					tc := tls.Client(client, &tls.Config{InsecureSkipVerify: true})
					_ = client.SetDeadline(time.Now().Add(timeout))
					err := tc.Handshake()
					ev["upgraded"] = err == nil
					if err == nil {
						client, br = tc, bufio.NewReader(tc)
					} else {
						ev["tlserr"] = err.Error()
					}
				}
			}
		}
		snap(ev)
		emit(ev)
	}
	// end of dialogue: anything the server still wants to say, then hang up
	end := tr.Ev{"a": "end", "t": b.ID}
	if !closed {
		_ = client.SetReadDeadline(time.Now().Add(30 * time.Millisecond))
		extra, _ := io.ReadAll(br)
		end["extra"] = len(extra)
		client.Close()
	} else {
		end["extra"] = 0
	}
	select {
	case <-done:
		end["returned"] = true
	case <-time.After(timeout):
		end["returned"] = false
	}
	snap(end)
	emit(end)
}

func cmdSMTP(args []string) error {
	if len(args) != 2 {
		return fmt.Errorf("usage: vh smtp <behaviours.json> <trace.ndjson>")
	}
	raw, err := os.ReadFile(args[0])
	if err != nil {
		return err
	}
	var in smtpInput
	if err := json.Unmarshal(raw, &in); err != nil {
		return err
	}
	w, err := tr.NewWriter(args[1])
	if err != nil {
		return err
	}
	defer w.Close()
	base := ""
	if st, err := os.Stat("/dev/shm"); err == nil && st.IsDir() {
		base = "/dev/shm"
	}
	scratch, err := os.MkdirTemp(base, "vh-smtp-")
	if err != nil {
		return err
	}
	defer os.RemoveAll(scratch)
	groups := map[string][]smtpBehaviour{}
	order := []string{}
	for _, b := range in.Behaviours {
		if b.Group == "" {
			runSMTPBehaviour(w, b, scratch)
			continue
		}
		if _, ok := groups[b.Group]; !ok {
			order = append(order, b.Group)
		}
		groups[b.Group] = append(groups[b.Group], b)
	}
	for _, g := range order {
		runSMTPGroup(w, groups[g], scratch)
	}
	fmt.Fprintf(os.Stderr, "smtp: %d behaviours, %d events\n", len(in.Behaviours), w.N)
	return nil
}
