package main

// Start-up fault driver (C19): one of the three listeners cannot bind (its port is taken).  The assembled
// services are started exactly as cmd/inbucket starts them; once the failure is reported the driver runs
// main's shutdown sequence - cancel, drain SMTP, drain POP3, join the retention scanner - and records for
// each wait whether it returned within the deadline.  TLC judges the record (StartFaultTrace.tla).

import (
	"context"
	"fmt"
	"net"
	"os"
	"path/filepath"
	"time"

	"github.com/inbucket/inbucket/v3/pkg/config"
	"github.com/inbucket/inbucket/v3/pkg/server"
	"github.com/inbucket/inbucket/v3/pkg/storage"
	"github.com/inbucket/inbucket/v3/pkg/storage/mem"

	"verif/harness/internal/tr"
)

func cmdStartFault(args []string) error {
	if len(args) != 2 {
		return fmt.Errorf("usage: vh startfault <which: smtp|pop3|web> <trace.ndjson>")
	}
	which := args[0]
	w, err := tr.NewWriter(args[1])
	if err != nil {
		return err
	}
	defer w.Close()
	scratch, err := os.MkdirTemp("", "vh-startfault-")
	if err != nil {
		return err
	}
	defer os.RemoveAll(scratch)
	storage.Constructors["memory"] = mem.New
	// the port that is taken
	taken, err := net.Listen("tcp4", "127.0.0.1:0")
	if err != nil {
		return err
	}
	defer taken.Close()
	webAddr, err := freePort()
	if err != nil {
		return err
	}
	env := map[string]string{
		"INBUCKET_SMTP_ADDR": "127.0.0.1:0", "INBUCKET_POP3_ADDR": "127.0.0.1:0", "INBUCKET_WEB_ADDR": webAddr,
		"INBUCKET_STORAGE_TYPE": "memory", "INBUCKET_WEB_UIDIR": filepath.Join(scratch, "ui"), "INBUCKET_LUA_PATH": filepath.Join(scratch, "none.lua"),
		"INBUCKET_STORAGE_RETENTIONPERIOD": "24h",
	}
	env[map[string]string{"smtp": "INBUCKET_SMTP_ADDR", "pop3": "INBUCKET_POP3_ADDR", "web": "INBUCKET_WEB_ADDR"}[which]] = taken.Addr().String()
	setEnv(env)
	conf, err := config.Process()
	if err != nil {
		return err
	}
	svc, err := server.FullAssembly(conf)
	if err != nil {
		return err
	}
	ctx, cancel := context.WithCancel(context.Background())
	defer cancel()
	ready := make(chan struct{})
	svc.Start(ctx, func() { close(ready) })
	ev := tr.Ev{"a": "startfault", "t": "startfault-" + which, "which": which, "notified": false, "ready": false}
	select {
	case <-svc.Notify():
		ev["notified"] = true
	case <-ready:
		ev["ready"] = true
	case <-time.After(10 * time.Second):
	}
	// main's shutdown sequence
	cancel()
	within := func(f func()) bool {
		done := make(chan struct{})
		go func() { f(); close(done) }()
		select {
		case <-done:
			return true
		case <-time.After(5 * time.Second):
			return false
		}
	}
	ev["smtp_drain"] = within(svc.SMTPServer.Drain)
	ev["pop3_drain"] = within(svc.POP3Server.Drain)
	ev["join"] = within(svc.RetentionScanner.Join)
	w.Emit(ev)
	return nil
}
