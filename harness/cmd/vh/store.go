package main

// Driver for storage.Store behaviours (C07, C08, C10, C12 sequential part, C16
// sequential part).  It contains no pass/fail logic: it executes the operations
// of each behaviour against the real store and records, after every operation,
// the result and the projected state of the whole store.

import (
	"bytes"
	"context"
	"encoding/json"
	"errors"
	"fmt"
	"github.com/inbucket/inbucket/v3/pkg/extension/luahost"
	"github.com/rs/zerolog"
	zlog "github.com/rs/zerolog/log"
	"io"
	"math/rand"
	"net/mail"
	"os"
	"os/signal"
	"path/filepath"
	"regexp"
	"strings"
	"sync"
	"sync/atomic"
	"syscall"
	"time"

	"github.com/inbucket/inbucket/v3/pkg/config"
	"github.com/inbucket/inbucket/v3/pkg/extension"
	"github.com/inbucket/inbucket/v3/pkg/extension/event"
	"github.com/inbucket/inbucket/v3/pkg/message"
	"github.com/inbucket/inbucket/v3/pkg/policy"
	"github.com/inbucket/inbucket/v3/pkg/storage"
	"github.com/inbucket/inbucket/v3/pkg/storage/file"
	"github.com/inbucket/inbucket/v3/pkg/storage/mem"

	"verif/harness/internal/tr"
)

type storeOp struct {
	Op   string `json:"op"`
	Mb   int    `json:"mb"`
	ID   int    `json:"id"`   // abstract: k-th id issued in that mailbox; > issued = never issued
	Meta int    `json:"meta"` // metadata class; 0 = old (expired for scan), others young
	Size int    `json:"size"` // bytes
	// C16, deliveries through the manager only: further recipient mailboxes of the same transaction (an index equal to Mb is a
	// second, plus-addressed recipient of the same mailbox), and which copy (1-based, 0 = none) the store refuses
	Also   []int `json:"also"`
	FailAt int   `json:"fail_at"`
	// op "addfault" (file store): a delivery during which no file of this process may grow beyond Limit bytes (RLIMIT_FSIZE,
	// SIGXFSZ ignored): the write of the message file fails part-way, as on a full disk
	Limit int `json:"limit"`
}

// recStore lets the driver observe a multi-recipient delivery copy by copy: the manager calls the store once per copy (and,
// when a copy is refused, once per copy to take back); each of those calls is reported as its own trace event.
type recStore struct {
	storage.Store
	n      int
	failAt int
	added  func(mailbox, id string, err error)
	remove func(mailbox, id string, err error)
}

func (r *recStore) AddMessage(m storage.Message) (string, error) {
	r.n++
	if r.n == r.failAt {
		return "", errors.New("verif: injected store failure")
	}
	id, err := r.Store.AddMessage(m)
	r.added(m.Mailbox(), id, err)
	return id, err
}

func (r *recStore) RemoveMessage(mailbox, id string) error {
	err := r.Store.RemoveMessage(mailbox, id)
	r.remove(mailbox, id, err)
	return err
}

type storeBehaviour struct {
	ID     string    `json:"id"`
	Store  string    `json:"store"` // mem | file
	Cap    int       `json:"cap"`
	MaxKB  int       `json:"maxkb"`
	Names  []string  `json:"names"`
	Events bool      `json:"events"`  // record after-events (C16); deliveries then go through message.StoreManager
	Procs  bool      `json:"procs"`   // every mutating operation runs in a fresh child process (C10: restart between any two operations)
	HoldMS int       `json:"hold_ms"` // every listener invocation takes this long (exposes overlapping dispatch)
	Lite   bool      `json:"lite"`    // long histories: the whole-store snapshot is taken at the end only (the per-step events carry none)
	Lua    bool      `json:"lua"`     // with events: the listener is a Lua script (after.message_stored / after.message_deleted) that reports through its logger
	Ops    []storeOp `json:"ops"`
}

type storeInput struct {
	Seed       int64            `json:"seed"`
	Behaviours []storeBehaviour `json:"behaviours"`
}

var baseTime = time.Date(2026, 9, 1, 12, 0, 0, 0, time.UTC)

func errClass(err error) string {
	switch {
	case err == nil:
		return "ok"
	case errors.Is(err, storage.ErrNotExist):
		return "notexist"
	default:
		return "err:" + err.Error()
	}
}

type evRec struct {
	mu   sync.Mutex
	seq  int64
	evs  []tr.Ev
	hold time.Duration
}

// invoke is the body of the after-event listeners: entry and exit are stamped from one counter
// taken under one mutex, so "invocation A finished before invocation B started" is ex(A) < en(B).
func (r *evRec) invoke(kind string, m event.MessageMetadata) {
	r.mu.Lock()
	r.seq++
	en := r.seq
	r.mu.Unlock()
	if r.hold > 0 {
		time.Sleep(r.hold)
	}
	r.mu.Lock()
	r.seq++
	r.evs = append(r.evs, tr.Ev{"k": kind, "mb": m.Mailbox, "id": m.ID, "en": en, "ex": r.seq})
	r.mu.Unlock()
}

// drain waits until no invocation has started or finished for quiet, then returns the finished ones.
func (r *evRec) drain(quiet time.Duration) []tr.Ev {
	last := int64(-1)
	for {
		r.mu.Lock()
		n := r.seq
		r.mu.Unlock()
		if n == last && n%2 == 0 {
			break
		}
		last = n
		time.Sleep(quiet)
	}
	r.mu.Lock()
	out := r.evs
	r.evs = nil
	r.mu.Unlock()
	if out == nil {
		out = []tr.Ev{}
	}
	return out
}

const luaEventScript = `
local logger = require("logger")
function inbucket.after.message_stored(msg)
  logger.info("verif-ev begin stored " .. msg.mailbox .. " " .. msg.id, {})
  local x = 0
  for i = 1, 300000 do x = x + i % 7 end
  logger.info("verif-ev end stored " .. msg.mailbox .. " " .. msg.id, {})
end
function inbucket.after.message_deleted(msg)
  logger.info("verif-ev begin deleted " .. msg.mailbox .. " " .. msg.id, {})
  logger.info("verif-ev end deleted " .. msg.mailbox .. " " .. msg.id, {})
end
`

// luaEvWriter turns the script's log lines into recorded invocations (entry / exit stamps = order of the lines).
type luaEvWriter struct {
	rec  *evRec
	open map[string]int64
}

var luaEvLine = regexp.MustCompile(`verif-ev (begin|end) (stored|deleted) ([^ "\\]+) ([^ "\\]+)`)

func (l *luaEvWriter) Write(p []byte) (int, error) {
	m := luaEvLine.FindSubmatch(p)
	if m == nil {
		return len(p), nil
	}
	r := l.rec
	r.mu.Lock()
	defer r.mu.Unlock()
	if l.open == nil {
		l.open = map[string]int64{}
	}
	key := string(m[2]) + " " + string(m[3]) + " " + string(m[4])
	r.seq++
	if string(m[1]) == "begin" {
		l.open[key] = r.seq
	} else {
		r.evs = append(r.evs, tr.Ev{"k": string(m[2]), "mb": string(m[3]), "id": string(m[4]), "en": l.open[key], "ex": r.seq})
		delete(l.open, key)
	}
	return len(p), nil
}

// flushEvents waits until every after-event emitted so far has been handed to the recording listener: a sentinel
// goes through each broker (per-listener FIFO puts it behind everything emitted before), then quiescence.
func flushEvents(host *extension.Host, rec *evRec) []tr.Ev {
	host.Events.AfterMessageStored.Emit(&event.MessageMetadata{Mailbox: "verif-sentinel", ID: "s"})
	host.Events.AfterMessageDeleted.Emit(&event.MessageMetadata{Mailbox: "verif-sentinel", ID: "d"})
	deadline := time.Now().Add(3 * time.Second)
	for time.Now().Before(deadline) {
		rec.mu.Lock()
		n := 0
		for _, e := range rec.evs {
			if e["mb"] == "verif-sentinel" {
				n++
			}
		}
		rec.mu.Unlock()
		if n >= 2 {
			break
		}
		time.Sleep(200 * time.Microsecond)
	}
	all := rec.drain(5 * time.Millisecond)
	evs := []tr.Ev{}
	for _, e := range all {
		if e["mb"] != "verif-sentinel" {
			evs = append(evs, e)
		}
	}
	return evs
}

func newStore(kind string, cap, maxkb int, dir string, host *extension.Host) (storage.Store, error) {
	cfg := config.Storage{MailboxMsgCap: cap, Params: map[string]string{}}
	switch kind {
	case "mem":
		if maxkb > 0 {
			cfg.Params["maxkb"] = fmt.Sprint(maxkb)
		}
		return mem.New(cfg, host)
	case "file":
		cfg.Params["path"] = dir
		return file.New(cfg, host)
	}
	return nil, fmt.Errorf("unknown store kind %q", kind)
}

func mkBody(rng *rand.Rand, size int) []byte {
	b := make([]byte, size)
	for i := range b {
		switch rng.Intn(12) {
		case 0:
			b[i] = '\n'
		case 1:
			b[i] = byte(rng.Intn(256))
		default:
			b[i] = byte('a' + rng.Intn(26))
		}
	}
	return b
}

var subjects = []string{"plain subject", "Ünïcödé ✓ subject", "", "re: [x] a=b&c <tag>", "very " + string(bytes.Repeat([]byte("long "), 40))}

func mkMeta(rng *rand.Rand, class int, mb string) event.MessageMetadata {
	date := baseTime.Add(time.Duration(rng.Intn(1000)) * time.Millisecond)
	if class == 0 {
		date = date.Add(-1000 * time.Hour)
	}
	to := []*mail.Address{}
	for i := rng.Intn(3); i > 0; i-- {
		to = append(to, &mail.Address{Name: []string{"", "Rcpt Name", "Ö Name"}[rng.Intn(3)], Address: fmt.Sprintf("rcpt%d@example.com", rng.Intn(100))})
	}
	return event.MessageMetadata{
		Mailbox: mb,
		From:    &mail.Address{Name: []string{"", "From Person"}[rng.Intn(2)], Address: fmt.Sprintf("from%d@example.org", rng.Intn(100))},
		To:      to,
		Date:    date,
		Subject: subjects[rng.Intn(len(subjects))],
	}
}

// runStoreBehaviour runs one behaviour under a watchdog: a store call that has not returned after two minutes (each takes
// microseconds to milliseconds) is reported as the event "hung" with the operation it was in, and the process ends - a call
// that never returns is an observation like any other, and the contract has no action for it.
func runStoreBehaviour(w *tr.Writer, b storeBehaviour, seed int64, scratch string) {
	var cur atomic.Int64
	cur.Store(-1)
	done := make(chan struct{})
	go func() {
		defer close(done)
		runStoreBehaviourHooked(w, b, seed, scratch, "", func(i int) { cur.Store(int64(i)) }, nil)
	}()
	select {
	case <-done:
	case <-time.After(storeHangAfter):
		i := int(cur.Load())
		ev := tr.Ev{"a": "hung", "t": b.ID, "i": i}
		if i >= 0 && i < len(b.Ops) {
			ev["op"] = b.Ops[i].Op
		}
		w.Emit(ev)
		w.Close()
		fmt.Fprintf(os.Stderr, "store: behaviour %v: operation %d did not return within %v\n", b.ID, i, storeHangAfter)
		os.Exit(0)
	}
}

const storeHangAfter = 2 * time.Minute

func mkMetaFixed(mb string) event.MessageMetadata {
	return event.MessageMetadata{
		Mailbox: mb,
		From:    &mail.Address{Name: "Probe", Address: "probe@example.org"},
		To:      []*mail.Address{{Address: "after@example.com"}},
		Date:    baseTime.Add(42 * time.Hour),
		Subject: "after the crash",
	}
}

// runStoreBehaviourHooked executes a store behaviour; before/after are called around every operation
// (crash driver: arms the file-store hook for the target operation); fixedDir pins the store directory.
func runStoreBehaviourHooked(w *tr.Writer, b storeBehaviour, seed int64, scratch string, fixedDir string, before, after func(i int)) {
	rng := rand.New(rand.NewSource(seed))
	host := extension.NewHost()
	rec := &evRec{hold: time.Duration(b.HoldMS) * time.Millisecond}
	if b.Events && b.Lua {
		// the script reports the beginning and the end of every call through its logger; the log lines, in the order they
		// are written, give the entry / exit stamps; the stored handler is slow (a counting loop)
		lw := &luaEvWriter{rec: rec}
		// the driver runs with logging disabled; the script's own logger must get through (everything else stays silent)
		zlog.Logger = zerolog.Nop()
		zerolog.SetGlobalLevel(zerolog.InfoLevel)
		defer zerolog.SetGlobalLevel(zerolog.Disabled)
		if _, err := luahost.NewFromReader(zerolog.New(lw), host, strings.NewReader(luaEventScript), "verif-events.lua"); err != nil {
			w.Emit(tr.Ev{"a": "harness-error", "t": b.ID, "err": "lua: " + err.Error()})
			return
		}
	} else if b.Events {
		host.Events.AfterMessageDeleted.AddListener("verif", func(m event.MessageMetadata) { rec.invoke("deleted", m) })
		host.Events.AfterMessageStored.AddListener("verif", func(m event.MessageMetadata) { rec.invoke("stored", m) })
	}
	dir := filepath.Join(scratch, "store-"+b.ID)
	if fixedDir != "" {
		dir = fixedDir
	} else if b.Store == "file" {
		_ = os.MkdirAll(dir, 0o770)
		defer os.RemoveAll(dir)
	}
	st, err := newStore(b.Store, b.Cap, b.MaxKB, dir, host)
	if err != nil {
		w.Emit(tr.Ev{"a": "harness-error", "t": b.ID, "err": err.Error()})
		return
	}
	curCap := b.Cap
	if b.Procs && b.Store == "file" {
		st = &procStore{Store: st, dir: dir, cap: b.Cap}
	}
	issued := make([][]string, len(b.Names))
	oldDates := []string{}
	w.Emit(tr.Ev{"a": "reset", "t": b.ID, "store": b.Store, "cap": b.Cap, "limit": b.MaxKB * 1024})
	realID := func(mb, k int) string {
		if k >= 1 && k <= len(issued[mb]) {
			return issued[mb][k-1]
		}
		if b.Store == "file" {
			return fmt.Sprintf("20200101T000000-%04d", 9000+k)
		}
		return fmt.Sprint(900000 + k)
	}
	snapInto := func(ev tr.Ev) {
		if b.Lite && ev["a"] != "events" && ev["a"] != "reset" {
			return
		}
		snap, serr := tr.Snapshot(st, b.Names)
		ev["s"] = snap
		if serr == nil {
			serr = []string{}
		}
		ev["serr"] = serr
	}
	for i, op := range b.Ops {
		ev := tr.Ev{"a": op.Op, "t": b.ID, "i": i}
		if _, isProc := st.(*procStore); isProc && (op.Op == "add" || op.Op == "seen" || op.Op == "remove" || op.Op == "purge") {
			rs := tr.Ev{"a": "restart", "t": b.ID, "i": i}
			snapInto(rs)
			w.Emit(rs)
		}
		if before != nil {
			before(i)
		}
		name := ""
		if op.Mb >= 0 && op.Mb < len(b.Names) {
			name = b.Names[op.Mb]
			ev["mb"] = name
		}
		switch op.Op {
		case "add":
			meta := mkMeta(rng, op.Meta, name)
			body := mkBody(rng, op.Size)
			if b.Events {
				// through the manager, which emits the stored events; the store calls the manager makes are reported one by one
				// (one "add" event per copy stored, one "remove" per copy taken back), each with the store as it is then
				copies := []tr.Ev{}
				sub := 0
				emitSub := func(e tr.Ev) {
					e["t"], e["i"], e["sub"] = b.ID, i, sub
					sub++
					snapInto(e)
					w.Emit(e)
				}
				rs := &recStore{Store: st, failAt: op.FailAt}
				rs.added = func(mbn, id string, err error) {
					e := tr.Ev{"a": "add", "mb": mbn, "r": errClass(err), "id": id}
					if err == nil {
						copies = append(copies, tr.Ev{"mb": mbn, "id": id})
						if m, gerr := st.GetMessage(mbn, id); gerr == nil && m != nil {
							pm := tr.ProjectMsg(m)
							e["size"], e["meta"] = pm.Size, pm.Meta
						}
						for k, nm := range b.Names {
							if nm == mbn {
								issued[k] = append(issued[k], id)
							}
						}
					}
					emitSub(e)
				}
				rs.remove = func(mbn, id string, err error) {
					emitSub(tr.Ev{"a": "remove", "mb": mbn, "id": id, "r": errClass(err), "why": "rollback"})
				}
				mgr := &message.StoreManager{AddrPolicy: &policy.Addressing{Config: &config.Root{MailboxNaming: config.LocalNaming, SMTP: config.SMTP{DefaultAccept: true, DefaultStore: true}}}, Store: rs, ExtHost: host}
				addrs := []string{name + "@example.com"}
				for k, a := range op.Also {
					if a >= 0 && a < len(b.Names) {
						addrs = append(addrs, fmt.Sprintf("%s+r%d@example.com", b.Names[a], k))
					}
				}
				rcpts := []*policy.Recipient{}
				for _, a := range addrs {
					rcpt, rerr := mgr.AddrPolicy.NewRecipient(a)
					if rerr != nil {
						ev["r"] = "harness-error: " + rerr.Error()
						break
					}
					rcpts = append(rcpts, rcpt)
				}
				content := append([]byte("Subject: "+meta.Subject+"\r\n\r\n"), body...)
				err := mgr.Deliver(&policy.Origin{Address: *meta.From}, rcpts, "Received: from verif ([127.0.0.1]) by verif\r\n", content)
				ev["a"], ev["r"], ev["rcpts"], ev["fail_at"], ev["copies"] = "delivered", errClass(err), addrs, op.FailAt, copies
				break
			}
			d := &message.Delivery{Meta: meta, Reader: bytes.NewReader(body)}
			id, err := st.AddMessage(d)
			ev["r"] = errClass(err)
			ev["id"] = id
			ev["size"] = len(body)
			pm := tr.Msg{ID: id, Size: int64(len(body))}
			// what was written, in the projection's own terms
			written := tr.ProjectMsg(&message.Delivery{Meta: meta, Reader: bytes.NewReader(body)})
			written.Meta.Hash = tr.HashBytes(body)
			pm.Meta = written.Meta
			ev["meta"] = pm.Meta
			if op.Meta == 0 {
				oldDates = append(oldDates, pm.Meta.Date)
			}
			if err == nil {
				issued[op.Mb] = append(issued[op.Mb], id)
			}
		case "addfault":
			meta := mkMeta(rng, op.Meta, name)
			body := mkBody(rng, op.Size)
			d := &message.Delivery{Meta: meta, Reader: bytes.NewReader(body)}
			w.Flush() // nothing of the trace is written while the limit is in force
			var old syscall.Rlimit
			_ = syscall.Getrlimit(syscall.RLIMIT_FSIZE, &old)
			signal.Ignore(syscall.SIGXFSZ)
			_ = syscall.Setrlimit(syscall.RLIMIT_FSIZE, &syscall.Rlimit{Cur: uint64(op.Limit), Max: old.Max})
			var id string
			var err error
			if b.Events {
				// through the manager (which announces what it stored), as every other delivery of an events history
				mgr := &message.StoreManager{AddrPolicy: &policy.Addressing{Config: &config.Root{MailboxNaming: config.LocalNaming, SMTP: config.SMTP{DefaultAccept: true, DefaultStore: true}}}, Store: st, ExtHost: host}
				rcpt, rerr := mgr.AddrPolicy.NewRecipient(name + "@example.com")
				if rerr != nil {
					err = rerr
				} else {
					content := append([]byte("Subject: "+meta.Subject+"\r\n\r\n"), body...)
					err = mgr.Deliver(&policy.Origin{Address: *meta.From}, []*policy.Recipient{rcpt}, "Received: from verif ([127.0.0.1]) by verif\r\n", content)
				}
			} else {
				id, err = st.AddMessage(d)
			}
			_ = syscall.Setrlimit(syscall.RLIMIT_FSIZE, &old)
			ev["r"], ev["id"], ev["size"], ev["limit"] = errClass(err), id, len(body), op.Limit
			if err != nil {
				ev["r"] = "err"
			}
			written := tr.ProjectMsg(&message.Delivery{Meta: meta, Reader: bytes.NewReader(body)})
			written.Meta.Hash = tr.HashBytes(body)
			ev["meta"] = written.Meta
			if b.Events && err == nil {
				if ms, _ := st.GetMessages(name); len(ms) > 0 {
					pm := tr.ProjectMsg(ms[len(ms)-1])
					id = pm.ID
					ev["id"], ev["size"], ev["meta"] = pm.ID, pm.Size, pm.Meta
				}
			}
			if err == nil {
				issued[op.Mb] = append(issued[op.Mb], id)
			}
		case "addgone":
			// file store: the content file of the mailbox's oldest message has disappeared (removed behind the store's back);
			// the delivery that evicts that message through the cap cannot delete it any more - it is a delivery like any other
			if ms, _ := st.GetMessages(name); len(ms) > 0 {
				want := ms[0].ID() + ".raw"
				_ = filepath.Walk(dir, func(p string, info os.FileInfo, err error) error {
					if err == nil && !info.IsDir() && filepath.Base(p) == want {
						_ = os.Remove(p)
					}
					return nil
				})
			}
			meta := mkMeta(rng, op.Meta, name)
			body := mkBody(rng, op.Size)
			id, err := st.AddMessage(&message.Delivery{Meta: meta, Reader: bytes.NewReader(body)})
			ev["r"], ev["id"], ev["size"] = errClass(err), id, len(body)
			if err != nil {
				ev["r"] = "err"
			}
			written := tr.ProjectMsg(&message.Delivery{Meta: meta, Reader: bytes.NewReader(body)})
			written.Meta.Hash = tr.HashBytes(body)
			ev["meta"] = written.Meta
			if err == nil {
				issued[op.Mb] = append(issued[op.Mb], id)
			}
		case "wrapids":
			// file store: the process-wide id counter is driven to the end of its range with deliveries to a scratch mailbox
			// (purged again; it is no mailbox of the behaviour), so that the deliveries that follow get ids ...-9998, ...-9999,
			// ...-0000: ids need not ascend in arrival order
			scratchMb := "verif-wrap-scratch"
			n := 0
			for ; n < 10050; n++ {
				id, err := st.AddMessage(&message.Delivery{Meta: mkMetaFixed(scratchMb), Reader: bytes.NewReader([]byte("Subject: x\r\n\r\nx\r\n"))})
				if err != nil || strings.HasSuffix(id, "-9997") {
					break
				}
				if n%500 == 499 {
					_ = st.PurgeMessages(scratchMb)
				}
			}
			_ = st.PurgeMessages(scratchMb)
			ev["r"], ev["drawn"] = "ok", n
		case "listfault":
			// the mailbox is listed while the process cannot open any further file (RLIMIT_NOFILE = 0, as under descriptor
			// exhaustion): an error is an answer, a wrong listing is not
			w.Flush()
			var old syscall.Rlimit
			_ = syscall.Getrlimit(syscall.RLIMIT_NOFILE, &old)
			_ = syscall.Setrlimit(syscall.RLIMIT_NOFILE, &syscall.Rlimit{Cur: 0, Max: old.Max})
			ms, err := st.GetMessages(name)
			_ = syscall.Setrlimit(syscall.RLIMIT_NOFILE, &old)
			ev["r"] = errClass(err)
			if err != nil {
				ev["r"] = "err"
				ev["msgs"] = []tr.Msg{}
			} else {
				ev["msgs"] = tr.ProjectMsgs(ms)
			}
		case "get":
			id := realID(op.Mb, op.ID)
			ev["id"] = id
			m, err := st.GetMessage(name, id)
			ev["r"] = errClass(err)
			if err == nil {
				if m == nil {
					ev["r"] = "nil"
				} else {
					ev["msg"] = tr.ProjectMsg(m)
				}
			}
		case "latest":
			m, err := st.GetMessage(name, "latest")
			ev["r"] = errClass(err)
			if err == nil {
				if m == nil {
					ev["r"] = "nil"
				} else {
					ev["msg"] = tr.ProjectMsg(m)
				}
			}
		case "list":
			ms, err := st.GetMessages(name)
			ev["r"] = errClass(err)
			ev["msgs"] = tr.ProjectMsgs(ms)
		case "seen":
			id := realID(op.Mb, op.ID)
			ev["id"] = id
			ev["r"] = errClass(st.MarkSeen(name, id))
		case "remove":
			id := realID(op.Mb, op.ID)
			ev["id"] = id
			ev["r"] = errClass(st.RemoveMessage(name, id))
		case "purge":
			ev["r"] = errClass(st.PurgeMessages(name))
		case "visit":
			lists := [][]tr.Msg{}
			err := st.VisitMailboxes(func(ms []storage.Message) bool {
				if len(ms) > 0 {
					lists = append(lists, tr.ProjectMsgs(ms))
				}
				return true
			})
			ev["r"] = errClass(err)
			ev["lists"] = lists
		case "probe":
			// every by-id read for every id reference of every mailbox, latest, and a visit,
			// recorded as one event with one snapshot
			reads := []tr.Ev{}
			rd := func(kind, nm, id string) {
				pe := tr.Ev{"k": kind, "mb": nm, "id": id}
				m, err := st.GetMessage(nm, id)
				pe["r"] = errClass(err)
				if err == nil {
					if m == nil {
						pe["r"] = "nil"
					} else {
						pe["msg"] = tr.ProjectMsg(m)
					}
				}
				reads = append(reads, pe)
			}
			for mbi, nm := range b.Names {
				for k := 1; k <= len(issued[mbi])+1; k++ {
					rd("get", nm, realID(mbi, k))
				}
				rd("latest", nm, "latest")
			}
			ev["reads"] = reads
			// the pseudo-id "latest" names a message only when one is fetched: marking or removing "latest" (and the empty
			// id) names nothing
			pseudo := []tr.Ev{}
			for _, nm := range b.Names {
				for _, id := range []string{"latest", ""} {
					pseudo = append(pseudo, tr.Ev{"k": "seen", "mb": nm, "id": id, "r": errClass(st.MarkSeen(nm, id))})
					pseudo = append(pseudo, tr.Ev{"k": "remove", "mb": nm, "id": id, "r": errClass(st.RemoveMessage(nm, id))})
				}
			}
			ev["pseudo"] = pseudo
			lists := [][]tr.Msg{}
			err := st.VisitMailboxes(func(ms []storage.Message) bool {
				if len(ms) > 0 {
					lists = append(lists, tr.ProjectMsgs(ms))
				}
				return true
			})
			ev["r"] = errClass(err)
			ev["lists"] = lists
		case "scan":
			// retention period of 500 h: class-0 messages (1000 h old) are expired
			period := time.Since(baseTime) + 500*time.Hour
			dates := append([]string{}, oldDates...)
			if b.Events {
				// deliveries through the manager are dated "now": expire everything that is in the store
				period = time.Nanosecond
				before, _ := tr.Snapshot(st, b.Names)
				for _, bx := range before {
					for _, m := range bx.Msgs {
						dates = append(dates, m.Meta.Date)
					}
				}
				time.Sleep(time.Millisecond)
			}
			rs := storage.NewRetentionScanner(config.Storage{RetentionPeriod: period, RetentionSleep: 0}, st)
			ev["r"] = errClass(rs.DoScan(context.Background()))
			ev["olddates"] = dates
		case "reopen":
			// op.ID carries the cap of the reopened store
			curCap = op.ID
			ev["cap"] = curCap
			if b.Store == "file" {
				st2, err := newStore(b.Store, curCap, b.MaxKB, dir, host)
				ev["r"] = errClass(err)
				if err == nil {
					st = st2
				}
			} else {
				ev["r"] = "ok"
			}
		default:
			ev["r"] = "harness-error: unknown op"
		}
		if after != nil {
			after(i)
		}
		snapInto(ev)
		w.Emit(ev)
	}
	if b.Events {
		evs := flushEvents(host, rec)
		end := tr.Ev{"a": "events", "t": b.ID, "evs": evs}
		snapInto(end)
		w.Emit(end)
	}
}

func cmdStore(args []string) error {
	if len(args) != 2 {
		return fmt.Errorf("usage: vh store <behaviours.json> <trace.ndjson>")
	}
	raw, err := os.ReadFile(args[0])
	if err != nil {
		return err
	}
	var in storeInput
	if err := json.Unmarshal(raw, &in); err != nil {
		return err
	}
	w, err := tr.NewWriter(args[1])
	if err != nil {
		return err
	}
	defer w.Close()
	base := ""
	if st, err := os.Stat("/dev/shm"); err == nil && st.IsDir() {
		base = "/dev/shm"
	}
	scratch, err := os.MkdirTemp(base, "vh-store-")
	if err != nil {
		return err
	}
	defer os.RemoveAll(scratch)
	for i, b := range in.Behaviours {
		runStoreBehaviour(w, b, in.Seed*1000003+int64(i), scratch)
	}
	fmt.Fprintf(os.Stderr, "store: %d behaviours, %d events\n", len(in.Behaviours), w.N)
	return nil
}

var _ = io.EOF
