package main

// Driver for the wildcard table of C05: records what stringutil.MatchWithWildcards
// answers for every (pattern, string) pair it is given.  No pass/fail logic.

import (
	"encoding/json"
	"fmt"
	"os"
	"strings"

	"github.com/inbucket/inbucket/v3/pkg/stringutil"

	"verif/harness/internal/tr"
)

func chars(s string) []string {
	out := []string{}
	for _, r := range s {
		out = append(out, string(r))
	}
	return out
}

func cmdWild(args []string) error {
	if len(args) != 2 {
		return fmt.Errorf("usage: vh wild <pairs.json> <trace.ndjson>")
	}
	raw, err := os.ReadFile(args[0])
	if err != nil {
		return err
	}
	var in struct {
		Behaviours []struct {
			ID    string     `json:"id"`
			Pairs [][]string `json:"pairs"`
		} `json:"behaviours"`
	}
	if err := json.Unmarshal(raw, &in); err != nil {
		return err
	}
	w, err := tr.NewWriter(args[1])
	if err != nil {
		return err
	}
	defer w.Close()
	for _, b := range in.Behaviours {
		w.Emit(tr.Ev{"a": "reset", "t": b.ID})
		for _, ps := range b.Pairs {
			p, s := ps[0], ps[1]
			w.Emit(tr.Ev{"a": "match", "t": b.ID, "p": chars(p), "s": chars(s), "r": stringutil.MatchWithWildcards(p, s),
				"rl": stringutil.MatchWithWildcards(p, strings.ToLower(s))})
		}
	}
	return nil
}
