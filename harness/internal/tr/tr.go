// Package tr writes ndjson traces and holds the projection functions that map
// real store state to the abstract state of the TLA+ contract (DESIGN.md 3.3).
package tr

import (
	"bufio"
	"crypto/sha256"
	"encoding/hex"
	"encoding/json"
	"io"
	"os"
	"sort"
	"sync"

	"github.com/inbucket/inbucket/v3/pkg/storage"
	"github.com/inbucket/inbucket/v3/pkg/stringutil"
)

// Ev is one trace event.
type Ev map[string]interface{}

// Writer is a concurrency-safe ndjson writer.
type Writer struct {
	mu sync.Mutex
	f  *os.File
	w  *bufio.Writer
	N  int
}

func NewWriter(path string) (*Writer, error) {
	f, err := os.Create(path)
	if err != nil {
		return nil, err
	}
	return &Writer{f: f, w: bufio.NewWriterSize(f, 1<<20)}, nil
}

func (w *Writer) Emit(ev Ev) {
	b, err := json.Marshal(ev)
	if err != nil {
		panic(err)
	}
	w.mu.Lock()
	w.w.Write(b)
	w.w.WriteByte('\n')
	w.N++
	w.mu.Unlock()
}

// EmitBlock writes several events contiguously.
func (w *Writer) EmitBlock(evs []Ev) {
	w.mu.Lock()
	for _, ev := range evs {
		b, err := json.Marshal(ev)
		if err != nil {
			panic(err)
		}
		w.w.Write(b)
		w.w.WriteByte('\n')
		w.N++
	}
	w.mu.Unlock()
}

func (w *Writer) Flush() { w.mu.Lock(); w.w.Flush(); w.mu.Unlock() }
func (w *Writer) Close() error {
	w.Flush()
	return w.f.Close()
}

// Meta is the abstract metadata of a message: everything a reader can see
// except id, size and seen flag.
type Meta struct {
	From    string   `json:"from"`
	To      []string `json:"to"`
	Subject string   `json:"subject"`
	Date    string   `json:"date"`
	Hash    string   `json:"hash"`
}

// Msg is the abstract message record of Mailstore.tla.
type Msg struct {
	ID   string `json:"id"`
	Meta Meta   `json:"meta"`
	Size int64  `json:"size"`
	Seen bool   `json:"seen"`
}

// Box is one entry of a store snapshot.
type Box struct {
	Mb   string `json:"mb"`
	Msgs []Msg  `json:"msgs"`
}

func HashBytes(b []byte) string {
	h := sha256.Sum256(b)
	return hex.EncodeToString(h[:8])
}

// ProjectMsg reads everything observable about a stored message.
func ProjectMsg(m storage.Message) Msg {
	out := Msg{ID: m.ID(), Size: m.Size(), Seen: m.Seen()}
	out.Meta.From = stringutil.StringAddress(m.From())
	out.Meta.To = stringutil.StringAddressList(m.To())
	if out.Meta.To == nil {
		out.Meta.To = []string{}
	}
	out.Meta.Subject = m.Subject()
	out.Meta.Date = m.Date().UTC().Format("2006-01-02T15:04:05.000000000Z")
	r, err := m.Source()
	if err != nil {
		out.Meta.Hash = "source-error:" + err.Error()
		return out
	}
	b, err := io.ReadAll(r)
	_ = r.Close()
	if err != nil {
		out.Meta.Hash = "read-error:" + err.Error()
		return out
	}
	out.Meta.Hash = HashBytes(b)
	if int64(len(b)) != out.Size {
		// size reported differs from content length: make it visible in the projection
		out.Meta.Hash += "/len=" + itoa(len(b))
	}
	return out
}

// Lite is the projection of a message used for reads that run concurrently with writers: what
// GetMessage / GetMessages themselves return (identity, metadata, size), without the content, which
// is read separately and later, and without the seen flag, which the memory store keeps in the live
// message object.
type Lite struct {
	ID      string   `json:"id"`
	From    string   `json:"from"`
	To      []string `json:"to"`
	Subject string   `json:"subject"`
	Date    string   `json:"date"`
	Size    int64    `json:"size"`
}

func ProjectLite(m storage.Message) Lite {
	out := Lite{ID: m.ID(), Size: m.Size(), From: stringutil.StringAddress(m.From()), To: stringutil.StringAddressList(m.To()), Subject: m.Subject()}
	if out.To == nil {
		out.To = []string{}
	}
	out.Date = m.Date().UTC().Format("2006-01-02T15:04:05.000000000Z")
	return out
}

func ProjectLites(ms []storage.Message) []Lite {
	out := make([]Lite, 0, len(ms))
	for _, m := range ms {
		out = append(out, ProjectLite(m))
	}
	return out
}

func itoa(n int) string {
	b, _ := json.Marshal(n)
	return string(b)
}

func ProjectMsgs(ms []storage.Message) []Msg {
	out := make([]Msg, 0, len(ms))
	for _, m := range ms {
		out = append(out, ProjectMsg(m))
	}
	return out
}

// Snapshot projects the whole store: the union of what VisitMailboxes shows
// (keyed by the mailbox name the visited messages report) and what
// GetMessages shows for every name in known.  When both views agree there is
// one entry per non-empty mailbox; any disagreement leaves two entries, which
// no abstract state matches.
func Snapshot(s storage.Store, known []string) (boxes []Box, errs []string) {
	seen := map[string]bool{}
	add := func(b Box) {
		if len(b.Msgs) == 0 {
			return
		}
		k, _ := json.Marshal(b)
		if seen[string(k)] {
			return
		}
		seen[string(k)] = true
		boxes = append(boxes, b)
	}
	visited := 0
	err := s.VisitMailboxes(func(ms []storage.Message) bool {
		if len(ms) > 0 {
			visited++
			pm := ProjectMsgs(ms)
			// a visited list must report one mailbox name
			name := ms[0].Mailbox()
			for _, m := range ms {
				if m.Mailbox() != name {
					name = name + "|" + m.Mailbox()
				}
			}
			add(Box{Mb: name, Msgs: pm})
		}
		return true
	})
	if err != nil {
		errs = append(errs, "visit: "+err.Error())
	}
	nonEmptyKnown := 0
	for _, name := range known {
		ms, err := s.GetMessages(name)
		if err != nil {
			errs = append(errs, "list "+name+": "+err.Error())
			continue
		}
		if len(ms) > 0 {
			nonEmptyKnown++
		}
		add(Box{Mb: name, Msgs: ProjectMsgs(ms)})
	}
	if visited != nonEmptyKnown {
		errs = append(errs, "visit saw "+itoa(visited)+" non-empty mailboxes, list saw "+itoa(nonEmptyKnown))
	}
	sort.Slice(boxes, func(i, j int) bool { return boxes[i].Mb < boxes[j].Mb })
	if boxes == nil {
		boxes = []Box{}
	}
	return boxes, errs
}
