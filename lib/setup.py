"""bin/check --setup: offline build of the framework: harness binaries (warms the Go build cache) and a SANY parse of every module."""
import os
import subprocess
import sys

from lib.vlib import GOENV, HARNESS, OUT, SPEC, REPO, TLC_JAR
import shutil


def main():
    os.makedirs(os.path.join(OUT, "bin"), exist_ok=True)
    if not os.path.exists(os.path.join(HARNESS, "go.sum")):
        shutil.copy(os.path.join(REPO, "go.sum"), os.path.join(HARNESS, "go.sum"))
    rc = 0
    for race in (False, True):
        out = os.path.join(OUT, "bin", "vh-race" if race else "vh")
        cmd = ["go", "build", "-tags", "verif"] + (["-race"] if race else []) + ["-o", out, "./cmd/vh"]
        p = subprocess.run(cmd, cwd=HARNESS, env=GOENV)
        rc |= p.returncode
    for f in sorted(os.listdir(SPEC)):
        if f.endswith(".tla"):
            p = subprocess.run(["java", "-cp", TLC_JAR, "tla2sany.SANY", f], cwd=SPEC, capture_output=True, text=True)
            ok = p.returncode == 0 and "*** Errors" not in p.stdout
            print("sany %-28s %s" % (f, "ok" if ok else "FAILED"))
            if not ok:
                print(p.stdout[-1500:])
                rc |= 1
    return rc
