"""Shared machinery of the inbucket verification pipeline (DESIGN.md section 2.2).

Stages: parse/model-check a TLA+ module with TLC, generate behaviours with TLC,
replay them against the real code with the Go harness, validate the recorded
traces with TLC against the contract (trace specification), write evidence,
decide the verdict.

Exit codes: 0 held, 1 violation (only from real-code traces), 2 inconclusive
(harness/model/tool failure; never a violation).
"""
import concurrent.futures as cf
import hashlib
import json
import os
import re
import shutil
import subprocess
import sys
import tempfile
import time

ROOT = os.path.dirname(os.path.dirname(os.path.abspath(__file__)))
SPEC = os.path.join(ROOT, "spec")
OUT = os.path.join(ROOT, "out")
if os.environ.get("VERIF_SCRATCH_OUT"):       # seeded/try.sh: a run against a modified scratch tree writes its replays and evidence elsewhere
    OUT = os.path.join(os.environ["VERIF_SCRATCH_OUT"], "out")
HARNESS = os.path.join(ROOT, "harness")
EVIDENCE = os.path.join(ROOT, "evidence") if not os.environ.get("VERIF_SCRATCH_OUT") else os.path.join(os.environ["VERIF_SCRATCH_OUT"], "evidence")
KNOWN = os.path.join(ROOT, "known_findings.txt")
REPO = os.environ.get("VERIF_REPO", "/repo")

GOENV = dict(os.environ, GOFLAGS="-mod=mod", GOPROXY="off", GOSUMDB="off", GOTOOLCHAIN="local")
TLC_JAR = "/opt/veriftools/tla/tla2tools.jar:/opt/veriftools/tla/CommunityModules-deps.jar"


class Inconclusive(Exception):
    pass


def sha1hex(s):
    return hashlib.sha1(s.encode()).hexdigest()


def known_findings():
    """-> (findings: {pid: [(key, text)]}, fixed: [line])"""
    findings, fixed = {}, []
    if os.path.exists(KNOWN):
        for line in open(KNOWN):
            line = line.strip()
            if line.startswith("finding:"):
                m = re.match(r"finding:\s+property=(\S+)\s+key=(\S+)\s+(.*)", line)
                if m:
                    findings.setdefault(m.group(1), []).append((m.group(2), m.group(3)))
            elif line.startswith("fixed:"):
                fixed.append(line)
    return findings, fixed


class Run:
    def __init__(self, pid, tier, seed, level="model_checking", keep_replays=False):
        self.pid, self.tier, self.seed, self.level = pid, tier, seed, level
        self.t0 = time.time()
        self.work = tempfile.mkdtemp(prefix="verif-%s-" % pid)
        self.outdir = os.path.join(OUT, pid)
        os.makedirs(self.outdir, exist_ok=True)
        os.makedirs(EVIDENCE, exist_ok=True)
        for f in os.listdir(self.outdir):           # replay files of an earlier run with the same tier and seed
            if f.startswith("replay-%s-%d-" % (tier, seed)) and not keep_replays:
                os.unlink(os.path.join(self.outdir, f))
        self.violations = []      # dicts with 'replay'
        self.known_hits = {}      # key -> text
        self.cov = {"evaluations": 0, "distinct_nontrivial": 0, "states": 0, "transitions": 0,
                    "traces_validated_against_impl": 0, "samples": [], "exhaustive": False,
                    "rule": "", "stages": []}
        self.assumptions = []
        self.findings = dict(known_findings()[0].get(pid, []))
        self.logf = open(os.path.join(self.outdir, "last-%s.log" % tier), "w")

    # ------------------------------------------------------------------ util
    def log(self, *a):
        msg = " ".join(str(x) for x in a)
        self.logf.write(msg + "\n")
        self.logf.flush()
        print("[%s %6.1fs] %s" % (self.pid, time.time() - self.t0, msg), file=sys.stderr, flush=True)

    def cleanup(self):
        shutil.rmtree(self.work, ignore_errors=True)

    def path(self, name):
        return os.path.join(self.work, name)

    # ------------------------------------------------------------- harness
    def build_harness(self, race=False):
        """Build the Go harness against /repo's current working tree (replace => /repo)."""
        # private binary per run: concurrent runs (and other builders) never swap it under us
        out = os.path.join(self.work, "vh-race" if race else "vh")
        sumf = os.path.join(HARNESS, "go.sum")
        if not os.path.exists(sumf):
            shutil.copy(os.path.join(REPO, "go.sum"), sumf)
        cmd = ["go", "build", "-tags", "verif"] + (["-race"] if race else []) + ["-o", out, "./cmd/vh"]
        hdir = HARNESS
        alt = os.environ.get("VERIF_REPO")
        if alt:
            # build against another checkout of inbucket (seeded/try.sh: a scratch worktree with a patch applied),
            # leaving /repo alone: private copy of the harness module with its replace directive rewritten
            hdir = os.path.join(self.work, "harness-alt")
            if not os.path.isdir(hdir):
                shutil.copytree(HARNESS, hdir)
                gm = open(os.path.join(hdir, "go.mod")).read().replace("=> /repo", "=> " + alt)
                open(os.path.join(hdir, "go.mod"), "w").write(gm)
        p = subprocess.run(cmd, cwd=hdir, env=GOENV, capture_output=True, text=True)
        if p.returncode != 0:
            self.log("harness build failed:\n" + p.stdout + p.stderr)
            raise Inconclusive("harness does not build against /repo (a change that does not compile is not a property violation)")
        return out

    def harness(self, binary, args, timeout=600, env=None, ok_codes=(0,)):
        e = dict(os.environ)
        e["TMPDIR"] = self.work
        if env:
            e.update(env)
        t = time.time()
        try:
            p = subprocess.run([binary] + args, capture_output=True, text=True, errors="replace", timeout=timeout, env=e, cwd=self.work)
        except subprocess.TimeoutExpired:
            raise Inconclusive("harness timed out: %s" % " ".join(args))
        self.log("harness %s: rc=%d %.1fs %s" % (args[0], p.returncode, time.time() - t, p.stderr.strip()[-300:]))
        if p.returncode not in ok_codes:
            self.log(p.stdout[-2000:] + p.stderr[-4000:])
            raise Inconclusive("harness failed: %s" % " ".join(args))
        return p

    def _run_slice(self, binary, cmd, sl, label, i, timeout, extra_args, crashes):
        """Runs one slice of behaviours.  If the harness process dies (a panic in a goroutine of the
        code under test kills it), the behaviour that was running is recorded in `crashes`, its partial
        trace is dropped and the rest of the slice is run in a fresh process: one crash never hides
        the other behaviours."""
        out = self.path("trace-%s-%d.ndjson" % (label, i))
        open(out, "w").close()
        rest = list(sl)
        rounds = 0
        while rest:
            rounds += 1
            bf = self.path("beh-%s-%d-%d.json" % (label, i, rounds))
            tf = self.path("trace-%s-%d-%d.ndjson" % (label, i, rounds))
            json.dump({"seed": self.seed, "behaviours": rest}, open(bf, "w"))
            e = dict(os.environ)
            e["TMPDIR"] = self.work
            try:
                p = subprocess.run([binary, cmd, bf, tf] + (extra_args or []), capture_output=True, text=True, errors="replace", timeout=timeout, env=e, cwd=self.work)
            except subprocess.TimeoutExpired:
                raise Inconclusive("harness timed out: %s slice %d" % (cmd, i))
            os.unlink(bf)
            lines = open(tf).readlines() if os.path.exists(tf) else []
            if os.path.exists(tf):
                os.unlink(tf)
            # "marker" lines only say which behaviour (group) a driver was about to run; they are not part of the trace
            marked = lines
            lines = [l for l in lines if '"a":"marker"' not in l]
            if p.returncode == 0:
                open(out, "a").write("".join(lines))
                self.log("harness %s[%d]: ok %s" % (cmd, i, p.stderr.strip()[-120:]))
                break
            # crashed: which behaviour was running?
            last = None
            for l in reversed(marked):
                if '"a":"reset"' in l or '"a":"marker"' in l:
                    last = json.loads(l).get("t")
                    break
            ids = [b.get("id") for b in rest]
            if last is not None:
                last = last.split("#")[0]          # drivers that repeat a behaviour label the runs id#n
            if last is None or last not in ids or crashes is None:
                self.log(p.stdout[-2000:] + p.stderr[-4000:])
                raise Inconclusive("harness %s failed (rc=%d) and the failure cannot be attributed to a behaviour" % (cmd, p.returncode))
            k = ids.index(last)
            keep = [l for l in lines if ('"t":"%s"' % last) not in l and ('"t":"%s#' % last) not in l]
            open(out, "a").write("".join(keep))
            sig = [x for x in p.stderr.splitlines() if x.startswith("panic:") or x.startswith("fatal error:") or "WARNING: DATA RACE" in x]
            crashes.append({"behaviour": rest[k], "rc": p.returncode, "signature": sig[:3], "stderr_tail": p.stderr[-3000:]})
            self.log("harness %s[%d]: process died (rc=%d) while running behaviour %s: %s" % (cmd, i, p.returncode, last, sig[:1]))
            rest = rest[k + 1:]
            if rounds >= 4:
                self.log("harness %s[%d]: %d crashes in this slice; the remaining %d behaviours of the slice are not run" % (cmd, i, rounds, len(rest)))
                break
        return out

    def harness_parallel(self, binary, cmd, behaviours, label, procs=8, timeout=1500, extra_args=None, crashes=None):
        """Run a behaviour-list driver on slices in parallel; returns the concatenated trace path.
        crashes: list to collect behaviours during which the process died (None: a crash is inconclusive)."""
        n = max(1, min(procs, len(behaviours) // 20 + 1))
        slices = [behaviours[i::n] for i in range(n)]
        with cf.ThreadPoolExecutor(max_workers=n) as ex:
            futs = [ex.submit(self._run_slice, binary, cmd, sl, label, i, timeout, extra_args, crashes) for i, sl in enumerate(slices)]
            outs = [f.result() for f in futs]
        out = self.path("trace-%s.ndjson" % label)
        with open(out, "w") as o:
            for tf in outs:
                with open(tf) as i:
                    shutil.copyfileobj(i, o)
                os.unlink(tf)
        return out

    # ----------------------------------------------------------------- TLC
    def _stage_dir(self, name):
        d = tempfile.mkdtemp(prefix=name + "-", dir=self.work)
        for f in os.listdir(SPEC):
            if f.endswith(".tla"):
                shutil.copy(os.path.join(SPEC, f), d)
        return d

    def tlc(self, module, cfg_text, workers=1, timeout=900, env=None, extra=None, heap=None):
        d = self._stage_dir(module)
        open(os.path.join(d, "run.cfg"), "w").write(cfg_text)
        cmd = ["java", "-XX:+UseParallelGC", "-Xss64m"]
        if heap:
            cmd.append("-Xmx" + heap)
        cmd += ["-cp", TLC_JAR, "tlc2.TLC", "-workers", str(workers), "-metadir", os.path.join(d, "meta"),
                "-config", "run.cfg"] + (extra or []) + [module + ".tla"]
        e = dict(os.environ)
        if env:
            e.update(env)
        t = time.time()
        try:
            p = subprocess.run(cmd, cwd=d, env=e, capture_output=True, text=True, errors="replace", timeout=timeout)
            out, rc = p.stdout + p.stderr, p.returncode
        except subprocess.TimeoutExpired as ex:
            out = (ex.stdout or b"").decode(errors="replace") if isinstance(ex.stdout, bytes) else (ex.stdout or "")
            rc = 124
            subprocess.run(["pkill", "-f", d], capture_output=True)
        shutil.rmtree(d, ignore_errors=True)
        return rc, out, time.time() - t

    @staticmethod
    def tlc_stats(out):
        m = re.search(r"(\d+) states generated, (\d+) distinct states found", out)
        d = re.search(r"depth of the complete state graph search is (\d+)", out)
        return {"generated": int(m.group(1)) if m else 0, "distinct": int(m.group(2)) if m else 0,
                "depth": int(d.group(1)) if d else 0}

    def model_check(self, module, cfg_text, workers=16, timeout=1500, label=None, simulate=None):
        """Stage 2: exhaustive (or simulated) check of a model.  A counterexample here is a
        bug in the specification or a prediction, never a violation -> Inconclusive."""
        extra = []
        if simulate:
            extra = ["-simulate", "num=%d" % simulate["num"], "-depth", str(simulate["depth"]), "-seed", str(self.seed)]
        rc, out, dt = self.tlc(module, cfg_text, workers=workers, timeout=timeout, extra=extra, heap="12g")
        st = self.tlc_stats(out)
        self.log("model-check %s: rc=%d generated=%d distinct=%d depth=%d %.1fs" %
                 (label or module, rc, st["generated"], st["distinct"], st["depth"], dt))
        if rc != 0 or ("No error has been found" not in out and not simulate):
            self.log(out[-6000:])
            raise Inconclusive("model check of %s did not pass (rc=%d): specification-level problem, not a verdict about the code" % (module, rc))
        self.cov["states"] += st["distinct"]
        self.cov["transitions"] += st["generated"]
        self.cov["stages"].append({"stage": "model-check", "module": label or module, "generated": st["generated"],
                                   "distinct": st["distinct"], "depth": st["depth"], "wall_s": round(dt, 1),
                                   "mode": "simulate" if simulate else "exhaustive"})
        return st, out

    def generate(self, module, cfg_text, workers=4, timeout=900, simulate=None, tag="BEHAVIOUR"):
        """Stage 3: behaviours printed by the model as <<"BEHAVIOUR", json>> lines (deduplicated)."""
        extra = []
        if simulate:
            extra = ["-simulate", "num=%d" % simulate["num"], "-depth", str(simulate["depth"]), "-seed", str(simulate.get("seed", self.seed))]
            workers = 1
        rc, out, dt = self.tlc(module, cfg_text, workers=workers, timeout=timeout, extra=extra, heap="8g")
        seen, res = set(), []
        for line in out.splitlines():
            line = line.strip()
            if line.startswith('<<"%s", "' % tag) and line.endswith('">>'):
                body = line[len('<<"%s", ' % tag):-2]
                try:
                    js = json.loads(body)           # TLA+ string literal == JSON string literal here
                except Exception:
                    continue
                if js in seen:
                    continue
                seen.add(js)
                res.append(json.loads(js))
        st = self.tlc_stats(out)
        self.log("generate %s: rc=%d behaviours=%d (distinct states %d) %.1fs" % (module, rc, len(res), st["distinct"], dt))
        if rc != 0 and not (simulate and res):
            self.log(out[-4000:])
            raise Inconclusive("behaviour generation with %s failed (rc=%d)" % (module, rc))
        self.cov["stages"].append({"stage": "generate", "module": module, "behaviours": len(res),
                                   "mode": "simulate" if simulate else "bfs-exhaustive", "wall_s": round(dt, 1)})
        return res

    # ---------------------------------------------------------- validation
    def _validate_chunk(self, module, cfg_text, items, env, max_rej):
        """Validate one chunk: items = [(trace id, raw ndjson line)], complete traces.
        Returns (accepted_trace_ids, rejections, deviations).  After a rejection the
        rejected trace is dropped and the rest of the chunk is validated again, so one
        rejection never hides the others (up to max_rej per chunk)."""
        rejections, deviations = [], []
        items = list(items)
        retries = 0
        while items:
            tf = tempfile.NamedTemporaryFile("w", suffix=".ndjson", dir=self.work, delete=False)
            tf.write("".join(l for _, l in items))
            tf.close()
            af = tf.name + ".allowed"
            with open(af, "w") as f:
                for k in sorted(self.findings):
                    f.write(json.dumps({"key": k}) + "\n")
                if not self.findings:
                    f.write(json.dumps({"key": "(none)"}) + "\n")
            e = {"VERIF_TRACE": tf.name, "VERIF_ALLOWED": ",".join(sorted(self.findings)), "VERIF_ALLOWED_FILE": af}
            e.update(env or {})
            rc, out, dt = self.tlc(module, cfg_text, workers=1, timeout=1200, env=e, heap="4g")
            os.unlink(tf.name)
            os.unlink(af)
            for m in re.finditer(r'<<"DEVIATION", "([^"]+)", (\d+)>>', out):
                deviations.append(m.group(1))
            if rc == 0 and "No error has been found" in out:
                return set(t for t, _ in items), rejections, deviations
            m = re.search(r'<<"REJECTED_AT", (\d+)>>', out)
            if not m and retries < 2 and rc != 150:       # 150 = the specification does not parse: no point in retrying
                # TLC itself failed (seen under heavy machine load: exit 255 without a verdict): try again
                retries += 1
                self.log("validate %s: TLC ended with rc=%d and no verdict; retry %d" % (module, rc, retries))
                time.sleep(2 * retries)
                continue
            if not m:
                errs = [x for x in out.splitlines() if x.startswith("Error") or "Exception" in x or "Attempted" in x or "violated" in x]
                self.log("\n".join(errs[:20]))
                self.log(out[-2500:] if rc != 150 else "\n".join(out.splitlines()[-60:-40]))
                raise Inconclusive("trace validation with %s failed without a rejection point (rc=%d)" % (module, rc))
            k = int(m.group(1))                     # 1-based index of the first unmatched line
            tid = items[k - 1][0]
            first = next(i for i, (t, _) in enumerate(items) if t == tid)
            trace = [json.loads(l) for t, l in items[first:k] if t == tid]
            inv = re.search(r"Invariant (\S+) is violated", out)
            rejections.append({"trace": tid, "rejected_event_index": len(trace) - 1, "rejected_event": trace[-1],
                               "accepted_prefix": trace[:-1], "invariant": inv.group(1) if inv else None})
            if len(rejections) >= max_rej:
                return set(), rejections, deviations
            items = [(t, l) for t, l in items if t != tid]
        return set(), rejections, deviations

    def validate(self, module, cfg_text, trace_file, env=None, max_rej=3, parallel=8):
        """Stage 5: validate all traces of an ndjson file.  Returns dict(accepted, rejections, deviations, events)."""
        lines = open(trace_file).readlines()
        # group by trace id preserving order
        groups, order = {}, []
        for l in lines:
            m = re.search(r'"t":"([^"]*)"', l)
            tid = m.group(1) if m else ""
            if tid not in groups:
                groups[tid] = []
                order.append(tid)
            groups[tid].append(l)
        n = max(1, min(parallel, len(order) // 50 + 1))
        chunks = [[] for _ in range(n)]
        for i, tid in enumerate(order):
            chunks[i % n].extend((tid, l) for l in groups[tid])
        t = time.time()
        accepted, rejections, deviations = set(), [], []
        with cf.ThreadPoolExecutor(max_workers=n) as ex:
            futs = [ex.submit(self._validate_chunk, module, cfg_text, c, env, max_rej) for c in chunks if c]
            for f in futs:
                a, r, d = f.result()
                accepted |= a
                rejections += r
                deviations += d
        self.log("validate %s: %d events, %d traces, accepted=%d rejected=%d deviations=%d %.1fs" %
                 (module, len(lines), len(order), len(accepted), len(rejections), len(deviations), time.time() - t))
        self.cov["traces_validated_against_impl"] += len(accepted)
        self.cov["stages"].append({"stage": "validate", "module": module, "events": len(lines), "traces": len(order),
                                   "accepted": len(accepted), "rejected": len(rejections), "wall_s": round(time.time() - t, 1)})
        for k in set(deviations):
            self.known_hits[k] = self.findings.get(k, "")
        return {"accepted": accepted, "rejections": rejections, "deviations": deviations, "events": len(lines), "traces": len(order)}

    # -------------------------------------------------------------- verdict
    def violation(self, what, detail):
        """Record a violation observed on the real code; writes the replay file."""
        n = len(self.violations) + 1
        path = os.path.join(self.outdir, "replay-%s%s-%d-%d.json" % ("re" if getattr(self, "replay_mode", False) else "", self.tier, self.seed, n))
        detail = dict(detail)
        detail.update({"property": self.pid, "what": what, "tier": self.tier, "seed": self.seed})
        json.dump(detail, open(path, "w"), indent=1, default=str)
        self.violations.append({"what": what, "replay": path})
        self.log("VIOLATION candidate: %s -> %s" % (what, path))

    def note(self, what, detail=None):
        """A departure from a contract in behaviour the property's statement does not cover (the specifications are grown
        beyond the listed properties): recorded in the evidence and printed, never a verdict."""
        if not hasattr(self, "notes"):
            self.notes = []
        path = os.path.join(self.outdir, "note-%s-%d-%d.json" % (self.tier, self.seed, len(self.notes) + 1))
        json.dump(dict(detail or {}, what=what, property=self.pid), open(path, "w"), indent=1, default=str)
        self.notes.append({"what": what, "file": path})
        self.log("NOTE (beyond the statement of %s, not a verdict): %s -> %s" % (self.pid, what, path))

    def finish(self, rule=None):
        if rule:
            self.cov["rule"] = rule
        if getattr(self, "notes", None):
            self.cov["beyond_statement_notes"] = [n["what"][:400] for n in self.notes[:20]]
            for n in self.notes[:20]:
                print("NOTE property=%s beyond-the-statement (not a verdict): %s" % (self.pid, n["what"][:600]))
        for k, text in sorted(self.known_hits.items()):
            print("KNOWN-FINDING: property=%s %s (%s)" % (self.pid, text, k))
        ev = {"property_id": self.pid, "tier": self.tier, "seed": self.seed, "level": self.level,
              "coverage": self.cov, "assumptions": self.assumptions,
              "wall_s": round(time.time() - self.t0, 1), "violations": len(self.violations),
              "known_findings_hit": sorted(self.known_hits)}
        if not self.cov["samples"]:
            self.cov["samples"] = ["(none recorded)"]
        json.dump(ev, open(os.path.join(EVIDENCE, self.pid + ".json"), "w"), indent=1, default=str)
        for v in self.violations:
            print("VIOLATION property=%s replay=%s" % (self.pid, v["replay"]))
            print("  " + v["what"])
        self.cleanup()
        return 1 if self.violations else 0


def main_wrapper(fn, pid, level="model_checking"):
    """Entry used by bin/check: parses args, runs fn(run, args), maps exceptions to exit codes."""
    import argparse
    ap = argparse.ArgumentParser()
    ap.add_argument("--tier", default=os.environ.get("VERIF_TIER", "quick"), choices=["quick", "thorough"])
    ap.add_argument("--replay", default=None)
    ap.add_argument("--seed", type=int, default=int(os.environ.get("VERIF_SEED", "1")))
    args = ap.parse_args(sys.argv[2:])
    run = Run(pid, args.tier, args.seed, level, keep_replays=bool(args.replay))
    if args.replay:
        run.replay_mode = True
    try:
        fn(run, args)
        rc = run.finish()
    except Inconclusive as ex:
        run.log("INCONCLUSIVE: %s" % ex)
        print("INCONCLUSIVE property=%s %s" % (pid, ex))
        run.cleanup()
        rc = 2
    except Exception:
        import traceback
        traceback.print_exc()
        run.cleanup()
        rc = 2
    sys.exit(rc)
