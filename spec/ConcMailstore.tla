---------------------------- MODULE ConcMailstore ----------------------------
(***************************************************************************)
(* The Mailstore contract read for concurrent use (C09).  C09 counts the   *)
(* size enforcer among the concurrent clients: a delivery appends the      *)
(* message (and applies the mailbox cap) atomically and, when the store is *)
(* then over its size limit, dooms the store-wide oldest messages - as     *)
(* many as needed to fit; the enforcer evicts doomed messages in steps of  *)
(* its own, before the delivery returns.  A doomed message is evicted even *)
(* if the pressure has gone in the meantime.  Everything else is as in     *)
(* Mailstore.  Histories of the real stores are linearized against these   *)
(* actions (LinTrace.tla); the implementation-shaped model of the memory   *)
(* store refines them (MemStoreImpl.tla).                                  *)
(***************************************************************************)
EXTENDS Mailstore

VARIABLE doomed            \* set of <<mailbox, id>>: chosen for eviction, still in their mailbox
cvars == <<boxes, used, arrival, cap, limit, doomed>>

LiveNotDoomed(b, dm) ==
    FoldSet(LAMBDA m, acc : acc + SeqSize(SelectSeq(b[m], LAMBDA x : <<m, x.id>> \notin dm)), 0, Mailbox)

RECURSIVE DoomUntilFits(_, _, _, _)
DoomUntilFits(b, arr, dm, lim) ==
    LET cand == SelectSeq(arr, LAMBDA r : r \notin dm)
    IN  IF lim > 0 /\ LiveNotDoomed(b, dm) > lim /\ cand # <<>>
        THEN DoomUntilFits(b, arr, dm \cup {Head(cand)}, lim)
        ELSE dm

StillThere(b, dm) == {d \in dm : d[2] \in Ids(b, d[1])}

CInit(c, l) == Init(c, l) /\ doomed = {}

CAdd(m, id, meta, size) ==
    /\ AddBase(m, id, meta, size)
    /\ doomed' = DoomUntilFits(boxes', arrival', StillThere(boxes', doomed), limit)
CSeen(m, id)   == MarkSeen(m, id) /\ UNCHANGED doomed
CRemove(m, id) == RemoveMsg(m, id) /\ doomed' = doomed \ {<<m, id>>}
CPurge(m)      == Purge(m) /\ doomed' = {d \in doomed : d[1] # m}
CEvict         == \E d \in doomed : RemoveMsg(d[1], d[2]) /\ doomed' = doomed \ {d}
CRead          == UNCHANGED cvars

(* at rest: nothing doomed is left and the store is within its limit *)
AtRest == doomed = {} /\ SizeInv
(* while running: whatever is over the limit is doomed *)
OverLimitIsDoomed == limit > 0 => LiveNotDoomed(boxes, doomed) <= limit
=============================================================================
