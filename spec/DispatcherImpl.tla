---------------------------- MODULE DispatcherImpl ----------------------------
(***************************************************************************)
(* Implementation-shaped model (kind B) of pkg/extension/dispatcher.go     *)
(* with async_broker.go: how an after-event gets from the goroutine that   *)
(* emits it to the listeners (the message hub, a Lua script), and the      *)
(* order and exactly-once statements of C16 about that path.               *)
(*                                                                         *)
(*   Emit(e)   under the dispatcher's mutex: append a call to the lane of  *)
(*             every listener name; start the lane's drain goroutine when  *)
(*             it is not running;                                          *)
(*   drain     repeat { lock; if the lane is empty: running := FALSE,      *)
(*             unlock, return; take the first call; unlock; run it }.      *)
(*   One dispatcher is shared by the stored- and the deleted-broker of a   *)
(*   Host, and a lane belongs to a listener NAME: a listener registered    *)
(*   under one name for both sees the events in the order they happened.   *)
(*                                                                         *)
(* Deviations, each the shape of a change the checks met (predictions):    *)
(*   PerEvent     one goroutine per event and listener (the code before    *)
(*                a67b2b3): calls overlap and overtake each other;         *)
(*   RetireEarly  the lane is marked not running when its LAST call has    *)
(*                been taken, not when it has returned (seeded C16a): a    *)
(*                second drain goroutine starts while the call still runs; *)
(*   SplitNames   the hub registers as "hub.stored" / "hub.deleted"        *)
(*                (seeded C15h): two lanes, a delete overtakes its store;  *)
(*   DropBeyond   a lane holds a bounded number of waiting calls and drops  *)
(*                the oldest beyond it (seeded C16i): events are lost;      *)
(*   SharedBatch  drain takes the whole queue and empties it by re-slicing *)
(*                (seeded C15f): calls emitted meanwhile overwrite calls   *)
(*                of the batch that have not run.                          *)
(***************************************************************************)
EXTENDS Naturals, Sequences, FiniteSets

CONSTANTS Msgs,          \* message ids; each is announced "stored" and later perhaps "deleted"
          PerEvent, RetireEarly, SplitNames, SharedBatch,
          DropBeyond     \* 0: the lanes are unbounded (the code); n > 0: a lane holds at most n waiting calls, the oldest is dropped (seeded C16i)

Ev(k, m) == [k |-> k, m |-> m]
Lanes == IF SplitNames THEN {"hub.stored", "hub.deleted"} ELSE {"hub"}
LaneOf(e) == IF SplitNames THEN (IF e.k = "stored" THEN "hub.stored" ELSE "hub.deleted") ELSE "hub"

VARIABLES emitted,    \* events in the order they were announced
          queue,      \* lane -> Seq of events waiting
          running,    \* lane -> a drain goroutine exists
          active,     \* set of [lane, e, id]: calls of the listener that have started and not returned
          batch,      \* SharedBatch: lane -> [calls: the slice drain is walking, pos]; calls alias the queue's array
          done,       \* events whose listener call has returned, in the order the calls STARTED
          free,       \* PerEvent: events whose goroutine has not started its call yet
          nid
vars == <<emitted, queue, running, active, batch, done, free, nid>>

Init == /\ emitted = <<>> /\ queue = [l \in Lanes |-> <<>>] /\ running = [l \in Lanes |-> FALSE]
        /\ active = {} /\ batch = [l \in Lanes |-> <<>>] /\ done = <<>> /\ free = {} /\ nid = 0

Announced(k) == {emitted[i].m : i \in {j \in DOMAIN emitted : emitted[j].k = k}}
(* a store announces each message once; a delete only what has been stored *)
Emit(e) ==
    /\ e.m \notin Announced(e.k) /\ (e.k = "deleted" => e.m \in Announced("stored"))
    /\ emitted' = Append(emitted, e)
    /\ IF PerEvent
       THEN free' = free \cup {e} /\ UNCHANGED <<queue, running, batch>>
       ELSE /\ LET l == LaneOf(e) IN
                 /\ queue' = [queue EXCEPT ![l] = IF DropBeyond > 0 /\ Len(@) >= DropBeyond THEN Append(Tail(@), e) ELSE Append(@, e)]
                 /\ running' = [running EXCEPT ![l] = TRUE]
                 (* SharedBatch: the append goes into the array the batch still points at *)
                 /\ batch' = IF SharedBatch /\ batch[l] # <<>> /\ Len(queue[l]) + 1 <= Len(batch[l])
                             THEN [batch EXCEPT ![l] = [i \in DOMAIN @ |-> IF i = Len(queue[l]) + 1 THEN e ELSE @[i]]]
                             ELSE batch
            /\ UNCHANGED free
    /\ UNCHANGED <<active, done, nid>>

Begin(l, e) == /\ active' = active \cup {[lane |-> l, e |-> e, id |-> nid + 1]} /\ nid' = nid + 1
               /\ done' = Append(done, e)
(* drain takes the next call of lane l and starts it (only one call per drain goroutine at a time) *)
NoCallOf(l) == ~\E a \in active : a.lane = l
Take(l) ==
    /\ ~PerEvent /\ ~SharedBatch /\ running[l] /\ queue[l] # <<>>
    /\ (RetireEarly \/ NoCallOf(l))              \* as written one drain goroutine per lane: its previous call has returned
    /\ (RetireEarly => Cardinality({a \in active : a.lane = l}) < 2)
    /\ Begin(l, Head(queue[l]))
    /\ queue' = [queue EXCEPT ![l] = Tail(@)]
    /\ running' = IF RetireEarly /\ Tail(queue[l]) = <<>> THEN [running EXCEPT ![l] = FALSE] ELSE running
    /\ UNCHANGED <<emitted, batch, free>>
(* the lane is found empty: the drain goroutine ends *)
Retire(l) ==
    /\ ~PerEvent /\ running[l] /\ queue[l] = <<>> /\ NoCallOf(l) /\ batch[l] = <<>>
    /\ running' = [running EXCEPT ![l] = FALSE]
    /\ UNCHANGED <<emitted, queue, active, batch, done, free, nid>>
(* SharedBatch: take everything, re-slice the queue to length 0 (same array) *)
TakeBatch(l) ==
    /\ SharedBatch /\ running[l] /\ queue[l] # <<>> /\ batch[l] = <<>> /\ NoCallOf(l)
    /\ batch' = [batch EXCEPT ![l] = queue[l]] /\ queue' = [queue EXCEPT ![l] = <<>>]
    /\ UNCHANGED <<emitted, running, active, done, free, nid>>
RunBatch(l) ==
    /\ SharedBatch /\ batch[l] # <<>> /\ NoCallOf(l)
    /\ Begin(l, Head(batch[l]))
    /\ batch' = [batch EXCEPT ![l] = Tail(@)]
    /\ UNCHANGED <<emitted, queue, running, free>>
(* PerEvent: any waiting goroutine starts its call *)
Spawned(e) ==
    /\ PerEvent /\ e \in free /\ free' = free \ {e}
    /\ Begin("hub", e)
    /\ UNCHANGED <<emitted, queue, running, batch>>
Return(a) == /\ a \in active /\ active' = active \ {a}
             /\ UNCHANGED <<emitted, queue, running, batch, done, free, nid>>

Next == \/ \E k \in {"stored", "deleted"}, m \in Msgs : Emit(Ev(k, m))
        \/ \E l \in Lanes : Take(l) \/ Retire(l) \/ TakeBatch(l) \/ RunBatch(l)
        \/ \E e \in free : Spawned(e)
        \/ \E a \in active : Return(a)
Spec == Init /\ [][Next]_vars

(* Liveness: drain goroutines and listener calls keep running *)
FairSpec == Spec /\ \A l \in Lanes : WF_vars(Take(l)) /\ WF_vars(Retire(l)) /\ WF_vars(TakeBatch(l)) /\ WF_vars(RunBatch(l))
                 /\ WF_vars(\E a \in active : Return(a)) /\ WF_vars(\E e \in free : Spawned(e))
(* every announced event is handed to the listener in the end *)
Elems(sq) == {sq[i] : i \in DOMAIN sq}
EventuallyHandled == \A m \in Msgs, k \in {"stored", "deleted"} : (Ev(k, m) \in Elems(emitted)) ~> (Ev(k, m) \in Elems(done))

(***************************************************************************)
(* C16 on this path                                                        *)
(***************************************************************************)
(* a listener is never invoked for the next event before its previous invocation has finished *)
NoOverlap == Cardinality(active) <= 1
(* every call is a call for an announced event, none twice, in the order of the announcements *)
IsPrefix(s, t) == Len(s) <= Len(t) /\ s = SubSeq(t, 1, Len(s))
InOrderOnce == IsPrefix(done, emitted)
(* in particular a message's "stored" is seen before its "deleted" *)
StoredBeforeDeleted ==
    \A i \in DOMAIN done : done[i].k = "deleted" => \E j \in 1 .. (i - 1) : done[j] = Ev("stored", done[i].m)
(* nothing is lost: when everything has been worked off every announced event has been handed over *)
Quiet == active = {} /\ free = {} /\ \A l \in Lanes : queue[l] = <<>> /\ batch[l] = <<>>
NothingLost == Quiet => Len(done) = Len(emitted)
(* a lane with waiting calls always has a drain goroutine (nothing is stranded) *)
NoStranded == \A l \in Lanes : (queue[l] # <<>> /\ ~PerEvent) => (running[l] \/ \E a \in active : a.lane = l)
=============================================================================
