------------------------------ MODULE DotCodec ------------------------------
(***************************************************************************)
(* Contract (kind A) of message transparency, at the strength of property  *)
(* C02: what a client transmits in DATA is, after dot-unstuffing, what     *)
(* every read interface returns behind the server's trace headers, up to   *)
(* line-ending normalisation.                                              *)
(*                                                                         *)
(* TLA+ does not model bytes.  A message body is a string over the byte    *)
(* CLASSES the property quantifies over:                                   *)
(*    DOT  '.'      CR  '\r'      LF  '\n'                                  *)
(*    NUL  0x00     HI  0x80-0xFF CH  any other byte                        *)
(* NUL, HI and CH are plain data for every codec below; they are separate  *)
(* classes because the property names them and the concretiser spells them *)
(* differently.  One class = one byte, so lengths at class level are byte  *)
(* lengths.                                                                *)
(*                                                                         *)
(* Part 1: the codecs (client stuffing, the reference dot reader, the      *)
(*         normalising reader, Canon, the POP3 multi-line codec).          *)
(* Part 2: the round-trip theorems, as predicates of one class string      *)
(*         (GenDotCodec checks them for every string to a bounded length). *)
(* Part 3: the implementation-shaped reader (kind B): Go's                 *)
(*         net/textproto dotReader as inbucket uses it, state by state.    *)
(*         It is never the judge; it predicts on which class strings the   *)
(*         real server departs from the contract.                          *)
(* Part 4: the relations over one OBSERVATION record (what the harness     *)
(*         recorded for one message through the four read interfaces);     *)
(*         DotCodecTrace evaluates them on the real observations.          *)
(***************************************************************************)
EXTENDS Integers, Sequences, FiniteSets

Class == {"DOT", "CR", "LF", "NUL", "HI", "CH"}
Strings(n) == UNION {[1..k -> Class] : k \in 0..n}

EndsWith(s, c) == s # <<>> /\ s[Len(s)] = c
EndsLF(s) == EndsWith(s, "LF")
CRs(n) == [i \in 1..n |-> "CR"]
IsTail(t, s) == Len(t) <= Len(s) /\ SubSeq(s, Len(s) - Len(t) + 1, Len(s)) = t

----------------------------------------------------------------------------
(* Part 1a: Canon, the most generous reading of "other than CRLF/LF        *)
(* line-ending normalisation": every maximal CR* LF becomes LF, then at    *)
(* most one trailing LF is dropped.  A bare CR that is not directly before *)
(* a line end, a bare LF, NUL, 8-bit bytes, dots and the length survive.   *)
RECURSIVE NormFrom(_, _)
NormFrom(s, pend) ==
    IF s = <<>> THEN CRs(pend)
    ELSE LET c == Head(s)
         IN  IF c = "CR" THEN NormFrom(Tail(s), pend + 1)
             ELSE IF c = "LF" THEN <<"LF">> \o NormFrom(Tail(s), 0)
             ELSE CRs(pend) \o <<c>> \o NormFrom(Tail(s), 0)
NormLE(s) == NormFrom(s, 0)
DropLF(s) == IF EndsLF(s) THEN SubSeq(s, 1, Len(s) - 1) ELSE s
Canon(s)  == DropLF(NormLE(s))

(* Part 1b: the client.  A line starts at the start of the data and after  *)
(* EVERY LF, bare or preceded by CR (once a bare LF may count as a line    *)
(* end, a dot behind it is a leading dot); a leading dot is doubled.  The  *)
(* data is ended by CRLF "." CRLF, the first CRLF being the end of the     *)
(* last line if that line ends in CRLF, or the end of the DATA command if  *)
(* there is no data (RFC 5321 4.1.1.4); a body whose last line has no      *)
(* CRLF (none at all, or a bare LF) gets one, and that CRLF is part of     *)
(* what was transmitted.                                                   *)
RECURSIVE StuffFrom(_, _)
StuffFrom(s, bol) ==
    IF s = <<>> THEN <<>>
    ELSE LET c == Head(s)
         IN  (IF bol /\ c = "DOT" THEN <<"DOT", "DOT">> ELSE <<c>>) \o StuffFrom(Tail(s), c = "LF")
Stuff(s) == StuffFrom(s, TRUE)
EndsCRLF(s) == Len(s) >= 2 /\ s[Len(s) - 1] = "CR" /\ s[Len(s)] = "LF"
Pad(s)   == IF s = <<>> \/ EndsCRLF(s) THEN <<>> ELSE <<"CR", "LF">>
Term     == <<"DOT", "CR", "LF">>
Transmit(s) == Stuff(s) \o Pad(s) \o Term       \* what goes over the wire after the 354
Sent(s)     == s \o Pad(s)                      \* "the bytes the client transmitted in DATA after dot-unstuffing"

(* the RFC-strict client: only a dot behind CRLF (or at the start) is a    *)
(* leading dot.  Used for recorded observations only, never for a verdict. *)
RECURSIVE StrictFrom(_, _, _)
StrictFrom(s, bol, cr) ==
    IF s = <<>> THEN <<>>
    ELSE LET c == Head(s)
         IN  (IF bol /\ c = "DOT" THEN <<"DOT", "DOT">> ELSE <<c>>) \o StrictFrom(Tail(s), cr /\ c = "LF", c = "CR")
TransmitStrict(s) == StrictFrom(s, TRUE, FALSE) \o Pad(s) \o Term

(* Part 1c: the reference dot reader (transparent: it copies every byte it *)
(* does not remove).  At a line start "." CRLF (or "." LF) ends the data;  *)
(* any other leading dot is removed and the byte behind it copied.         *)
(* Result: [data, rest (unread input), done (terminator seen)].            *)
RECURSIVE RefFrom(_, _, _)
RefFrom(in, bol, out) ==
    IF in = <<>> THEN [data |-> out, rest |-> <<>>, done |-> FALSE]
    ELSE IF bol /\ Head(in) = "DOT"
    THEN LET r == Tail(in)
         IN  IF Len(r) >= 2 /\ r[1] = "CR" /\ r[2] = "LF" THEN [data |-> out, rest |-> SubSeq(r, 3, Len(r)), done |-> TRUE]
             ELSE IF Len(r) >= 1 /\ r[1] = "LF" THEN [data |-> out, rest |-> Tail(r), done |-> TRUE]
             ELSE IF r = <<>> THEN [data |-> out, rest |-> <<>>, done |-> FALSE]
             ELSE RefFrom(Tail(r), FALSE, Append(out, r[1]))
    ELSE RefFrom(Tail(in), Head(in) = "LF", Append(out, Head(in)))
ReadRef(in) == RefFrom(in, TRUE, <<>>)

(* Part 1d / Part 3: the dot reader as a byte-at-a-time state machine that *)
(* rewrites CRLF to LF (allowed: line-ending normalisation).  With quirk = *)
(* FALSE it is a correct normalising reader.  With quirk = TRUE it is Go's *)
(* net/textproto.dotReader exactly (go1.23 reader.go): in stateBeginLine   *)
(* any byte other than '.' and CR - also a LF - moves to stateData, so the *)
(* line that follows an EMPTY bare-LF line is not seen as a line start.    *)
RECURSIVE SmFrom(_, _, _, _)
SmFrom(in, st, out, quirk) ==
    IF st = "eof" THEN [data |-> out, rest |-> in, done |-> TRUE]
    ELSE IF in = <<>> THEN [data |-> out, rest |-> <<>>, done |-> FALSE]
    ELSE LET c == Head(in)
             r == Tail(in)
         IN  CASE st = "bol" ->
                    IF c = "DOT" THEN SmFrom(r, "dot", out, quirk)
                    ELSE IF c = "CR" THEN SmFrom(r, "cr", out, quirk)
                    ELSE SmFrom(r, IF c = "LF" /\ ~quirk THEN "bol" ELSE "data", Append(out, c), quirk)
               [] st = "dot" ->
                    IF c = "CR" THEN SmFrom(r, "dotcr", out, quirk)
                    ELSE IF c = "LF" THEN SmFrom(r, "eof", out, quirk)
                    ELSE SmFrom(r, "data", Append(out, c), quirk)
               [] st = "dotcr" ->
                    IF c = "LF" THEN SmFrom(r, "eof", out, quirk)
                    ELSE SmFrom(in, "data", Append(out, "CR"), quirk)          \* unread c, emit the saved CR
               [] st = "cr" ->
                    IF c = "LF" THEN SmFrom(r, "bol", Append(out, "LF"), quirk)
                    ELSE SmFrom(in, "data", Append(out, "CR"), quirk)          \* unread c, emit the saved CR
               [] st = "data" ->
                    IF c = "CR" THEN SmFrom(r, "cr", out, quirk)
                    ELSE SmFrom(r, IF c = "LF" THEN "bol" ELSE "data", Append(out, c), quirk)
ReadNorm(in) == SmFrom(in, "bol", <<>>, FALSE)
ReadGo(in)   == SmFrom(in, "bol", <<>>, TRUE)

(* Part 1e: the POP3 multi-line codec.  Server: the source is cut at LF    *)
(* (a last fragment without LF is a line unless it is empty), one CR at    *)
(* the end of a line is dropped, a line that starts with a dot gets        *)
(* another one, every line is sent with CRLF, "." CRLF ends the reply.     *)
(* Client: a line ends at LF; "." CRLF ends the reply; a leading dot is    *)
(* removed.                                                                *)
RECURSIVE LinesOf(_, _)
LinesOf(s, cur) ==
    IF s = <<>> THEN (IF cur = <<>> THEN <<>> ELSE <<cur>>)
    ELSE IF Head(s) = "LF" THEN <<cur>> \o LinesOf(Tail(s), <<>>)
    ELSE LinesOf(Tail(s), Append(cur, Head(s)))
DropCR(line) == IF EndsWith(line, "CR") THEN SubSeq(line, 1, Len(line) - 1) ELSE line
PopLine(line) == LET x == DropCR(line)
                 IN  (IF x # <<>> /\ x[1] = "DOT" THEN <<"DOT">> ELSE <<>>) \o x \o <<"CR", "LF">>
RECURSIVE Flat(_)
Flat(ls) == IF ls = <<>> THEN <<>> ELSE PopLine(Head(ls)) \o Flat(Tail(ls))
Pop3Send(src) == Flat(LinesOf(src, <<>>)) \o Term

RECURSIVE PopFrom(_, _, _)
PopFrom(in, bol, out) ==
    IF in = <<>> THEN [data |-> out, rest |-> <<>>, done |-> FALSE]
    ELSE IF bol /\ Len(in) >= 3 /\ SubSeq(in, 1, 3) = Term THEN [data |-> out, rest |-> SubSeq(in, 4, Len(in)), done |-> TRUE]
    ELSE IF bol /\ Head(in) = "DOT" THEN PopFrom(Tail(in), FALSE, out)
    ELSE PopFrom(Tail(in), Head(in) = "LF", Append(out, Head(in)))
Pop3Recv(in) == PopFrom(in, TRUE, <<>>)

----------------------------------------------------------------------------
(* Part 2: round-trip theorems (predicates of one class string s)          *)

(* the transparent reader returns exactly what was sent, stops exactly at  *)
(* the terminator the client wrote (never earlier), and leaves nothing     *)
StuffRoundTrip(s) == LET r == ReadRef(Transmit(s))
                     IN  r.done /\ r.rest = <<>> /\ r.data = Sent(s)
(* a normalising reader returns it up to Canon                             *)
NormRoundTrip(s) == LET r == ReadNorm(Transmit(s))
                    IN  r.done /\ r.rest = <<>> /\ Canon(r.data) = Canon(Sent(s))
(* line-end normalisation is a normal form; Canon is blind to exactly what *)
(* it says                                                                 *)
CanonLaws(s) == /\ NormLE(NormLE(s)) = NormLE(s) /\ Canon(NormLE(s)) = Canon(s)
                /\ Canon(s \o <<"CR", "LF">>) = Canon(s \o <<"LF">>)
                /\ (~EndsLF(s) /\ ~EndsWith(s, "CR")) => Canon(s \o <<"LF">>) = Canon(s)
                /\ Len(Canon(s)) <= Len(s)
(* POP3: what a correct client gets is the source up to Canon (a source    *)
(* that ends in a bare CR does not occur: data read from SMTP is empty or  *)
(* ends in LF)                                                             *)
Pop3RoundTrip(s) == ~EndsWith(s, "CR") =>
                       LET r == Pop3Recv(Pop3Send(s))
                       IN  r.done /\ r.rest = <<>> /\ Canon(r.data) = Canon(s)
(* end to end at class level: trace headers + what the normalising reader  *)
(* stored, sent through POP3, is Canon-equal to trace headers + what was   *)
(* sent                                                                    *)
TraceHdr == <<"CH", "CR", "LF", "CH", "CR", "LF", "CH", "CH", "CR", "LF">>
EndToEnd(s) == LET stored == TraceHdr \o ReadNorm(Transmit(s)).data
                   r == Pop3Recv(Pop3Send(stored))
               IN  r.done /\ r.rest = <<>> /\ Canon(r.data) = Canon(TraceHdr \o Sent(s))

(* Part 3: prediction.  The class strings on which Go's reader, fed by the *)
(* client above, does not return what was sent (up to Canon).              *)
GoData(s)  == ReadGo(Transmit(s)).data
GoQuirk(s) == LET r == ReadGo(Transmit(s))
              IN  ~(r.done /\ r.rest = <<>> /\ Canon(r.data) = Canon(Sent(s)))
(* ... and on which the RFC-strict client and Go's reader disagree         *)
StrictAmbiguous(s) == LET r == ReadGo(TransmitStrict(s))
                      IN  ~(r.done /\ r.rest = <<>> /\ Canon(r.data) = Canon(Sent(s)))

----------------------------------------------------------------------------
(* Part 4: relations over one observation record o of a STORED message:    *)
(*   o.exp    [clen, h]  canonical length / hash of Canon(data sent)       *)
(*   o.store, o.rest, o.web, o.pop3  [len, clen, h, ...] per interface:    *)
(*            raw length, length and hash of Canon(bytes returned)         *)
(*   o.hdr    [lines, whole]  the part of the canonical stored source in   *)
(*            front of its last exp.clen bytes: class of each line         *)
(*            ("return-path", "received", "cont", "other"); whole = it     *)
(*            consists of whole lines                                      *)
(*   o.tail   [clen, h]  those last bytes                                  *)
(*   o.size   [store, rest, pop3]  the size each interface reports (-1:    *)
(*            none reported)                                               *)
Fetched(o) == /\ o.rest.status = 200 /\ o.web.status = 200
              /\ o.pop3.cls = "ok" /\ o.pop3.term
Same(x, y) == x.h = y.h /\ x.clen = y.clen
AllInterfacesAgree(o) == /\ Fetched(o)
                         /\ Same(o.rest, o.store) /\ Same(o.web, o.store) /\ Same(o.pop3, o.store)

NonCont(lines) == SelectSeq(lines, LAMBDA x : x # "cont")
HdrShape(h) == /\ h.whole
               /\ Len(h.lines) >= 2 /\ h.lines[1] # "cont"
               /\ NonCont(h.lines) \in {<<"return-path", "received">>, <<"received", "return-path">>}
HeadersPlus(hdr, tail, want) == HdrShape(hdr) /\ Same(tail, want)
SourceIsHeadersPlusBody(o) == HeadersPlus(o.hdr, o.tail, o.exp)

Reported(o) == {o.size.store} \cup ({o.size.rest, o.size.pop3} \ {-1})
SizeIsLength(o) == \A n \in Reported(o) : n = o.store.len

(* class-level reading of the same thing, for bodies that come with their  *)
(* class string: the last bytes of the canonical stored source, as         *)
(* classes, against the model                                              *)
TailAgrees(tailcls, want) == IsTail(want, tailcls) \/ IsTail(tailcls, want)
=============================================================================
