--------------------------- MODULE DotCodecTrace ---------------------------
(***************************************************************************)
(* Trace specification for `vh dotcodec': TLC evaluates the relations of   *)
(* the DotCodec contract (C02) on the observations recorded from the real  *)
(* code.                                                                   *)
(*                                                                         *)
(* One trace = one batch of message bodies played against one server       *)
(* (real SMTP session -> StoreManager -> real store) and read back through *)
(* the four read interfaces:                                               *)
(*   reset     - the back-end of the batch                                 *)
(*   obs       - one body, transmitted by the client of the contract       *)
(*               (DotCodec!Transmit): the reply to the end of DATA, how    *)
(*               many messages the store holds afterwards, and - when the  *)
(*               message was stored - per read interface the length and    *)
(*               the hash of Canon(bytes returned), the sizes reported,    *)
(*               and the projection of the stored source into trace        *)
(*               headers + the rest (DotCodec part 4)                      *)
(*   strictobs - the same body sent by the RFC-strict client: recorded     *)
(*               for the evidence file, never judged                       *)
(*                                                                         *)
(* Two kinds of conjunct:                                                  *)
(*  - SHAPE: the event is what the harness claims it to be (the two        *)
(*    implementations of Canon / stuffing in Python and Go agree with each *)
(*    other and, for bodies that carry their class string, with the model  *)
(*    of DotCodec).  A shape failure stops the run at the high-water mark: *)
(*    harness problem, not a verdict.                                      *)
(*  - RELATIONS: the property.  Because a defect of the real code fails a  *)
(*    relation for a whole class of bodies, a failed relation does not     *)
(*    stop the run: the event is consumed, <<"RELFAIL", line, relations>>  *)
(*    is printed and counted, and the postcondition rejects the run if the *)
(*    count is not zero; the orchestrator turns every RELFAIL line into a  *)
(*    rejection of that body.  A failure that is exactly a listed known    *)
(*    finding (deviation key enabled through VERIF_ALLOWED_FILE) prints    *)
(*    <<"DEVIATION", key, line>> instead.                                  *)
(***************************************************************************)
EXTENDS DotCodec, Json, TLC, TLCExt, IOUtils, SequencesExt

TraceLog == ndJsonDeserialize(IOEnv.VERIF_TRACE)
(* deviation keys enabled by known_findings.txt: one JSON object {"key": ...} per line *)
AllowedKeys == {r.key : r \in ToSet(ndJsonDeserialize(IOEnv.VERIF_ALLOWED_FILE))}

VARIABLES l, backend
tvars == <<l, backend>>

Ev == TraceLog[l]
Is(a) == l <= Len(TraceLog) /\ Ev.a = a /\ l' = l + 1
Has(f) == f \in DOMAIN Ev
Mark == TLCSet(1, l + 1)

Report(F) == \/ F = {}
             \/ /\ F # {}
                /\ PrintT(<<"RELFAIL", l, ToJson(F)>>)
                /\ TLCSet(2, TLCGet(2) + 1)
Dev(key) == /\ key \in AllowedKeys
            /\ PrintT(<<"DEVIATION", key, l>>)

----------------------------------------------------------------------------
(* SHAPE *)
Digest(x) == x.clen \in Nat /\ x.h \in STRING
(* the expectation: the harness (Go) and the concretiser (Python) computed *)
(* Canon(frame ++ body ++ pad) independently; the harness un-stuffed its   *)
(* own wire bytes with a reference reader and got the data back            *)
ExpShape == /\ Digest(Ev.exp) /\ Digest(Ev.pexp)
            /\ Same(Ev.exp, Ev.pexp)
            /\ Ev.wireok
            /\ Ev.frame \in {"hdr", "raw"}
            /\ Ev.fclen \in Nat /\ (Ev.frame = "raw" => Ev.fclen = 0)
(* for a body that carries its class string the expectation has the length *)
(* the model computes, and the predictions carried along are the model's   *)
ModelShape ==
    Has("cls") =>
        /\ Ev.cls \in Seq(Class)
        /\ Ev.exp.clen = (IF Sent(Ev.cls) = <<>> THEN (IF Ev.fclen > 0 THEN Ev.fclen - 1 ELSE 0)
                          ELSE Ev.fclen + Len(Canon(Sent(Ev.cls))))
        /\ Has("quirk") => Ev.quirk = GoQuirk(Ev.cls)
        /\ Has("altcls") => Ev.altcls = GoData(Ev.cls)
        /\ Has("alt") <=> GoQuirk(Ev.cls)
SmtpShape == /\ Ev.smtp.cls \in {"ok", "fail"}
             /\ Ev.total \in Nat /\ Ev.inbox \in Nat
             /\ Ev.smtp.cls = "ok" => (Ev.total = 1 /\ Ev.inbox = 1)

----------------------------------------------------------------------------
(* RELATIONS (DotCodec part 4) on the observation of a stored message *)
RelSource == /\ SourceIsHeadersPlusBody(Ev)
             /\ Has("cls") => TailAgrees(Ev.tailcls, Canon(Sent(Ev.cls)))
FailedStored ==
    (IF AllInterfacesAgree(Ev) THEN {} ELSE {"AllInterfacesAgree"})
    \cup (IF RelSource THEN {} ELSE {"SourceIsHeadersPlusBody"})
    \cup (IF SizeIsLength(Ev) THEN {} ELSE {"SizeIsLength"})

(* Known finding: POP3 RETR stops in front of the first line of more than  *)
(* 65535 bytes; what it returns is exactly the source up to that line,     *)
(* followed by "." and a stray -ERR; everything else holds.                *)
DevPop3LongLine ==
    /\ FailedStored = {"AllInterfacesAgree"}
    /\ Fetched(Ev) /\ Same(Ev.rest, Ev.store) /\ Same(Ev.web, Ev.store)
    /\ Ev.longat >= 0
    /\ Ev.pop3.clen = Ev.clongat /\ Ev.pop3.clen < Ev.store.clen
    /\ Ev.pop3.h = Ev.ph
    /\ Ev.pop3.stale
(* Known finding: the SMTP dot reader (Go's textproto) does not see a line *)
(* start behind an empty bare-LF line, so a stuffed dot there stays        *)
(* doubled.  The stored message is exactly what DotCodec!ReadGo returns    *)
(* for this body; all interfaces agree on it and the size is its length.   *)
DevSmtpBlankLfLine ==
    /\ "SourceIsHeadersPlusBody" \in FailedStored
    /\ Has("cls") /\ Has("alt") /\ Has("althdr") /\ Has("alttail")
    /\ GoQuirk(Ev.cls)
    /\ AllInterfacesAgree(Ev) /\ SizeIsLength(Ev)
    /\ HeadersPlus(Ev.althdr, Ev.alttail, Ev.alt)
    /\ TailAgrees(Ev.tailcls, Canon(GoData(Ev.cls)))

Judge ==
    IF Ev.smtp.cls = "fail"
    THEN Report(IF Ev.total = 0 THEN {} ELSE {"NothingStoredOnRefusal"})
    ELSE IF FailedStored = {} THEN TRUE
    ELSE IF DevPop3LongLine /\ "C02.pop3-retr-line-over-64k" \in AllowedKeys THEN Dev("C02.pop3-retr-line-over-64k")
    ELSE IF DevSmtpBlankLfLine /\ "C02.smtp-dot-after-blank-bare-lf-line" \in AllowedKeys THEN Dev("C02.smtp-dot-after-blank-bare-lf-line")
    ELSE Report(FailedStored)

----------------------------------------------------------------------------
TraceInit == l = 1 /\ backend = "none"

TrReset == /\ Is("reset")
           /\ Ev.store \in {"mem", "file"}
           /\ backend' = Ev.store
           /\ Mark

TrObs == /\ Is("obs")
         /\ backend \in {"mem", "file"} /\ Ev.backend = backend
         /\ ExpShape /\ ModelShape /\ SmtpShape
         /\ UNCHANGED backend
         /\ Judge
         /\ Mark

(* the RFC-strict client: whatever the server did is recorded, not judged  *)
TrStrictObs == /\ Is("strictobs")
               /\ backend \in {"mem", "file"}
               /\ Ev.smtp.cls \in {"ok", "fail", "none", "closed", "malformed"}
               /\ Ev.total \in Nat
               /\ UNCHANGED backend
               /\ Mark

TraceNext == TrReset \/ TrObs \/ TrStrictObs
TraceSpec == TraceInit /\ [][TraceNext]_tvars

TraceAccepted ==
    IF TLCGet(1) # Len(TraceLog) + 1
    THEN PrintT(<<"REJECTED_AT", TLCGet(1)>>) /\ FALSE
    ELSE IF TLCGet(2) # 0
         THEN PrintT(<<"RELFAILS", TLCGet(2)>>) /\ FALSE
         ELSE TRUE
ASSUME TLCSet(1, 1) /\ TLCSet(2, 0)
=============================================================================
