---------------------------- MODULE FileStoreImpl ----------------------------
(***************************************************************************)
(* Implementation-shaped model (kind B) of one mailbox directory of        *)
(* pkg/storage/file: every mutating operation is the sequence of           *)
(* file-system mutations the code performs, in the order of the            *)
(* verification hook sites (file.VerifHook), and the process may die       *)
(* between any two of them (and in the middle of a buffered write).        *)
(*                                                                         *)
(* On disk: the mailbox directory, index.gob (the list of message ids, or  *)
(* a truncated/partial file), index.gob.tmp, and one .raw file per message *)
(* (complete or partial).  A reader after a restart sees the ids of the    *)
(* index if there is one (an unreadable index is an error for this mailbox *)
(* AND for VisitMailboxes of the whole store), else an empty mailbox.      *)
(*                                                                         *)
(* TLC checks, for every operation after every reachable mailbox content   *)
(* and for every crash point: Readable (no corrupt index, every listed     *)
(* message has its complete body), AllOrNothing (the listing is the one    *)
(* before or the one after the operation).  The three deviation constants  *)
(* model the code before its repairs; with any of them TRUE the matching   *)
(* property fails - the predictions that C11 confirmed on the real code.   *)
(*                                                                         *)
(* Binding: the crash driver records the sequence of hook sites of every   *)
(* interrupted operation; FileStoreImplTrace checks that it is the         *)
(* sequence this model prescribes (a reordered or additional mutation in   *)
(* the code shows up as an unexplained site sequence).                     *)
(***************************************************************************)
EXTENDS FileStoreProg, FiniteSets, SequencesExt, TLC

CONSTANTS Cap,                   \* per-mailbox cap (0 = off)
          MaxId,                 \* ids 1..MaxId
          IndexInPlace,          \* deviation: writeIndex truncates and rewrites index.gob itself
          EvictBeforeAdd,        \* deviation: cap eviction (index update + body removal) before the new message is written
          RemoveAllFirst         \* deviation: the directory is removed recursively while the index still exists

VARIABLES dir,        \* BOOLEAN: the mailbox directory exists
          index,      \* [st |-> "absent" | "partial" | "ok", ids |-> sequence of ids]
          tmp,        \* the same for index.gob.tmp
          raws,       \* set of ids whose .raw file is complete
          partial,    \* set of ids whose .raw file exists but is incomplete
          prog,       \* remaining steps of the operation in progress: sequence of [site, eff]
          before,     \* listing before the operation in progress
          after,      \* listing after it
          crashed     \* the process died (disk state is final for this behaviour)
vars == <<dir, index, tmp, raws, partial, prog, before, after, crashed>>

Listing == index.ids
Ids(s) == {s[i] : i \in DOMAIN s}
NextId == IF Listing = <<>> THEN 1 ELSE Listing[Len(Listing)] + 1     \* ids grow (time stamp + counter)

WriteIndex(new) == WriteIndexP(new, IndexInPlace)
RemoveDir == RemoveDirP(RemoveAllFirst)
RemoveProg(cur, id) == RemoveProgP(cur, id, IndexInPlace, RemoveAllFirst)
AddProg(cur, id) == AddProgP(cur, id, Cap, IndexInPlace, EvictBeforeAdd, RemoveAllFirst)
AfterAdd(cur, id) == LET full == Append(cur, id) IN
                     IF Cap > 0 /\ Len(full) > Cap THEN SubSeq(full, Len(full) - Cap + 1, Len(full)) ELSE full

Init ==
    /\ dir = FALSE /\ index = Absent /\ tmp = Absent /\ raws = {} /\ partial = {}
    /\ prog = <<>> /\ before = <<>> /\ after = <<>> /\ crashed = FALSE

Idle == prog = <<>> /\ ~crashed
StartAdd ==
    /\ Idle /\ NextId <= MaxId
    /\ prog' = AddProg(Listing, NextId) /\ before' = Listing /\ after' = AfterAdd(Listing, NextId)
    /\ UNCHANGED <<dir, index, tmp, raws, partial, crashed>>
StartSeen ==      \* the index is rewritten with the same ids (the seen flag is not modelled)
    /\ Idle /\ Listing # <<>>
    /\ prog' = WriteIndex(Listing) /\ before' = Listing /\ after' = Listing
    /\ UNCHANGED <<dir, index, tmp, raws, partial, crashed>>
StartRemove(id) ==
    /\ Idle /\ id \in Ids(Listing)
    /\ prog' = RemoveProg(Listing, id) /\ before' = Listing /\ after' = SelectSeq(Listing, LAMBDA x : x # id)
    /\ UNCHANGED <<dir, index, tmp, raws, partial, crashed>>
StartPurge ==
    /\ Idle /\ Listing # <<>>
    /\ prog' = RemoveDir /\ before' = Listing /\ after' = <<>>
    /\ UNCHANGED <<dir, index, tmp, raws, partial, crashed>>

Apply(e) ==
    CASE e.k = "nop"        -> UNCHANGED <<dir, index, tmp, raws, partial>>
      [] e.k = "mkdir"      -> dir' = TRUE /\ UNCHANGED <<index, tmp, raws, partial>>
      [] e.k = "rawpartial" -> partial' = partial \cup {e.v} /\ UNCHANGED <<dir, index, tmp, raws>>
      [] e.k = "rawdone"    -> partial' = partial \ {e.v} /\ raws' = raws \cup {e.v} /\ UNCHANGED <<dir, index, tmp>>
      [] e.k = "tmp"        -> tmp' = e.v /\ UNCHANGED <<dir, index, raws, partial>>
      [] e.k = "index"      -> index' = e.v /\ UNCHANGED <<dir, tmp, raws, partial>>
      [] e.k = "rename"     -> index' = tmp /\ tmp' = Absent /\ UNCHANGED <<dir, raws, partial>>
      [] e.k = "rmraw"      -> raws' = raws \ {e.v} /\ UNCHANGED <<dir, index, tmp, partial>>
      [] e.k = "rmall"      -> dir' = FALSE /\ index' = Absent /\ tmp' = Absent /\ raws' = {} /\ partial' = {}
DoStep ==
    /\ prog # <<>> /\ ~crashed
    /\ Apply(Head(prog).eff)
    /\ prog' = Tail(prog)
    /\ UNCHANGED <<before, after, crashed>>

(* the process dies: between two mutations, or in the middle of the recursive removal of the *)
(* directory (some of its entries already gone, in any order)                               *)
Crash ==
    /\ prog # <<>> /\ ~crashed
    /\ crashed' = TRUE
    /\ IF Head(prog).eff.k = "rmall"
       THEN \E goneRaw \in SUBSET raws, goneIdx \in BOOLEAN :
               /\ raws' = raws \ goneRaw
               /\ index' = IF goneIdx THEN Absent ELSE index
               /\ UNCHANGED <<dir, tmp, partial>>
       ELSE UNCHANGED <<dir, index, tmp, raws, partial>>
    /\ UNCHANGED <<prog, before, after>>

Next == StartAdd \/ StartSeen \/ (\E id \in 1 .. MaxId : StartRemove(id)) \/ StartPurge \/ DoStep \/ Crash
Spec == Init /\ [][Next]_vars

(***************************************************************************)
(* What a reader sees after the restart                                    *)
(***************************************************************************)
Readable == crashed => (index.st # "partial" /\ Ids(Listing) \subseteq raws)
AllOrNothing == crashed => (Listing = before \/ Listing = after)
(* while running normally the same holds between operations *)
ConsistentWhenIdle == Idle => (index.st # "partial" /\ Ids(Listing) \subseteq raws)
=============================================================================
