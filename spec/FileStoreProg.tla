---------------------------- MODULE FileStoreProg ----------------------------
(***************************************************************************)
(* The file store's operations as programs: the sequence of file-system    *)
(* mutations (named by their verification hook sites) that each mutating   *)
(* operation of pkg/storage/file performs on one mailbox directory.  Pure  *)
(* operators, used by the model FileStoreImpl (which executes them with    *)
(* crashes in between) and by MailstoreTrace (which compares them with the *)
(* hook sites the real code went through, C11).                            *)
(* Flags: inPlace = index rewritten in place (old code); evictFirst = cap  *)
(* eviction before the new message is written (old code); rmFirst =        *)
(* recursive removal while the index still exists (old code).              *)
(***************************************************************************)
EXTENDS Naturals, Sequences

Absent == [st |-> "absent", ids |-> <<>>]
Partial == [st |-> "partial", ids |-> <<>>]
File(ids) == [st |-> "ok", ids |-> ids]

Step(site, eff) == [site |-> site, eff |-> eff]
WriteIndexP(new, inPlace) ==
    IF inPlace
    THEN <<Step("index.mkdir", [k |-> "nop"]), Step("index.create", [k |-> "index", v |-> Partial]),
           Step("index.encoded", [k |-> "nop"]), Step("index.flushed", [k |-> "index", v |-> File(new)]), Step("index.closed", [k |-> "nop"])>>
    ELSE <<Step("index.mkdir", [k |-> "nop"]), Step("index.create", [k |-> "tmp", v |-> Partial]),
           Step("index.encoded", [k |-> "nop"]), Step("index.flushed", [k |-> "tmp", v |-> File(new)]), Step("index.closed", [k |-> "nop"]),
           Step("index.renamed", [k |-> "rename"])>>
RemoveDirP(rmFirst) ==
    IF rmFirst
    THEN <<Step("rmdir.all.before", [k |-> "nop"]), Step("rmdir.all.after", [k |-> "rmall"])>>
    ELSE <<Step("rmdir.index.removed", [k |-> "index", v |-> Absent]), Step("rmdir.all.before", [k |-> "nop"]), Step("rmdir.all.after", [k |-> "rmall"])>>
RemoveProgP(cur, id, inPlace, rmFirst) ==
    LET new == SelectSeq(cur, LAMBDA x : x # id)
    IN  IF new = <<>> THEN RemoveDirP(rmFirst) ELSE WriteIndexP(new, inPlace) \o <<Step("remove.raw", [k |-> "rmraw", v |-> id])>>
RECURSIVE OldEvictP(_, _, _, _)
OldEvictP(c, k, inPlace, rmFirst) ==
    IF k = 0 THEN <<>> ELSE RemoveProgP(c, Head(c), inPlace, rmFirst) \o OldEvictP(Tail(c), k - 1, inPlace, rmFirst)
AddProgP(cur, id, cap, inPlace, evictFirst, rmFirst) ==
    LET full == Append(cur, id)
        n == IF cap > 0 /\ Len(full) > cap THEN Len(full) - cap ELSE 0
        evicted == SubSeq(full, 1, n)
        kept == SubSeq(full, n + 1, Len(full))
        body == <<Step("add.mkdir", [k |-> "mkdir"]), Step("add.raw.create", [k |-> "rawpartial", v |-> id]),
                  Step("add.raw.copied", [k |-> "nop"]), Step("add.raw.flushed", [k |-> "rawdone", v |-> id]), Step("add.raw.closed", [k |-> "nop"])>>
    IN  IF evictFirst
        THEN LET nOld == IF cap > 0 /\ Len(cur) >= cap THEN Len(cur) - cap + 1 ELSE 0
                 rest == SubSeq(cur, nOld + 1, Len(cur))
             IN  OldEvictP(cur, nOld, inPlace, rmFirst) \o body \o WriteIndexP(Append(rest, id), inPlace)
        ELSE body \o WriteIndexP(kept, inPlace) \o [i \in 1 .. n |-> Step("add.evict.raw", [k |-> "rmraw", v |-> evicted[i]])]
Sites(prog) == [i \in DOMAIN prog |-> prog[i].site]
=============================================================================
