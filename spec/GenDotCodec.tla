---------------------------- MODULE GenDotCodec ----------------------------
(***************************************************************************)
(* Bounded model of the DotCodec contract.  The state is one class string  *)
(* s; every step appends one class, so TLC visits every string over the    *)
(* six byte classes up to MaxLen (BFS) or random ones (-simulate).         *)
(*                                                                         *)
(* With Record = FALSE it is the model TLC checks: the round-trip theorems *)
(* of DotCodec are invariants, i.e. they are evaluated for every string.   *)
(* With Record = TRUE every string of length MinEmit..MaxLen is printed as *)
(* a behaviour (one message body) for the driver `vh dotcodec', together   *)
(* with two PREDICTIONS of the implementation-shaped reader (never a       *)
(* verdict): quirk - Go's textproto dot reader, fed by the client of the   *)
(* contract, will not return what was sent; strict - the RFC-strict client *)
(* and Go's reader disagree on this body.                                  *)
(***************************************************************************)
EXTENDS DotCodec, TLC, Json

CONSTANTS MaxLen,      \* longest class string
          MinEmit,     \* shortest string printed (Record = TRUE)
          Record

VARIABLE s

GInit == s = <<>>
GNext == /\ Len(s) < MaxLen
         /\ \E c \in Class : s' = Append(s, c)
GSpec == GInit /\ [][GNext]_s

----------------------------------------------------------------------------
TypeOK           == s \in Seq(Class) /\ Len(s) <= MaxLen
InvStuffRoundTrip == StuffRoundTrip(s)
InvNormRoundTrip  == NormRoundTrip(s)
InvCanonLaws      == CanonLaws(s)
InvPop3RoundTrip  == Pop3RoundTrip(s)
InvEndToEnd       == EndToEnd(s)
(* the wire form never contains a line that is a lone dot before its end,  *)
(* whatever "line" means (after CRLF or after a bare LF)                   *)
InvNoEarlyTerminator ==
    LET w == Stuff(s) \o Pad(s)
    IN  \A i \in DOMAIN w : (w[i] = "DOT" /\ (i = 1 \/ w[i - 1] = "LF")) => (i < Len(w) /\ w[i + 1] = "DOT")
(* the prediction is not vacuous and is what the comment in DotCodec says: *)
(* Go's reader departs exactly when a leading dot follows a bare-LF line   *)
(* that it entered at a line start                                         *)
RECURSIVE GoStateAfter(_, _)
GoStateAfter(in, st) ==      \* state of Go's reader after the (stuffed) input, ignoring output
    IF in = <<>> THEN st
    ELSE LET c == Head(in)
         IN  CASE st = "bol"   -> GoStateAfter(Tail(in), IF c = "DOT" THEN "dot" ELSE IF c = "CR" THEN "cr" ELSE "data")
               [] st = "dot"   -> GoStateAfter(Tail(in), IF c = "CR" THEN "dotcr" ELSE IF c = "LF" THEN "eof" ELSE "data")
               [] st = "dotcr" -> IF c = "LF" THEN "eof" ELSE GoStateAfter(in, "data")
               [] st = "cr"    -> IF c = "LF" THEN GoStateAfter(Tail(in), "bol") ELSE GoStateAfter(in, "data")
               [] st = "data"  -> GoStateAfter(Tail(in), IF c = "CR" THEN "cr" ELSE IF c = "LF" THEN "bol" ELSE "data")
               [] OTHER        -> st
InvQuirkCharacterised ==
    GoQuirk(s) <=> \E i \in DOMAIN s :
                      /\ s[i] = "DOT" /\ i > 1 /\ s[i - 1] = "LF"
                      /\ GoStateAfter(Stuff(SubSeq(s, 1, i - 1)), "bol") = "data"

----------------------------------------------------------------------------
Behaviour == [cls |-> s, quirk |-> GoQuirk(s), strict |-> StrictAmbiguous(s)]
Emit == ~Record \/ Len(s) < MinEmit \/ PrintT(<<"BEHAVIOUR", ToJson(Behaviour)>>)
=============================================================================
