------------------------------- MODULE GenHub -------------------------------
(***************************************************************************)
(* Bounded model of the HubContract over the operations of C15 and         *)
(* generator of behaviours for the driver `vh hub'.                        *)
(*                                                                         *)
(* Record = FALSE: the model TLC checks exhaustively (closed-form          *)
(* statements of HubContract plus the action properties below).            *)
(* Record = TRUE: the history variable makes every operation sequence a    *)
(* state; sequences are printed as behaviours (BFS to Depth or -simulate). *)
(*                                                                         *)
(* Operations: dispatch(mailbox, fresh id), delete(a stored message, or an *)
(* id that was never stored), join(next free slot, v1|v2 with or without   *)
(* mailbox filter | mock, optionally broken from the start or holding the  *)
(* hub in its first call), leave(mock), fail(mock), disconnect(socket      *)
(* listener, with however many events are buffered at that moment),        *)
(* take(socket listener), and - the schedules - a dispatch/delete during   *)
(* which a slow mock holds the hub goroutine (gate), further operations    *)
(* queued behind it, release.  After every operation the driver probes     *)
(* hub.Sync().                                                             *)
(***************************************************************************)
EXTENDS HubContract, TLC, Json

CONSTANTS Cmds,        \* subset of {"dispatch","delete","delunknown","join","joinbroken","joinarmed","leave","fail",
                       \*            "disconnect","take","takeempty","gate","release"}
          Kinds,       \* listener kinds to join: subset of {"v1","v2","mock"}
          Filters,     \* mailbox filters of socket listeners: subset of {""} \cup Mailbox
          Ns,          \* history lengths (chosen in Init)
          MaxId,       \* number of dispatches
          MaxHeld,     \* operations queued behind a held one
          Drops,       \* TRUE: a broadcast may drop listeners whose buffer is full (model check with a small Buf)
          Casts,       \* names of the listener sets that are attached before the behaviour starts (see CastOf)
          Depth, Record

VARIABLES hist, nextId, held, nheld, act, who, n
gvars == <<hlen, recent, lst, due, seen, broken, log, jn, hist, nextId, held, nheld, act, who, n>>

Has(c) == c \in Cmds
Rec(x, slot) == /\ hist' = IF Record THEN Append(hist, x) ELSE hist
                /\ act' = x.c /\ who' = slot
                /\ n' = IF Record THEN n + 1 ELSE 0
Same(v) == v' = v

(* listeners attached before anything is dispatched (so that the depth is spent on what happens to them) *)
L(kind, filter) == [kind |-> kind, filter |-> filter]
CastOf(c) == CASE c = "none"     -> <<>>
               [] c = "v2"       -> <<L("v2", "")>>
               [] c = "v1"       -> <<L("v1", "")>>
               [] c = "v2+m"     -> <<L("v2", ""), L("mock", "")>>
               [] c = "v1+m"     -> <<L("v1", ""), L("mock", "")>>
               [] c = "v2a+m"    -> <<L("v2", "a"), L("mock", "")>>
               [] c = "v2+v2"    -> <<L("v2", ""), L("v2", "")>>
               [] c = "v1a+v2+m" -> <<L("v1", "a"), L("v2", ""), L("mock", "")>>
               [] c = "v2+v1+m"  -> <<L("v2", ""), L("v1", ""), L("mock", "")>>
               [] c = "v2a+v2+m" -> <<L("v2", "a"), L("v2", ""), L("mock", "")>>
               [] c = "m+m+v2"   -> <<L("mock", ""), L("mock", ""), L("v2", "")>>
JoinRec(cast, j) == [c |-> "join", slot |-> j, kind |-> cast[j].kind, filter |-> cast[j].filter, broken |-> FALSE, armed |-> FALSE]
GInit == /\ \E k \in Ns, cn \in Casts :
              LET cast == CastOf(cn) IN
              /\ hlen = k /\ recent = <<>> /\ log = <<>>
              /\ lst = [i \in Slots |-> IF i \in DOMAIN cast THEN [kind |-> cast[i].kind, filter |-> cast[i].filter, st |-> "on"] ELSE FreeSlot]
              /\ due = [i \in Slots |-> <<>>]
              /\ seen = [i \in Slots |-> 0]
              /\ broken = [i \in Slots |-> FALSE]
              /\ jn = [i \in Slots |-> NoJoin]
              /\ hist = IF Record THEN [j \in DOMAIN cast |-> JoinRec(cast, j)] ELSE <<>>
         /\ nextId = 1 /\ held = 0 /\ nheld = 0 /\ act = "init" /\ who = 0 /\ n = 0

FreeSlots == {i \in Slots : lst[i].st = "free"}
NextSlot  == CHOOSE i \in FreeSlots : \A j \in FreeSlots : i <= j
(* a mock that is still attached may hold the hub during a broadcast *)
Gates == {0} \cup (IF Has("gate") /\ held = 0 THEN {i \in Slots : On(i) /\ IsMock(i)} ELSE {})
Undeleted == {e \in ToSetOf(StoredLog) : Deleted(e.mb, e.id) \notin ToSetOf(log)}
UnknownId == 9999
(* while the hub is held only so many operations are queued behind it *)
Room == held = 0 \/ nheld < MaxHeld

GStep ==
    \/ \E mb \in Mailbox, g \in Gates :
          /\ Has("dispatch") /\ nextId <= MaxId /\ Room
          /\ \E drop \in (IF Drops THEN SUBSET {i \in Slots : BufferFull(i)} ELSE {{}}) : Dispatch(mb, nextId, drop)
          /\ held' = IF g # 0 THEN g ELSE held
          /\ nextId' = nextId + 1
          /\ Rec([c |-> "dispatch", mb |-> mb, id |-> nextId, gate |-> g], 0)
    \/ \E e \in Undeleted, g \in Gates :
          /\ Has("delete") /\ Room
          /\ Delete(e.mb, e.id, {})
          /\ held' = IF g # 0 THEN g ELSE held
          /\ Same(nextId)
          /\ Rec([c |-> "delete", mb |-> e.mb, id |-> e.id, gate |-> g], 0)
    \/ \E mb \in Mailbox :
          /\ Has("delunknown") /\ Room /\ Deleted(mb, UnknownId) \notin ToSetOf(log)
          /\ Delete(mb, UnknownId, {})
          /\ Same(held) /\ Same(nextId)
          /\ Rec([c |-> "delete", mb |-> mb, id |-> UnknownId, gate |-> 0], 0)
    \/ \E kind \in Kinds, f \in Filters, brk \in BOOLEAN, arm \in BOOLEAN :
          /\ Has("join") /\ FreeSlots # {} /\ Room
          /\ (kind = "mock") => f = ""
          /\ (kind # "mock") => (~brk /\ ~arm)
          /\ brk => Has("joinbroken")
          /\ arm => (Has("joinarmed") /\ held = 0 /\ History # <<>>)
          /\ Join(NextSlot, kind, f, brk)
          /\ held' = IF arm THEN NextSlot ELSE held
          /\ Same(nextId)
          /\ Rec([c |-> "join", slot |-> NextSlot, kind |-> kind, filter |-> f, broken |-> brk, armed |-> arm], NextSlot)
    \/ \E i \in Slots : /\ Has("leave") /\ Room /\ Leave(i) /\ Same(held) /\ Same(nextId)
                        /\ Rec([c |-> "leave", slot |-> i], i)
    \/ \E i \in Slots : /\ Has("fail") /\ Room /\ Fail(i) /\ Same(held) /\ Same(nextId)
                        /\ Rec([c |-> "fail", slot |-> i], i)
    \/ \E i \in Slots : /\ Has("disconnect") /\ Room /\ Disconnect(i) /\ Same(held) /\ Same(nextId)
                        /\ Rec([c |-> "disconnect", slot |-> i, k |-> Queued(i)], i)
    \/ \E i \in Slots : /\ Has("take") /\ Room /\ (Queued(i) > 0 \/ Has("takeempty")) /\ Take(i) /\ Same(held) /\ Same(nextId)
                        /\ Rec([c |-> "take", slot |-> i], i)
    \/ /\ Has("release") /\ held # 0
       /\ held' = 0 /\ UNCHANGED <<hvars, nextId>>
       /\ Rec([c |-> "release"], 0)

GNext == /\ (Record => n < Depth)
         /\ GStep
         /\ nheld' = IF held' = 0 THEN 0 ELSE IF held = 0 THEN 0 ELSE nheld + 1

GSpec == GInit /\ [][GNext]_gvars

(* Suffix: release a held hub, then one more stored message per mailbox and  *)
(* the removal of one: a listener that should have left but is still there,  *)
(* or one that is there but was forgotten, shows in what it is handed next   *)
(* (the driver's final event empties every buffer and reports the contents). *)
SufMbs == CHOOSE s \in [1..Cardinality(Mailbox) -> Mailbox] : \A a, b \in DOMAIN s : a # b => s[a] # s[b]
Suffix == (IF held # 0 THEN <<[c |-> "release"]>> ELSE <<>>)
          \o [j \in DOMAIN SufMbs |-> [c |-> "dispatch", mb |-> SufMbs[j], id |-> nextId + j - 1, gate |-> 0]]
          \o <<[c |-> "delete", mb |-> SufMbs[1], id |-> nextId, gate |-> 0]>>
Emit == ~Record \/ n # Depth \/ PrintT(<<"BEHAVIOUR", ToJson([n |-> hlen, steps |-> hist \o Suffix])>>)

----------------------------------------------------------------------------
(* C15 on the contract, stated over steps *)
Own == {"leave", "fail", "disconnect", "take"}
(* what one listener does (fails, leaves, disconnects with events buffered, takes or does   *)
(* not take) changes nothing for any other listener                                          *)
OthersUnaffected ==
    [][(act' \in Own \/ act' = "join") =>
          \A i \in Slots \ {who'} : due'[i] = due[i] /\ lst'[i] = lst[i] /\ seen'[i] = seen[i]]_gvars
(* a listener that left is never handed anything again *)
DroppedStaysDropped ==
    [][\A i \in Slots : lst[i].st = "gone" => (lst'[i].st = "gone" /\ due'[i] = due[i])]_gvars
(* every broadcast reaches every listener it is relevant to that is still there (one whose  *)
(* buffer is full may be given up instead: then it has left)                                *)
NobodyMisses ==
    [][(act' \in {"dispatch", "delete"}) =>
          \A i \in Slots : Wants(i, log'[Len(log')]) =>
               \/ due'[i] = Append(due[i], log'[Len(log')])
               \/ BufferFull(i) /\ lst'[i].st = "gone" /\ due'[i] = due[i]]_gvars
(* the hub never waits for a listener that has left: a disconnect ends the wait it caused *)
HubNeverBlocks ==
    [][(act' = "disconnect" /\ Waiting /\ ~(\E j \in Slots \ {who'} : On(j) /\ IsReal(j) /\ Queued(j) > Buf)) => ~Waiting']_gvars
QueuedOpsBounded == nheld <= MaxHeld
Bound == Len(log) <= MaxId + 3
=============================================================================
