---------------------------- MODULE GenInbucket ----------------------------
(* Generator of end-to-end behaviours for `vh e2e' from the composed        *)
(* contract: deliveries to one or two mailboxes, REST delete / seen / purge, *)
(* one POP3 session (login, DELE, QUIT or drop) and monitors that join with  *)
(* or without a mailbox filter, are drained (the driver then compares what   *)
(* they received) and leave.                                                 *)
EXTENDS Inbucket, TLC, Json

CONSTANTS MaxStored, Depth
VARIABLES nextid, hist
gvars == <<boxes, stored, mon, pop, nextid, hist>>

Rec(x) == hist' = Append(hist, x)
Fresh(n) == [i \in 1 .. n |-> nextid + i - 1]
Pos(m, id) == CHOOSE i \in DOMAIN boxes[m] : boxes[m][i].id = id

GInit == IInit /\ nextid = 1 /\ hist = <<>>
GNext ==
    /\ Len(hist) < Depth
    /\ \/ /\ Len(stored) < MaxStored
          /\ \E targets \in {<<m>> : m \in Mailbox} \cup {<<p[1], p[2]>> : p \in {q \in Mailbox \X Mailbox : q[1] # q[2]}} :
                /\ Len(stored) + Len(targets) <= MaxStored
                /\ Deliver(targets, Fresh(Len(targets)), "s")
                /\ nextid' = nextid + Len(targets)
                /\ Rec([k |-> "deliver", to |-> targets, subj |-> "m" \o ToString(nextid)])
       \/ \E m \in Mailbox : \E id \in Ids(m) :
             \/ Delete(m, {id}) /\ UNCHANGED nextid /\ Rec([k |-> "delete", mb |-> m, n |-> Pos(m, id)])
             \/ ~boxes[m][Pos(m, id)].seen /\ MarkSeen(m, id) /\ UNCHANGED nextid /\ Rec([k |-> "seen", mb |-> m, n |-> Pos(m, id)])
       \/ \E m \in Mailbox : boxes[m] # <<>> /\ Purge(m) /\ UNCHANGED nextid /\ Rec([k |-> "purge", mb |-> m])
       \/ \E k \in Monitor, f \in Mailbox \cup {""}, v \in {"v1", "v2"} :
             Join(k, f, v) /\ UNCHANGED nextid /\ Rec([k |-> "join", mon |-> k, mb |-> f, ver |-> v])
       \/ \E k \in Monitor : mon[k].joined /\ Drained(k, mon[k].due) /\ UNCHANGED nextid /\ Rec([k |-> "drain", mon |-> k])
       \/ \E k \in Monitor : mon[k].joined /\ mon[k].due = <<>> /\ Leave(k) /\ UNCHANGED nextid /\ Rec([k |-> "leave", mon |-> k])
       \/ \E m \in Mailbox : PopLogin(m) /\ UNCHANGED nextid /\ Rec([k |-> "poplogin", mb |-> m])
       \/ \E n \in 1 .. 3 : pop.open /\ n \in DOMAIN pop.snap /\ pop.snap[n] \notin pop.marked /\ PopDele(n) /\ UNCHANGED nextid /\ Rec([k |-> "popdele", n |-> n])
       \/ PopQuit /\ UNCHANGED nextid /\ Rec([k |-> "popquit"])
       \/ PopDrop /\ UNCHANGED nextid /\ Rec([k |-> "popdrop"])
GSpec == GInit /\ [][GNext]_gvars
Emit == Len(hist) < Depth \/ PrintT(<<"BEHAVIOUR", ToJson(hist)>>)
=============================================================================
