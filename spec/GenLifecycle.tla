---------------------------- MODULE GenLifecycle ----------------------------
(***************************************************************************)
(* Bounded model of the Lifecycle contract and generator of shutdown       *)
(* schedules for the driver `vh lifecycle'.                                *)
(*                                                                         *)
(* A schedule = setup (1..3 sessions, each parked in a protocol state or   *)
(* held in the window "accepted, not yet registered" by the spawn gate),   *)
(* the shutdown request, and then an interleaving of                       *)
(*   drain     Drain is called (its return is an observation, not a step)  *)
(*   cont s    the client of session s completes its next exchange(s)      *)
(*   finish s  the client completes the whole remaining dialogue and QUITs *)
(*   hangup s  the client disconnects                                      *)
(*   release s the spawn gate lets the held session goroutine run          *)
(*   newconn   a new connection attempt                                    *)
(* Record = FALSE: the model TLC checks exhaustively (C19's invariants,    *)
(* action properties and, with fairness, liveness).  Record = TRUE: the    *)
(* history variable makes every schedule a state; schedules are printed    *)
(* when complete (BFS to Depth), closed by a suffix that releases,         *)
(* finishes and drains whatever is still pending.                          *)
(* Sessions are interchangeable: setups are enumerated with non-decreasing *)
(* park states; recipient counts, marks, sizes are the concretiser's.      *)
(***************************************************************************)
EXTENDS Lifecycle, TLC, Json

CONSTANTS Parks,      \* park states to explore: stages and "accepted"
          NSess,      \* set of numbers of sessions opened in the setup
          Acts,       \* subset of {"drain", "cont", "finish", "hangup", "release", "newconn"}
          MaxCont,    \* total number of cont steps
          MaxNew,     \* number of new connection attempts
          Depth, Record

VARIABLES hist, act, who, n, conts, news, mode, lastp
gvars == <<phase, ss, plan, drain, store, dirty, scanner, hub, hist, act, who, n, conts, news, mode, lastp>>

Box(s, k)  == "s" \o ToString(s) \o (IF k = 1 THEN "a" ELSE "b")
PlanFor(s) == [mbs |-> {Box(s, 1)}, tag |-> "msg-" \o ToString(s), marks |-> {1}]
Initial(m) == IF Proto = "pop3" /\ \E s \in Sess : m = Box(s, 1) THEN <<m \o "-1", m \o "-2", m \o "-3">> ELSE <<>>
ParkOrder(p) == IF p = "accepted" THEN 0 ELSE Idx(p)
Opened == {s \in Sess : ss[s] # "none"}

Rec(x) == /\ hist' = IF Record THEN Append(hist, x) ELSE hist
          /\ act' = x.c
          /\ who' = IF "s" \in DOMAIN x THEN x.s ELSE 0
Count(k) == /\ n' = IF Record THEN n + k ELSE 0
            /\ conts' = IF act' = "cont" THEN conts + 1 ELSE conts
            /\ news' = IF act' = "newconn" THEN news + 1 ELSE news

GInit ==
    /\ phase = "running" /\ ss = [s \in Sess |-> "none"] /\ plan = [s \in Sess |-> NoPlan]
    /\ drain = "idle" /\ dirty = {} /\ scanner = "running" /\ hub = "running"
    /\ store = [m \in Mailbox |-> Initial(m)]
    /\ hist = <<>> /\ act = "init" /\ who = 0 /\ n = 0 /\ conts = 0 /\ news = 0 /\ mode = "setup" /\ lastp = 0

(* setup: the next session connects and is driven to its park state *)
SetupOpen ==
    /\ mode = "setup"
    /\ LET s == Cardinality(Opened) + 1 IN
       /\ s \in Sess /\ s <= CHOOSE k \in NSess : \A j \in NSess : j <= k
       /\ \E park \in Parks :
            /\ ParkOrder(park) >= lastp
            /\ lastp' = ParkOrder(park)
            /\ IF park = "accepted"
               THEN AcceptHeld(s, PlanFor(s)) /\ Rec([c |-> "accept", s |-> s])
               ELSE /\ phase = "running" /\ ss[s] = "none"
                    /\ ss' = [ss EXCEPT ![s] = park] /\ plan' = [plan EXCEPT ![s] = PlanFor(s)]
                    /\ store' = Moved(store, PlanFor(s), First, park)
                    /\ UNCHANGED <<phase, drain, dirty, scanner, hub>>
                    /\ Rec([c |-> "open", s |-> s, park |-> park])
    /\ Count(0) /\ UNCHANGED mode
(* ... and then shutdown is requested *)
SetupDone ==
    /\ mode = "setup" /\ Cardinality(Opened) \in NSess
    /\ Cancel /\ Rec([c |-> "cancel"]) /\ Count(0)
    /\ mode' = "run" /\ UNCHANGED lastp

Has(a) == a \in Acts
RunStep ==
    \/ Has("drain") /\ DrainCall /\ Rec([c |-> "drain"])
    \/ \E s \in Sess : /\ Has("cont") /\ conts < MaxCont /\ IsStage(ss[s]) /\ ss[s] # Last
                       /\ Step(s, Stages[Idx(ss[s]) + 1]) /\ Rec([c |-> "cont", s |-> s])
    \/ \E s \in Sess : Has("finish") /\ Finish(s) /\ Rec([c |-> "finish", s |-> s])
    \/ \E s \in Sess : Has("hangup") /\ Hangup(s) /\ Rec([c |-> "hangup", s |-> s])
    \/ \E s \in Sess : Has("release") /\ Release(s, TRUE) /\ Rec([c |-> "release", s |-> s])
    \/ Has("newconn") /\ news < MaxNew /\ Refuse /\ Rec([c |-> "newconn"])
Run == /\ mode = "run" /\ (Record => n < Depth)
       /\ RunStep /\ Count(1) /\ UNCHANGED <<mode, lastp>>
(* observations and service stops: part of the checked model, not of a schedule *)
Quiesce == /\ ~Record /\ mode = "run"
           /\ \/ DrainReturn /\ Rec([c |-> "drained"])
              \/ ScannerStop /\ Rec([c |-> "scannerstop"])
              \/ HubStop /\ Rec([c |-> "hubstop"])
           /\ Count(0) /\ UNCHANGED <<mode, lastp>>

GNext == SetupOpen \/ SetupDone \/ Run \/ Quiesce
GSpec == GInit /\ [][GNext]_gvars

(* closing suffix: whatever is still held is released, whatever is open finishes, Drain is called *)
SufFor(s) == IF ss[s] = "accepted" THEN <<[c |-> "release", s |-> s], [c |-> "finish", s |-> s]>>
             ELSE IF IsStage(ss[s]) THEN <<[c |-> "finish", s |-> s]>> ELSE <<>>
RECURSIVE SufAll(_)
SufAll(k) == IF k \notin Sess THEN <<>> ELSE SufFor(k) \o SufAll(k + 1)
Suffix == SufAll(1) \o (IF drain = "idle" THEN <<[c |-> "drain"]>> ELSE <<>>)
Complete == Quiet /\ drain # "idle"
Emit == ~Record \/ ~(mode = "run" /\ (n = Depth \/ Complete))
        \/ PrintT(<<"BEHAVIOUR", ToJson(hist \o Suffix)>>)

----------------------------------------------------------------------------
(* C19 on the contract, stated independently of the action definitions *)
NoNewSessionAfterShutdown ==
    [][phase = "stopping" => \A s \in Sess : ss[s] = "none" => ss'[s] = "none"]_gvars
DrainReturnsOnlyWhenQuiet ==
    [][(drain # "returned" /\ drain' = "returned") => (drain = "called" /\ Quiet)]_gvars
DrainNeverEndsASession ==
    [][act' \in {"drain", "drained"} => ss' = ss]_gvars
ShutdownNeverEndsASession ==
    [][act' \in {"cancel", "scannerstop", "hubstop", "newconn"} => (ss' = ss /\ store' = store)]_gvars
(* a message whose transfer completes - before or after the request - is stored for each recipient *)
Passes(s, st) == Proto = "smtp" /\ IsStage(ss[s]) /\ Idx(ss[s]) < Idx(st) /\ (ss'[s] = "ended" \/ (IsStage(ss'[s]) /\ Idx(ss'[s]) >= Idx(st)))
AckMeansStored ==
    [][\A s \in Sess : (act' \in {"cont", "finish"} /\ who' = s /\ Passes(s, "acked")) =>
          \A m \in plan[s].mbs : store'[m] = Append(store[m], plan[s].tag)]_gvars
QuitAppliesDeletions ==
    [][\A s \in Sess : (Proto = "pop3" /\ act' = "finish" /\ who' = s) =>
          \A m \in plan[s].mbs : store'[m] = Unmarked(store[m], plan[s].marks)]_gvars
OthersUntouched ==
    [][\A m \in Mailbox : (who' = 0 \/ m \notin plan'[who'].mbs) => store'[m] = store[m]]_gvars

(* liveness, with clients that do finish and a server that does take its steps *)
ClientMoves(s) == Run /\ who' = s /\ act' \in {"finish", "release"}
Fair == WF_gvars(Quiesce) /\ \A s \in Sess : WF_gvars(ClientMoves(s))
LiveSpec == GSpec /\ Fair
DrainEventuallyReturns == (drain = "called") ~> (drain = "returned")
ServicesEventuallyStop == (phase = "stopping") ~> (scanner = "stopped" /\ hub = "stopped")
=============================================================================
