---------------------------- MODULE GenMailstore ----------------------------
(* Behaviour generator for the store drivers: the Mailstore contract with a *)
(* history variable.  In BFS mode (state constraint Len(hist) <= Depth)     *)
(* every mutator sequence up to Depth is one state; in -simulate mode it    *)
(* yields long random histories.  A behaviour is printed as JSON when it    *)
(* reaches Depth.  Reads are added by the driver ("probe" after each step). *)
EXTENDS Mailstore, TLC, Json

CONSTANTS Sizes, Metas, Depth, ReopenCaps, Ops, GenCap, GenLimit
VARIABLES hist
gvars == <<boxes, used, arrival, cap, limit, hist>>

NextId(m) == Cardinality(used[m]) + 1
IdRefs(m) == 1 .. (Cardinality(used[m]) + 1)

GInit == Init(GenCap, GenLimit) /\ hist = <<>>

Rec(op, m, id, meta, size) == [op |-> op, mb |-> m, id |-> id, meta |-> meta, size |-> size]

GNext ==
    /\ Len(hist) < Depth
    /\ \/ \E m \in Mailbox, meta \in Metas, size \in Sizes : "add" \in Ops /\
            Add(m, NextId(m), meta, size) /\ hist' = Append(hist, Rec("add", m, 0, meta, size))
       \/ \E m \in Mailbox : \E id \in IdRefs(m) :
            \/ "seen" \in Ops /\ MarkSeen(m, id) /\ hist' = Append(hist, Rec("seen", m, id, 0, 0))
            \/ "remove" \in Ops /\ RemoveMsg(m, id) /\ hist' = Append(hist, Rec("remove", m, id, 0, 0))
       \/ \E m \in Mailbox : "purge" \in Ops /\ Purge(m) /\ hist' = Append(hist, Rec("purge", m, 0, 0, 0))
       \/ "scan" \in Ops /\ Scan(LAMBDA meta : meta = 0) /\ hist' = Append(hist, Rec("scan", 0, 0, 0, 0))
       \/ \E c \in ReopenCaps : Reopen(c) /\ hist' = Append(hist, Rec("reopen", 0, c, 0, 0))

GSpec == GInit /\ [][GNext]_gvars

Emit == Len(hist) < Depth \/ PrintT(<<"BEHAVIOUR", ToJson(hist)>>)
=============================================================================
