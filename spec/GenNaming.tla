----------------------------- MODULE GenNaming -----------------------------
(***************************************************************************)
(* Bounded model of the Naming contract.  TLC enumerates every abstract    *)
(* address (route or not, every local part of up to MaxLen token classes,  *)
(* every domain class) in every naming mode, asks the abstract naming      *)
(* function for the address, each of its variants and the produced name,   *)
(* and checks the relations of C04 on the resulting observation table      *)
(* (invariants).  With Emit as an additional invariant every address is    *)
(* printed, together with its variants, as a behaviour for the driver      *)
(* `vh naming'; a variant is printed as the edit that produces it from the *)
(* address (flip the case of the local part / of the domain, append a      *)
(* "+ext", cut at the first unquoted '+'), because it has to be applied to *)
(* the concrete spelling the concretiser chooses for the address.          *)
(***************************************************************************)
EXTENDS Naming, TLC, Json

CONSTANTS MaxLen,        \* longest local part, in tokens
          GenModes       \* naming modes to enumerate (generation uses one: the output does not depend on it)

VARIABLES mode, addr, obs
gvars == <<mode, addr, obs>>

GInit == /\ mode \in GenModes
         /\ addr \in AbsAddr(MaxLen)
         /\ obs = {}

(* the naming function is asked for the address, its variants and the name *)
Observe == /\ obs = {}
           /\ obs' = Table(mode, addr)
           /\ UNCHANGED <<mode, addr>>

GSpec == GInit /\ [][Observe]_gvars

----------------------------------------------------------------------------
TypeOK == /\ mode \in Modes
          /\ \A r \in obs : /\ r.role \in {"orig", "name"} \cup CaseRoles \cup PlusRoles
                            /\ r.rcpt.ok \in BOOLEAN /\ r.look.ok \in BOOLEAN
                            /\ (~r.rcpt.ok => r.rcpt.name = "") /\ (~r.look.ok => r.look.name = "")
InvNonEmpty        == NonEmpty(obs)
InvFixedPoint      == FixedPoint(obs) /\ Complete(obs)
InvCaseInsensitive == CaseInsensitive(obs)
InvPlusInsensitive == PlusInsensitive(obs)
InvReceiveNameEqualsLookupName == ReceiveNameEqualsLookupName(obs)
(* the relations are not vacuous on the model: an accepted address has a    *)
(* "name" row and at least the "+ext" variant is accepted with it           *)
InvNotVacuous ==
    (obs # {} /\ RcptAccepts(mode, addr)) =>
        /\ Accepted(obs) # {}
        /\ \E r \in obs : r.role = "plus" /\ r.rcpt.ok
        /\ \E r \in obs : r.role = "name" /\ r.look.ok
(* what is in scope of the contract: every address with a domain and a base *)
InvScope == obs # {} => ((Accepted(obs) # {}) <=> RcptAccepts(mode, addr))

----------------------------------------------------------------------------
(* generation: one behaviour per abstract address *)
Edit(role) ==
    CASE role = "orig"   -> [role |-> role, flipL |-> FALSE, flipD |-> FALSE, plus |-> "keep"]
      [] role = "caseL"  -> [role |-> role, flipL |-> TRUE,  flipD |-> FALSE, plus |-> "keep"]
      [] role = "caseD"  -> [role |-> role, flipL |-> FALSE, flipD |-> TRUE,  plus |-> "keep"]
      [] role = "caseLD" -> [role |-> role, flipL |-> TRUE,  flipD |-> TRUE,  plus |-> "keep"]
      [] role = "plus"   -> [role |-> role, flipL |-> FALSE, flipD |-> FALSE, plus |-> "add"]
      [] role = "noplus" -> [role |-> role, flipL |-> FALSE, flipD |-> FALSE, plus |-> "cut"]
Behaviour == [route |-> addr.route, local |-> addr.local, dom |-> addr.dom,
              variants |-> {Edit(v[1]) : v \in Variants(addr)}]
Emit == obs # {} \/ PrintT(<<"BEHAVIOUR", ToJson(Behaviour)>>)
=============================================================================
