------------------------------ MODULE GenPop3 ------------------------------
(***************************************************************************)
(* Bounded model of the Pop3 contract over an abstract command alphabet    *)
(* with argument classes, plus the environment (deliveries, removals and   *)
(* purges through other interfaces between commands) and disconnects.      *)
(* Record = FALSE: the model TLC checks exhaustively (invariants and       *)
(* action properties of C13).  Record = TRUE: the history variable makes   *)
(* every sequence a state; sequences are printed as behaviours for the     *)
(* driver `vh pop3' (BFS to Depth, transition tour under TourView, or      *)
(* -simulate).                                                             *)
(*                                                                         *)
(* Argument classes of a message-number argument, relative to the session: *)
(* valid (shown message), marked, zero, neg, over (n+1), huge, nonnum,     *)
(* missing, extra.  Message ids are 1, 2, ... in order of delivery; the    *)
(* abstract size of message i is i (the concretiser picks real sizes).     *)
(***************************************************************************)
EXTENDS Pop3, TLC, Json

CONSTANTS Cmds,          \* subset of the command alphabet to explore
          ArgKinds,      \* subset of the argument classes
          TopLines,      \* classes of TOP's second argument: "ok", "neg", "nonnum", "missing"
          Users,         \* names used with USER / APOP
          ApopArgs,      \* numbers of words after APOP
          Accepts,       \* choices for the contract's `accept' parameters
          EnvBoxes,      \* mailboxes the environment acts on
          MaxId,         \* total number of deliveries
          InitCounts,    \* set of initial message counts of mailbox "alice"
          StartLoggedIn, \* TRUE: behaviours start in TRANSACTION as alice
          Depth, Record

VARIABLES hist, prev, nextId, act, n
gvars == <<st, user, snap, marked, store, reply, hist, prev, nextId, act, n>>

Msg(i) == [id |-> i, size |-> i]
Rec(x) == /\ hist' = IF Record THEN Append(hist, x) ELSE hist
          /\ act' = x.c
          /\ n' = IF Record THEN n + 1 ELSE 0
Has(c) == c \in Cmds

ClassOf(a) == CASE a.k # "num"      -> a.k
                [] a.v = 0          -> "zero"
                [] a.v < 0          -> "neg"
                [] a.v > Len(snap)  -> "over"
                [] a.v \in marked   -> "marked"
                [] OTHER            -> "valid"
Candidates == {Num(k) : k \in (-1)..(Len(snap) + 1)} \cup {[k |-> x] : x \in {"huge", "nonnum", "missing", "extra"}}
ArgsIn(K) == {a \in Candidates : ClassOf(a) \in K}
(* before login every numeric class looks the same: one representative *)
NumArgs(K) == IF st = "AUTH" THEN {a \in {Missing, Num(1)} : ClassOf(a) \in K \cup {"over"}} ELSE ArgsIn(K)

GInit ==
    /\ \E cnt \in InitCounts :
          /\ store = [m \in Mailbox |-> IF m = "alice" THEN [i \in 1..cnt |-> Msg(i)] ELSE <<>>]
          /\ nextId = cnt + 1
          /\ hist = IF Record
                    THEN [i \in 1..cnt |-> [c |-> "deliver", mb |-> "alice", id |-> i]]
                         \o (IF StartLoggedIn THEN <<[c |-> "user", name |-> "alice", has |-> TRUE],
                                                     [c |-> "pass", has |-> TRUE]>> ELSE <<>>)
                    ELSE <<>>
          /\ IF StartLoggedIn
             THEN st = "TRANS" /\ user = "alice" /\ snap = store["alice"]
             ELSE st = "AUTH" /\ user = NoUser /\ snap = <<>>
    /\ marked = {} /\ reply = Ok
    /\ prev = <<>> /\ act = "init" /\ n = 0

GStep ==
    \/ \E u \in Users : Has("user") /\ User(u, TRUE) /\ Rec([c |-> "user", name |-> u, has |-> TRUE])
    \/ Has("usernoarg") /\ User(NoUser, FALSE) /\ Rec([c |-> "user", name |-> "", has |-> FALSE])
    \/ Has("pass") /\ Pass(TRUE, TRUE) /\ Rec([c |-> "pass", has |-> TRUE])
    \/ \E acc \in Accepts : Has("passnoarg") /\ Pass(FALSE, acc) /\ Rec([c |-> "pass", has |-> FALSE])
    \/ \E u \in Users, k \in ApopArgs, acc \in Accepts :
          Has("apop") /\ Apop(IF k = 0 THEN NoUser ELSE u, k, acc) /\ Rec([c |-> "apop", name |-> IF k = 0 THEN "" ELSE u, nargs |-> k])
    \/ \E a \in NumArgs(ArgKinds \cap {"missing", "extra"}) : Has("stat") /\ Stat(a) /\ Rec([c |-> "stat", arg |-> a])
    \/ \E a \in NumArgs(ArgKinds) : Has("list") /\ List(a) /\ Rec([c |-> "list", arg |-> a])
    \/ \E a \in NumArgs(ArgKinds) : Has("uidl") /\ Uidl(a) /\ Rec([c |-> "uidl", arg |-> a])
    \/ \E a \in NumArgs(ArgKinds) : Has("dele") /\ Dele(a) /\ Rec([c |-> "dele", arg |-> a])
    \/ \E a \in NumArgs(ArgKinds) : Has("retr") /\ Fetch(a, TRUE) /\ Rec([c |-> "retr", arg |-> a])
    \/ \E a \in NumArgs(ArgKinds), l \in TopLines :
          Has("top") /\ Fetch(a, l = "ok") /\ Rec([c |-> "top", arg |-> a, lines |-> l])
    \/ Has("rset") /\ Rset /\ Rec([c |-> "rset"])
    \/ Has("noop") /\ Noop /\ Rec([c |-> "noop"])
    \/ \E w \in {"capa", "unknown", "empty", "garbage", "long", "stls"} : Has(w) /\ Other /\ Rec([c |-> w])
    \/ Has("quit") /\ Quit /\ Rec([c |-> "quit"])
    \/ \E w \in {"drop", "cut", "idle"} : Has(w) /\ Drop /\ Rec([c |-> w])
    \/ Has("connect") /\ Connect /\ Rec([c |-> "connect"])
    \/ \E mb \in EnvBoxes : Has("deliver") /\ nextId <= MaxId /\ EnvDeliver(mb, nextId, nextId)
                            /\ Rec([c |-> "deliver", mb |-> mb, id |-> nextId])
    \/ \E mb \in EnvBoxes : \E i \in IdsOf(store[mb]) :
          Has("remove") /\ EnvRemove(mb, i) /\ Rec([c |-> "remove", mb |-> mb, id |-> i])
    \/ \E mb \in EnvBoxes : Has("purge") /\ store[mb] # <<>> /\ EnvPurge(mb) /\ Rec([c |-> "purge", mb |-> mb])

GNext == /\ (Record => n < Depth)
         /\ GStep
         /\ prev' = IF Record THEN <<st, user, snap, marked, store, nextId>> ELSE <<>>
         /\ nextId' = IF act' = "deliver" THEN nextId + 1 ELSE nextId

GSpec == GInit /\ [][GNext]_gvars

(* Observation suffix: makes the hidden session state (snapshot, marks)    *)
(* visible and ends with QUIT so that the commit is observed too.          *)
Observe == <<[c |-> "stat", arg |-> Missing], [c |-> "list", arg |-> Missing], [c |-> "uidl", arg |-> Missing]>>
QuitCmd == <<[c |-> "quit"]>>
Suffix ==
    CASE st = "TRANS" -> Observe \o QuitCmd
      [] st = "AUTH" /\ user # NoUser -> <<[c |-> "pass", has |-> TRUE]>> \o Observe \o QuitCmd
      [] st = "AUTH" -> <<[c |-> "user", name |-> "alice", has |-> TRUE], [c |-> "pass", has |-> TRUE]>> \o Observe \o QuitCmd
      [] OTHER -> <<>>
(* Transition tour: two states are the same when they were reached by the  *)
(* same command from the same contract state: every edge is walked once.   *)
TourView == <<prev, IF hist = <<>> THEN <<>> ELSE hist[Len(hist)]>>
EmitTour == n = 0 \/ PrintT(<<"BEHAVIOUR", ToJson(hist \o Suffix)>>)
(* BFS / simulation: a behaviour is complete at Depth (the session state   *)
(* is then observed, and the client hangs up) or when the session is over  *)
Emit == ~Record \/ ~(n = Depth \/ (st = "QUIT" /\ ~Has("connect") /\ n > 0))
        \/ PrintT(<<"BEHAVIOUR", ToJson(hist \o (IF st = "TRANS" THEN Observe ELSE <<>>))>>)

----------------------------------------------------------------------------
(* C13 on the contract, stated independently of the action definitions *)
Lost(m)  == IdsOf(store[m]) \ IdsOf(store'[m])
IsSubSeq(s, t) == \* s is t with some elements left out, order kept (ids are distinct)
    /\ IdsOf(s) \subseteq IdsOf(t)
    /\ \A i, j \in DOMAIN s : i < j =>
          (CHOOSE x \in DOMAIN t : t[x] = s[i]) < (CHOOSE x \in DOMAIN t : t[x] = s[j])
EnvActs == {"deliver", "remove", "purge"}
OnlyQuitRemoves ==
    [][\A m \in Mailbox : Lost(m) # {} => (act' \in EnvActs \/ (act' = "quit" /\ st = "TRANS" /\ m = user))]_gvars
QuitRemovesExactlyMarked ==
    [][(act' = "quit" /\ st = "TRANS") =>
          /\ Lost(user) = {snap[k].id : k \in marked} \cap IdsOf(store[user])
          /\ IsSubSeq(store'[user], store[user])
          /\ \A m \in Mailbox \ {user} : store'[m] = store[m]]_gvars
OtherEndingsRemoveNothing ==
    [][(act' \in {"drop", "cut", "idle"} \/ (act' = "quit" /\ st = "AUTH")) => store' = store]_gvars
CommandsDoNotTouchStore ==
    [][(act' \notin EnvActs \cup {"quit"}) => store' = store]_gvars
RsetUnmarksAll == [][(act' = "rset" /\ st = "TRANS") => (marked' = {} /\ snap' = snap)]_gvars
StepProps == [][SnapshotStable /\ MarksByDeleOrRset]_gvars
(* a later delivery or removal never shows inside a running session *)
EnvInvisible == [][(act' \in EnvActs) => UNCHANGED <<st, user, snap, marked>>]_gvars
=============================================================================
