------------------------------ MODULE GenPop3Tls ------------------------------
(* Bounded model of Pop3Tls and generator of behaviours for `vh pop3tls' (history variable). *)
EXTENDS Pop3Tls, Sequences, TLC, Json

CONSTANTS Depth, Record
VARIABLE hist
gvars == <<link, phase, hist>>

Rec(x) == hist' = IF Record THEN Append(hist, x) ELSE hist
GInit == TInit /\ hist = <<>>
GNext ==
    /\ (Record => Len(hist) < Depth)
    /\ \E c \in Conn :
          \/ Open(c) /\ Rec([k |-> "open", c |-> c])
          \/ Close(c) /\ Rec([k |-> "close", c |-> c])
          \/ Login(c) /\ Rec([k |-> "login", c |-> c])
          \/ \E b \in BOOLEAN : Capa(c, b) /\ Rec([k |-> "capa", c |-> c])
          \/ \E b \in BOOLEAN : Stls(c, b) /\ Rec([k |-> "stls", c |-> c])
GSpec == GInit /\ [][GNext]_gvars
Emit == ~Record \/ Len(hist) < Depth \/ PrintT(<<"BEHAVIOUR", ToJson(hist)>>)
IsolationG == [][\A c \in Conn : (link'[c] # link[c] \/ phase'[c] # phase[c]) =>
                   \A d \in Conn \ {c} : link'[d] = link[d] /\ phase'[d] = phase[d]]_gvars
NoDowngradeG == [][\A c \in Conn : link[c] = "tls" => link'[c] \in {"tls", "none"}]_gvars
=============================================================================
