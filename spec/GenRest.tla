------------------------------ MODULE GenRest ------------------------------
(***************************************************************************)
(* Bounded model of the Rest contract over two mailboxes "A", "B" and      *)
(* abstract message ids "1", "2", ... (the k-th id issued in a mailbox).   *)
(*                                                                         *)
(* Record = FALSE: the model TLC checks exhaustively (the statements of    *)
(* C14 as invariants / action properties, both vias, every status the      *)
(* contract allows).                                                       *)
(* Record = TRUE: behaviour generator for the driver `vh rest'.  The       *)
(* history variable records deliveries and requests (route, mailbox, id    *)
(* reference, body class); how a mailbox name is spelled, which back-end,  *)
(* base path and whether a request goes through raw HTTP or the Go client  *)
(* is decided by the concretiser (checks/rest.py).                         *)
(*  - transition tour (VIEW TourView): one behaviour per edge              *)
(*    (store state, request) of the contract's bounded state graph;        *)
(*  - -simulate: long random histories (Weight makes deliveries likelier). *)
(* Id references: every id issued so far in the mailbox (live or removed), *)
(* one never issued, and "latest".                                         *)
(***************************************************************************)
EXTENDS Rest, TLC, Json

CONSTANTS GenRoutes,     \* subset of AllRoutes to explore
          Bodies,        \* body classes of the mark-seen request
          Vias,          \* {"http"} for generation, {"http", "client"} for the model check
          MaxAdds,       \* bound on deliveries
          Depth, Record, Weight

VARIABLES hist, prev
gvars == <<boxes, used, arrival, cap, limit, last, hist, prev>>

Issued(m)   == Cardinality(used[m])
TotalIssued == FoldSet(LAMBDA m, acc : acc + Issued(m), 0, Mailbox)
IdRefs(m)   == {ToString(k) : k \in 1 .. (Issued(m) + 1)} \cup {"latest"}
Statuses    == {"ok", "notfound", "error", "err"}

Rec(x) == hist' = IF Record THEN Append(hist, x) ELSE hist

(* when generating, follow one reading where the contract allows two: the  *)
(* abstract store state recorded in `prev' then is the one the sequence    *)
(* was generated for (any outcome is still judged by the full contract)    *)
OneReading(rq) ==
    Record => /\ (rq.id = "latest" /\ rq.route \in {"seen", "delete"}) => boxes' = boxes
              /\ (rq.route = "seen" /\ rq.body \in {"none", "garbage"}) => boxes' = boxes

GInit == RInit /\ hist = <<>> /\ prev = <<>>

Request(rq) == /\ \E st \in Statuses : Req(rq, st)
               /\ OneReading(rq)
               /\ Rec([c |-> "req", route |-> rq.route, mb |-> rq.mb, id |-> rq.id, body |-> rq.body])

GStep ==
    \/ \E m \in Mailbox, w \in 1 .. Weight :
          /\ TotalIssued < MaxAdds
          /\ Deliver(m, ToString(Issued(m) + 1), [k |-> "gen"], 1)
          /\ Rec([c |-> "deliver", mb |-> m, w |-> w])
    \/ \E m \in Mailbox, via \in Vias, route \in GenRoutes \cap {"list", "purge"} :
          Request([route |-> route, via |-> via, mb |-> m, id |-> "", body |-> ""])
    \/ \E m \in Mailbox, via \in Vias, route \in GenRoutes \cap (ByIdRoutes \ {"seen"}) : \E id \in IdRefs(m) :
          /\ via = "client" => route \in ClientRoutes
          /\ Request([route |-> route, via |-> via, mb |-> m, id |-> id, body |-> ""])
    \/ \E m \in Mailbox, via \in Vias, body \in Bodies : \E id \in IdRefs(m) :
          /\ "seen" \in GenRoutes
          /\ via = "client" => body = "true"
          /\ Request([route |-> "seen", via |-> via, mb |-> m, id |-> id, body |-> body])

GNext == /\ (Record => Len(hist) < Depth)
         /\ GStep
         /\ prev' = IF Record THEN <<boxes, used>> ELSE prev

GSpec == GInit /\ [][GNext]_gvars

(* transition tour: two states are the same when the same command was      *)
(* issued from the same store state (and had the same effect), so TLC      *)
(* visits every edge of the contract's state graph once; hist is a         *)
(* shortest command sequence that reaches the edge                         *)
TourView == <<prev, IF hist = <<>> THEN <<>> ELSE hist[Len(hist)], boxes, used>>
EmitTour == hist = <<>> \/ PrintT(<<"BEHAVIOUR", ToJson(hist)>>)
Emit     == ~Record \/ Len(hist) < Depth \/ PrintT(<<"BEHAVIOUR", ToJson(hist)>>)

----------------------------------------------------------------------------
StepProps == [][/\ ReadsChangeNothing /\ Missing404 /\ RefusalNoEffect /\ OthersUntouched
                /\ ClientEffectMatchesName /\ NeverReused /\ OrderKept /\ ContentKept]_gvars
=============================================================================
