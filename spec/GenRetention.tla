---------------------------- MODULE GenRetention ----------------------------
(***************************************************************************)
(* Bounded model of the Retention contract: every distribution of message  *)
(* ages {old, young} over the mailboxes Boxes (at most MaxMsgs each), the  *)
(* scan as per-mailbox steps, the environment (deliver / remove / purge    *)
(* through other interfaces), Cancel, and the run loop.                    *)
(*                                                                         *)
(* Record = FALSE: the model TLC checks exhaustively: mailboxes visited in *)
(* every order, up to MaxEnv environment operations at any moment, Cancel  *)
(* at any moment (RemovesExactlyExpired, ZeroNeverDeletes, StopsPromptly   *)
(* and the action properties below).                                       *)
(* Record = TRUE: generator for `vh retention'.  The order in which a real *)
(* store visits its mailboxes is its own business (hash directories, map   *)
(* iteration), so a schedule names its targets relative to the progress of *)
(* the scan: "after k visits, at site s, deliver/remove/purge on the i-th  *)
(* visited / i-th not yet visited / i-th empty-at-start mailbox (or the    *)
(* mailbox the walk is about to open)".  The model visits in the order of  *)
(* Order (all distributions are enumerated, so nothing is lost) and prints *)
(* each complete behaviour as JSON.                                        *)
(***************************************************************************)
EXTENDS Retention, Sequences, TLC, Json

CONSTANTS Boxes,        \* mailboxes that may hold mail at the start (subset of Mailbox)
          MaxMsgs,      \* messages per mailbox at the start
          Periods,      \* model periods: 0 (disabled) and/or 2
          MaxEnv,       \* environment operations per behaviour
          EnvOps,       \* subset of {"deliver", "remove", "purge"}
          Sites,        \* where a scheduled operation runs: "w" (between two visits), "l1", "l2", "l3", "mbox" (file-store walk)
          Cancels,      \* subset of {"before", "between", "sleep", "wait", "none"}; "any" (model check only): at any moment
          Modes,        \* subset of {"scan", "loop"}: DoScan directly / Start+Join; "wake": the loop's scan is waited for
          Record

VARIABLES hist, dist, nextId, nenv, act
gvars == <<store, ub, pre, mustGo, must, visited, pc, loop, cancelled, disturbed, late, period, hist, dist, nextId, nenv, act>>

(* canonical order of the model's mailbox names (visit order of the generator, ranks) *)
Order == SelectSeq(<<"a", "b", "c", "d", "e", "z">>, LAMBDA x : x \in Mailbox)
ASSUME Mailbox \subseteq {"a", "b", "c", "d", "e", "z"}
AgeOf(c) == IF c = "old" THEN 3 ELSE 1          \* against the model period 2
Classes  == {"old", "young"}
Dists    == UNION {[1..k -> Classes] : k \in 0..MaxMsgs}
Pos(m)   == CHOOSE i \in DOMAIN Order : Order[i] = m
Rank(m, S) == Cardinality({x \in S : Pos(x) < Pos(m)})
First(S) == CHOOSE m \in S : \A x \in S : Pos(m) <= Pos(x)

Rec(x) == /\ hist' = IF Record THEN Append(hist, x) ELSE hist
          /\ act' = x.c

GInit ==
    /\ period \in Periods
    /\ dist \in [Boxes -> Dists]
    /\ store = [m \in Mailbox |-> IF m \in Boxes THEN [i \in 1..Len(dist[m]) |-> [id |-> i, age |-> AgeOf(dist[m][i])]] ELSE <<>>]
    /\ ub = store /\ pre = store
    /\ mustGo = [m \in Mailbox |-> {}] /\ must = {} /\ visited = {}
    /\ pc = "idle" /\ loop = FALSE /\ cancelled = FALSE /\ disturbed = FALSE /\ late = 0
    /\ hist = <<>> /\ nextId = MaxMsgs + 1 /\ nenv = 0 /\ act = "init"

Todo    == must \ visited
NextBox == First(Todo)
(* class and rank of a target mailbox, relative to the progress of the scan *)
Target(m, site) ==
    LET hook == site \in {"l2", "l3", "mbox"} /\ Todo # {}
        later == IF hook THEN Todo \ {NextBox} ELSE Todo
        fresh == Mailbox \ (visited \cup must)
    IN  IF m \in visited THEN [tc |-> "visited", ti |-> Rank(m, visited)]
        ELSE IF hook /\ m = NextBox THEN [tc |-> "next", ti |-> 0]
        ELSE IF m \in later THEN [tc |-> "unvisited", ti |-> Rank(m, later)]
        ELSE [tc |-> "fresh", ti |-> Rank(m, fresh)]
SiteOK(site, m) ==
    CASE site = "w"  -> TRUE
      [] site = "l1" -> visited = {} /\ m \in Todo
      [] OTHER       -> Todo # {} /\ m \in Todo
EnvWhen == nenv < MaxEnv /\ (Record => pc = "scanning" /\ ~cancelled)
EnvRec(op, m, site, extra) ==
    LET t == Target(m, site)
    IN  /\ Rec([c |-> "env", op |-> op, tc |-> t.tc, ti |-> t.ti, site |-> site, x |-> extra])
        /\ nenv' = nenv + 1

GEnv ==
    /\ EnvWhen
    /\ \E site \in (IF Record THEN Sites ELSE {"w"}), m \in Mailbox :
          /\ SiteOK(site, m)
          /\ \/ \E a \in Classes :
                   /\ "deliver" \in EnvOps
                   /\ EnvDeliver(m, [id |-> nextId, age |-> AgeOf(a)])
                   /\ EnvRec("deliver", m, site, a) /\ nextId' = nextId + 1
             \/ \E sel \in {"first", "last"} :
                   /\ "remove" \in EnvOps /\ store[m] # <<>>
                   /\ sel = "last" => Len(store[m]) > 1
                   /\ EnvRemove(m, IF sel = "first" THEN store[m][1].id ELSE store[m][Len(store[m])].id)
                   /\ EnvRec("remove", m, site, sel) /\ UNCHANGED nextId
             \/ /\ "purge" \in EnvOps /\ store[m] # <<>>
                /\ EnvPurge(m)
                /\ EnvRec("purge", m, site, "") /\ UNCHANGED nextId
    /\ UNCHANGED dist

Quiet == UNCHANGED <<dist, nextId, nenv>>

GScan ==
    \/ "scan" \in Modes /\ ScanStart /\ Rec([c |-> "scan"]) /\ Quiet
    \/ \E m \in Mailbox :
          /\ Record => (Todo # {} /\ m = NextBox /\ ~cancelled)
          /\ Visit(m) /\ Rec([c |-> "visit"]) /\ Quiet
    \/ ScanEnd /\ Rec([c |-> "end"]) /\ Quiet

GCancel ==
    /\ ~cancelled
    /\ \E how \in Cancels \ {"none"} :
          /\ CASE how = "before"  -> pc = "idle" /\ ~loop /\ hist = <<>>
               [] how = "between" -> pc = "scanning" /\ visited # {}
               [] how = "sleep"   -> pc = "scanning" /\ visited # {}
               [] how = "wait"    -> pc \in {"waiting", "sleeping"}
               [] how = "any"     -> ~Record
               [] OTHER -> FALSE
          /\ Cancel /\ Rec([c |-> "cancel", how |-> how]) /\ Quiet

GLoop ==
    \/ "loop" \in Modes /\ StartLoop /\ Rec([c |-> "start"]) /\ Quiet
    \/ "wake" \in Modes /\ (Record => pc = "waiting") /\ LoopWake /\ Rec([c |-> "wake"]) /\ Quiet
    \/ LoopStop /\ Rec([c |-> "stop"]) /\ Quiet

(* generator: a behaviour without a cancel step only when "none" is asked for; *)
(* a loop that was woken is stopped only after its scan                        *)
GNext == GEnv \/ GScan \/ GCancel \/ GLoop

GSpec == GInit /\ [][GNext]_gvars

Final == pc \in {"done", "aborted", "stopped"}
HasCancel == \E i \in DOMAIN hist : hist[i].c = "cancel"
Wanted == HasCancel \/ "none" \in Cancels \/ period = 0
Emit == ~Record \/ ~Final \/ ~Wanted
        \/ PrintT(<<"BEHAVIOUR", ToJson([period |-> period, dist |-> dist, steps |-> hist])>>)

----------------------------------------------------------------------------
(* C12 on the model, stated on steps, independently of the action definitions *)
Lost(m) == Ids(store[m]) \ Ids(store'[m])
EnvActs == {"env"}
(* only a scan step or the environment ever removes a message; a scan step  *)
(* removes only messages that were older than the period and changes nothing *)
(* else                                                                      *)
OnlyExpiredEverRemoved ==
    [][act' \notin EnvActs =>
          \A m \in Mailbox :
             /\ \A i \in DOMAIN store[m] : store[m][i].id \in Lost(m) => store[m][i].age > period /\ period > 0
             /\ store'[m] = Sub(store[m], Ids(store'[m]))]_gvars
(* with period 0 no step but the environment's changes the store *)
ZeroStepsDeleteNothing == [][(period = 0 /\ act' \notin EnvActs) => store' = store]_gvars
(* a scan that returns without a shutdown request has left nothing that was *)
(* older than the period when it started, in any mailbox                    *)
EndMeansAllGone ==
    [][(act' = "end" /\ ~cancelled) =>
          \A m \in Mailbox : \A i \in DOMAIN pre[m] :
              (pre[m][i].age > period) => pre[m][i].id \notin Ids(store'[m])]_gvars
(* after a shutdown request at most one more mailbox is touched by the scan *)
AtMostOneAfterCancel == [][(cancelled /\ act' = "visit") => late = 0]_gvars
=============================================================================
