----------------------------- MODULE GenSanitize -----------------------------
(***************************************************************************)
(* Bounded models over the abstract alphabets of Sanitize.tla (C18).       *)
(*                                                                         *)
(* Mode = "css", Record = FALSE: the product of the style filter of css.go *)
(*   (three states over token classes) and the browser-like declaration    *)
(*   reader, with NO history variable: the state space is the product      *)
(*   automaton (open blocks bounded by MaxNest), so TLC checks             *)
(*   CssSound for token-class sequences of EVERY length.                   *)
(* Mode = "css", Record = TRUE: every token-class sequence of length       *)
(*   1..Depth over Classes is one state and is printed as a behaviour.     *)
(* Mode = "html": every abstract document (forest in preorder: node class  *)
(*   + nesting level) of 1..Depth nodes, nesting level <= MaxNest.         *)
(* Mode = "text": every text-class sequence of length 1..Depth.            *)
(*                                                                         *)
(* The behaviours are spelled as bytes by checks/sanitize.py, run through  *)
(* the real sanitiser by `vh sanitize', and the projections of the real    *)
(* outputs are judged by SanitizeTrace.tla.                                *)
(***************************************************************************)
EXTENDS Sanitize, TLC, Json

CONSTANTS Mode, Classes, Depth, MaxNest, Record

VARIABLES hist,      \* the sequence so far (only when Record)
          fs,        \* css: state of the filter
          rd,        \* css: state of the reader that reads the filter's output
          dead       \* css: the scanner reported an error: the output is empty for good
gvars == <<hist, fs, rd, dead>>

ASSUME Mode \in {"css", "html", "text"}
ASSUME Mode = "css"  => Classes \subseteq CssClasses
ASSUME Mode = "html" => Classes \subseteq NodeClasses
ASSUME Mode = "text" => Classes \subseteq TextClasses
(* every invariant of the contract is exercised by some node class         *)
ASSUME Exercised

GInit == /\ hist = <<>> /\ fs = "start" /\ dead = FALSE
         /\ \E b \in (IF Record THEN {TRUE} ELSE BOOLEAN) : rd = ReaderInit(b)

Rec(x) == hist' = IF Record THEN Append(hist, x) ELSE hist

CssStep(t) ==
    /\ ~dead
    /\ IF t = "bad"
       THEN dead' = TRUE /\ fs' = fs /\ rd' = ReaderInit(rd.atEnds)       \* sanitizeStyle returns ""
       ELSE LET f == FilterStep(fs, t)
            IN  fs' = f.st /\ rd' = ReadAll(rd, f.out) /\ dead' = FALSE
    /\ Rec(t)

HtmlStep(c, d) ==
    /\ IF hist = <<>> THEN d = 0
       ELSE LET last == hist[Len(hist)]
            IN  d <= last.d + 1 /\ (d = last.d + 1 => Container(last.c))
    /\ Rec([c |-> c, d |-> d])
    /\ UNCHANGED <<fs, rd, dead>>

TextStep(c) == Rec(c) /\ UNCHANGED <<fs, rd, dead>>

GNext == /\ (Record => Len(hist) < Depth)
         /\ \E c \in Classes :
              \/ Mode = "css" /\ CssStep(c)
              \/ Mode = "html" /\ \E d \in 0..MaxNest : HtmlStep(c, d)
              \/ Mode = "text" /\ TextStep(c)

GSpec == GInit /\ [][GNext]_gvars

(* model-check configuration *)
TypeOK   == fs \in {"start", "eat", "valid"} /\ rd.m \in {"begin", "name", "rest", "at"} /\ dead \in BOOLEAN
CssSound == CssModelSound(rd)
(* the filter only ever writes a property name when it is in state start,  *)
(* and then the reader is ready for a declaration or skipping one          *)
StartAligned == (fs = "valid" /\ rd.m = "name") => rd.cand = "aid"
DeadIsEmpty  == dead => rd = ReaderInit(rd.atEnds)
Bound == rd.depth <= MaxNest

Emit == ~Record \/ hist = <<>> \/ PrintT(<<"BEHAVIOUR", ToJson(hist)>>)
=============================================================================
