------------------------------ MODULE GenSmtp ------------------------------
(***************************************************************************)
(* Bounded model of the Smtp contract over an abstract command alphabet.   *)
(* With Record = FALSE it is the model that TLC checks exhaustively        *)
(* (invariants and action properties of Smtp.tla plus the delivery         *)
(* statements of C01); with Record = TRUE the history variable makes every *)
(* command sequence a state, and each sequence that reaches Depth (or      *)
(* QUIT) is printed as a behaviour for the driver `vh smtp'.               *)
(*                                                                         *)
(* Recipient classes: a1, a2 -> mailbox A (two different addresses of the  *)
(* same mailbox), b -> mailbox B, c -> accepted but its domain is          *)
(* discarded (mailbox C never stores), rej -> domain refused, bad ->       *)
(* malformed address.                                                      *)
(***************************************************************************)
EXTENDS Smtp, TLC, Json

CONSTANTS Cmds,          \* subset of the command alphabet to explore
          MailKinds, RcptKinds, BodyKinds, HookKinds,
          MaxRcpts,      \* set of recipient limits (chosen in Init)
          Depth, Record,
          TlsModes,      \* subset of {"off", "avail"}: is STARTTLS configured (chosen in Init)
          OnlyOk,        \* TRUE: only steps that the contract answers positively (valid dialogues)
          StartInTx      \* TRUE: behaviours start inside an open transaction (after EHLO, MAIL)

VARIABLES hist, acked,   \* acked: per mailbox, number of messages the contract says were delivered
          prev,          \* the contract state before the last command (for the transition tour)
          pprev          \* ... and before the last two commands (2-switch tour)
gvars == <<st, from, rcpts, boxes, maxRcpt, reply, tls, hist, acked, prev, pprev>>

NoHook == [action |-> "none"]
(* scripted hook answers (C17): garbage (wrong kind of value), a raised error, *)
(* a runtime error and "no handler" all count as no answer; gofirst / golast  *)
(* are answers of Go listeners registered ahead of / behind the Lua host      *)
HookOf(h) == CASE h \in {"none", "nil", "num", "str", "tbl", "err", "rterr"} -> NoHook
               [] h = "defer"   -> [action |-> "defer"]
               [] h = "allow"   -> [action |-> "allow"]
               [] h = "deny"    -> [action |-> "deny", code |-> 550, text |-> "Mail denied by policy"]
               [] h = "denyc"   -> [action |-> "deny", code |-> 553, text |-> "custom text: 100% full; 5%d %s left"]
               [] h = "gofirst" -> [action |-> "deny", code |-> 521, text |-> "go first"]
               [] h = "golast"  -> [action |-> "deny", code |-> 522, text |-> "go last"]

MailDec(k, h) == [syntax |-> k # "badsyntax", size |-> k \notin {"sizebig", "sizebad"},
                  addr |-> k # "badaddr", hook |-> HookOf(h), origin |-> k # "origin"]
RcptRec(k) == [addr |-> k, mbox |-> CASE k \in {"a1", "a2"} -> "A" [] k = "b" -> "B" [] OTHER -> "C",
               store |-> k \in {"a1", "a2", "b"}]
RcptDec(k, h) == [valid |-> k # "bad", hook |-> HookOf(h), accept |-> k \notin {"rej", "bad"}]
BodyDec(k) == [parse |-> k # "unparseable", fits |-> k # "big", hook |-> NoHook, fails |-> {}]

Rec(x) == hist' = IF Record THEN Append(hist, x) ELSE hist

GInit == /\ \E mr \in MaxRcpts, t \in TlsModes :
               IF StartInTx
               THEN /\ st = "MAIL" /\ from = [sender |-> "ok"] /\ rcpts = <<>>
                    /\ boxes = [m \in Mailbox |-> <<>>] /\ maxRcpt = mr /\ reply = Ok /\ tls = t
               ELSE SInitT(mr, t)
         /\ hist = IF StartInTx /\ Record
                   THEN <<[c |-> "helo", verb |-> "EHLO", arg |-> TRUE], [c |-> "mail", k |-> "ok", hook |-> "none"]>>
                   ELSE <<>>
         /\ acked = [m \in Mailbox |-> 0]
         /\ prev = <<>> /\ pprev = <<>>

Has(c) == c \in Cmds

GStep ==
    \/ \E v \in {"HELO", "EHLO"}, a \in BOOLEAN :
          Has("helo") /\ Hello(v, a) /\ Rec([c |-> "helo", verb |-> v, arg |-> a])
    \/ \E k \in MailKinds, h \in HookKinds :
          Has("mail") /\ Mail([sender |-> k], MailDec(k, h)) /\ Rec([c |-> "mail", k |-> k, hook |-> h])
    \/ \E k \in RcptKinds, h \in HookKinds :
          Has("rcpt") /\ Rcpt(RcptRec(k), RcptDec(k, h)) /\ Rec([c |-> "rcpt", k |-> k, hook |-> h])
    \/ \E a \in BOOLEAN : Has("data") /\ (a => Has("dataarg")) /\ Data(a) /\ Rec([c |-> "data", arg |-> a])
    \/ \E k \in BodyKinds : Body([body |-> k], BodyDec(k)) /\ Rec([c |-> "body", k |-> k])
    \/ Has("rset") /\ Rset /\ Rec([c |-> "rset"])
    \/ \E w \in {"noop", "vrfy"} : Has(w) /\ Harmless /\ Rec([c |-> w])
    \/ \E w \in {"unimpl", "unknown", "short", "empty", "garbage", "long", "authother", "authplainnoarg", "authbare"} :
          Has(w) /\ Refused /\ Rec([c |-> w])
    \/ Has("starttls") /\ StartTLS /\ Rec([c |-> "starttls"])
    \/ Has("authplain") /\ Auth("plain") /\ Rec([c |-> "authplain"])
    \/ Has("authlogin") /\ Auth("login") /\ Rec([c |-> "authlogin"])
    \/ \E w \in {"cred", "credquit", "credempty"} : Has("authlogin") /\ Credential /\ Rec([c |-> w])
    \/ Has("quit") /\ Quit /\ Rec([c |-> "quit"])

(* the number of messages each mailbox must have gained, counted            *)
(* independently of DeliverTo: one per accepted storable recipient          *)
Gain(m) == Cardinality({i \in DOMAIN rcpts : rcpts[i].store /\ rcpts[i].mbox = m})
GNext == /\ (Record => Len(hist) < Depth)
         /\ GStep
         /\ (OnlyOk => reply'.cls = "ok")
         /\ prev' = <<st, from, rcpts, boxes, maxRcpt, tls>> /\ pprev' = prev
         /\ acked' = IF st = "DATA" /\ reply'.cls = "ok"
                     THEN [m \in Mailbox |-> acked[m] + Gain(m)] ELSE acked

GSpec == GInit /\ [][GNext]_gvars

(* Transition tour: under TourView two states are the same when they were   *)
(* reached by the same command from the same contract state, so TLC walks   *)
(* every edge of the contract's state graph exactly once.  Each edge is     *)
(* printed with a suffix that makes hidden state observable: it completes   *)
(* a transaction to a fresh recipient, so an envelope or a session state    *)
(* that differs from the contract's shows up in a reply or in the store.    *)
TourView == <<prev, IF hist = <<>> THEN <<>> ELSE hist[Len(hist)], maxRcpt>>
(* 2-switch tour: every pair of consecutive edges once (finds state the      *)
(* implementation keeps across a command that the contract does not)         *)
TourView2 == <<pprev, IF Len(hist) < 2 THEN <<>> ELSE hist[Len(hist) - 1], IF hist = <<>> THEN <<>> ELSE hist[Len(hist)], maxRcpt>>
TxSuffix == <<[c |-> "rcpt", k |-> "b", hook |-> "none"], [c |-> "data", arg |-> FALSE], [c |-> "body", k |-> "nohdr"]>>
MailCmd  == [c |-> "mail", k |-> "ok", hook |-> "none"]
Suffix ==
    CASE st = "GREET"    -> <<MailCmd, [c |-> "helo", verb |-> "HELO", arg |-> TRUE], MailCmd>> \o TxSuffix
      [] st = "READY"    -> <<MailCmd>> \o TxSuffix
      [] st = "MAIL"     -> TxSuffix
      [] st = "DATA"     -> <<[c |-> "body", k |-> "ok"]>>
      [] st = "LOGIN"    -> <<[c |-> "cred"], [c |-> "cred"], MailCmd>> \o TxSuffix
      [] st = "PASSWORD" -> <<[c |-> "cred"], MailCmd>> \o TxSuffix
      [] OTHER           -> <<>>
EmitTour == hist = <<>> \/ PrintT(<<"BEHAVIOUR", ToJson(hist \o Suffix)>>)

Emit == ~Record \/ ~(Len(hist) = Depth \/ (st = "QUIT" /\ hist # <<>>)) \/ PrintT(<<"BEHAVIOUR", ToJson(hist)>>)

----------------------------------------------------------------------------
(* C01 on the contract: each mailbox holds exactly one message per          *)
(* acknowledged, storable recipient naming it; the discarded domain's       *)
(* mailbox never holds anything.                                            *)
DeliveryExact == \A m \in Mailbox : Len(boxes[m]) = acked[m]
DiscardedNeverStored == boxes["C"] = <<>>
(* C03 on the contract *)
MailOnlyAfterGreeting == [][(st # "MAIL" /\ st' = "MAIL") => st = "READY"]_gvars
RcptOnlyInTransaction == [][(Len(rcpts') > Len(rcpts)) => st = "MAIL"]_gvars
EnvelopeDiscarded ==
    [][((st = "DATA" /\ st' # "DATA" /\ st' # "QUIT") \/ (st' = "READY" /\ st \in {"MAIL"}))
         => (from' = NoSender /\ rcpts' = <<>>)]_gvars
StepProps == [][NoStoreWithoutAck /\ FailStoresNothing /\ AppendOnly /\ TlsStep]_gvars
Bound == Len(boxes["A"]) + Len(boxes["B"]) <= 3
Bound1 == Len(boxes["A"]) + Len(boxes["B"]) <= 1
=============================================================================
