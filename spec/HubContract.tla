---------------------------- MODULE HubContract ----------------------------
(***************************************************************************)
(* Contract (kind A) of the message hub as its listeners see it (C15).     *)
(*                                                                         *)
(* The hub takes "stored" and "deleted" events in one order (the order in  *)
(* which Dispatch / Delete were called: log).  It retains the most recent  *)
(* hlen stored messages (recent); a deleted one stays in its place but is  *)
(* no longer played back.  A listener that joins is first handed the       *)
(* retained history (those of the most recent hlen stored messages not     *)
(* deleted since, oldest first) and then every later event that is         *)
(* relevant to it, exactly once and in hub order: due[i] is the complete   *)
(* sequence listener i must be handed, seen[i] how many of them its client *)
(* has already taken out of the listener's buffer (socket writer).         *)
(* Relevant: the event's mailbox passes the listener's mailbox filter      *)
(* ("" = all), and v1 socket listeners are told about stored messages only *)
(* ("Deletes are ignored in socketv1 API").                                *)
(*                                                                         *)
(* A listener leaves the hub when it is removed (leave), when its socket   *)
(* is disconnected (disconnect), when it answers a broadcast with an error *)
(* (broken) and - one permitted reading of "a slow listener is dropped" -  *)
(* when its buffer is full at the moment of a broadcast (parameter drop of *)
(* Dispatch/Delete: any set of listeners whose buffer is full).  The other *)
(* permitted reading is that the hub waits for a connected listener whose  *)
(* buffer is full (Waiting); it must never wait for anything else.  A      *)
(* listener that has left is handed nothing that was dispatched later, and *)
(* nothing about it changes what the others are due.                       *)
(*                                                                         *)
(* Operations are applied here in the order they are issued; the hub runs  *)
(* them in that order (possibly later), so at every moment at which the    *)
(* hub has worked off its queue the listeners have been handed exactly     *)
(* due.  How observations are compared is the trace specification's part   *)
(* (HubTrace.tla).                                                         *)
(***************************************************************************)
EXTENDS Naturals, Sequences, FiniteSets

CONSTANTS Slots,     \* listener slots (1..3)
          Mailbox,   \* mailbox names
          Buf        \* number of events a socket listener buffers (100 in the code)

VARIABLES hlen,      \* history length N >= 1
          recent,    \* the most recent <= hlen stored messages, oldest first: [mb, id, live]
          lst,       \* slot -> [kind: none|v1|v2|mock, filter, st: free|on|gone]
          due,       \* slot -> events the listener must be handed since it joined, in order
          seen,      \* slot -> number of events its client has taken
          broken,    \* slot -> the listener answers every call with an error
          log,       \* every event in hub order
          jn         \* slot -> [at: Len(log) when it joined, hist: what it was due as history]
hvars == <<hlen, recent, lst, due, seen, broken, log, jn>>

Stored(mb, id)  == [k |-> "stored",  mb |-> mb, id |-> id]
Deleted(mb, id) == [k |-> "deleted", mb |-> mb, id |-> id]
FreeSlot == [kind |-> "none", filter |-> "", st |-> "free"]
NoJoin   == [at |-> 0, hist |-> <<>>]

IsReal(i) == lst[i].kind \in {"v1", "v2"}
IsMock(i) == lst[i].kind = "mock"
On(i)     == lst[i].st = "on"
Relevant(kind, filter, e) == /\ (filter = "" \/ filter = e.mb)
                             /\ (e.k = "deleted" => kind # "v1")
Wants(i, e) == On(i) /\ Relevant(lst[i].kind, lst[i].filter, e)
Queued(i)   == Len(due[i]) - seen[i]
BufferFull(i) == On(i) /\ IsReal(i) /\ Queued(i) >= Buf
(* the only thing the hub may ever be waiting for: room in the buffer of a listener that is *)
(* still connected                                                                          *)
Waiting == \E i \in Slots : On(i) /\ IsReal(i) /\ Queued(i) > Buf

LastN(s, n) == IF Len(s) <= n THEN s ELSE SubSeq(s, Len(s) - n + 1, Len(s))
LiveRecent  == SelectSeq(recent, LAMBDA r : r.live)
History     == [j \in DOMAIN LiveRecent |-> Stored(LiveRecent[j].mb, LiveRecent[j].id)]
HistoryFor(kind, filter) == SelectSeq(History, LAMBDA e : Relevant(kind, filter, e))

HInit(n) == /\ hlen = n /\ recent = <<>> /\ log = <<>>
            /\ lst = [i \in Slots |-> FreeSlot]
            /\ due = [i \in Slots |-> <<>>]
            /\ seen = [i \in Slots |-> 0]
            /\ broken = [i \in Slots |-> FALSE]
            /\ jn = [i \in Slots |-> NoJoin]

(* every listener the event is relevant to is due it; a broken one is handed it and leaves; *)
(* those of drop leave without it                                                           *)
Broadcast(e, drop) ==
    /\ drop \subseteq {i \in Slots : BufferFull(i) /\ Wants(i, e)}
    /\ due' = [i \in Slots |-> IF Wants(i, e) /\ i \notin drop THEN Append(due[i], e) ELSE due[i]]
    /\ lst' = [i \in Slots |-> IF Wants(i, e) /\ (i \in drop \/ broken[i]) THEN [lst[i] EXCEPT !.st = "gone"] ELSE lst[i]]
    /\ log' = Append(log, e)
    /\ UNCHANGED <<hlen, seen, broken, jn>>

Dispatch(mb, id, drop) ==
    /\ recent' = LastN(Append(recent, [mb |-> mb, id |-> id, live |-> TRUE]), hlen)
    /\ Broadcast(Stored(mb, id), drop)

Delete(mb, id, drop) ==
    /\ recent' = [j \in DOMAIN recent |-> IF recent[j].mb = mb /\ recent[j].id = id
                                          THEN [recent[j] EXCEPT !.live = FALSE] ELSE recent[j]]
    /\ Broadcast(Deleted(mb, id), drop)

Join(i, kind, filter, brk) ==
    /\ lst[i].st = "free"
    /\ lst' = [lst EXCEPT ![i] = [kind |-> kind, filter |-> filter, st |-> "on"]]
    /\ due' = [due EXCEPT ![i] = HistoryFor(kind, filter)]
    /\ seen' = [seen EXCEPT ![i] = 0]
    /\ broken' = [broken EXCEPT ![i] = brk]
    /\ jn' = [jn EXCEPT ![i] = [at |-> Len(log), hist |-> HistoryFor(kind, filter)]]
    /\ UNCHANGED <<hlen, recent, log>>

Goes(i) == /\ lst' = [lst EXCEPT ![i].st = "gone"]
           /\ UNCHANGED <<hlen, recent, due, seen, broken, log, jn>>
Leave(i)      == On(i) /\ IsMock(i) /\ Goes(i)      \* RemoveListener
Disconnect(i) == On(i) /\ IsReal(i) /\ Goes(i)      \* the socket went away
Fail(i) == /\ On(i) /\ IsMock(i) /\ ~broken[i]
           /\ broken' = [broken EXCEPT ![i] = TRUE]
           /\ UNCHANGED <<hlen, recent, lst, due, seen, log, jn>>
(* the socket writer takes the oldest buffered event *)
NextEvent(i) == due[i][seen[i] + 1]
Take(i) == /\ On(i) /\ IsReal(i)
           /\ seen' = [seen EXCEPT ![i] = IF Queued(i) > 0 THEN @ + 1 ELSE @]
           /\ UNCHANGED <<hlen, recent, lst, due, broken, log, jn>>

----------------------------------------------------------------------------
(* The statements of C15 in closed form over the hub's order (log); the     *)
(* actions above build due incrementally.                                   *)
ToSetOf(s) == {s[j] : j \in DOMAIN s}
StoredLog  == SelectSeq(log, LAMBDA e : e.k = "stored")
(* the retained history: of the most recent hlen stored messages those not deleted since *)
HistoryIsRecentUndeleted ==
    History = SelectSeq(LastN(StoredLog, hlen), LAMBDA e : Deleted(e.mb, e.id) \notin ToSetOf(log))
LiveSince(i) == SelectSeq(SubSeq(log, jn[i].at + 1, Len(log)), LAMBDA e : Relevant(lst[i].kind, lst[i].filter, e))
(* a listener that is still there: the history it joined to, then every relevant later event *)
(* exactly once, in hub order                                                                *)
HistoryThenLive   == \A i \in Slots : On(i) => SubSeq(due[i], 1, Len(jn[i].hist)) = jn[i].hist
ExactlyOnceInOrder == \A i \in Slots : On(i) => SubSeq(due[i], Len(jn[i].hist) + 1, Len(due[i])) = LiveSince(i)
(* a listener that has left was handed no more than that (a prefix of it) *)
GoneGetsNoMore ==
    \A i \in Slots : lst[i].st = "gone" =>
        LET all == jn[i].hist \o LiveSince(i) IN Len(due[i]) <= Len(all) /\ due[i] = SubSeq(all, 1, Len(due[i]))
HistoryBound == Len(recent) <= hlen /\ \A i \in Slots : Len(jn[i].hist) <= hlen
HTypeOK == /\ hlen \in Nat \ {0}
           /\ \A i \in Slots : /\ lst[i].kind \in {"none", "v1", "v2", "mock"}
                               /\ lst[i].st \in {"free", "on", "gone"}
                               /\ seen[i] \in 0..Len(due[i])
                               /\ (lst[i].st = "free") = (lst[i].kind = "none")
=============================================================================
