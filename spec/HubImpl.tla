------------------------------- MODULE HubImpl -------------------------------
(***************************************************************************)
(* Implementation-shaped model (kind B) of pkg/msghub/hub.go together with *)
(* the WebSocket listener of pkg/rest/socketv2_controller.go.              *)
(*                                                                         *)
(*   - the hub is an actor: Dispatch / Delete / AddListener /              *)
(*     RemoveListener put a closure into opChan (capacity OpCap, the       *)
(*     caller blocks while it is full); one goroutine takes them out one   *)
(*     by one and runs each to its end (runOp recovers a panic, which      *)
(*     abandons the rest of that operation);                               *)
(*   - a broadcast walks the registered listeners in SOME order (a Go map) *)
(*     and calls Receive on each: the socket listener S puts the event     *)
(*     into its buffer (capacity Buf) and BLOCKS while the buffer is full; *)
(*     the recording listener R returns at once;                           *)
(*   - the socket's writer takes events out of the buffer; when the client *)
(*     goes away reader and writer both call Close().                      *)
(*                                                                         *)
(* Close() as repaired (OldClose = FALSE): once: close(done), then         *)
(* RemoveListener; Receive selects between the buffer and done and answers *)
(* an error for a closed listener, which makes the hub drop it.            *)
(* Close() before the repair (OldClose = TRUE, a deviation named here as a *)
(* PREDICTION): "already closed?" is tested by receiving from the          *)
(* listener's own buffer - with events buffered each call eats one and     *)
(* does nothing else; otherwise RemoveListener and close(buffer), after    *)
(* which a Receive that is under way or queued sends on a closed channel.  *)
(*                                                                         *)
(* TLC checks (MCHubImpl): with OldClose = FALSE the hub is never stuck    *)
(* (HubNeverStuck), never panics, and the recording listener is handed     *)
(* every event in hub order (RecorderComplete); with OldClose = TRUE both  *)
(* fail - the two defects the C15 check found on the real code.            *)
(***************************************************************************)
EXTENDS Naturals, Sequences, FiniteSets

CONSTANTS Buf,        \* capacity of the socket listener's buffer
          OpCap,      \* capacity of the hub's operation queue
          MaxEvents,  \* events the environment dispatches
          OldClose,   \* deviation: Close() as it was before the repair
          RemoveFirst \* deviation: the repaired Close() with its two statements swapped (RemoveListener, then close(done))

VARIABLES ops,        \* opChan: Seq of [k |-> "ev", e] | [k |-> "rm"]   (S and R are registered from the start)
          cur,        \* the operation the hub goroutine is running: [k |-> "none"] | [k |-> "ev", e, todo : SUBSET {"S","R"}]
          reg,        \* registered listeners, subset of {"S", "R"}
          q,          \* S's buffer
          chClosed,   \* OldClose: the buffer channel has been closed
          done,       \* the listener's done channel has been closed (repaired Close)
          gone,       \* the client has gone away (disconnect begun)
          closes,     \* Close() calls still to be made (reader's and writer's)
          rmPending,  \* a Close() is blocked putting its RemoveListener into the full operation queue
          rec,        \* what R has been handed
          log,        \* every event in hub order (order of entering opChan)
          n,          \* events dispatched so far
          panics,     \* recovered panics
          once        \* the repaired Close() has been entered (sync.Once)
vars == <<ops, cur, reg, q, chClosed, done, gone, closes, rmPending, rec, log, n, panics, once>>

None == [k |-> "none"]
Init == /\ ops = <<>> /\ cur = None /\ reg = {"S", "R"} /\ q = <<>>
        /\ chClosed = FALSE /\ done = FALSE /\ gone = FALSE /\ closes = 0 /\ rmPending = FALSE
        /\ rec = <<>> /\ log = <<>> /\ n = 0 /\ panics = 0 /\ once = FALSE

(* the environment announces an event: enters the queue when there is room *)
Dispatch ==
    /\ n < MaxEvents /\ Len(ops) < OpCap
    /\ ops' = Append(ops, [k |-> "ev", e |-> n + 1]) /\ log' = Append(log, n + 1) /\ n' = n + 1
    /\ UNCHANGED <<cur, reg, q, chClosed, done, gone, closes, rmPending, rec, panics, once>>

(* the hub goroutine takes the next operation *)
Take ==
    /\ cur = None /\ ops # <<>>
    /\ LET op == Head(ops) IN
         IF op.k = "rm" THEN reg' = reg \ {"S"} /\ cur' = None
         ELSE cur' = [k |-> "ev", e |-> op.e, todo |-> reg] /\ reg' = reg
    /\ ops' = Tail(ops)
    /\ UNCHANGED <<q, chClosed, done, gone, closes, rmPending, rec, log, n, panics, once>>

Finish(c) == IF c.todo = {} THEN None ELSE c
(* ... hands the event to R *)
ToR == /\ cur.k = "ev" /\ "R" \in cur.todo
       /\ rec' = Append(rec, cur.e)
       /\ cur' = Finish([cur EXCEPT !.todo = @ \ {"R"}])
       /\ UNCHANGED <<ops, reg, q, chClosed, done, gone, closes, rmPending, log, n, panics, once>>
(* ... hands it to S: into the buffer; or S answers "closed" and is dropped; or (OldClose) the send panics *)
ToS == /\ cur.k = "ev" /\ "S" \in cur.todo
       /\ \/ /\ ~chClosed /\ Len(q) < Buf /\ (OldClose \/ ~done)
             /\ q' = Append(q, cur.e) /\ cur' = Finish([cur EXCEPT !.todo = @ \ {"S"}])
             /\ UNCHANGED <<reg, panics>>
          \/ /\ ~OldClose /\ done                          \* errListenerClosed: the hub drops the listener
             /\ reg' = reg \ {"S"} /\ cur' = Finish([cur EXCEPT !.todo = @ \ {"S"}])
             /\ UNCHANGED <<q, panics>>
          \/ /\ OldClose /\ chClosed                        \* send on closed channel: recovered, rest of the operation lost
             /\ panics' = panics + 1 /\ cur' = None
             /\ UNCHANGED <<q, reg>>
       /\ UNCHANGED <<ops, chClosed, done, gone, closes, rmPending, rec, log, n, once>>

(* the socket writer takes one event (while the client is there) *)
Write == /\ ~gone /\ q # <<>> /\ q' = Tail(q)
         /\ UNCHANGED <<ops, cur, reg, chClosed, done, gone, closes, rmPending, rec, log, n, panics, once>>
(* the client goes away: reader and writer will each call Close() *)
GoAway == /\ ~gone /\ gone' = TRUE /\ closes' = 2
          /\ UNCHANGED <<ops, cur, reg, q, chClosed, done, rmPending, rec, log, n, panics, once>>
(* one Close() call *)
CloseNew ==      \* sync.Once: close(done), then RemoveListener (blocks while the queue is full)
    /\ ~OldClose /\ closes > 0 /\ ~rmPending
    /\ IF done \/ once THEN closes' = closes - 1 /\ UNCHANGED <<done, rmPending, once>>
       ELSE /\ once' = TRUE /\ rmPending' = TRUE /\ UNCHANGED closes
            /\ done' = IF RemoveFirst THEN done ELSE TRUE
    /\ UNCHANGED <<ops, cur, reg, q, chClosed, gone, rec, log, n, panics>>
CloseNewEnqueue ==
    /\ rmPending /\ Len(ops) < OpCap
    /\ ops' = Append(ops, [k |-> "rm"]) /\ rmPending' = FALSE /\ closes' = closes - 1
    /\ done' = TRUE                                   \* (RemoveFirst: only now)
    /\ UNCHANGED <<cur, reg, q, chClosed, gone, rec, log, n, panics, once>>
CloseOld ==      \* select { case <-ml.c: "already closed"; default: RemoveListener; close(ml.c) }
    /\ OldClose /\ closes > 0 /\ ~rmPending
    /\ IF chClosed \/ q # <<>>
       THEN /\ q' = IF q # <<>> THEN Tail(q) ELSE q      \* an event eaten (or the closed channel read)
            /\ closes' = closes - 1 /\ UNCHANGED <<rmPending, chClosed>>
       ELSE /\ rmPending' = TRUE /\ UNCHANGED <<q, closes, chClosed>>
    /\ UNCHANGED <<ops, cur, reg, done, gone, rec, log, n, panics, once>>
CloseOldEnqueue ==
    /\ OldClose /\ rmPending /\ Len(ops) < OpCap
    /\ ops' = Append(ops, [k |-> "rm"]) /\ rmPending' = FALSE /\ chClosed' = TRUE /\ closes' = closes - 1
    /\ UNCHANGED <<cur, reg, q, done, gone, rec, log, n, panics, once>>

Next == Dispatch \/ Take \/ ToR \/ ToS \/ Write \/ GoAway \/ CloseNew \/ (~OldClose /\ CloseNewEnqueue) \/ CloseOld \/ CloseOldEnqueue
Spec == Init /\ [][Next]_vars

(* Liveness: the hub goroutine, the socket writer and the Close() calls keep running (weak fairness); the  *)
(* environment may stop announcing events and the client may or may not go away                            *)
FairSpec == Spec /\ WF_vars(Take) /\ WF_vars(ToR) /\ WF_vars(ToS) /\ WF_vars(Write)
                 /\ WF_vars(CloseNew) /\ WF_vars(CloseNewEnqueue) /\ WF_vars(CloseOld) /\ WF_vars(CloseOldEnqueue)
(* "without causing any other listener to miss an event": every announced event reaches R in the end,     *)
(* whatever S and its client do                                                                            *)
EventuallyDelivered == \A k \in 1 .. MaxEvents : (n >= k) ~> (Len(rec) >= k)

(***************************************************************************)
(* Properties                                                              *)
(***************************************************************************)
(* the hub goroutine is blocked in Receive of S *)
HubBlockedOnS == cur.k = "ev" /\ cur.todo = {"S"} /\ ~ENABLED ToS
(* "without ever blocking the hub": it may wait for room in the buffer of a client that is still  *)
(* there (the writer will make room); it must never be stuck behind a client that has gone away   *)
(* and finished closing                                                                           *)
CloseCanMove == ENABLED CloseNew \/ (~OldClose /\ ENABLED CloseNewEnqueue) \/ ENABLED CloseOld \/ ENABLED CloseOldEnqueue
HubNeverStuck == ~(HubBlockedOnS /\ gone /\ ~CloseCanMove)
NoPanic == panics = 0
(* R is handed the events in hub order, nothing twice; when everything has been worked off, all of them *)
IsPrefix(s, t) == Len(s) <= Len(t) /\ s = SubSeq(t, 1, Len(s))
RecorderInOrder == IsPrefix(rec, log)
Quiet == ops = <<>> /\ cur = None /\ ~rmPending
RecorderComplete == Quiet => rec = log
=============================================================================
