------------------------------ MODULE HubTrace ------------------------------
(***************************************************************************)
(* Trace specification for `vh hub': validates what the real msghub.Hub,   *)
(* the real WebSocket listeners (msgListenerV1/V2, obtained through the    *)
(* constructor hook) and a recording mock listener did, step by step,      *)
(* against HubContract.                                                    *)
(*                                                                         *)
(* Every event carries the operation (with its arguments), the result of   *)
(* the progress probe (sync: ok | stuck | held - hub.Sync() returned /     *)
(* did not return within the deadline / the armed mock is holding the hub  *)
(* goroutine), the number of events buffered in every socket listener (q), *)
(* the calls every mock received since the previous event (calls), the     *)
(* event a take returned (taken) and, in the final "end" event, everything *)
(* the buffers still held, in order (drained).                             *)
(*                                                                         *)
(* Whenever the hub has worked off its queue (sync = ok) the observations  *)
(* must be exactly what the contract says each listener is due:            *)
(*   - attached socket listener: buffered = due - taken; what a take (and  *)
(*     the final emptying) returns = the next due events, in order;        *)
(*   - attached mock that has not failed: calls received = due, exactly;   *)
(*   - listener that has left (leave, disconnect, failed): handed nothing  *)
(*     that was dispatched after it left (its buffer does not grow, its    *)
(*     calls do not exceed due); what it was handed before is its own      *)
(*     business;                                                           *)
(*   - sync = stuck is accepted only while the contract says the hub may   *)
(*     wait (a connected socket listener's buffer is full).                *)
(* While a mock holds the hub, or the hub waits, operations are queued and *)
(* nothing is compared (a take may find the buffer emptier than due).      *)
(***************************************************************************)
EXTENDS HubContract, Json, TLC, TLCExt, IOUtils, SequencesExt

TraceLog == ndJsonDeserialize(IOEnv.VERIF_TRACE)
(* deviation keys enabled by known_findings.txt: one JSON object {"key": ...} per line *)
AllowedKeys == {r.key : r \in ToSet(ndJsonDeserialize(IOEnv.VERIF_ALLOWED_FILE))}
KeyZombie == "C15.close-swallows-buffered-events"
KeyAbort  == "C15.send-on-closed-listener-aborts-broadcast"

VARIABLES l,          \* index of the next event
          skipping,   \* the current behaviour was left at an event no action explains
          held,       \* a mock is holding the hub goroutine
          wait,       \* the last probe was not answered
          got,        \* slot -> calls a mock has received, in order
          room,       \* slot -> largest buffer content a socket listener that has left may still show
          infl,       \* events issued since the hub was last seen idle
          risk,       \* KeyAbort: events whose broadcast a closed listener may have cut short
          pan,        \* KeyAbort: number of recovered panics the hub has logged
          zombie      \* KeyZombie: disconnected socket listeners that were not removed
tvars == <<hlen, recent, lst, due, seen, broken, log, jn, l, skipping, held, wait, got, room, infl, risk, pan, zombie>>
ovars == <<held, wait, got, room, infl, risk, pan, zombie>>

Ev == TraceLog[l]
Is(a) == l <= Len(TraceLog) /\ Ev.a = a /\ l' = l + 1 /\ ~skipping /\ skipping' = FALSE
Mark == TLCSet(1, l + 1)
Dev(key) == key \in AllowedKeys /\ PrintT(<<"DEVIATION", key, l>>)

Strip(c) == [j \in DOMAIN c |-> [k |-> c[j].k, mb |-> c[j].mb, id |-> c[j].id]]
Larger(a, b) == IF a >= b THEN a ELSE b

(* obs is exp with some elements of O left out (O = {}: obs = exp) *)
MatchOpt(obs, exp, O) ==
    /\ \A p \in DOMAIN exp : exp[p] \notin ToSet(obs) => exp[p] \in O
    /\ obs = SelectSeq(exp, LAMBDA e : e \in ToSet(obs))
Pending(i) == SubSeq(due'[i], seen'[i] + 1, Len(due'[i]))

(* what the listeners show once the hub has worked off its queue, compared with the contract *)
(* state after the step; O: events a listener may lack (deviation KeyAbort only)             *)
SlotOK(i, O) ==
    LET st == lst'[i].st
        kind == lst'[i].kind
        pend == Pending(i)
        optional == Cardinality({p \in DOMAIN pend : pend[p] \in O})
    IN  CASE st = "free" -> Ev.q[i] = 0 /\ got'[i] = <<>>
          [] kind = "mock" /\ st = "on" /\ ~broken'[i] -> MatchOpt(got'[i], due'[i], O)
          [] kind = "mock" -> Len(got'[i]) <= Len(due'[i])
          [] st = "on" -> Ev.q[i] <= Len(pend) /\ Ev.q[i] >= Len(pend) - optional
          [] OTHER -> Ev.q[i] <= room'[i]
Idle(O) == \A i \in Slots : SlotOK(i, O)
RiskNow == IF pan' > 0 THEN risk' ELSE {}

(* common part of every step: bookkeeping of the observation variables and the comparison *)
Observe(issued) ==
    /\ Ev.sync \in {"ok", "stuck", "held"}
    /\ held' = Ev.held
    /\ (Ev.sync = "held") = Ev.held
    /\ wait' = (Ev.sync = "stuck")
    /\ got' = [i \in Slots |-> got[i] \o Strip(Ev.calls[i])]
    /\ pan' = pan + Ev.panics
    /\ infl' = IF Ev.sync = "ok" THEN {} ELSE infl \cup issued
    /\ (Ev.sync = "stuck") => Waiting'
    /\ (Ev.sync = "ok") => (Idle({}) \/ (RiskNow # {} /\ Idle(RiskNow) /\ Dev(KeyAbort)))
Busy == held \/ wait

TraceInit == /\ l = 1 /\ skipping = FALSE /\ held = FALSE /\ wait = FALSE
             /\ got = [i \in Slots |-> <<>>] /\ room = [i \in Slots |-> 0]
             /\ infl = {} /\ risk = {} /\ pan = 0 /\ zombie = {}
             /\ HInit(1)

Fresh(n) == /\ hlen' = n /\ recent' = <<>> /\ log' = <<>>
            /\ lst' = [i \in Slots |-> FreeSlot]
            /\ due' = [i \in Slots |-> <<>>]
            /\ seen' = [i \in Slots |-> 0]
            /\ broken' = [i \in Slots |-> FALSE]
            /\ jn' = [i \in Slots |-> NoJoin]
            /\ held' = FALSE /\ wait' = FALSE
            /\ got' = [i \in Slots |-> <<>>] /\ room' = [i \in Slots |-> 0]
            /\ infl' = {} /\ risk' = {} /\ pan' = 0 /\ zombie' = {}

(* A "reset" event starts the next behaviour and reports how far the        *)
(* contract's actions got in the one that ends here (-workers 1, breadth    *)
(* first: all events before l have been tried when this is evaluated).      *)
TrReset == /\ l <= Len(TraceLog) /\ Ev.a = "reset" /\ l' = l + 1 /\ skipping' = FALSE
           /\ (l > 1) => PrintT(<<"ENDED", l, TLCGet(1)>>)
           /\ Ev.n >= 1
           /\ Fresh(Ev.n)
           /\ Mark
(* one rejected behaviour must not hide the others: the rest of it is passed *)
(* over; this never raises the high-water mark                               *)
TrSkip == /\ l <= Len(TraceLog) /\ Ev.a # "reset" /\ l' = l + 1 /\ skipping' = TRUE
          /\ Fresh(1)

(* slow listeners the hub gave up on keep their buffer *)
DropRoom(drop) == [i \in Slots |-> IF i \in drop THEN Larger(room[i], Queued(i)) ELSE room[i]]

TrDispatch == /\ Is("dispatch")
              /\ \E drop \in SUBSET {i \in Slots : BufferFull(i)} :
                    /\ Dispatch(Ev.mb, Ev.id, drop)
                    /\ room' = DropRoom(drop)
              /\ UNCHANGED <<risk, zombie>>
              /\ Observe({Stored(Ev.mb, Ev.id)}) /\ Mark
TrDelete == /\ Is("delete")
            /\ \E drop \in SUBSET {i \in Slots : BufferFull(i)} :
                  /\ Delete(Ev.mb, Ev.id, drop)
                  /\ room' = DropRoom(drop)
            /\ UNCHANGED <<risk, zombie>>
            /\ Observe({Deleted(Ev.mb, Ev.id)}) /\ Mark
TrJoin == /\ Is("join") /\ Ev.slot \in Slots
          /\ Join(Ev.slot, Ev.kind, Ev.filter, Ev.broken)
          /\ UNCHANGED <<room, risk, zombie>>
          /\ Observe({}) /\ Mark
TrLeave == /\ Is("leave") /\ Ev.slot \in Slots
           /\ Leave(Ev.slot)
           /\ UNCHANGED <<room, risk, zombie>>
           /\ Observe({}) /\ Mark
TrFail == /\ Is("fail") /\ Ev.slot \in Slots
          /\ Fail(Ev.slot)
          /\ UNCHANGED <<room, risk, zombie>>
          /\ Observe({}) /\ Mark
(* the socket went away (both Close calls): the listener has left.  From now on its buffer   *)
(* may not grow - beyond what was under way while the hub was held or waiting                *)
LeftBehind(i) == IF Busy THEN Larger(Queued(i), Ev.q[i]) ELSE Ev.q[i]
TrDisconnect ==
    /\ Is("disconnect") /\ Ev.slot \in Slots
    /\ Disconnect(Ev.slot)
    /\ Ev.q[Ev.slot] <= Ev.qbefore
    /\ ("closed_ok" \in DOMAIN Ev) => Ev.closed_ok        \* Close() itself returned (it must, whatever the hub is doing)
    /\ room' = [room EXCEPT ![Ev.slot] = LeftBehind(Ev.slot)]
    (* KeyAbort bookkeeping: broadcasts still under way will find this listener's channel closed *)
    /\ risk' = IF Busy THEN risk \cup {e \in infl : Relevant(lst[Ev.slot].kind, lst[Ev.slot].filter, e)} ELSE risk
    /\ UNCHANGED zombie
    /\ Observe({}) /\ Mark
(* the socket writer takes one event: the next one due; while the hub is held or waiting the *)
(* buffer may not hold it yet                                                                *)
TrTake ==
    /\ Is("take") /\ Ev.slot \in Slots
    /\ On(Ev.slot) /\ IsReal(Ev.slot)
    /\ Ev.taken.open
    /\ \/ /\ Ev.taken.got /\ Queued(Ev.slot) > 0
          /\ Strip(<<Ev.taken>>)[1] = NextEvent(Ev.slot)
          /\ Take(Ev.slot)
       \/ /\ ~Ev.taken.got /\ (Queued(Ev.slot) = 0 \/ Busy)
          /\ UNCHANGED hvars
    /\ UNCHANGED <<room, risk, zombie>>
    /\ Observe({}) /\ Mark
(* (releasing when no mock holds the hub - the one that was to hold it had already left - is nothing) *)
TrRelease == /\ Is("release")
             /\ UNCHANGED <<hvars, room, risk, zombie>>
             /\ Observe({}) /\ Mark
(* end of the behaviour: the driver lets go of a held mock and takes everything out of every *)
(* buffer until hub.Sync() returns: it must return, and what the buffers held must be what   *)
(* was still due, in order                                                                   *)
DrainOK(i, O) ==
    CASE lst[i].st = "on" /\ IsReal(i) -> MatchOpt(Strip(Ev.drained[i]), SubSeq(due[i], seen[i] + 1, Len(due[i])), O)
      [] lst[i].st = "gone" /\ IsReal(i) -> Len(Ev.drained[i]) <= room[i]
      [] OTHER -> Ev.drained[i] = <<>>
EndMocks(O) == \A i \in Slots :
    CASE lst[i].st = "free" -> got'[i] = <<>>
      [] IsMock(i) /\ On(i) /\ ~broken[i] -> MatchOpt(got'[i], due[i], O)
      [] IsMock(i) -> Len(got'[i]) <= Len(due[i])
      [] OTHER -> TRUE
EndOK(O) == EndMocks(O) /\ \A i \in Slots : DrainOK(i, O)
TrEnd == /\ Is("end")
         /\ Ev.sync = "ok"
         /\ got' = [i \in Slots |-> got[i] \o Strip(Ev.calls[i])]
         /\ pan' = pan + Ev.panics
         /\ held' = FALSE /\ wait' = FALSE /\ infl' = {}
         /\ UNCHANGED <<hvars, room, risk, zombie>>
         /\ LET O == IF pan' > 0 THEN risk ELSE {} IN
               EndOK({}) \/ (O # {} /\ EndOK(O) /\ Dev(KeyAbort))
         /\ Mark

(***************************************************************************)
(* Deviations: departures of the code from the contract that are listed in *)
(* known_findings.txt.  Each accepts exactly one way the code departs and  *)
(* says what it does to the contract state, so that the rest of the trace  *)
(* is still validated.  None is enabled unless its key is listed.          *)
(***************************************************************************)
(* KeyZombie: msgListenerV1/V2.Close() tests "already closed" by receiving from its own data *)
(* channel.  With two or more events buffered at the disconnect, each of the two Close calls *)
(* swallows one event instead of closing: the listener is neither removed from the hub nor   *)
(* closed, it goes on being handed every event, nobody empties its buffer any more, and once *)
(* the buffer is full the hub waits for it for ever.                                         *)
DevDisconnectZombie ==
    /\ Is("disconnect") /\ Ev.slot \in Slots
    /\ On(Ev.slot) /\ IsReal(Ev.slot)
    /\ Ev.qbefore >= 2 /\ Queued(Ev.slot) >= 2
    (* the two swallowed events are the two oldest that were really buffered: under KeyAbort some *)
    (* of the due events before them may never have been delivered                                *)
    /\ \E m \in 0..(IF pan > 0 /\ KeyAbort \in AllowedKeys THEN Queued(Ev.slot) - 2 ELSE 0) :
          /\ Cardinality({r \in (seen[Ev.slot] + 1)..(seen[Ev.slot] + 2 + m) : due[Ev.slot][r] \in risk}) >= m
          /\ seen' = [seen EXCEPT ![Ev.slot] = @ + 2 + m]
    /\ zombie' = zombie \cup {Ev.slot}
    /\ UNCHANGED <<hlen, recent, lst, due, broken, log, jn, room, risk>>
    /\ Observe({})
    /\ Dev(KeyZombie) /\ Mark
(* KeyAbort: a take that finds events missing which a cut-short broadcast never delivered *)
DevTakeSkipping ==
    /\ Is("take") /\ Ev.slot \in Slots
    /\ On(Ev.slot) /\ IsReal(Ev.slot)
    /\ Ev.taken.open /\ pan > 0
    /\ \/ /\ Ev.taken.got
          /\ \E p \in (seen[Ev.slot] + 2)..Len(due[Ev.slot]) :
                /\ due[Ev.slot][p] = Strip(<<Ev.taken>>)[1]
                /\ \A r \in (seen[Ev.slot] + 1)..(p - 1) : due[Ev.slot][r] \in risk
                /\ seen' = [seen EXCEPT ![Ev.slot] = p]
       \/ /\ ~Ev.taken.got /\ Queued(Ev.slot) > 0
          /\ \A r \in (seen[Ev.slot] + 1)..Len(due[Ev.slot]) : due[Ev.slot][r] \in risk
          /\ seen' = [seen EXCEPT ![Ev.slot] = Len(due[Ev.slot])]
    /\ UNCHANGED <<hlen, recent, lst, due, broken, log, jn, room, risk, zombie>>
    /\ Observe({})
    /\ Dev(KeyAbort) /\ Mark

TraceNext == \/ TrReset \/ TrDispatch \/ TrDelete \/ TrJoin \/ TrLeave \/ TrFail \/ TrDisconnect \/ TrTake
             \/ TrRelease \/ TrEnd \/ DevDisconnectZombie \/ DevTakeSkipping \/ TrSkip

TraceSpec == TraceInit /\ [][TraceNext]_tvars

(* POSTCONDITION: the verdict on the last behaviour, in the same form *)
TraceAccepted == PrintT(<<"ENDED", Len(TraceLog) + 1, TLCGet(1)>>)
ASSUME TLCSet(1, 1)
=============================================================================
