------------------------------ MODULE Inbucket ------------------------------
(***************************************************************************)
(* The composed contract: one mail store seen through all of inbucket's    *)
(* interfaces at once, as server.FullAssembly wires them.                  *)
(*                                                                         *)
(*   SMTP delivery  -> one new message per recipient mailbox               *)
(*   REST / web UI  -> list, mark seen, delete, purge on the same store    *)
(*   POP3 session   -> snapshot at login, deletions committed on QUIT      *)
(*   after-events   -> message hub -> monitor (WebSocket v2) clients:      *)
(*                     history (the last HistLen stored messages that are  *)
(*                     still there) at join, then every stored / deleted   *)
(*                     event for the watched mailbox, in order             *)
(*                                                                         *)
(* It states the cross-interface facts that no per-component contract can: *)
(* what is delivered over SMTP is what REST lists and POP3 offers under    *)
(* the same ids; a message deleted through one interface is gone from the  *)
(* others and announced to the monitors; a POP3 session keeps its snapshot *)
(* while REST deletes; every component works on the SAME store and the     *)
(* SAME event stream (a wiring mistake in the assembly breaks exactly      *)
(* that).  Messages are abstract tokens; ids are bound from observations.  *)
(***************************************************************************)
EXTENDS Naturals, Sequences, FiniteSets, SequencesExt

CONSTANTS Mailbox, Monitor, HistLen,
          Cap                  \* per-mailbox message cap (0 = none): a delivery beyond it evicts the oldest message

VARIABLES boxes,      \* [Mailbox -> Seq([id, subj, seen])]
          stored,     \* Seq(<<mailbox, id>>): every message ever stored, in order (for the hub history)
          mon,        \* [Monitor -> [joined : BOOLEAN, ver : {"v1", "v2"}, filter : Mailbox \cup {""}, due : Seq(event)]]
          pop         \* POP3 session: [open : BOOLEAN, mb, snap : Seq(id), marked : SUBSET id]
ivars == <<boxes, stored, mon, pop>>

MonEvent(variant, m, id) == [variant |-> variant, mb |-> m, id |-> id]
Ids(m) == {boxes[m][i].id : i \in DOMAIN boxes[m]}
Live(m, id) == id \in Ids(m)
Watches(k, m) == mon[k].joined /\ (mon[k].filter = "" \/ mon[k].filter = m)
(* a monitor speaking protocol v1 is told about stored messages only *)
Wants(k, e) == /\ (mon[k].filter = "" \/ mon[k].filter = e.mb)
               /\ (mon[k].ver = "v2" \/ e.variant = "message-stored")
Announce(evs) == [k \in Monitor |-> IF mon[k].joined
                                    THEN [mon[k] EXCEPT !.due = @ \o SelectSeq(evs, LAMBDA e : Wants(k, e))]
                                    ELSE mon[k]]

IInit ==
    /\ boxes = [m \in Mailbox |-> <<>>]
    /\ stored = <<>>
    /\ mon = [k \in Monitor |-> [joined |-> FALSE, ver |-> "v2", filter |-> "", due |-> <<>>]]
    /\ pop = [open |-> FALSE, mb |-> "", snap |-> <<>>, marked |-> {}]

(* SMTP: an acknowledged transaction stores one message in each target    *)
(* mailbox, in order; newids[i] is the id given in targets[i]             *)
(* copies are stored one after the other; a copy that takes its mailbox over the cap evicts that   *)
(* mailbox's oldest message first, which the monitors hear about before the new message           *)
RECURSIVE DeliverAll(_, _, _, _, _)
DeliverAll(b, evs, targets, newids, subj) ==
    IF targets = <<>> THEN <<b, evs>>
    ELSE LET m    == Head(targets)
             app  == Append(b[m], [id |-> Head(newids), subj |-> subj, seen |-> FALSE])
             over == Cap > 0 /\ Len(app) > Cap
             gone == IF over THEN <<MonEvent("message-deleted", m, app[1].id)>> ELSE <<>>
         IN  DeliverAll([b EXCEPT ![m] = IF over THEN Tail(app) ELSE app],
                        evs \o gone \o <<MonEvent("message-stored", m, Head(newids))>>,
                        Tail(targets), Tail(newids), subj)
Deliver(targets, newids, subj) ==
    /\ Len(targets) = Len(newids)
    /\ \A i \in DOMAIN targets : newids[i] \notin Ids(targets[i])
    /\ LET res == DeliverAll(boxes, <<>>, targets, newids, subj)
       IN  boxes' = res[1] /\ mon' = Announce(res[2])
    /\ stored' = stored \o [i \in DOMAIN targets |-> <<targets[i], newids[i]>>]
    /\ UNCHANGED pop

RemoveFrom(b, m, ids) == [b EXCEPT ![m] = SelectSeq(@, LAMBDA x : x.id \notin ids)]
(* REST DELETE of one message / POP3 QUIT / retention: the ids that are still there go, each announced *)
Delete(m, ids) ==
    LET gone == SelectSeq(boxes[m], LAMBDA x : x.id \in ids)
    IN  /\ boxes' = RemoveFrom(boxes, m, ids)
        /\ mon' = Announce([i \in DOMAIN gone |-> MonEvent("message-deleted", m, gone[i].id)])
        /\ UNCHANGED <<stored, pop>>
(* purging a mailbox announces every message that was in it, once each; the order among them is *)
(* not specified (the memory store walks a map) but it is one order, the same for every monitor *)
Purge(m) ==
    \E order \in SetToSeqs(Ids(m)) :
        /\ boxes' = [boxes EXCEPT ![m] = <<>>]
        /\ mon' = Announce([i \in DOMAIN order |-> MonEvent("message-deleted", m, order[i])])
        /\ UNCHANGED <<stored, pop>>
MarkSeen(m, id) ==
    /\ boxes' = [boxes EXCEPT ![m] = [i \in DOMAIN @ |-> IF @[i].id = id THEN [@[i] EXCEPT !.seen = TRUE] ELSE @[i]]]
    /\ UNCHANGED <<stored, mon, pop>>

(* a monitor joins: it is owed the retained history first *)
History(filter) ==
    LET n == Len(stored)
        recent == SubSeq(stored, IF n > HistLen THEN n - HistLen + 1 ELSE 1, n)
        still == SelectSeq(recent, LAMBDA r : Live(r[1], r[2]) /\ (filter = "" \/ filter = r[1]))
    IN  [i \in DOMAIN still |-> MonEvent("message-stored", still[i][1], still[i][2])]
Join(k, filter, ver) ==
    /\ ~mon[k].joined
    /\ mon' = [mon EXCEPT ![k] = [joined |-> TRUE, ver |-> ver, filter |-> filter, due |-> History(filter)]]
    /\ UNCHANGED <<boxes, stored, pop>>
(* the monitor has received everything it was owed, exactly that, in that order *)
Drained(k, received) ==
    /\ mon[k].joined /\ received = mon[k].due
    /\ mon' = [mon EXCEPT ![k].due = <<>>]
    /\ UNCHANGED <<boxes, stored, pop>>
Leave(k) ==
    /\ mon' = [mon EXCEPT ![k] = [joined |-> FALSE, ver |-> "v2", filter |-> "", due |-> <<>>]]
    /\ UNCHANGED <<boxes, stored, pop>>

(* POP3: login fixes the snapshot; QUIT removes what is marked and still there *)
PopLogin(m) ==
    /\ ~pop.open
    /\ pop' = [open |-> TRUE, mb |-> m, snap |-> [i \in DOMAIN boxes[m] |-> boxes[m][i].id], marked |-> {}]
    /\ UNCHANGED <<boxes, stored, mon>>
PopDele(n) ==
    /\ pop.open /\ n \in DOMAIN pop.snap
    /\ pop' = [pop EXCEPT !.marked = @ \cup {pop.snap[n]}]
    /\ UNCHANGED <<boxes, stored, mon>>
PopQuit ==
    /\ pop.open
    /\ LET gone == SelectSeq(boxes[pop.mb], LAMBDA x : x.id \in pop.marked)
       IN  /\ boxes' = RemoveFrom(boxes, pop.mb, pop.marked)
           /\ mon' = Announce([i \in DOMAIN gone |-> MonEvent("message-deleted", pop.mb, gone[i].id)])
    /\ pop' = [open |-> FALSE, mb |-> "", snap |-> <<>>, marked |-> {}]
    /\ UNCHANGED stored
PopDrop ==
    /\ pop.open
    /\ pop' = [open |-> FALSE, mb |-> "", snap |-> <<>>, marked |-> {}]
    /\ UNCHANGED <<boxes, stored, mon>>

(***************************************************************************)
(* Cross-interface invariants (checked on the bounded model MCInbucket)    *)
(***************************************************************************)
(* what a POP3 session offers is what was in the mailbox at login: ids of this store *)
SnapshotFromStore == pop.open => \A i \in DOMAIN pop.snap : <<pop.mb, pop.snap[i]>> \in {stored[j] : j \in DOMAIN stored}
(* a monitor is never owed an event for a mailbox it does not watch *)
DueRespectsFilter == \A k \in Monitor : \A i \in DOMAIN mon[k].due :
                        mon[k].filter = "" \/ mon[k].due[i].mb = mon[k].filter
(* ids are unique per mailbox *)
IdsUnique == \A m \in Mailbox : \A i, j \in DOMAIN boxes[m] : boxes[m][i].id = boxes[m][j].id => i = j
(* the cap holds at every moment *)
CapHolds == Cap > 0 => \A m \in Mailbox : Len(boxes[m]) <= Cap
(* per message, a monitor is owed "stored" before "deleted" *)
StoredBeforeDeleted ==
    \A k \in Monitor : \A i, j \in DOMAIN mon[k].due :
       (mon[k].due[i].variant = "message-deleted" /\ mon[k].due[j].variant = "message-stored"
        /\ mon[k].due[i].mb = mon[k].due[j].mb /\ mon[k].due[i].id = mon[k].due[j].id) => j < i
=============================================================================
