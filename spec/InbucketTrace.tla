--------------------------- MODULE InbucketTrace ---------------------------
(* Trace specification for `vh e2e': the fully assembled server, used only  *)
(* through SMTP, POP3, REST and the WebSocket monitor, must behave like the  *)
(* composed contract Inbucket.tla.  The observed state after every step is   *)
(* what the REST API lists for every mailbox.                                *)
EXTENDS Inbucket, Json, TLC, IOUtils

TraceLog == ndJsonDeserialize(IOEnv.VERIF_TRACE)
VARIABLE l
tvars == <<boxes, stored, mon, pop, l>>
Ev == TraceLog[l]
Is(a) == l <= Len(TraceLog) /\ Ev.a = a /\ l' = l + 1
Mark == TLCSet(1, l + 1)

Snap(b) == {[mb |-> m, msgs |-> b[m]] : m \in {x \in Mailbox : b[x] # <<>>}}
SnapOK(b) == /\ Ev.serr = <<>>
             /\ Len(Ev.s) = Cardinality(Snap(b))
             /\ ToSet(Ev.s) = Snap(b)
(* the id the API shows for the newest message of a mailbox *)
NewestId(m) == LET bx == CHOOSE x \in ToSet(Ev.s) : x.mb = m IN bx.msgs[Len(bx.msgs)].id

TraceInit == l = 1 /\ IInit
TrReset == /\ Is("reset") /\ Ev.histlen = HistLen /\ Ev.cap = Cap
           /\ boxes' = [m \in Mailbox |-> <<>>] /\ stored' = <<>>
           /\ mon' = [k \in Monitor |-> [joined |-> FALSE, ver |-> "v2", filter |-> "", due |-> <<>>]]
           /\ pop' = [open |-> FALSE, mb |-> "", snap |-> <<>>, marked |-> {}]
           /\ SnapOK(boxes') /\ Mark
TrDeliver == /\ Is("deliver") /\ Ev.code = 250
             /\ \A i \in DOMAIN Ev.to : \E x \in ToSet(Ev.s) : x.mb = Ev.to[i]
             /\ Deliver(Ev.to, [i \in DOMAIN Ev.to |-> NewestId(Ev.to[i])], Ev.subj)
             /\ SnapOK(boxes') /\ Mark
TrDelete == /\ Is("delete") /\ Ev.status = (IF Live(Ev.mb, Ev.id) THEN 200 ELSE 404)
            /\ Delete(Ev.mb, {Ev.id}) /\ SnapOK(boxes') /\ Mark
TrSeen == /\ Is("seen") /\ Ev.status = (IF Live(Ev.mb, Ev.id) THEN 200 ELSE 404)
          /\ MarkSeen(Ev.mb, Ev.id) /\ SnapOK(boxes') /\ Mark
TrPurge == /\ Is("purge") /\ Ev.status = 200 /\ Purge(Ev.mb) /\ SnapOK(boxes') /\ Mark
TrJoin == /\ Is("join") /\ Ev.r = "ok" /\ Join(Ev.mon, Ev.filter, Ev.ver) /\ SnapOK(boxes) /\ Mark
(* a request to the monitor URL that is refused (no WebSocket comes of it): nothing changes, for anybody *)
TrBadJoin == /\ Is("badjoin") /\ Ev.status >= 400 /\ Ev.status < 500
             /\ UNCHANGED <<boxes, stored, mon, pop>> /\ SnapOK(boxes) /\ Mark
TrDrain == /\ Is("drain") /\ Drained(Ev.mon, Ev.evs) /\ SnapOK(boxes) /\ Mark
TrLeave == /\ Is("leave") /\ Leave(Ev.mon) /\ SnapOK(boxes) /\ Mark
TrPopLogin == /\ Is("poplogin") /\ Ev.r = "+OK" /\ PopLogin(Ev.mb)
              /\ Ev.uidl = pop'.snap              \* POP3 offers the ids the REST API shows
              /\ SnapOK(boxes) /\ Mark
TrPopDele == /\ Is("popdele") /\ Ev.r = "+OK" /\ PopDele(Ev.n) /\ SnapOK(boxes) /\ Mark
TrPopQuit == /\ Is("popquit") /\ Ev.r = "+OK" /\ PopQuit /\ SnapOK(boxes') /\ Mark
TrPopDrop == /\ Is("popdrop") /\ PopDrop /\ SnapOK(boxes) /\ Mark

TraceNext == TrBadJoin \/ TrReset \/ TrDeliver \/ TrDelete \/ TrSeen \/ TrPurge \/ TrJoin \/ TrDrain \/ TrLeave
             \/ TrPopLogin \/ TrPopDele \/ TrPopQuit \/ TrPopDrop
TraceSpec == TraceInit /\ [][TraceNext]_tvars
TraceAccepted ==
    IF TLCGet(1) = Len(TraceLog) + 1 THEN TRUE
    ELSE /\ PrintT(<<"REJECTED_AT", TLCGet(1)>>)
         /\ FALSE
ASSUME TLCSet(1, 1)
=============================================================================
