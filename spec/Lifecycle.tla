------------------------------ MODULE Lifecycle ------------------------------
(***************************************************************************)
(* Contract (kind A) of a graceful shutdown of one mail listener (SMTP or  *)
(* POP3), as a client and the caller of Drain may rely on it (C19):        *)
(*                                                                         *)
(*   - once shutdown is requested no new connection is served;             *)
(*   - a session that is already open can complete its dialogue in every   *)
(*     phase: a message whose transfer is in progress is still stored and  *)
(*     acknowledged, pending POP3 deletions are still applied on QUIT;     *)
(*   - Drain returns after, and only after, all those sessions have ended; *)
(*   - the retention scanner and the message hub stop.                     *)
(*                                                                         *)
(* A session is a client connection from the moment the server has taken   *)
(* it (state "accepted": taken, nothing said yet) through the stages of    *)
(* its dialogue to "ended".  The dialogue is abstracted to the stages a    *)
(* session can be parked in:                                               *)
(*   SMTP  greet (banner) -> ready (HELO) -> mail (MAIL + RCPTs) ->        *)
(*         data (DATA, body half transmitted) -> acked (body completed,    *)
(*         250) ; QUIT ends it in every stage.                             *)
(*   POP3  auth (banner) -> trans (USER, PASS) -> marked (DELEs pending) ; *)
(*         QUIT ends it in every stage and applies the pending deletions.  *)
(* The store is the per-mailbox sequence of message tags (subjects).       *)
(* plan[s] says what session s is about: the mailboxes it delivers to /    *)
(* reads, the tag of the message it transmits, the positions it marks.     *)
(* What a disconnect in the middle of DATA or with deletions pending does  *)
(* to the store is not C19's business (C03, C13): those mailboxes are no   *)
(* longer tracked afterwards (dirty).                                      *)
(***************************************************************************)
EXTENDS Naturals, Sequences, FiniteSets

CONSTANTS Sess,      \* session identifiers
          Proto,     \* "smtp" | "pop3"
          Mailbox    \* mailbox names

VARIABLES phase,     \* "running" | "stopping" (shutdown requested)
          ss,        \* ss[s]: "none" | "accepted" | a stage | "ended"
          plan,      \* plan[s]: [mbs, tag, marks]
          drain,     \* "idle" | "called" | "returned"
          store,     \* store[m]: sequence of tags
          dirty,     \* mailboxes no longer tracked
          scanner,   \* "running" | "stopped"
          hub        \* "running" | "stopped"

vars == <<phase, ss, plan, drain, store, dirty, scanner, hub>>

Stages   == IF Proto = "smtp" THEN <<"greet", "ready", "mail", "data", "acked">>
                              ELSE <<"auth", "trans", "marked">>
StageSet == {Stages[i] : i \in 1..Len(Stages)}
First    == Stages[1]
Last     == Stages[Len(Stages)]
Idx(st)  == CHOOSE i \in 1..Len(Stages) : Stages[i] = st
IsStage(x) == x \in StageSet
IsOpen(s)  == ss[s] = "accepted" \/ IsStage(ss[s])
Quiet      == \A s \in Sess : ~IsOpen(s)
NoPlan     == [mbs |-> {}, tag |-> "", marks |-> {}]

(* effects on the store *)
Deliver(st, p) == [m \in Mailbox |-> IF m \in p.mbs THEN Append(st[m], p.tag) ELSE st[m]]
Unmarked(sq, marks) ==
    LET F[i \in 0..Len(sq)] == IF i = 0 THEN <<>>
                               ELSE IF i \in marks THEN F[i - 1] ELSE Append(F[i - 1], sq[i])
    IN  F[Len(sq)]
Expunge(st, p) == [m \in Mailbox |-> IF m \in p.mbs THEN Unmarked(st[m], p.marks) ELSE st[m]]
(* the store after a session with plan p has moved from stage `from' to the later stage `to':   *)
(* reaching "acked" means the message is stored for every recipient                              *)
Moved(st, p, from, to) ==
    IF Proto = "smtp" /\ Idx(from) < Idx("acked") /\ Idx("acked") <= Idx(to) THEN Deliver(st, p) ELSE st
(* the store after QUIT in stage `from' *)
Quitted(st, p, from) == IF Proto = "pop3" /\ from = "marked" THEN Expunge(st, p) ELSE st

TypeOK ==
    /\ phase \in {"running", "stopping"}
    /\ \A s \in Sess : ss[s] \in {"none", "accepted", "ended"} \cup StageSet
    /\ drain \in {"idle", "called", "returned"}
    /\ DOMAIN store = Mailbox
    /\ dirty \subseteq Mailbox
    /\ scanner \in {"running", "stopped"} /\ hub \in {"running", "stopped"}

Init ==
    /\ phase = "running"
    /\ ss = [s \in Sess |-> "none"]
    /\ plan = [s \in Sess |-> NoPlan]
    /\ drain = "idle"
    /\ store = [m \in Mailbox |-> <<>>]
    /\ dirty = {}
    /\ scanner = "running" /\ hub = "running"

(* a connection is served (banner) only while the listener is running *)
Open(s, p) ==
    /\ phase = "running" /\ ss[s] = "none"
    /\ ss' = [ss EXCEPT ![s] = First] /\ plan' = [plan EXCEPT ![s] = p]
    /\ UNCHANGED <<phase, drain, store, dirty, scanner, hub>>
(* the server takes a connection and has not said anything yet *)
AcceptHeld(s, p) ==
    /\ phase = "running" /\ ss[s] = "none"
    /\ ss' = [ss EXCEPT ![s] = "accepted"] /\ plan' = [plan EXCEPT ![s] = p]
    /\ UNCHANGED <<phase, drain, store, dirty, scanner, hub>>
(* ... it then either serves it (in whatever phase: it was taken before) or drops it *)
Release(s, served) ==
    /\ ss[s] = "accepted"
    /\ ss' = [ss EXCEPT ![s] = IF served THEN First ELSE "ended"]
    /\ UNCHANGED <<phase, plan, drain, store, dirty, scanner, hub>>
(* an open session advances in its dialogue: possible in every phase *)
Step(s, to) ==
    /\ IsStage(ss[s]) /\ IsStage(to) /\ Idx(ss[s]) < Idx(to)
    /\ ss' = [ss EXCEPT ![s] = to]
    /\ store' = Moved(store, plan[s], ss[s], to)
    /\ UNCHANGED <<phase, plan, drain, dirty, scanner, hub>>
Quit(s) ==
    /\ IsStage(ss[s])
    /\ ss' = [ss EXCEPT ![s] = "ended"]
    /\ store' = Quitted(store, plan[s], ss[s])
    /\ UNCHANGED <<phase, plan, drain, dirty, scanner, hub>>
(* the whole remaining dialogue: every stage, then QUIT *)
Finish(s) ==
    /\ IsStage(ss[s])
    /\ ss' = [ss EXCEPT ![s] = "ended"]
    /\ store' = Quitted(Moved(store, plan[s], ss[s], Last), plan[s], Last)
    /\ UNCHANGED <<phase, plan, drain, dirty, scanner, hub>>
(* the client disconnects *)
Hangup(s) ==
    /\ IsStage(ss[s])
    /\ ss' = [ss EXCEPT ![s] = "ended"]
    /\ dirty' = dirty \cup (IF ss[s] \in {"data", "marked"} THEN plan[s].mbs ELSE {})
    /\ UNCHANGED <<phase, plan, drain, store, scanner, hub>>

Cancel ==
    /\ phase = "running" /\ phase' = "stopping"
    /\ UNCHANGED <<ss, plan, drain, store, dirty, scanner, hub>>
(* a connection attempt after the shutdown request is not served *)
Refuse == phase = "stopping" /\ UNCHANGED vars
DrainCall ==
    /\ phase = "stopping" /\ drain = "idle" /\ drain' = "called"
    /\ UNCHANGED <<phase, ss, plan, store, dirty, scanner, hub>>
DrainReturn ==
    /\ drain = "called" /\ Quiet /\ drain' = "returned"
    /\ UNCHANGED <<phase, ss, plan, store, dirty, scanner, hub>>
ScannerStop ==
    /\ phase = "stopping" /\ scanner = "running" /\ scanner' = "stopped"
    /\ UNCHANGED <<phase, ss, plan, drain, store, dirty, hub>>
HubStop ==
    /\ phase = "stopping" /\ hub = "running" /\ hub' = "stopped"
    /\ UNCHANGED <<phase, ss, plan, drain, store, dirty, scanner>>

(* C19, state part *)
DrainedMeansQuiet     == drain = "returned" => Quiet
StopsOnlyOnShutdown   == (scanner = "stopped" \/ hub = "stopped" \/ drain # "idle") => phase = "stopping"
(* an open session can take its next step and can finish, whatever the phase and the drain state *)
OpenSessionsCanFinish ==
    \A s \in Sess : IsStage(ss[s]) =>
        /\ ENABLED Quit(s)
        /\ ENABLED Finish(s)
        /\ ss[s] # Last => ENABLED Step(s, Stages[Idx(ss[s]) + 1])
=============================================================================
