---------------------------- MODULE LifecycleImpl ----------------------------
(***************************************************************************)
(* Implementation-shaped model (kind B) of pkg/server/smtp/listener.go and *)
(* pkg/server/pop3/listener.go with their session goroutines:              *)
(*                                                                         *)
(*   Start     : listen; go serve(); <-ctx.Done(); listener.Close()        *)
(*   serve     : for { conn := Accept(); [POP3: wg.Add(1)]; go session }   *)
(*               (Accept fails once the listener is closed: return)        *)
(*   session   : [SMTP: wg.Add(1)]; greet; command loop; conn.Close();     *)
(*               wg.Done()                                                 *)
(*   Drain     : wg.Wait()                                                 *)
(*   main      : cancel(); (Start returns); Drain()                        *)
(*                                                                         *)
(* AddAfterSpawn = TRUE is the SMTP code as written (registration inside   *)
(* the session goroutine), FALSE the POP3 code (registration before the    *)
(* goroutine is spawned).  The model is never the judge: TLC checks the    *)
(* Lifecycle contract's properties through the refinement mapping below;   *)
(* the counterexample under AddAfterSpawn = TRUE is the predicted defect,  *)
(* which the generated schedules (spawn gate) replay on the real code.     *)
(* The dialogue is a counter of completed exchanges (stage = exchanges+1). *)
(* Drain is called after Start has returned, as the driver does.           *)
(***************************************************************************)
EXTENDS Naturals, Sequences, FiniteSets, TLC

CONSTANTS Clients,        \* client identifiers
          AddAfterSpawn,  \* TRUE: wg.Add(1) is the session goroutine's business (SMTP)
          P               \* "smtp" | "pop3": which dialogue the contract instance talks about

VARIABLES ctx,       \* "live" | "cancelled"
          lis,       \* listener: "open" | "closed"
          acc,       \* accept loop: "loop" | "exited"
          cl,        \* client view: "idle" | "backlog" | "conn" | "refused" | "reset" | "closed"
          srv,       \* session goroutine: "none" | "spawned" | "running" | "closing" | "done"
          prog,      \* exchanges completed by the session
          wg,        \* wait group counter
          main       \* "run" | "cancelled" | "draining" | "drained"
ivars == <<ctx, lis, acc, cl, srv, prog, wg, main>>

NStages == IF P = "smtp" THEN 5 ELSE 3

IInit == /\ ctx = "live" /\ lis = "open" /\ acc = "loop"
         /\ cl = [c \in Clients |-> "idle"] /\ srv = [c \in Clients |-> "none"]
         /\ prog = [c \in Clients |-> 0] /\ wg = 0 /\ main = "run"

(* client: the kernel completes the handshake while the listener is open *)
Connect(c) == /\ cl[c] = "idle"
              /\ cl' = [cl EXCEPT ![c] = IF lis = "open" THEN "backlog" ELSE "refused"]
              /\ UNCHANGED <<ctx, lis, acc, srv, prog, wg, main>>
(* serve(): Accept returns a connection; the session goroutine is spawned *)
AcceptConn(c) == /\ acc = "loop" /\ lis = "open" /\ cl[c] = "backlog"
                 /\ cl' = [cl EXCEPT ![c] = "conn"]
                 /\ srv' = [srv EXCEPT ![c] = "spawned"]
                 /\ wg' = IF AddAfterSpawn THEN wg ELSE wg + 1
                 /\ UNCHANGED <<ctx, lis, acc, prog, main>>
AcceptFails == /\ acc = "loop" /\ lis = "closed" /\ acc' = "exited"
               /\ UNCHANGED <<ctx, lis, cl, srv, prog, wg, main>>
(* session goroutine: first statements (the spawn gate sits before this step), then the banner *)
Register(c) == /\ srv[c] = "spawned"
               /\ srv' = [srv EXCEPT ![c] = "running"]
               /\ wg' = IF AddAfterSpawn THEN wg + 1 ELSE wg
               /\ UNCHANGED <<ctx, lis, acc, cl, prog, main>>
(* one command/reply exchange: nothing in the command loop looks at ctx *)
Exchange(c) == /\ srv[c] = "running" /\ cl[c] = "conn" /\ prog[c] < NStages - 1
               /\ prog' = [prog EXCEPT ![c] = @ + 1]
               /\ UNCHANGED <<ctx, lis, acc, cl, srv, wg, main>>
(* QUIT or disconnect: the loop ends, deferred conn.Close() ... *)
ClientEnds(c) == /\ srv[c] = "running" /\ cl[c] = "conn"
                 /\ cl' = [cl EXCEPT ![c] = "closed"]
                 /\ srv' = [srv EXCEPT ![c] = "closing"]
                 /\ UNCHANGED <<ctx, lis, acc, prog, wg, main>>
(* ... then wg.Done() *)
SessionDone(c) == /\ srv[c] = "closing"
                  /\ srv' = [srv EXCEPT ![c] = "done"]
                  /\ wg' = wg - 1
                  /\ UNCHANGED <<ctx, lis, acc, cl, prog, main>>
(* main: cancel the context *)
CancelCtx == /\ main = "run" /\ ctx' = "cancelled" /\ main' = "cancelled"
             /\ UNCHANGED <<lis, acc, cl, srv, prog, wg>>
(* Start: <-ctx.Done(); listener.Close(): connections still in the backlog are reset *)
CloseListener == /\ ctx = "cancelled" /\ lis = "open" /\ lis' = "closed"
                 /\ cl' = [c \in Clients |-> IF cl[c] = "backlog" THEN "reset" ELSE cl[c]]
                 /\ UNCHANGED <<ctx, acc, srv, prog, wg, main>>
CallDrain == /\ main = "cancelled" /\ lis = "closed" /\ main' = "draining"
             /\ UNCHANGED <<ctx, lis, acc, cl, srv, prog, wg>>
(* wg.Wait() returns when the counter is zero *)
DrainReturns == /\ main = "draining" /\ wg = 0 /\ main' = "drained"
                /\ UNCHANGED <<ctx, lis, acc, cl, srv, prog, wg>>

INext == \/ \E c \in Clients : Connect(c) \/ AcceptConn(c) \/ Register(c) \/ Exchange(c) \/ ClientEnds(c) \/ SessionDone(c)
         \/ AcceptFails \/ CancelCtx \/ CloseListener \/ CallDrain \/ DrainReturns
ISpec == IInit /\ [][INext]_ivars
IFair == /\ WF_ivars(CloseListener) /\ WF_ivars(DrainReturns)
         /\ \A c \in Clients : WF_ivars(Register(c)) /\ WF_ivars(ClientEnds(c)) /\ WF_ivars(SessionDone(c))
ILive == ISpec /\ IFair

ITypeOK == /\ wg \in 0..Cardinality(Clients)
           /\ \A c \in Clients : prog[c] \in 0..(NStages - 1)

----------------------------------------------------------------------------
(* refinement mapping to the contract: shutdown takes effect when the listener closes; a session  *)
(* exists from the moment Accept has returned its connection; it has ended for the contract when  *)
(* the client has ended the dialogue (the goroutine's last steps are the server's own business,   *)
(* Drain may or may not wait for them)                                                            *)
StageNames == IF P = "smtp" THEN <<"greet", "ready", "mail", "data", "acked">> ELSE <<"auth", "trans", "marked">>
APhase == IF lis = "closed" THEN "stopping" ELSE "running"
ASess  == [c \in Clients |-> CASE srv[c] = "none"    -> "none"
                                [] srv[c] = "spawned" -> "accepted"
                                [] srv[c] = "running" -> StageNames[prog[c] + 1]
                                [] OTHER              -> "ended"]
ADrain == CASE main = "draining" -> "called" [] main = "drained" -> "returned" [] OTHER -> "idle"
LC == INSTANCE Lifecycle WITH
        Sess    <- Clients,
        Proto   <- P,
        Mailbox <- {},
        phase   <- APhase,
        ss      <- ASess,
        plan    <- [c \in Clients |-> [mbs |-> {}, tag |-> "", marks |-> {}]],
        drain   <- ADrain,
        store   <- <<>>,
        dirty   <- {},
        scanner <- IF ctx = "cancelled" THEN "stopped" ELSE "running",
        hub     <- IF ctx = "cancelled" THEN "stopped" ELSE "running"

(* the contract's C19 properties, on the implementation's behaviours *)
DrainedMeansQuiet == LC!DrainedMeansQuiet
NoNewSessionAfterShutdown ==
    [][APhase = "stopping" => \A c \in Clients : ASess[c] = "none" => ASess'[c] = "none"]_ivars
DrainReturnsOnlyWhenQuiet ==
    [][(main # "drained" /\ main' = "drained") => LC!Quiet]_ivars
(* observable form of the same (what the trace specification refutes): no exchange after Drain returned *)
NoExchangeAfterDrain == [][main = "drained" => prog' = prog]_ivars
(* an open session can always take its next exchange and can always end, whatever ctx/lis/main are *)
OpenSessionsCanFinish ==
    \A c \in Clients : (srv[c] = "running" /\ cl[c] = "conn") =>
        /\ ENABLED ClientEnds(c)
        /\ prog[c] < NStages - 1 => ENABLED Exchange(c)
DrainEventuallyReturns == (main = "draining") ~> (main = "drained")
ListenerEventuallyCloses == (ctx = "cancelled") ~> (lis = "closed" /\ \A c \in Clients : cl[c] # "backlog")
=============================================================================
