--------------------------- MODULE LifecycleTrace ---------------------------
(***************************************************************************)
(* Trace specification for `vh lifecycle': validates what real TCP clients *)
(* and the caller of Drain observed on a real smtp.Server / pop3.Server    *)
(* (with retention scanner and message hub started on the same context)    *)
(* against the Lifecycle contract.                                         *)
(*                                                                         *)
(* Every event carries e (and client steps also b): sequence numbers taken *)
(* from one counter under one mutex at the end (beginning) of the step;    *)
(* events appear in the order of e.  The return of Drain is an event of    *)
(* its own ("drained"), recorded by the goroutine that called Drain.       *)
(* "Only after": Drain's return is judged by evidence - it is refuted when *)
(* a client step that BEGAN after the drained event (b > e of drained) got *)
(* an answer from its session: that session had not ended when Drain       *)
(* returned.  No wall-clock comparison is involved.  "After": at the end   *)
(* of the behaviour, when every session has ended, a called Drain must     *)
(* have returned (the driver waits 5 s for it).                            *)
(* Replies are judged by class only (positive / negative); the store is    *)
(* compared after every client step (tags per mailbox, untracked ones      *)
(* excepted).                                                              *)
(***************************************************************************)
EXTENDS Lifecycle, Json, TLC, TLCExt, IOUtils, SequencesExt

TraceLog == ndJsonDeserialize(IOEnv.VERIF_TRACE)
(* deviation keys enabled by known_findings.txt: one JSON object {"key": ...} per line *)
AllowedKeys == {r.key : r \in ToSet(ndJsonDeserialize(IOEnv.VERIF_ALLOWED_FILE))}

VARIABLES l,
          dseq,    \* sequence number of the drained event (0: Drain has not returned)
          early,   \* sessions that were taken but had said nothing yet when Drain returned
          held,    \* sessions that were taken but had said nothing yet when Drain was called
          wired    \* the hub listens to the store's events (as in the full assembly)
tvars == <<phase, ss, plan, drain, store, dirty, scanner, hub, l, dseq, early, held, wired>>

Ev == TraceLog[l]
Is(a) == l <= Len(TraceLog) /\ Ev.a = a /\ l' = l + 1
Mark == TLCSet(1, l + 1)
Dev(key) == /\ key \in AllowedKeys
            /\ PrintT(<<"DEVIATION", key, l>>)
Keep == UNCHANGED <<dseq, early, held, wired>>

(* projection of the real store: per non-empty mailbox the subjects in order *)
Obs(m) == LET I == {i \in DOMAIN Ev.snap : Ev.snap[i].mb = m}
          IN  IF I = {} THEN <<>> ELSE Ev.snap[CHOOSE i \in I : TRUE].subj
SnapOK(st, untracked) ==
    /\ Ev.serr = <<>>
    /\ \A i \in DOMAIN Ev.snap : Ev.snap[i].mb \in Mailbox
    /\ \A i, j \in DOMAIN Ev.snap : Ev.snap[i].mb = Ev.snap[j].mb => i = j
    /\ \A m \in Mailbox \ untracked : Obs(m) = st[m]

PlanOf == [mbs |-> ToSet(Ev.mbs), tag |-> Ev.tag, marks |-> ToSet(Ev.marks)]
(* every exchange of the step was answered, positively *)
RepliesOK == /\ Len(Ev.replies) = Ev.want
             /\ \A i \in DOMAIN Ev.replies : Ev.replies[i] = "ok"
Answered == \E i \in DOMAIN Ev.replies : Ev.replies[i] \in {"ok", "fail"}
(* the evidence against "only after": this step began after Drain had returned, and the session answered *)
Late(answered) == drain = "returned" /\ answered /\ Ev.b > dseq
(* known finding: the SMTP session registers with the wait group inside its own goroutine, so a   *)
(* connection that was accepted but whose goroutine had not got that far is not waited for         *)
LateOK(s, answered) ==
    IF Late(answered)
    THEN Proto = "smtp" /\ s \in early /\ Dev("C19.smtp.session-registers-after-spawn")
    ELSE TRUE

TraceInit == l = 1 /\ Init /\ dseq = 0 /\ early = {} /\ held = {} /\ wired = FALSE

TrReset == /\ Is("reset") /\ Ev.proto = Proto
           /\ phase' = "running" /\ ss' = [s \in Sess |-> "none"] /\ plan' = [s \in Sess |-> NoPlan]
           /\ drain' = "idle" /\ dirty' = {} /\ scanner' = "running" /\ hub' = "running"
           /\ dseq' = 0 /\ early' = {} /\ held' = {} /\ wired' = (Ev.hub = "wired")
           /\ store' = [m \in Mailbox |-> Obs(m)]
           /\ SnapOK(store', {})
           /\ Mark

(* setup: a client connects and is greeted / is taken and held by the spawn gate *)
TrOpen == /\ Is("open") /\ ~Ev.gated
          /\ Ev.conn = "ok" /\ Ev.banner = "ok"
          /\ Open(Ev.s, PlanOf) /\ Keep /\ Mark
TrAccept == /\ Is("open") /\ Ev.gated
            /\ Ev.conn = "ok" /\ Ev.entered
            /\ AcceptHeld(Ev.s, PlanOf) /\ Keep /\ Mark
(* the held session goroutine runs: the connection is greeted, or dropped without a word *)
TrRelease == /\ Is("release") /\ Ev.banner \in {"ok", "closed"}
             /\ Release(Ev.s, Ev.banner = "ok")
             /\ LateOK(Ev.s, Ev.banner = "ok")
             /\ Keep /\ Mark
(* an open session completes its next exchanges, in whatever phase *)
TrStep == /\ Is("step")
          /\ Step(Ev.s, Ev.to)
          /\ RepliesOK
          /\ LateOK(Ev.s, Answered)
          /\ SnapOK(store', dirty')
          /\ Keep /\ Mark
TrQuit == /\ Is("quit")
          /\ Quit(Ev.s)
          /\ RepliesOK
          /\ LateOK(Ev.s, Answered)
          /\ SnapOK(store', dirty')
          /\ Keep /\ Mark
TrHangup == /\ Is("hangup") /\ Hangup(Ev.s) /\ Keep /\ Mark

(* shutdown is requested: Start returns (listener closed), the hub loop and the scanner return *)
TrCancel == /\ Is("cancel")
            /\ phase = "running" /\ phase' = "stopping"
            /\ Ev.start
            /\ Ev.hub /\ hub' = "stopped"
            /\ Ev.scan /\ Ev.doscan /\ scanner' = "stopped"
            /\ UNCHANGED <<ss, plan, drain, store, dirty>>
            /\ Keep /\ Mark
(* a connection attempt after that is refused (or at least not served by this server) *)
TrNewConn == /\ Is("newconn") /\ Refuse
             /\ Ev.r = "refused" \/ (Ev.r = "connected" /\ ~Ev.ours)
             /\ Keep /\ Mark
(* a client that does not speak TLS came to the TLS listener and went (its handshake failed): nothing of the *)
(* contract's state changes, in particular it is not a session anybody has to wait for                      *)
TrPlainConn == /\ Is("plainconn")
               /\ UNCHANGED <<phase, ss, plan, drain, store, dirty, scanner, hub>> /\ Keep /\ Mark
(* every open client falls silent and keeps its connection; the server ends those sessions itself when its idle   *)
(* timeout expires (for the contract: as if each client had gone - nothing further of theirs is stored or removed). *)
(* The sessions count as ended from the moment the wait begins, so a Drain may return at any time during it;      *)
(* "idledone" then says that every one of those clients did see its connection end.                                *)
TrIdleOut == /\ Is("idleout")
             /\ LET S == ToSet(Ev.ss) IN
                  /\ \A s \in S : IsStage(ss[s])
                  /\ ss' = [s \in Sess |-> IF s \in S THEN "ended" ELSE ss[s]]
                  /\ dirty' = dirty \cup UNION {IF ss[s] \in {"data", "marked"} THEN plan[s].mbs ELSE {} : s \in S}
             /\ UNCHANGED <<phase, plan, drain, store, scanner, hub>>
             /\ Keep /\ Mark
TrIdleDone == /\ Is("idledone")
              /\ \A i \in DOMAIN Ev.eof : Ev.eof[i]
              /\ UNCHANGED <<phase, ss, plan, drain, store, dirty, scanner, hub>>
              /\ Keep /\ Mark
TrDrain == /\ Is("drain") /\ DrainCall
           /\ held' = {s \in Sess : ss[s] = "accepted"}
           /\ UNCHANGED <<dseq, early, wired>> /\ Mark
(* Drain has returned; whether it was entitled to is decided by what clients observe afterwards *)
TrDrained == /\ Is("drained")
             /\ drain = "called" /\ drain' = "returned"
             /\ dseq' = Ev.e
             /\ early' = {s \in Sess : ss[s] = "accepted"}
             /\ UNCHANGED <<phase, ss, plan, store, dirty, scanner, hub, held, wired>>
             /\ Mark
(* end of the behaviour: all clients are gone; a called Drain has returned *)
TrEnd == /\ Is("end")
         /\ (drain = "called" /\ Quiet) => FALSE
         /\ SnapOK(store, dirty)
         /\ UNCHANGED <<phase, ss, plan, drain, store, dirty, scanner, hub>>
         /\ Keep /\ Mark
(* the server process died.  Known findings: (1) the hub closes its operation queue when the      *)
(* context is cancelled, so the after-event of a message stored (or removed) by a still open       *)
(* session afterwards makes the event dispatcher send on a closed channel; (2) the SMTP session    *)
(* that registers itself (wg.Add inside its goroutine) does so while Drain's wg.Wait is returning  *)
WaitGroupPanics == {"panic: sync: WaitGroup is reused before previous Wait has returned",
                    "panic: sync: WaitGroup misuse: Add called concurrently with Wait"}
TrDied == /\ Is("died")
          /\ \/ /\ wired /\ phase = "stopping" /\ hub = "stopped"
                /\ Ev.sig = "panic: send on closed channel"
                /\ Dev("C19.hub.dispatch-after-stop-panics")
             \/ /\ Proto = "smtp" /\ drain # "idle" /\ held # {}
                /\ Ev.sig \in WaitGroupPanics
                /\ Dev("C19.smtp.session-registers-after-spawn")
          /\ UNCHANGED <<phase, ss, plan, drain, store, dirty, scanner, hub>>
          /\ Keep /\ Mark

TraceNext == \/ TrIdleOut \/ TrIdleDone \/ TrReset \/ TrOpen \/ TrAccept \/ TrRelease \/ TrStep \/ TrQuit \/ TrHangup
             \/ TrCancel \/ TrPlainConn \/ TrNewConn \/ TrDrain \/ TrDrained \/ TrEnd \/ TrDied

TraceSpec == TraceInit /\ [][TraceNext]_tvars

TraceAccepted ==
    IF TLCGet(1) = Len(TraceLog) + 1 THEN TRUE
    ELSE /\ PrintT(<<"REJECTED_AT", TLCGet(1)>>)
         /\ FALSE
ASSUME TLCSet(1, 1)
=============================================================================
