------------------------------ MODULE LinTrace ------------------------------
(***************************************************************************)
(* Linearizability of the real stores under concurrent use (C09), decided  *)
(* by TLC against the Mailstore contract.                                  *)
(*                                                                         *)
(* A history is recorded by `vh conc': after a sequential set-up phase     *)
(* ("add" events as in MailstoreTrace) several goroutines call the store   *)
(* concurrently; every call contributes an "inv" event (stamped before the *)
(* call) and a "res" event (stamped after it returned) - the stamps come   *)
(* from one atomic counter, so the order of events in the trace is the     *)
(* real-time order.  Both events of a call carry the call's arguments and  *)
(* its observed result.  Between two events any pending call may take      *)
(* effect (action Lin): the contract action is applied and the observed    *)
(* result must be the contract's result in that state.  TLC searches all   *)
(* choices; the history is explainable iff some path consumes every event  *)
(* and ends in the observed final state of the store.                      *)
(***************************************************************************)
EXTENDS ConcMailstore, Json, TLC, IOUtils

TraceLog == ndJsonDeserialize(IOEnv.VERIF_TRACE)

VARIABLES l,        \* next event
          pend,     \* calls invoked and not yet linearized: set of [op, idx] (idx: position of the inv event)
          lind,     \* calls linearized, response not yet seen: set of op numbers
          need      \* walks of the store under way: op number -> mailboxes that have held mail ever since the walk began
tvars == <<boxes, used, arrival, cap, limit, doomed, l, pend, lind, need>>

Ev == TraceLog[l]
Is(a) == l <= Len(TraceLog) /\ Ev.a = a /\ l' = l + 1
Mark == TLCSet(1, IF TLCGet(1) > l + 1 THEN TLCGet(1) ELSE l + 1)

Snap(b) == {[mb |-> m, msgs |-> b[m]] : m \in {x \in Mailbox : b[x] # <<>>}}
SnapOK(b) == /\ Ev.serr = <<>>
             /\ Len(Ev.s) = Cardinality(Snap(b))
             /\ ToSet(Ev.s) = Snap(b)

NonEmpty(b) == {m \in Mailbox : b[m] # <<>>}
NoWalks == [o \in {} |-> {}]
(* whatever changes the store: a walk that is under way can no longer be sure of a mailbox that is empty now *)
Shrink(b) == [o \in DOMAIN need |-> need[o] \cap NonEmpty(b)]
TraceInit == /\ l = 1 /\ pend = {} /\ lind = {} /\ need = NoWalks
             /\ CInit(0, 0)

TrReset == /\ Is("reset")
           /\ boxes' = [m \in Mailbox |-> <<>>]
           /\ used' = [m \in Mailbox |-> {}]
           /\ arrival' = <<>>
           /\ cap' = Ev.cap /\ limit' = Ev.limit /\ doomed' = {}
           /\ pend' = {} /\ lind' = {} /\ need' = NoWalks
           /\ Mark

(* sequential set-up *)
TrAdd == /\ Is("add") /\ Ev.r = "ok"
         /\ Add(Ev.mb, Ev.id, Ev.meta, Ev.size)
         /\ SnapOK(boxes')
         /\ UNCHANGED <<pend, lind, doomed, need>> /\ Mark

(* a completed walk of the store (VisitMailboxes) reports which mailboxes it was shown: from its start on it is owed *)
(* every mailbox that holds mail now and goes on holding mail until the walk returns                                *)
TrInv == /\ Is("inv")
         /\ pend' = pend \cup {[op |-> Ev.op, idx |-> l]}
         /\ need' = IF Ev.k = "visitdone" THEN [o \in DOMAIN need \cup {Ev.op} |-> IF o = Ev.op THEN NonEmpty(boxes) ELSE need[o]] ELSE need
         /\ UNCHANGED <<cvars, lind>> /\ Mark

(* concurrent reads are compared on what the call itself returns: identity,  *)
(* metadata and size (content is read separately; the seen flag of the       *)
(* memory store lives in the message object and is read after the call)      *)
Lite(x) == [id |-> x.id, from |-> x.meta.from, to |-> x.meta.to, subject |-> x.meta.subject,
            date |-> x.meta.date, size |-> x.size]
Lites(sq) == [i \in DOMAIN sq |-> Lite(sq[i])]
(* the call c (its inv event) takes effect now *)
Apply(c) ==
    CASE c.k = "add"    -> c.r = "ok" /\ CAdd(c.mb, c.id, c.meta, c.size)
      [] c.k = "remove" -> c.r = ByIdRes(c.mb, c.id) /\ CRemove(c.mb, c.id)
      [] c.k = "seen"   -> c.r = ByIdRes(c.mb, c.id) /\ CSeen(c.mb, c.id)
      [] c.k = "purge"  -> c.r = "ok" /\ CPurge(c.mb)
      [] c.k = "get"    -> /\ c.r = GetRes(c.mb, c.id).r
                           /\ (c.r = "ok" => c.msg = Lite(GetRes(c.mb, c.id).msg))
                           /\ UNCHANGED cvars
      [] c.k = "latest" -> /\ c.r = LatestRes(c.mb).r
                           /\ (c.r = "ok" => c.msg = Lite(LatestRes(c.mb).msg))
                           /\ UNCHANGED cvars
      [] c.k = "list"   -> c.r = "ok" /\ c.msgs = Lites(ListRes(c.mb)) /\ UNCHANGED cvars
      [] c.k = "visitdone" -> c.r = "ok" /\ UNCHANGED cvars
      [] OTHER          -> FALSE        \* e.g. "visit-error": a visit that failed is not explainable
Lin == \E p \in pend :
          /\ Apply(TraceLog[p.idx])
          /\ pend' = pend \ {p}
          /\ lind' = lind \cup {p.op}
          /\ need' = Shrink(boxes')
          /\ UNCHANGED l

(* the size enforcer is a concurrent client of its own (C09): it evicts the  *)
(* store-wide oldest message while the store is over its limit              *)
Enforcer == CEvict /\ need' = Shrink(boxes') /\ UNCHANGED <<l, pend, lind>>

TrRes == /\ Is("res")
         /\ Ev.op \in lind
         /\ lind' = lind \ {Ev.op}
         /\ (Ev.k = "visitdone") => (need[Ev.op] \subseteq ToSet(Ev.visited))
         /\ need' = [o \in DOMAIN need \ {Ev.op} |-> need[o]]
         /\ UNCHANGED <<cvars, pend>> /\ Mark

(* C16 under concurrency: the after-events the stores produced during the history ("stored"  *)
(* is announced by the delivery path above the store, the stores announce removals).  Every  *)
(* message that ever entered a mailbox (used) and is no longer there was announced "deleted" *)
(* exactly once, nothing else was announced, and the listener was never invoked again before *)
(* it had returned                                                                           *)
Obs == Ev.evs
Key(e) == [k |-> e.k, mb |-> e.mb, id |-> e.id]
LiveIds(m) == {boxes[m][i].id : i \in DOMAIN boxes[m]}
ExpectedEvents ==
    UNION {{[k |-> "deleted", mb |-> m, id |-> i] : i \in used[m] \ LiveIds(m)} : m \in Mailbox}
EventsOK ==
    /\ {Key(Obs[i]) : i \in DOMAIN Obs} = ExpectedEvents
    /\ Len(Obs) = Cardinality(ExpectedEvents)                      \* no event twice
    /\ \A i, j \in DOMAIN Obs : i # j => (Obs[i].ex < Obs[j].en \/ Obs[j].ex < Obs[i].en)

(* all goroutines have finished: the store is what the linearization left *)
TrFinal == /\ Is("final") /\ pend = {} /\ lind = {}
           /\ AtRest                       \* nothing doomed is left, the store is within its limit
           /\ SnapOK(boxes)
           /\ ("evs" \in DOMAIN Ev) => EventsOK
           /\ UNCHANGED <<cvars, pend, lind, need>> /\ Mark

(* first touch: several clients delivered to a brand-new mailbox at the same    *)
(* moment; every delivery that returned an id is there, no id was given twice   *)
(* (cap and size limit are off in these histories)                              *)
TrBurst ==
    /\ Is("burst") /\ cap = 0 /\ limit = 0 /\ boxes[Ev.mb] = <<>>
    /\ \A i \in DOMAIN Ev.adds : Ev.adds[i].r = "ok"
    /\ \A i, j \in DOMAIN Ev.adds : i # j => Ev.adds[i].id # Ev.adds[j].id
    /\ \E bx \in ToSet(Ev.s) :
          /\ bx.mb = Ev.mb
          /\ Len(bx.msgs) = Len(Ev.adds)
          /\ ToSet(bx.msgs) = {NewMsg(Ev.adds[i].id, Ev.adds[i].meta, Ev.adds[i].size) : i \in DOMAIN Ev.adds}
          /\ boxes' = [boxes EXCEPT ![Ev.mb] = bx.msgs]
          /\ used' = [used EXCEPT ![Ev.mb] = @ \cup {bx.msgs[i].id : i \in DOMAIN bx.msgs}]
          /\ arrival' = arrival \o [i \in DOMAIN bx.msgs |-> <<Ev.mb, bx.msgs[i].id>>]
    /\ SnapOK(boxes')
    /\ UNCHANGED <<cap, limit, doomed, pend, lind, need>> /\ Mark

(* a mailbox whose index is unreadable (one was damaged, a walk of the store ran into it): every operation on   *)
(* the other mailboxes - also one in the same lock bucket - still returns, and succeeds                        *)
TrPoison ==
    /\ Is("poison") /\ Ev.damaged = 1
    /\ Ev.add = "ok" /\ Ev.list = "ok" /\ Ev.purge = "ok" /\ Ev.add2 = "ok"
    /\ UNCHANGED <<cvars, pend, lind, need>> /\ Mark

TraceNext == TrPoison \/ TrBurst \/ TrReset \/ TrAdd \/ TrInv \/ Lin \/ Enforcer \/ TrRes \/ TrFinal
TraceSpec == TraceInit /\ [][TraceNext]_tvars

TraceAccepted ==
    IF TLCGet(1) = Len(TraceLog) + 1 THEN TRUE
    ELSE /\ PrintT(<<"REJECTED_AT", TLCGet(1)>>)
         /\ FALSE
ASSUME TLCSet(1, 1)
=============================================================================
