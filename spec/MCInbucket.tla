----------------------------- MODULE MCInbucket -----------------------------
(* Bounded instance of the composed contract for exhaustive checking: every *)
(* interleaving of deliveries (one or two recipients), REST deletes/purges, *)
(* one POP3 session and monitors joining, draining and leaving.             *)
EXTENDS Inbucket, TLC

CONSTANTS MaxStored
VARIABLE nextid
mcvars == <<boxes, stored, mon, pop, nextid>>

MCInit == IInit /\ nextid = 1
Fresh(n) == [i \in 1 .. n |-> nextid + i - 1]
MCNext ==
    \/ /\ Len(stored) < MaxStored
       /\ \E targets \in {<<m>> : m \in Mailbox} \cup {<<m1, m2>> : m1, m2 \in Mailbox} :
             Len(stored) + Len(targets) <= MaxStored /\ Deliver(targets, Fresh(Len(targets)), "s") /\ nextid' = nextid + Len(targets)
    \/ \E m \in Mailbox : \E id \in Ids(m) : (Delete(m, {id}) \/ MarkSeen(m, id)) /\ UNCHANGED nextid
    \/ \E m \in Mailbox : Purge(m) /\ UNCHANGED nextid
    \/ \E k \in Monitor, f \in Mailbox \cup {""}, v \in {"v1", "v2"} : Join(k, f, v) /\ UNCHANGED nextid
    \/ \E k \in Monitor : (Drained(k, mon[k].due) \/ Leave(k)) /\ UNCHANGED nextid
    \/ \E m \in Mailbox : PopLogin(m) /\ UNCHANGED nextid
    \/ \E n \in 1 .. 3 : PopDele(n) /\ UNCHANGED nextid
    \/ (PopQuit \/ PopDrop) /\ UNCHANGED nextid
MCSpec == MCInit /\ [][MCNext]_mcvars

(* REST deletes during a POP3 session never change what the session offers *)
SnapshotStable == [][(pop.open /\ pop'.open) => pop'.snap = pop.snap]_mcvars
(* only QUIT (not a dropped session) removes through POP3 *)
DropRemovesNothing == [][(pop.open /\ ~pop'.open /\ boxes' # boxes) => (\A m \in Mailbox : Ids(m) \ {boxes'[m][i].id : i \in DOMAIN boxes'[m]} \subseteq pop.marked)]_mcvars
=============================================================================
