SPECIFICATION MCSpec
CONSTANTS
  Mailbox = {"a", "b"}
  Sizes = {1, 2, 3}
  Metas = {"old", "young"}
  Caps = {0, 1, 2}
  Limits = {0, 3, 5}
  MaxAdds = 4
INVARIANTS IdsUnique CapInv SizeInv ArrivalInv ResultsInv
PROPERTIES StepPropsHold
CHECK_DEADLOCK FALSE
