---------------------------- MODULE MCMailstore ----------------------------
(* Bounded model of the Mailstore contract for exhaustive checking.  Adds  *)
(* `last' (the last operation) so that the operation-dependent statements  *)
(* of C07/C08 can be written as action properties.                         *)
EXTENDS Mailstore, TLC

CONSTANTS Sizes,        \* set of message sizes
          Metas,        \* set of metadata values
          Caps, Limits, \* configurations explored (chosen in Init)
          MaxAdds       \* bound on the number of Add steps

VARIABLES last, adds
vars == <<boxes, used, arrival, cap, limit, last, adds>>

\* ids are numbered per mailbox in order of issue (a symmetry reduction:
\* the contract does not look inside ids)
NextId(m) == Cardinality(used[m]) + 1
IdRefs(m) == 1 .. (Cardinality(used[m]) + 1)     \* live, removed, and one never issued

MCInit == /\ \E c \in Caps, l \in Limits : Init(c, l)
          /\ last = [op |-> "init"]
          /\ adds = 0

MCAdd(m, meta, size) ==
    /\ adds < MaxAdds
    /\ Add(m, NextId(m), meta, size)
    /\ last' = [op |-> "add", m |-> m, id |-> NextId(m), size |-> size]
    /\ adds' = adds + 1
MCSeen(m, id)   == MarkSeen(m, id) /\ last' = [op |-> "seen", m |-> m, id |-> id] /\ UNCHANGED adds
MCRemove(m, id) == RemoveMsg(m, id) /\ last' = [op |-> "remove", m |-> m, id |-> id] /\ UNCHANGED adds
MCPurge(m)      == Purge(m) /\ last' = [op |-> "purge", m |-> m] /\ UNCHANGED adds
MCScan          == Scan(LAMBDA meta : meta = "old") /\ last' = [op |-> "scan"] /\ UNCHANGED adds

MCNext == \/ \E m \in Mailbox, meta \in Metas, size \in Sizes : MCAdd(m, meta, size)
          \/ \E m \in Mailbox : \E id \in IdRefs(m) : MCSeen(m, id) \/ MCRemove(m, id)
          \/ \E m \in Mailbox : MCPurge(m)
          \/ MCScan

MCSpec == MCInit /\ [][MCNext]_vars

----------------------------------------------------------------------------
\* C07 ---------------------------------------------------------------------
\* removal affects only the named message
RemoveOnlyNamed ==
    last'.op = "remove" =>
       /\ \A m \in Mailbox : m # last'.m => boxes'[m] = boxes[m]
       /\ boxes'[last'.m] = WithoutId(boxes[last'.m], last'.id)
SeenOnlyNamed ==
    last'.op = "seen" =>
       \A m \in Mailbox : \A i \in DOMAIN boxes[m] :
          /\ Len(boxes'[m]) = Len(boxes[m])
          /\ boxes'[m][i] = IF m = last'.m /\ boxes[m][i].id = last'.id
                            THEN [boxes[m][i] EXCEPT !.seen = TRUE] ELSE boxes[m][i]
PurgeOnlyNamed ==
    last'.op = "purge" =>
       \A m \in Mailbox : boxes'[m] = IF m = last'.m THEN <<>> ELSE boxes[m]
\* C08 ---------------------------------------------------------------------
\* after an Add the mailbox holds its most recent messages (a suffix of old+new)
RecentSuffix ==
    last'.op = "add" =>
       LET full == Append(boxes[last'.m], NewMsg(last'.id, "x", last'.size))
           now  == boxes'[last'.m]
       IN  /\ Len(now) <= Len(full)
           /\ \A i \in DOMAIN now : now[i].id = full[Len(full) - Len(now) + i].id
\* a newly delivered message that fits is retrievable immediately
FitsIsRetrievable ==
    last'.op = "add" => ((limit = 0 \/ last'.size <= limit) => last'.id \in Ids(boxes', last'.m))
\* size eviction is strictly oldest-first across the whole store: whatever left the
\* store in an Add (beyond the cap victims of the target mailbox) is a prefix of
\* the arrival order
EvictOldestFirst ==
    last'.op = "add" =>
       LET gone == SelectSeq(arrival, LAMBDA r : r[2] \notin Ids(boxes', r[1]))
           capv == CapDropped(Append(boxes[last'.m], NewMsg(last'.id, "x", last'.size)), cap)
           capids == {capv[i].id : i \in DOMAIN capv}
           rest == SelectSeq(arrival, LAMBDA r : ~(r[1] = last'.m /\ r[2] \in capids))
           goneSz == SelectSeq(rest, LAMBDA r : r[2] \notin Ids(boxes', r[1]))
       IN  \A i \in DOMAIN goneSz : goneSz[i] = rest[i]
\* ... and only until the limit is met again: putting back the youngest
\* size victim would exceed the limit
EvictOnlyNecessary ==
    (last'.op = "add" /\ limit > 0) =>
       LET capv == CapDropped(Append(boxes[last'.m], NewMsg(last'.id, "x", last'.size)), cap)
           capids == {capv[i].id : i \in DOMAIN capv}
           before == Append(SelectSeq(arrival, LAMBDA r : ~(r[1] = last'.m /\ r[2] \in capids)),
                            <<last'.m, last'.id>>)
           victims == SelectSeq(before, LAMBDA r : r[2] \notin Ids(boxes', r[1]))
           SizeOf(r) == IF r = <<last'.m, last'.id>> THEN last'.size ELSE MsgOf(r[1], r[2]).size
       IN  victims # <<>> => Total(boxes') + SizeOf(victims[Len(victims)]) > limit
\* nothing but Add/Remove/Purge/Scan-of-old removes anything
ReadersAndSeenKeepAll ==
    last'.op = "seen" => \A m \in Mailbox : Ids(boxes', m) = Ids(boxes, m)
ScanExact ==
    last'.op = "scan" =>
       \A m \in Mailbox : boxes'[m] = SelectSeq(boxes[m], LAMBDA x : x.meta # "old")

StepProps == /\ NeverReused /\ OrderKept /\ ContentKept
             /\ RemoveOnlyNamed /\ SeenOnlyNamed /\ PurgeOnlyNamed
             /\ RecentSuffix /\ FitsIsRetrievable /\ EvictOldestFirst /\ EvictOnlyNecessary
             /\ ReadersAndSeenKeepAll /\ ScanExact
StepPropsHold == [][StepProps]_vars

\* results are functions of the state (MissingIsNotExist, ReadBack)
ResultsInv == \A m \in Mailbox : \A id \in IdRefs(m) :
                 /\ (id \notin Ids(boxes, m)) => (GetRes(m, id).r = "notexist" /\ ByIdRes(m, id) = "notexist")
                 /\ (id \in Ids(boxes, m)) => (GetRes(m, id).msg.id = id /\ ByIdRes(m, id) = "ok")
                 /\ (boxes[m] = <<>>) <=> (LatestRes(m).r = "notexist")
=============================================================================
