--------------------------- MODULE MCMemStoreImpl ---------------------------
(* Bounded instance of MemStoreImpl: three concurrent clients, each running  *)
(* one of nine operations on two mailboxes that start with two messages of   *)
(* size 1 each (every assignment of operations to clients is explored).      *)
EXTENDS MemStoreImpl
Ops == {[op |-> "add", m |-> "a", size |-> 1], [op |-> "add", m |-> "a", size |-> 2], [op |-> "add", m |-> "b", size |-> 1],
        [op |-> "remove", m |-> "a", id |-> 1], [op |-> "remove", m |-> "a", id |-> 3], [op |-> "remove", m |-> "b", id |-> 2],
        [op |-> "purge", m |-> "a"], [op |-> "purge", m |-> "b"], [op |-> "list", m |-> "a"]}
AllPrograms == [Thread -> Ops]
=============================================================================
