----------------------------- MODULE Mailstore -----------------------------
(***************************************************************************)
(* Contract (kind A) of inbucket's storage.Store as a user may rely on it: *)
(* a map from mailbox name to an arrival-ordered list of messages, with an *)
(* optional per-mailbox cap and an optional store-wide size limit.         *)
(*                                                                         *)
(* The module is written to be bound: every public Store method is one     *)
(* action (mutators) or one result operator (readers).  Ids are opaque:    *)
(* Add takes the id as a parameter and only demands that it was never used *)
(* in that mailbox, so a trace specification can bind the real id.         *)
(***************************************************************************)
EXTENDS Naturals, Sequences, FiniteSets, SequencesExt, FiniteSetsExt

CONSTANTS Mailbox          \* set of mailbox names

VARIABLES boxes,           \* [Mailbox -> Seq(Msg)]   live messages, oldest first
          used,            \* [Mailbox -> SUBSET Id]  every id ever issued in the mailbox
          arrival,         \* Seq(<<mailbox, id>>)    live messages in store-wide arrival order
          cap,             \* per-mailbox message cap, 0 = off
          limit            \* store-wide byte limit, 0 = off

svars == <<boxes, used, arrival, cap, limit>>

NewMsg(id, meta, size) == [id |-> id, meta |-> meta, size |-> size, seen |-> FALSE]

Ids(b, m)   == {b[m][i].id : i \in DOMAIN b[m]}
Live(m, id) == id \in Ids(boxes, m)
Pos(s, id)  == CHOOSE i \in DOMAIN s : s[i].id = id
MsgOf(m, id) == boxes[m][Pos(boxes[m], id)]

SeqSize(s)  == FoldSeq(LAMBDA x, acc : acc + x.size, 0, s)
Total(b)    == FoldSet(LAMBDA m, acc : acc + SeqSize(b[m]), 0, Mailbox)

WithoutId(s, id) == SelectSeq(s, LAMBDA x : x.id # id)
WithoutRef(arr, m, id) == SelectSeq(arr, LAMBDA r : r # <<m, id>>)
WithoutBox(arr, m) == SelectSeq(arr, LAMBDA r : r[1] # m)

(* Mailbox cap: keep the most recent c messages. *)
CapSuffix(s, c) == IF c > 0 /\ Len(s) > c THEN SubSeq(s, Len(s) - c + 1, Len(s)) ELSE s
CapDropped(s, c) == IF c > 0 /\ Len(s) > c THEN SubSeq(s, 1, Len(s) - c) ELSE <<>>

(* Size limit: evict the store-wide oldest message until the total fits.   *)
RECURSIVE EvictSize(_, _, _)
EvictSize(b, arr, lim) ==
    IF lim > 0 /\ Total(b) > lim /\ arr # <<>>
    THEN LET h == Head(arr)
         IN  EvictSize([b EXCEPT ![h[1]] = WithoutId(@, h[2])], Tail(arr), lim)
    ELSE <<b, arr>>

Init(c, l) ==
    /\ boxes = [m \in Mailbox |-> <<>>]
    /\ used = [m \in Mailbox |-> {}]
    /\ arrival = <<>>
    /\ cap = c
    /\ limit = l

(***************************************************************************)
(* Mutators                                                                *)
(***************************************************************************)
Add(m, id, meta, size) ==
    /\ id \notin used[m]
    /\ LET appended == Append(boxes[m], NewMsg(id, meta, size))
           dropped  == CapDropped(appended, cap)
           b1       == [boxes EXCEPT ![m] = CapSuffix(appended, cap)]
           a1       == SelectSeq(Append(arrival, <<m, id>>),
                          LAMBDA r : ~(r[1] = m /\ \E i \in DOMAIN dropped : dropped[i].id = r[2]))
           ev       == EvictSize(b1, a1, limit)
       IN  /\ boxes' = ev[1]
           /\ arrival' = ev[2]
    /\ used' = [used EXCEPT ![m] = @ \cup {id}]
    /\ UNCHANGED <<cap, limit>>

(* The same in two grains, for concurrent use (C09 names the size enforcer  *)
(* as one of the concurrent clients): the delivery itself (append + cap),   *)
(* and the enforcer's evictions as steps of their own.                      *)
AddBase(m, id, meta, size) ==
    /\ id \notin used[m]
    /\ LET appended == Append(boxes[m], NewMsg(id, meta, size))
           dropped  == CapDropped(appended, cap)
       IN  /\ boxes' = [boxes EXCEPT ![m] = CapSuffix(appended, cap)]
           /\ arrival' = SelectSeq(Append(arrival, <<m, id>>),
                             LAMBDA r : ~(r[1] = m /\ \E i \in DOMAIN dropped : dropped[i].id = r[2]))
    /\ used' = [used EXCEPT ![m] = @ \cup {id}]
    /\ UNCHANGED <<cap, limit>>
EvictOne ==
    /\ limit > 0 /\ Total(boxes) > limit /\ arrival # <<>>
    /\ LET h == Head(arrival)
       IN  /\ boxes' = [boxes EXCEPT ![h[1]] = WithoutId(@, h[2])]
           /\ arrival' = Tail(arrival)
    /\ UNCHANGED <<used, cap, limit>>

MarkSeen(m, id) ==
    /\ IF Live(m, id)
       THEN boxes' = [boxes EXCEPT ![m][Pos(boxes[m], id)].seen = TRUE]
       ELSE UNCHANGED boxes
    /\ UNCHANGED <<used, arrival, cap, limit>>

RemoveMsg(m, id) ==
    /\ boxes' = [boxes EXCEPT ![m] = WithoutId(@, id)]
    /\ arrival' = WithoutRef(arrival, m, id)
    /\ UNCHANGED <<used, cap, limit>>

Purge(m) ==
    /\ boxes' = [boxes EXCEPT ![m] = <<>>]
    /\ arrival' = WithoutBox(arrival, m)
    /\ UNCHANGED <<used, cap, limit>>

(* Closing the store and opening it again on the same path, possibly with  *)
(* another cap: nothing changes; the new cap applies from the next Add on. *)
Reopen(c) ==
    /\ cap' = c
    /\ UNCHANGED <<boxes, used, arrival, limit>>

(* The process is stopped and started again: what is on disk stays; the     *)
(* only ids the store can still know to be taken are those of the messages *)
(* it holds (generous reading of "ids are never reused" across restarts:   *)
(* an id of a message removed before the restart may be issued again).     *)
Restart ==
    /\ used' = [m \in Mailbox |-> Ids(boxes, m)]
    /\ UNCHANGED <<boxes, arrival, cap, limit>>

(* Retention scan: remove every message for which Expired(meta) holds.     *)
Scan(Expired(_)) ==
    /\ boxes' = [m \in Mailbox |-> SelectSeq(boxes[m], LAMBDA x : ~Expired(x.meta))]
    /\ arrival' = SelectSeq(arrival, LAMBDA r : ~Expired(MsgOf(r[1], r[2]).meta))
    /\ UNCHANGED <<used, cap, limit>>

(***************************************************************************)
(* Results (what each call reports)                                        *)
(***************************************************************************)
ByIdRes(m, id)  == IF Live(m, id) THEN "ok" ELSE "notexist"
GetRes(m, id)   == IF Live(m, id) THEN [r |-> "ok", msg |-> MsgOf(m, id)] ELSE [r |-> "notexist"]
LatestRes(m)    == IF boxes[m] # <<>> THEN [r |-> "ok", msg |-> boxes[m][Len(boxes[m])]]
                   ELSE [r |-> "notexist"]
ListRes(m)      == boxes[m]
VisitRes        == {boxes[m] : m \in Mailbox} \ {<<>>}
(* does the message just added survive its own Add?  (it is the last one  *)
(* evicted, so it survives unless it alone exceeds the limit)              *)
AddKeeps(size)  == limit = 0 \/ size <= limit

(***************************************************************************)
(* State invariants                                                        *)
(***************************************************************************)
IdsUnique   == \A m \in Mailbox :
                 /\ \A i, j \in DOMAIN boxes[m] : boxes[m][i].id = boxes[m][j].id => i = j
                 /\ Ids(boxes, m) \subseteq used[m]
CapInv      == cap > 0 => \A m \in Mailbox : Len(boxes[m]) <= cap
SizeInv     == limit > 0 => Total(boxes) <= limit
ArrivalInv  == /\ \A i, j \in DOMAIN arrival : arrival[i] = arrival[j] => i = j
               /\ {arrival[i] : i \in DOMAIN arrival}
                    = UNION {{<<m, id>> : id \in Ids(boxes, m)} : m \in Mailbox}
               (* per mailbox, arrival order agrees with list order *)
               /\ \A m \in Mailbox :
                    LET refs == SelectSeq(arrival, LAMBDA r : r[1] = m)
                    IN  /\ Len(refs) = Len(boxes[m])
                        /\ \A i \in DOMAIN refs : refs[i][2] = boxes[m][i].id

(***************************************************************************)
(* Action properties (hold for every step of the contract)                 *)
(***************************************************************************)
(* ids are never reused: an id that shows up in a mailbox was not used before *)
NeverReused == \A m \in Mailbox :
                 /\ used[m] \subseteq used'[m]
                 /\ (Ids(boxes', m) \ Ids(boxes, m)) \cap used[m] = {}
(* survivors keep their relative order; newcomers go to the end            *)
OrderKept   == \A m \in Mailbox :
                 LET old == SelectSeq(boxes'[m], LAMBDA x : x.id \in Ids(boxes, m))
                     new == SelectSeq(boxes'[m], LAMBDA x : x.id \notin Ids(boxes, m))
                 IN  /\ boxes'[m] = old \o new
                     /\ SelectSeq(boxes[m], LAMBDA x : x.id \in Ids(boxes', m))
                          = [i \in DOMAIN old |-> [old[i] EXCEPT !.seen = MsgOf(m, old[i].id).seen]]
(* content never changes; the seen flag only goes up                       *)
ContentKept == \A m \in Mailbox : \A i \in DOMAIN boxes'[m] :
                 LET x == boxes'[m][i] IN
                 x.id \in Ids(boxes, m) =>
                   /\ x.meta = MsgOf(m, x.id).meta /\ x.size = MsgOf(m, x.id).size
                   /\ MsgOf(m, x.id).seen => x.seen
=============================================================================
