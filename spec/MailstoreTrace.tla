--------------------------- MODULE MailstoreTrace ---------------------------
(***************************************************************************)
(* Trace specification: validates ndjson traces recorded by `vh store'     *)
(* from the real memory/file stores against the Mailstore contract.  Every *)
(* event must be explained by the contract action of the same name, the    *)
(* reported result must be the contract's result, and the projected state  *)
(* of the whole real store after the call must equal the contract state.   *)
(* Many traces are concatenated; a "reset" event starts the next one.      *)
(***************************************************************************)
EXTENDS Mailstore, FileStoreProg, Json, TLC, TLCExt, IOUtils

TraceLog == TLCEval(ndJsonDeserialize(IOEnv.VERIF_TRACE))

Has(f, ev)  == f \in DOMAIN ev
(* deviation keys enabled by known_findings.txt: one JSON object {"key": ...} per line *)
AllowedKeys == {r.key : r \in ToSet(ndJsonDeserialize(IOEnv.VERIF_ALLOWED_FILE))}
TraceMailboxes == TLCEval({TraceLog[i].mb : i \in {j \in DOMAIN TraceLog : Has("mb", TraceLog[j])}})

VARIABLES l,
          exp,     \* C16: the after-events the contract expects so far, in order
          pre      \* C11: the mailboxes before the last operation
tvars == <<boxes, used, arrival, cap, limit, l, exp, pre>>

Ev == TraceLog[l]
Is(a) == l <= Len(TraceLog) /\ Ev.a = a /\ l' = l + 1
(* every step: what entered a mailbox must be announced by one "stored",   *)
(* what left it (for whatever reason) by one "deleted" event (C16)         *)
(* SetToSeq (SequencesExt): some sequence enumerating the set *)
StepEvents ==
    LET new  == UNION {{[k |-> "stored", mb |-> m, id |-> i] : i \in used'[m] \ used[m]} : m \in Mailbox}
        gone == UNION {{[k |-> "deleted", mb |-> m, id |-> i] : i \in (Ids(boxes, m) \cup (used'[m] \ used[m])) \ Ids(boxes', m)} : m \in Mailbox}
    IN  SetToSeq(new) \o SetToSeq(gone)
Mark  == /\ pre' = boxes
         /\ exp' = IF Ev.a = "reset" THEN <<>> ELSE exp \o StepEvents
         /\ TLCSet(1, l + 1)              \* high-water mark (last conjunct of every action)

Snap(b) == {[mb |-> m, msgs |-> b[m]] : m \in {x \in Mailbox : b[x] # <<>>}}
(* (long histories carry the whole-store snapshot at their end only) *)
SnapOK(b) == IF Has("s", Ev)
             THEN /\ Ev.serr = <<>>
                  /\ Len(Ev.s) = Cardinality(Snap(b))
                  /\ ToSet(Ev.s) = Snap(b)
             ELSE TRUE

TraceInit == /\ l = 1 /\ exp = <<>> /\ pre = [m \in Mailbox |-> <<>>]
             /\ Init(0, 0)

TrReset == /\ Is("reset")
           /\ boxes' = [m \in Mailbox |-> <<>>]
           /\ used' = [m \in Mailbox |-> {}]
           /\ arrival' = <<>>
           /\ cap' = Ev.cap /\ limit' = Ev.limit
           /\ Mark

TrAdd == /\ Is("add") /\ Ev.r = "ok"
         /\ Add(Ev.mb, Ev.id, Ev.meta, Ev.size)
         /\ SnapOK(boxes')
         /\ Mark

(* a delivery during which the disk refused to take more than Ev.limit bytes per file: either it is  *)
(* refused and leaves nothing, or it is stored - then whole, like any other (a truncated body     *)
(* behind an acknowledged delivery is neither)                                                    *)
TrAddFault == /\ Is("addfault")
              /\ \/ Ev.r # "ok" /\ UNCHANGED svars /\ SnapOK(boxes)
                 \/ Ev.r = "ok" /\ Add(Ev.mb, Ev.id, Ev.meta, Ev.size) /\ SnapOK(boxes')
              /\ Mark

(* a delivery that evicts (through the cap) a message whose content file has disappeared: a delivery like any other *)
TrAddGone == /\ Is("addgone") /\ Ev.r = "ok"
             /\ Add(Ev.mb, Ev.id, Ev.meta, Ev.size) /\ SnapOK(boxes') /\ Mark

(* the mailbox is listed while no file can be opened: an error, or the right listing - never a wrong one *)
TrListFault == /\ Is("listfault")
               /\ (Ev.r # "ok") \/ (Ev.msgs = ListRes(Ev.mb))
               /\ UNCHANGED svars /\ SnapOK(boxes) /\ Mark

(* the id counter was driven to the end of its range (no message of the behaviour's mailboxes involved) *)
TrWrapIds == /\ Is("wrapids") /\ UNCHANGED svars /\ SnapOK(boxes) /\ Mark

TrSeen == /\ Is("seen") /\ Ev.r = ByIdRes(Ev.mb, Ev.id)
          /\ MarkSeen(Ev.mb, Ev.id)
          /\ SnapOK(boxes')
          /\ Mark

TrRemove == /\ Is("remove") /\ Ev.r = ByIdRes(Ev.mb, Ev.id)
            /\ RemoveMsg(Ev.mb, Ev.id)
            /\ SnapOK(boxes')
            /\ Mark

TrPurge == /\ Is("purge") /\ Ev.r = "ok"
           /\ Purge(Ev.mb)
           /\ SnapOK(boxes')
           /\ Mark

TrScan == /\ Is("scan") /\ Ev.r = "ok"
          /\ Scan(LAMBDA meta : meta.date \in ToSet(Ev.olddates))
          /\ SnapOK(boxes')
          /\ Mark

ResMatches(res) == /\ Ev.r = res.r
                   /\ res.r = "ok" => Ev.msg = res.msg

TrGet == /\ Is("get") /\ ResMatches(GetRes(Ev.mb, Ev.id))
         /\ UNCHANGED svars /\ SnapOK(boxes) /\ Mark
TrLatest == /\ Is("latest") /\ ResMatches(LatestRes(Ev.mb))
            /\ UNCHANGED svars /\ SnapOK(boxes) /\ Mark
TrList == /\ Is("list") /\ Ev.r = "ok" /\ Ev.msgs = ListRes(Ev.mb)
          /\ UNCHANGED svars /\ SnapOK(boxes) /\ Mark
TrVisit == /\ Is("visit") /\ Ev.r = "ok"
           /\ Len(Ev.lists) = Cardinality(VisitRes) /\ ToSet(Ev.lists) = VisitRes
           /\ UNCHANGED svars /\ SnapOK(boxes) /\ Mark
ReadOK(rd) == LET res == IF rd.k = "latest" THEN LatestRes(rd.mb) ELSE GetRes(rd.mb, rd.id)
              IN  /\ rd.r = res.r
                  /\ res.r = "ok" => rd.msg = res.msg
TrProbe == /\ Is("probe") /\ Ev.r = "ok"
           /\ \A k \in DOMAIN Ev.reads : ReadOK(Ev.reads[k])
           /\ ("pseudo" \in DOMAIN Ev) => \A k \in DOMAIN Ev.pseudo : Ev.pseudo[k].r = ByIdRes(Ev.pseudo[k].mb, Ev.pseudo[k].id)
           /\ Len(Ev.lists) = Cardinality(VisitRes) /\ ToSet(Ev.lists) = VisitRes
           /\ UNCHANGED svars /\ SnapOK(boxes) /\ Mark
(* closing and reopening the file store on the same path changes nothing (C10) *)
TrReopen == /\ Is("reopen") /\ Ev.r = "ok"
            /\ Reopen(Ev.cap) /\ SnapOK(boxes) /\ Mark

(* C16: a (multi-recipient) delivery through the manager has returned.  The copies it stored and, *)
(* when the store refused one, the copies it took back were reported as "add" / "remove" events  *)
(* of their own.  The transaction is answered ok iff no copy was refused, and a refused           *)
(* transaction leaves none of its copies behind (what a copy evicted through a cap or the size    *)
(* limit before it was taken back stays evicted)                                                 *)
TrDelivered == /\ Is("delivered")
               /\ (Ev.r = "ok") <=> (Ev.fail_at = 0 \/ Ev.fail_at > Len(Ev.rcpts))
               /\ (Ev.r # "ok") => \A k \in DOMAIN Ev.copies : Ev.copies[k].id \notin Ids(boxes, Ev.copies[k].mb)
               /\ UNCHANGED svars /\ SnapOK(boxes) /\ Mark

(* C16: the events a listener received during the behaviour               *)
Obs == Ev.evs
Key(e) == [k |-> e.k, mb |-> e.mb, id |-> e.id]
Count(seq, r) == Cardinality({i \in DOMAIN seq : seq[i] = r})
ExactlyOnce ==
    LET o == [i \in DOMAIN Obs |-> Key(Obs[i])]
    IN  \A r \in ToSet(o) \cup ToSet(exp) : Count(o, r) = Count(exp, r)
NoOverlap == \A i, j \in DOMAIN Obs : i # j => (Obs[i].ex < Obs[j].en \/ Obs[j].ex < Obs[i].en)
StoredBeforeDeleted ==
    \A i, j \in DOMAIN Obs :
       (Obs[i].k = "stored" /\ Obs[j].k = "deleted" /\ Obs[i].mb = Obs[j].mb /\ Obs[i].id = Obs[j].id) => Obs[i].en < Obs[j].en
(* stored events of one mailbox are seen in arrival order (= order expected) *)
(* position of an expected event (defined for every observed key once ExactlyOnce holds), as one function built once *)
ArrivalOrder ==
    LET pos == [k \in {exp[a] : a \in DOMAIN exp} |-> CHOOSE a \in DOMAIN exp : exp[a] = k]
    IN  \A i, j \in DOMAIN Obs :
           (Obs[i].k = "stored" /\ Obs[j].k = "stored" /\ Obs[i].mb = Obs[j].mb /\ Obs[i].en < Obs[j].en) =>
              pos[Key(Obs[i])] < pos[Key(Obs[j])]
Dev(key) == /\ key \in AllowedKeys
            /\ PrintT(<<"DEVIATION", key, l>>)
TrEvents == /\ Is("events")
            /\ ExactlyOnce
            /\ NoOverlap \/ Dev("C16.async-broker.overlapping-invocations")
            /\ (StoredBeforeDeleted /\ ArrivalOrder) \/ Dev("C16.async-broker.reordered-invocations")
            /\ UNCHANGED svars /\ SnapOK(boxes) /\ Mark

(* C11: the process died at some instant of the last operation (Ev.site, Ev.variant); a fresh  *)
(* store opened on what was left on disk must list and visit every mailbox without error, read *)
(* every body in full, show the interrupted operation either completely or not at all, and     *)
(* accept a new message for the affected mailbox                                               *)
SnapIs(sq, b) == Len(sq) = Cardinality(Snap(b)) /\ ToSet(sq) = Snap(b)
AddedTo(b, m, msg) == [b EXCEPT ![m] = CapSuffix(Append(@, msg), cap)]
TrCrash == /\ Is("crash")
           /\ Ev.open = "ok" /\ Ev.serr = <<>> /\ Ev.rerr = <<>>
           /\ Ev.deliver = "ok" /\ Ev.serr2 = <<>>
           /\ \E base \in {pre, boxes} :
                 /\ SnapIs(Ev.s, base)
                 /\ Ev.newid \notin Ids(base, Ev.mb)
                 /\ SnapIs(Ev.s2, AddedTo(base, Ev.mb, NewMsg(Ev.newid, Ev.newmeta, Ev.newsize)))
           /\ UNCHANGED svars /\ pre' = pre /\ exp' = exp
           /\ TLCSet(1, l + 1)

(* C11: the file-system mutations the last operation of the file store went through (hook sites, *)
(* in order) are exactly the program FileStoreProg prescribes for that operation on that mailbox  *)
(* content: nothing reordered, nothing added, nothing missing.  The target id is the one the      *)
(* operation named (remove/seen) or was given (add: the id that is new in the mailbox).           *)
IdsOf(sq) == [i \in DOMAIN sq |-> sq[i].id]
NewIdIn(m) == CHOOSE i \in (used[m] \ {pre[m][j].id : j \in DOMAIN pre[m]}) : i \notin {pre[m][j].id : j \in DOMAIN pre[m]}
LastEv == TraceLog[l - 1]
ExpectedSites ==
    LET m == Ev.mb
        cur == IdsOf(pre[m])
    IN  CASE Ev.op = "add"    -> Sites(AddProgP(cur, LastEv.id, cap, FALSE, FALSE, FALSE))
          [] Ev.op = "remove" -> IF LastEv.id \in ToSet(cur) THEN Sites(RemoveProgP(cur, LastEv.id, FALSE, FALSE)) ELSE <<>>
          [] Ev.op = "seen"   -> IF \E j \in DOMAIN pre[m] : pre[m][j].id = LastEv.id /\ ~pre[m][j].seen
                                 THEN Sites(WriteIndexP(cur, FALSE)) ELSE <<>>
          [] Ev.op = "purge"  -> Sites(RemoveDirP(FALSE))
TrSites == /\ Is("sites")
           /\ LastEv.a = Ev.op
           /\ Ev.seq = ExpectedSites
           /\ UNCHANGED svars /\ pre' = pre /\ exp' = exp
           /\ TLCSet(1, l + 1)

(* C10: every following operation runs in a newly started process *)
TrRestart == /\ Is("restart") /\ Restart /\ SnapOK(boxes) /\ Mark

TraceNext == \/ TrWrapIds \/ TrAddGone \/ TrListFault \/ TrAddFault \/ TrDelivered \/ TrSites \/ TrRestart \/ TrCrash \/ TrEvents \/ TrReset \/ TrAdd \/ TrSeen \/ TrRemove \/ TrPurge \/ TrScan
             \/ TrGet \/ TrLatest \/ TrList \/ TrVisit \/ TrReopen \/ TrProbe

TraceSpec == TraceInit /\ [][TraceNext]_tvars

TraceAccepted ==
    IF TLCGet(1) = Len(TraceLog) + 1 THEN TRUE
    ELSE /\ PrintT(<<"REJECTED_AT", TLCGet(1)>>)
         /\ FALSE
ASSUME TLCSet(1, 1)
=============================================================================
