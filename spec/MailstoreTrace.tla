--------------------------- MODULE MailstoreTrace ---------------------------
(***************************************************************************)
(* Trace specification: validates ndjson traces recorded by `vh store'     *)
(* from the real memory/file stores against the Mailstore contract.  Every *)
(* event must be explained by the contract action of the same name, the    *)
(* reported result must be the contract's result, and the projected state  *)
(* of the whole real store after the call must equal the contract state.   *)
(* Many traces are concatenated; a "reset" event starts the next one.      *)
(***************************************************************************)
EXTENDS Mailstore, Json, TLC, TLCExt, IOUtils

TraceLog == TLCEval(ndJsonDeserialize(IOEnv.VERIF_TRACE))

(* deviation keys enabled by known_findings.txt, passed as a comma list *)
AllowedStr == IF "VERIF_ALLOWED" \in DOMAIN IOEnv THEN IOEnv.VERIF_ALLOWED ELSE ""
Has(f, ev)  == f \in DOMAIN ev
TraceMailboxes == TLCEval({TraceLog[i].mb : i \in {j \in DOMAIN TraceLog : Has("mb", TraceLog[j])}})

VARIABLE l
tvars == <<boxes, used, arrival, cap, limit, l>>

Ev == TraceLog[l]
Is(a) == l <= Len(TraceLog) /\ Ev.a = a /\ l' = l + 1
Mark  == TLCSet(1, l + 1)                 \* high-water mark (last conjunct of every action)

Snap(b) == {[mb |-> m, msgs |-> b[m]] : m \in {x \in Mailbox : b[x] # <<>>}}
SnapOK(b) == /\ Ev.serr = <<>>
             /\ Len(Ev.s) = Cardinality(Snap(b))
             /\ ToSet(Ev.s) = Snap(b)

TraceInit == /\ l = 1
             /\ Init(0, 0)

TrReset == /\ Is("reset")
           /\ boxes' = [m \in Mailbox |-> <<>>]
           /\ used' = [m \in Mailbox |-> {}]
           /\ arrival' = <<>>
           /\ cap' = Ev.cap /\ limit' = Ev.limit
           /\ Mark

TrAdd == /\ Is("add") /\ Ev.r = "ok"
         /\ Add(Ev.mb, Ev.id, Ev.meta, Ev.size)
         /\ SnapOK(boxes')
         /\ Mark

TrSeen == /\ Is("seen") /\ Ev.r = ByIdRes(Ev.mb, Ev.id)
          /\ MarkSeen(Ev.mb, Ev.id)
          /\ SnapOK(boxes')
          /\ Mark

TrRemove == /\ Is("remove") /\ Ev.r = ByIdRes(Ev.mb, Ev.id)
            /\ RemoveMsg(Ev.mb, Ev.id)
            /\ SnapOK(boxes')
            /\ Mark

TrPurge == /\ Is("purge") /\ Ev.r = "ok"
           /\ Purge(Ev.mb)
           /\ SnapOK(boxes')
           /\ Mark

TrScan == /\ Is("scan") /\ Ev.r = "ok"
          /\ Scan(LAMBDA meta : meta.date \in ToSet(Ev.olddates))
          /\ SnapOK(boxes')
          /\ Mark

ResMatches(res) == /\ Ev.r = res.r
                   /\ res.r = "ok" => Ev.msg = res.msg

TrGet == /\ Is("get") /\ ResMatches(GetRes(Ev.mb, Ev.id))
         /\ UNCHANGED svars /\ SnapOK(boxes) /\ Mark
TrLatest == /\ Is("latest") /\ ResMatches(LatestRes(Ev.mb))
            /\ UNCHANGED svars /\ SnapOK(boxes) /\ Mark
TrList == /\ Is("list") /\ Ev.r = "ok" /\ Ev.msgs = ListRes(Ev.mb)
          /\ UNCHANGED svars /\ SnapOK(boxes) /\ Mark
TrVisit == /\ Is("visit") /\ Ev.r = "ok"
           /\ Len(Ev.lists) = Cardinality(VisitRes) /\ ToSet(Ev.lists) = VisitRes
           /\ UNCHANGED svars /\ SnapOK(boxes) /\ Mark
ReadOK(rd) == LET res == IF rd.k = "latest" THEN LatestRes(rd.mb) ELSE GetRes(rd.mb, rd.id)
              IN  /\ rd.r = res.r
                  /\ res.r = "ok" => rd.msg = res.msg
TrProbe == /\ Is("probe") /\ Ev.r = "ok"
           /\ \A k \in DOMAIN Ev.reads : ReadOK(Ev.reads[k])
           /\ Len(Ev.lists) = Cardinality(VisitRes) /\ ToSet(Ev.lists) = VisitRes
           /\ UNCHANGED svars /\ SnapOK(boxes) /\ Mark
(* closing and reopening the file store on the same path changes nothing (C10) *)
TrReopen == /\ Is("reopen") /\ Ev.r = "ok"
            /\ Reopen(Ev.cap) /\ SnapOK(boxes) /\ Mark

TraceNext == \/ TrReset \/ TrAdd \/ TrSeen \/ TrRemove \/ TrPurge \/ TrScan
             \/ TrGet \/ TrLatest \/ TrList \/ TrVisit \/ TrReopen \/ TrProbe

TraceSpec == TraceInit /\ [][TraceNext]_tvars

TraceAccepted ==
    IF TLCGet(1) = Len(TraceLog) + 1 THEN TRUE
    ELSE /\ PrintT(<<"REJECTED_AT", TLCGet(1)>>)
         /\ FALSE
ASSUME TLCSet(1, 1)
=============================================================================
