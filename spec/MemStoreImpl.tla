---------------------------- MODULE MemStoreImpl ----------------------------
(***************************************************************************)
(* Implementation-shaped model (kind B) of pkg/storage/mem: one action per *)
(* critical section of the code.                                           *)
(*                                                                         *)
(*   AddMessage     closure under the mailbox lock: insert, cap loop, and   *)
(*                  the size account (Store.account under sizeMu) which     *)
(*                  returns the victims; after the lock is released one     *)
(*                  removeMessage(victim) per victim                        *)
(*   RemoveMessage  closure: delete + Store.unaccount                       *)
(*   PurgeMessages  closure: take everything + unaccount each               *)
(*   GetMessages    closure: copy                                           *)
(*                                                                         *)
(* A closure is one atomic step: while it runs the thread holds the        *)
(* mailbox lock (and sizeMu inside it) and waits for nothing else.         *)
(* Threads are the concurrent clients; each runs one operation.            *)
(*                                                                         *)
(* OldEnforcer = TRUE is the named deviation "the code before the fix":    *)
(* the account is a goroutine that hears about deliveries and removals     *)
(* only after they became visible (steps "late").  TLC then finds both     *)
(* defects that C09 found on the real code: the removal of a message whose *)
(* delivery is not registered yet (nil list element: Crashed), and an      *)
(* eviction although the store is within its limit (refinement fails).     *)
(*                                                                         *)
(* The model is never the judge of the code.  TLC checks on it, for every  *)
(* interleaving of the clients: the accounting invariants, and refinement  *)
(* of ConcMailstore (the contract that the recorded histories of the real  *)
(* store are linearized against).                                          *)
(***************************************************************************)
EXTENDS Naturals, Sequences, FiniteSets, SequencesExt, FiniteSetsExt, TLC

CONSTANTS Thread, Mailbox, Cap, Limit, Programs, OldEnforcer
(* Programs: set of functions Thread -> operation record
     [op |-> "add", m, size] | [op |-> "remove", m, id] | [op |-> "purge", m] | [op |-> "list", m] *)

VARIABLES prog, pc, msgs, last, acct, cur, victims, owed, arr, crashed
vars == <<prog, pc, msgs, last, acct, cur, victims, owed, arr, crashed>>
(* msgs:    Mailbox -> Seq([id, size])      the mailbox maps, in index order
   last:    Mailbox -> Nat                  mbox.last
   acct:    Seq([m, id, size])              Store.all, oldest first
   cur:     Nat                             Store.curSize
   victims: Thread -> Seq([m, id, size])    what this AddMessage still has to remove
   owed:    Thread -> Seq(record)           OldEnforcer: account updates not yet delivered to the goroutine
   arr:     Seq(<<m, id>>)                  ghost: store-wide arrival order of the messages still in a mailbox *)

Entry(m, x) == [m |-> m, id |-> x.id, size |-> x.size]
Has(m, id) == \E i \in DOMAIN msgs[m] : msgs[m][i].id = id
SumSize(s) == FoldSeq(LAMBDA x, a : a + x.size, 0, s)
Total == FoldSet(LAMBDA m, a : a + SumSize(msgs[m]), 0, Mailbox)
InAcct(a, m, id) == \E i \in DOMAIN a : a[i].m = m /\ a[i].id = id
OutOfAcct(a, m, id) == SelectSeq(a, LAMBDA e : ~(e.m = m /\ e.id = id))

InitMsgs == [m \in Mailbox |-> <<[id |-> 1, size |-> 1], [id |-> 2, size |-> 1]>>]
InitOrder == LET ms == SetToSeq(Mailbox) IN
             [i \in 1 .. 2 * Len(ms) |-> <<ms[(i + 1) \div 2], IF i % 2 = 1 THEN 1 ELSE 2>>]
Init ==
    /\ prog \in Programs
    /\ pc = [t \in Thread |-> "start"]
    /\ msgs = InitMsgs
    /\ last = [m \in Mailbox |-> 2]
    /\ arr = InitOrder
    /\ acct = IF Limit > 0 THEN [i \in DOMAIN InitOrder |-> [m |-> InitOrder[i][1], id |-> InitOrder[i][2], size |-> 1]] ELSE <<>>
    /\ cur = IF Limit > 0 THEN Len(InitOrder) ELSE 0
    /\ victims = [t \in Thread |-> <<>>]
    /\ owed = [t \in Thread |-> <<>>]
    /\ crashed = FALSE

(* Store.account: push, then shed the oldest while over the limit *)
RECURSIVE Shed(_, _, _)
Shed(a, c, v) == IF Limit > 0 /\ c > Limit /\ a # <<>>
                 THEN Shed(Tail(a), c - Head(a).size, Append(v, Head(a)))
                 ELSE <<a, c, v>>
Unaccount(a, c, es) ==     \* es: sequence of entries leaving their mailbox
    LET gone == {i \in DOMAIN a : \E j \in DOMAIN es : es[j].m = a[i].m /\ es[j].id = a[i].id}
    IN  <<SelectSeq(a, LAMBDA e : ~\E j \in DOMAIN es : es[j].m = e.m /\ es[j].id = e.id),
          c - FoldSet(LAMBDA i, s : s + a[i].size, 0, gone)>>

Op(t) == prog[t]
Finish(t, stay) == pc' = [pc EXCEPT ![t] = stay]

(* ---- AddMessage ------------------------------------------------------- *)
AddClosure(t) ==
    /\ pc[t] = "start" /\ Op(t).op = "add" /\ ~crashed
    /\ LET m == Op(t).m
           id == last[m] + 1
           full == Append(msgs[m], [id |-> id, size |-> Op(t).size])
           ncap == IF Cap > 0 /\ Len(full) > Cap THEN Len(full) - Cap ELSE 0
           capped == [i \in 1 .. ncap |-> Entry(m, full[i])]
           kept == SubSeq(full, ncap + 1, Len(full))
           cappedIds == {capped[i].id : i \in DOMAIN capped}
       IN  /\ msgs' = [msgs EXCEPT ![m] = kept]
           /\ last' = [last EXCEPT ![m] = id]
           /\ arr' = Append(SelectSeq(arr, LAMBDA r : ~(r[1] = m /\ r[2] \in cappedIds)), <<m, id>>)
           /\ IF OldEnforcer
              THEN /\ owed' = [owed EXCEPT ![t] = [i \in DOMAIN capped |-> [what |-> "remove", e |-> capped[i]]]
                                                  \o <<[what |-> "deliver", e |-> [m |-> m, id |-> id, size |-> Op(t).size]]>>]
                   /\ UNCHANGED <<acct, cur, victims>>
                   /\ Finish(t, IF Limit > 0 THEN "late" ELSE "done")
              ELSE LET u == Unaccount(acct, cur, capped)
                       s == IF Limit > 0 THEN Shed(Append(u[1], [m |-> m, id |-> id, size |-> Op(t).size]), u[2] + Op(t).size, <<>>)
                            ELSE <<acct, cur, <<>>>>
                   IN  /\ acct' = s[1] /\ cur' = s[2]
                       /\ victims' = [victims EXCEPT ![t] = s[3]]
                       /\ UNCHANGED owed
                       /\ Finish(t, IF s[3] = <<>> THEN "done" ELSE "evict")
    /\ UNCHANGED <<prog, crashed>>

(* removeMessage(victim): lock its mailbox, delete it if it is still there *)
EvictStep(t) ==
    /\ pc[t] = "evict" /\ ~crashed
    /\ LET v == Head(victims[t]) IN
           /\ msgs' = [msgs EXCEPT ![v.m] = SelectSeq(@, LAMBDA x : x.id # v.id)]
           /\ arr' = SelectSeq(arr, LAMBDA r : r # <<v.m, v.id>>)
    /\ victims' = [victims EXCEPT ![t] = Tail(@)]
    /\ Finish(t, IF Len(victims[t]) = 1 THEN "done" ELSE "evict")
    /\ UNCHANGED <<prog, last, acct, cur, owed, crashed>>

(* ---- RemoveMessage / PurgeMessages / GetMessages ---------------------- *)
Leaving(t) == IF Op(t).op = "remove"
              THEN SelectSeq([i \in DOMAIN msgs[Op(t).m] |-> Entry(Op(t).m, msgs[Op(t).m][i])], LAMBDA e : e.id = Op(t).id)
              ELSE [i \in DOMAIN msgs[Op(t).m] |-> Entry(Op(t).m, msgs[Op(t).m][i])]
RemoveOrPurgeClosure(t) ==
    /\ pc[t] = "start" /\ Op(t).op \in {"remove", "purge"} /\ ~crashed
    /\ LET m == Op(t).m
           out == Leaving(t)
           outIds == {out[i].id : i \in DOMAIN out}
       IN  /\ msgs' = [msgs EXCEPT ![m] = SelectSeq(@, LAMBDA x : x.id \notin outIds)]
           /\ arr' = SelectSeq(arr, LAMBDA r : ~(r[1] = m /\ r[2] \in outIds))
           /\ IF OldEnforcer
              THEN /\ owed' = [owed EXCEPT ![t] = [i \in DOMAIN out |-> [what |-> "remove", e |-> out[i]]]]
                   /\ UNCHANGED <<acct, cur>>
                   /\ Finish(t, IF Limit > 0 /\ out # <<>> THEN "late" ELSE "done")
              ELSE LET u == Unaccount(acct, cur, out) IN
                   /\ acct' = u[1] /\ cur' = u[2] /\ UNCHANGED owed /\ Finish(t, "done")
    /\ UNCHANGED <<prog, last, victims, crashed>>

ListClosure(t) ==
    /\ pc[t] = "start" /\ Op(t).op = "list" /\ ~crashed
    /\ Finish(t, "done")
    /\ UNCHANGED <<prog, msgs, last, acct, cur, victims, owed, arr, crashed>>

(* ---- OldEnforcer: the goroutine processes one notification ------------ *)
(* remove: all.Remove(m.el) - nil when the delivery has not been registered *)
(* deliver: push, then evict the oldest while over the limit; the count is  *)
(* only reduced when the message was still in its mailbox                   *)
RECURSIVE OldShed(_, _, _)
OldShed(a, c, b) ==      \* b: the mailboxes;  returns <<acct, cur, mailboxes>>
    IF c > Limit /\ a # <<>>
    THEN LET h == Head(a)
             there == \E i \in DOMAIN b[h.m] : b[h.m][i].id = h.id
         IN  OldShed(Tail(a), IF there THEN c - h.size ELSE c,
                     [b EXCEPT ![h.m] = SelectSeq(@, LAMBDA x : x.id # h.id)])
    ELSE <<a, c, b>>
LateStep(t) ==
    /\ pc[t] = "late" /\ OldEnforcer /\ ~crashed
    /\ LET n == Head(owed[t]) IN
       IF n.what = "remove"
       THEN IF InAcct(acct, n.e.m, n.e.id)
            THEN /\ acct' = OutOfAcct(acct, n.e.m, n.e.id) /\ cur' = cur - n.e.size
                 /\ UNCHANGED <<msgs, arr, crashed>>
            ELSE \* not (or no longer) in the list: a message that was never registered has el = nil
                 /\ crashed' = (\E u \in Thread : \E i \in DOMAIN owed[u] :
                                    owed[u][i].what = "deliver" /\ owed[u][i].e.m = n.e.m /\ owed[u][i].e.id = n.e.id)
                 /\ (IF crashed' THEN UNCHANGED cur ELSE cur' = cur - n.e.size)   \* old code: el.Value non-nil -> subtract again
                 /\ UNCHANGED <<acct, msgs, arr>>
       ELSE LET s == OldShed(Append(acct, n.e), cur + n.e.size, msgs) IN
            /\ acct' = s[1] /\ cur' = s[2] /\ msgs' = s[3]
            /\ arr' = SelectSeq(arr, LAMBDA r : \E i \in DOMAIN s[3][r[1]] : s[3][r[1]][i].id = r[2])
            /\ UNCHANGED crashed
    /\ owed' = [owed EXCEPT ![t] = Tail(@)]
    /\ Finish(t, IF Len(owed[t]) = 1 THEN "done" ELSE "late")
    /\ UNCHANGED <<prog, last, victims>>

Next == \E t \in Thread : AddClosure(t) \/ EvictStep(t) \/ RemoveOrPurgeClosure(t) \/ ListClosure(t) \/ LateStep(t)
Spec == Init /\ [][Next]_vars

(***************************************************************************)
(* Properties                                                              *)
(***************************************************************************)
AllDone == \A t \in Thread : pc[t] = "done"
NoCrash == ~crashed
(* the account is exactly the messages that are in a mailbox and not yet    *)
(* chosen for eviction, and the byte count is their size                    *)
PendingVictims == UNION {{<<victims[t][i].m, victims[t][i].id>> : i \in DOMAIN victims[t]} : t \in Thread}
AccountInv ==
    (Limit > 0 /\ ~OldEnforcer) =>
       /\ cur = SumSize(acct)
       /\ {<<acct[i].m, acct[i].id>> : i \in DOMAIN acct}
            = {<<r[1], r[2]>> : r \in {arr[i] : i \in DOMAIN arr}} \ PendingVictims
       /\ cur <= Limit
AtRestInv == (AllDone /\ Limit > 0 /\ ~crashed) => (Total <= Limit /\ cur = Total)

(* refinement of the concurrent contract *)
CBoxes == [m \in Mailbox |-> [i \in DOMAIN msgs[m] |-> [id |-> msgs[m][i].id, meta |-> "m", size |-> msgs[m][i].size, seen |-> FALSE]]]
CDoomed == {d \in PendingVictims : Has(d[1], d[2])}
Conc == INSTANCE ConcMailstore WITH boxes <- CBoxes, used <- [m \in Mailbox |-> 1 .. last[m]], arrival <- arr,
                                   cap <- Cap, limit <- Limit, doomed <- CDoomed
CNext == \/ \E m \in Mailbox, id \in 1 .. 6, size \in 1 .. 3 : Conc!CAdd(m, id, "m", size)
         \/ \E m \in Mailbox, id \in 1 .. 6 : Conc!CRemove(m, id)
         \/ \E m \in Mailbox : Conc!CPurge(m)
         \/ Conc!CEvict
RefinesContract == [][CNext]_<<CBoxes, arr, CDoomed>>
=============================================================================
