------------------------------- MODULE Naming -------------------------------
(***************************************************************************)
(* Contract (kind A) of mailbox naming, at the strength of property C04.   *)
(*                                                                         *)
(* Part 1: the abstract naming function Name(mode, a) over abstract        *)
(* addresses (optional source route, a local part that is a sequence of    *)
(* token classes, a domain class), as it should be: lower-case, cut at the *)
(* first '+', domain folded to lower case, route ignored.                  *)
(*                                                                         *)
(* Part 2: the five relations of C04 stated over an OBSERVATION TABLE: a   *)
(* set of rows, one per string that was given to the naming function:      *)
(*    [role, q, rcpt |-> [ok, name], look |-> [ok, name]]                  *)
(* role: "orig" (the address), "caseL"/"caseD"/"caseLD" (letter case of    *)
(* local part / domain / both flipped), "plus" (a "+ext" appended to the   *)
(* local part), "noplus" (local part cut at its first unquoted '+'),       *)
(* "name" (the name produced for "orig", fed back in); q: the string;      *)
(* rcpt: what the receive path (RCPT TO) made of q; look: what the lookup  *)
(* path (every read interface) made of q.                                  *)
(*                                                                         *)
(* The relations use nothing but the recorded outputs, so the same         *)
(* operators judge the table computed from Name (GenNaming.tla, checked    *)
(* for all abstract addresses) and the table recorded from the real code   *)
(* (NamingTrace.tla).  They constrain only addresses the receive path      *)
(* accepts ("for every address string a RCPT TO accepts"); a variant that  *)
(* is refused is outside the property as well.                             *)
(***************************************************************************)
EXTENDS Naturals, Sequences, FiniteSets

Modes      == {"local", "full", "domain"}
Tokens     == {"lower", "upper", "digit", "plus", "dot", "special", "qpair", "qstring"}
DomClasses == {"lower", "mixed", "ip4", "ip6", "none"}

LocalParts(maxLen) == UNION {[1..n -> Tokens] : n \in 1..maxLen}
AbsAddr(maxLen)    == [route : BOOLEAN, local : LocalParts(maxLen), dom : DomClasses]

----------------------------------------------------------------------------
(* Part 1: the abstract naming function                                     *)

(* canonical token: letter case folded; everything else, including the      *)
(* content of quoted pairs and quoted strings, stands for itself            *)
CanonTok(t) == IF t = "upper" THEN "lower" ELSE t
FlipTok(t)  == CASE t = "upper" -> "lower" [] t = "lower" -> "upper" [] OTHER -> t

PlusAt(s)     == {i \in DOMAIN s : s[i] = "plus"}
FirstPlus(s)  == CHOOSE i \in PlusAt(s) : \A j \in PlusAt(s) : i <= j
BeforePlus(s) == IF PlusAt(s) = {} THEN s ELSE SubSeq(s, 1, FirstPlus(s) - 1)
CanonLocal(s) == [i \in DOMAIN BeforePlus(s) |-> CanonTok(BeforePlus(s)[i])]
CanonDom(d)   == IF d = "mixed" THEN "lower" ELSE d     \* literals: hex digits fold too, class unchanged
FlipDom(d)    == CASE d = "lower" -> "mixed" [] OTHER -> d   \* flipping "Mixed" leaves it mixed

(* a spelling of abstract things as strings, so that abstract names and     *)
(* recorded names are both strings and "" is the empty name for both        *)
TokStr(t) == CASE t = "lower" -> "a" [] t = "upper" -> "A" [] t = "digit" -> "1" [] t = "plus" -> "+"
               [] t = "dot" -> "." [] t = "special" -> "/" [] t = "qpair" -> "q" [] t = "qstring" -> "s"
RECURSIVE Spell(_)
Spell(s) == IF s = <<>> THEN "" ELSE TokStr(Head(s)) \o Spell(Tail(s))
DomStr(d) == CASE d = "lower" -> "x.example" [] d = "mixed" -> "X.Example" [] d = "ip4" -> "[192.0.2.1]"
               [] d = "ip6" -> "[IPv6:2001:db8::a]" [] d = "none" -> ""
AddrStr(a) == (IF a.route THEN "@r.example:" ELSE "") \o Spell(a.local)
              \o (IF a.dom = "none" THEN "" ELSE "@" \o DomStr(a.dom))

(* the name as a record (so that it can be asked for again) and as a string *)
NameRec(mode, a) ==
    CASE mode = "local"  -> [local |-> CanonLocal(a.local), dom |-> "none"]
      [] mode = "full"   -> [local |-> CanonLocal(a.local), dom |-> CanonDom(a.dom)]
      [] mode = "domain" -> [local |-> <<>>, dom |-> CanonDom(a.dom)]
NameStr(mode, n) ==
    CASE mode = "local"  -> Spell(n.local)
      [] mode = "full"   -> Spell(n.local) \o "@" \o DomStr(n.dom)
      [] mode = "domain" -> DomStr(n.dom)
Name(mode, a) == NameStr(mode, NameRec(mode, a))
(* a name, asked for: the bare string (no route; in local mode no domain,   *)
(* in domain mode nothing but the domain)                                   *)
NameAsQuery(n) == [route |-> FALSE, local |-> n.local, dom |-> n.dom]

(* which strings the receive path takes: an address with a domain whose     *)
(* name would not be empty.  (An address without a base name, "+x@d", is    *)
(* refused by the contract: that is the only way to keep NonEmpty.)         *)
RcptAccepts(mode, a) ==
    /\ a.dom # "none" /\ a.local # <<>>
    /\ (mode # "domain" => CanonLocal(a.local) # <<>>)
(* which strings the lookup path takes: additionally the bare names         *)
LookAccepts(mode, a) ==
    \/ RcptAccepts(mode, a)
    \/ (mode = "local"  /\ ~a.route /\ a.dom = "none" /\ CanonLocal(a.local) # <<>>)
    \/ (mode = "domain" /\ ~a.route /\ a.local = <<>> /\ a.dom # "none")

None == [ok |-> FALSE, name |-> ""]
Got(n) == [ok |-> TRUE, name |-> n]
Row(mode, role, a) ==
    [role |-> role,
     q    |-> IF role = "name" /\ mode = "domain" THEN DomStr(a.dom) ELSE AddrStr(a),
     rcpt |-> IF RcptAccepts(mode, a) THEN Got(Name(mode, a)) ELSE None,
     look |-> IF LookAccepts(mode, a) THEN Got(Name(mode, a)) ELSE None]

(* the variants of an address *)
FlipLocal(a) == [a EXCEPT !.local = [i \in DOMAIN a.local |-> FlipTok(a.local[i])]]
FlipDomain(a) == [a EXCEPT !.dom = FlipDom(a.dom)]
AddPlus(a)   == [a EXCEPT !.local = a.local \o <<"plus", "lower", "upper">>]
CutPlus(a)   == [a EXCEPT !.local = BeforePlus(a.local)]
HasLetters(s) == \E i \in DOMAIN s : s[i] \in {"lower", "upper", "qpair", "qstring"}
Variants(a) ==
    {<<"orig", a>>, <<"plus", AddPlus(a)>>}
    \cup (IF HasLetters(a.local) THEN {<<"caseL", FlipLocal(a)>>} ELSE {})
    \cup (IF a.dom \notin {"none", "ip4"} THEN {<<"caseD", FlipDomain(a)>>} ELSE {})
    \cup (IF HasLetters(a.local) /\ a.dom \notin {"none", "ip4"} THEN {<<"caseLD", FlipDomain(FlipLocal(a))>>} ELSE {})
    \cup (IF PlusAt(a.local) # {} /\ FirstPlus(a.local) > 1 THEN {<<"noplus", CutPlus(a)>>} ELSE {})

(* the observation table the abstract naming function produces for a *)
Table(mode, a) ==
    {Row(mode, v[1], v[2]) : v \in Variants(a)}
    \cup (IF RcptAccepts(mode, a) THEN {Row(mode, "name", NameAsQuery(NameRec(mode, a)))} ELSE {})

----------------------------------------------------------------------------
(* Part 2: C04 as relations over an observation table T                     *)
CaseRoles == {"caseL", "caseD", "caseLD"}
PlusRoles == {"plus", "noplus"}

Base(T)    == {r \in T : r.role = "orig"}
Accepted(T) == {b \in Base(T) : b.rcpt.ok}          \* empty: the address is outside the property

(* the mailbox name derived from an address is non-empty *)
NonEmpty(T) == \A b \in Accepted(T) : b.rcpt.name # ""

(* ... is a fixed point of the naming function: asking for the mailbox by   *)
(* its own name reaches the same mailbox (and does not fail); if the name   *)
(* is itself an address the receive path takes, mail to it goes there too   *)
FixedPoint(T) ==
    \A b \in Accepted(T) : \A r \in T :
        (r.role = "name" /\ r.q = b.rcpt.name) =>
            /\ r.look.ok /\ r.look.name = b.rcpt.name
            /\ r.rcpt.ok => r.rcpt.name = b.rcpt.name

(* ... does not depend on letter case *)
CaseInsensitive(T) ==
    \A b \in Accepted(T) : \A r \in T :
        (r.role \in CaseRoles /\ r.rcpt.ok) => r.rcpt.name = b.rcpt.name

(* ... nor on a '+extension' in the local part *)
PlusInsensitive(T) ==
    \A b \in Accepted(T) : \A r \in T :
        (r.role \in PlusRoles /\ r.rcpt.ok) => r.rcpt.name = b.rcpt.name

(* the name computed when mail is received is the name the read interfaces  *)
(* compute when asked for that address (any address the receive path takes, *)
(* variants included)                                                       *)
ReceiveNameEqualsLookupName(T) ==
    \A r \in T : r.rcpt.ok => (r.look.ok /\ r.look.name = r.rcpt.name)

(* the table is complete: an accepted address comes with its "name" row     *)
Complete(T) == \A b \in Accepted(T) : \E r \in T : r.role = "name" /\ r.q = b.rcpt.name

Relations == {"NonEmpty", "FixedPoint", "CaseInsensitive", "PlusInsensitive", "ReceiveNameEqualsLookupName"}
Holds(rel, T) ==
    CASE rel = "NonEmpty" -> NonEmpty(T)
      [] rel = "FixedPoint" -> FixedPoint(T) /\ Complete(T)
      [] rel = "CaseInsensitive" -> CaseInsensitive(T)
      [] rel = "PlusInsensitive" -> PlusInsensitive(T)
      [] rel = "ReceiveNameEqualsLookupName" -> ReceiveNameEqualsLookupName(T)
Failed(T) == {rel \in Relations : ~Holds(rel, T)}

----------------------------------------------------------------------------
(* End to end: a message was delivered to the address through SMTP; `held'  *)
(* is the set of mailboxes of the store that hold it afterwards, `rname'    *)
(* the name the receive path had computed, and every lookup                 *)
(*    [via, role, q, rcptok, found, mailbox]                                *)
(* is one request to a read interface for the string q: found = the        *)
(* response shows the delivered message, mailbox = the mailbox name the    *)
(* response reports.  Asking by the address, by the name, or by any variant *)
(* the receive path takes must reach that one mailbox.                      *)
InScopeRoles == {"orig", "name"}
E2EStored(held, rname) == held = {rname}
E2EFetch(lookups, rname) ==
    \A k \in lookups : (k.role \in InScopeRoles \/ k.rcptok) => (k.found /\ k.mailbox = rname)
=============================================================================
