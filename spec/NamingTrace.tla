---------------------------- MODULE NamingTrace ----------------------------
(***************************************************************************)
(* Trace specification for `vh naming': TLC evaluates the relations of the *)
(* Naming contract (C04) on the outputs recorded from the real code.       *)
(*                                                                         *)
(* One behaviour = one address in one naming mode:                         *)
(*   reset  - the naming mode (and the abstract address, echoed)           *)
(*   table  - the observation table: for the address, each variant and the *)
(*            produced name what policy.Addressing.NewRecipient (receive   *)
(*            path) and StoreManager.MailboxForAddress (lookup path) said  *)
(*   e2e    - (sample) one message delivered to the address through a real *)
(*            SMTP session, the mailboxes of the store that hold it, and   *)
(*            what the real HTTP router answered for every string          *)
(*                                                                         *)
(* Because the real code fails some relations for whole classes of         *)
(* addresses, a failed relation does not stop the run: the event is        *)
(* consumed, <<"RELFAIL", line, failed relations>> is printed and counted, *)
(* and the postcondition rejects the run if the count is not zero; the     *)
(* orchestrator turns every RELFAIL line into a rejection of that trace.   *)
(* An event that does not have the shape described here stops the run at   *)
(* the high-water mark (harness problem, not a verdict).                   *)
(***************************************************************************)
EXTENDS Naming, Json, TLC, TLCExt, IOUtils, SequencesExt

TraceLog == ndJsonDeserialize(IOEnv.VERIF_TRACE)

VARIABLES l, mode, obs
tvars == <<l, mode, obs>>

Ev == TraceLog[l]
Is(a) == l <= Len(TraceLog) /\ Ev.a = a /\ l' = l + 1
Mark == TLCSet(1, l + 1)
Report(F) == \/ F = {}
             \/ /\ F # {}
                /\ PrintT(<<"RELFAIL", l, ToJson(F)>>)
                /\ TLCSet(2, TLCGet(2) + 1)

Roles == {"orig", "name"} \cup CaseRoles \cup PlusRoles
Res(x) == [ok |-> x.ok, name |-> x.name]
RowOf(r) == [role |-> r.role, q |-> r.q, rcpt |-> Res(r.rcpt), look |-> Res(r.look)]
RowShape(r) == /\ r.role \in Roles
               /\ r.rcpt.ok \in BOOLEAN /\ r.look.ok \in BOOLEAN
               /\ (~r.rcpt.ok => r.rcpt.name = "") /\ (~r.look.ok => r.look.name = "")

TraceInit == l = 1 /\ mode = "none" /\ obs = {}

TrReset == /\ Is("reset")
           /\ Ev.mode \in Modes
           /\ mode' = Ev.mode /\ obs' = {}
           /\ Mark

(* the observation table of the real naming code: exactly one "orig" row;  *)
(* the five relations of Naming.tla are evaluated on it                    *)
TrTable == /\ Is("table")
           /\ mode \in Modes /\ obs = {}
           /\ obs' = {RowOf(Ev.rows[i]) : i \in DOMAIN Ev.rows}
           /\ \A r \in obs' : RowShape(r)
           /\ Cardinality(Base(obs')) = 1
           /\ UNCHANGED mode
           /\ Report(Failed(obs'))
           /\ Mark

(* end to end.  In scope when the session accepted the recipient and       *)
(* acknowledged the message.  Then the message sits in exactly the mailbox *)
(* the receive path named, and asking any read interface by the address,   *)
(* by the name, or by a variant the receive path takes, shows it there.    *)
Lookups == ToSet(Ev.lookups)
Misses == {k \in Lookups : (k.role \in InScopeRoles \/ k.rcptok) /\ ~(k.found /\ k.mailbox = Ev.rname)}
FailedE2E ==
    IF Ev.rcptcls = "ok" /\ Ev.datacls = "ok"
    THEN (IF E2EStored(ToSet(Ev.held), Ev.rname) THEN {} ELSE {<<"E2E.StoredUnderReceiveName", "store", "orig">>})
         \cup {<<"E2E.ReceiveNameEqualsLookupName", k.via, k.role>> : k \in Misses}
    ELSE {}
E2EHolds == (Ev.rcptcls = "ok" /\ Ev.datacls = "ok") =>
                (E2EStored(ToSet(Ev.held), Ev.rname) /\ E2EFetch(Lookups, Ev.rname))
TrE2E == /\ Is("e2e")
         /\ \E b \in Base(obs) : b.q = Ev.q /\ b.rcpt.ok = Ev.rcptok /\ b.rcpt.name = Ev.rname
         /\ Ev.rcptok = (Ev.rcptcls = "ok")            \* the SMTP session and NewRecipient agree on acceptance
         /\ (FailedE2E = {}) = E2EHolds               \* FailedE2E only itemises what the contract operators decide
         /\ UNCHANGED <<mode, obs>>
         /\ Report(FailedE2E)
         /\ Mark

TraceNext == TrReset \/ TrTable \/ TrE2E
TraceSpec == TraceInit /\ [][TraceNext]_tvars

TraceAccepted ==
    IF TLCGet(1) # Len(TraceLog) + 1
    THEN PrintT(<<"REJECTED_AT", TLCGet(1)>>) /\ FALSE
    ELSE IF TLCGet(2) # 0
         THEN PrintT(<<"RELFAILS", TLCGet(2)>>) /\ FALSE
         ELSE TRUE
ASSUME TLCSet(1, 1) /\ TLCSet(2, 0)
=============================================================================
