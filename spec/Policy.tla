------------------------------- MODULE Policy -------------------------------
(* The documented domain policy of inbucket (doc/config.md, C05).  A         *)
(* configuration is a record                                                 *)
(*   [defaultAccept, accept, reject, defaultStore, store, discard : sets of  *)
(*    domains; rejectOrigin : set of patterns (sequences of characters)]     *)
(* Domains are compared case-insensitively: the specification works on the   *)
(* canonical (lower-case) spelling; drivers spell them in mixed case both in *)
(* the address and in the configuration.                                     *)
EXTENDS Wildcard

ShouldAccept(cfg, dom) ==
    IF cfg.defaultAccept THEN dom \notin cfg.reject ELSE dom \in cfg.accept

ShouldStore(cfg, dom) ==
    IF cfg.defaultStore THEN dom \notin cfg.discard ELSE dom \in cfg.store

(* domchars: the sender's domain as a sequence of characters *)
OriginOk(cfg, domchars) == \A p \in cfg.rejectOrigin : ~Match(p, domchars)
=============================================================================
