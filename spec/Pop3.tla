-------------------------------- MODULE Pop3 --------------------------------
(***************************************************************************)
(* Contract (kind A) of one inbucket POP3 session and its effect on the    *)
(* mail store, at the strength of property C13:                            *)
(*                                                                         *)
(*   After login the session shows the mailbox as it was at that moment:   *)
(*   message numbers, sizes and unique ids stay fixed for the whole        *)
(*   session; STAT, LIST and UIDL agree with each other and leave out      *)
(*   messages marked deleted; RSET unmarks everything.  Exactly the        *)
(*   messages marked at the time of QUIT are removed from the store, a     *)
(*   connection that ends any other way removes nothing.                   *)
(*                                                                         *)
(* One action per command line.  Every action yields one reply, described  *)
(* by its class and - only for STAT, LIST, UIDL - its content:             *)
(*   cls = "ok"   the reply must be +OK (and carry the stated content)     *)
(*   cls = "fail" the reply must be -ERR                                   *)
(*   cls = "any"  +OK or -ERR, the property does not say which             *)
(*   cls = "free" as "any", and the form of the reply is not constrained   *)
(*                either (RETR/TOP of a marked or externally removed       *)
(*                message)                                                 *)
(* Where the property text leaves a choice the action takes the choice as  *)
(* a parameter (`accept`), so that the bounded model explores both and     *)
(* trace validation binds it to what the server did.                       *)
(*                                                                         *)
(* Arguments are records: [k |-> "missing"], [k |-> "num", v |-> Int],     *)
(* [k |-> "huge"] (a numeral beyond any message count and beyond 32 bits), *)
(* [k |-> "nonnum"], [k |-> "extra"] (a valid argument list followed by    *)
(* one more word).                                                         *)
(*                                                                         *)
(* The store is the abstract map mailbox -> sequence of [id, size] in      *)
(* arrival order; the environment (SMTP, REST, retention) may deliver,     *)
(* remove and purge between any two commands.                              *)
(***************************************************************************)
EXTENDS Integers, Sequences, FiniteSets

CONSTANTS Mailbox              \* set of mailbox names (strings)

VARIABLES st,                  \* "AUTH" | "TRANS" | "QUIT" (session over, by QUIT or by disconnect)
          user,                \* mailbox named by USER / APOP, or NoUser
          snap,                \* Seq([id, size]): the mailbox as it was at login; message number = index
          marked,              \* set of message numbers marked deleted
          store,               \* [Mailbox -> Seq([id, size])]
          reply                \* the reply the last command must get

pvars == <<st, user, snap, marked, store, reply>>

NoUser == ""
NoBody == [none |-> TRUE]
Ok     == [cls |-> "ok", body |-> NoBody]
OkWith(b) == [cls |-> "ok", body |-> b]
Fail   == [cls |-> "fail", body |-> NoBody]
Unfixed    == [cls |-> "any", body |-> NoBody]
Free   == [cls |-> "free", body |-> NoBody]

Missing == [k |-> "missing"]
Num(v)  == [k |-> "num", v |-> v]

IdsOf(seq) == {seq[i].id : i \in DOMAIN seq}

PInit ==
    /\ st = "AUTH" /\ user = NoUser /\ snap = <<>> /\ marked = {}
    /\ store = [m \in Mailbox |-> <<>>]
    /\ reply = Ok                                    \* the greeting

(* a new connection to the same server and store *)
Connect ==
    /\ st = "QUIT"
    /\ st' = "AUTH" /\ user' = NoUser /\ snap' = <<>> /\ marked' = {} /\ reply' = Ok
    /\ UNCHANGED store

AtPrompt == st \in {"AUTH", "TRANS"}
Keep     == UNCHANGED <<st, user, snap, marked, store>>
NoEffect(r) == Keep /\ reply' = r

(* what the session shows *)
InRange(a) == a.k = "num" /\ a.v \in 1..Len(snap)
Shown(a)   == InRange(a) /\ a.v \notin marked
Live       == {k \in 1..Len(snap) : k \notin marked}
RECURSIVE SumSizes(_)
SumSizes(S) == IF S = {} THEN 0 ELSE LET k == CHOOSE x \in S : TRUE IN snap[k].size + SumSizes(S \ {k})
StatBody   == [stat |-> [count |-> Cardinality(Live), size |-> SumSizes(Live)]]
ListBody(S) == [what |-> "size", pairs |-> {[n |-> k, v |-> snap[k].size] : k \in S}]
UidlBody(S) == [what |-> "uid",  pairs |-> {[n |-> k, v |-> snap[k].id] : k \in S}]

(* login: the snapshot is the mailbox as the store holds it now *)
Login(u) ==
    /\ st' = "TRANS" /\ user' = u /\ snap' = store[u] /\ marked' = {}
    /\ UNCHANGED store /\ reply' = Ok

(* USER name.  hasName: a name was given *)
User(name, hasName) ==
    /\ AtPrompt
    /\ IF st = "AUTH" /\ hasName
       THEN /\ user' = name /\ UNCHANGED <<st, snap, marked, store>> /\ reply' = Ok
       ELSE NoEffect(Unfixed)

(* PASS.  Inbucket has no passwords: after USER any PASS opens the mailbox. *)
(* hasArg = FALSE (no password word at all): the text leaves open whether  *)
(* that logs in; accept says what the server chose.  Without a USER before *)
(* it there is no mailbox to open.                                         *)
Pass(hasArg, accept) ==
    /\ AtPrompt
    /\ CASE st = "AUTH" /\ user # NoUser /\ (hasArg \/ accept) -> Login(user)
         [] st = "AUTH" /\ user # NoUser /\ ~hasArg /\ ~accept -> NoEffect(Fail)
         [] st = "AUTH" /\ user = NoUser -> NoEffect(Fail)
         [] OTHER -> NoEffect(Unfixed)

(* APOP name digest.  nargs = number of words after the verb: 2 opens the  *)
(* mailbox; 0 cannot; 1 or 3: open (accept) or refuse.                      *)
Apop(name, nargs, accept) ==
    /\ AtPrompt
    /\ CASE st = "AUTH" /\ (nargs = 2 \/ (nargs \in {1, 3} /\ accept)) -> Login(name)
         [] st = "AUTH" -> NoEffect(Fail)
         [] OTHER -> NoEffect(Unfixed)

(* In AUTHORIZATION there is no mailbox: a transaction command has no      *)
(* effect whatever the server answers.                                      *)
InAuth == st = "AUTH" /\ NoEffect(Unfixed)

Stat(a) ==
    /\ AtPrompt
    /\ \/ InAuth
       \/ st = "TRANS" /\ NoEffect(IF a.k = "missing" THEN OkWith(StatBody) ELSE Unfixed)

Listing(a, body(_)) ==
    /\ AtPrompt
    /\ \/ InAuth
       \/ /\ st = "TRANS"
          /\ NoEffect(CASE a.k = "missing" -> OkWith(body(Live))
                        [] a.k = "extra"   -> Unfixed
                        [] Shown(a)        -> OkWith(body({a.v}))
                        [] OTHER           -> Fail)      \* marked, out of range, not a number: nothing to show
List(a) == Listing(a, ListBody)
Uidl(a) == Listing(a, UidlBody)

(* DELE marks a shown message.  Repeating it, or naming no message, marks  *)
(* nothing (the text does not fix the reply class for those).               *)
Dele(a) ==
    /\ AtPrompt
    /\ \/ InAuth
       \/ /\ st = "TRANS"
          /\ IF Shown(a)
             THEN /\ marked' = marked \cup {a.v} /\ UNCHANGED <<st, user, snap, store>> /\ reply' = Ok
             ELSE NoEffect(Unfixed)

Rset ==
    /\ AtPrompt
    /\ \/ InAuth
       \/ st = "TRANS" /\ marked' = {} /\ UNCHANGED <<st, user, snap, store>> /\ reply' = Ok

Noop ==
    /\ AtPrompt
    /\ \/ InAuth
       \/ st = "TRANS" /\ NoEffect(Ok)

(* RETR n / TOP n lines: a shown message that the store still holds is     *)
(* delivered; for a marked message or one that another interface removed    *)
(* after login the reply is not constrained.  linesOk: the second argument  *)
(* of TOP is a non-negative number (TRUE for RETR).                         *)
StillStored(k) == snap[k].id \in IdsOf(store[user])
Fetch(a, linesOk) ==
    /\ AtPrompt
    /\ \/ InAuth
       \/ /\ st = "TRANS"
          /\ NoEffect(CASE Shown(a) /\ linesOk /\ StillStored(a.v) -> Ok
                        [] InRange(a) /\ (a.v \in marked \/ ~StillStored(a.v)) -> Free
                        [] OTHER -> Unfixed)

(* CAPA, unknown verbs, empty lines, garbage: answered, no effect *)
Other == AtPrompt /\ NoEffect(Unfixed)

(* QUIT: in TRANSACTION exactly the marked messages (that still exist) go  *)
Commit(box) == SelectSeq(box, LAMBDA m : m.id \notin {snap[k].id : k \in marked})
Quit ==
    /\ AtPrompt
    /\ st' = "QUIT" /\ reply' = Ok
    /\ store' = IF st = "TRANS" THEN [store EXCEPT ![user] = Commit(@)] ELSE store
    /\ UNCHANGED <<user, snap, marked>>

(* the connection ends any other way (client disconnects, in the middle of *)
(* a line or between commands): nothing is removed                          *)
Drop ==
    /\ AtPrompt
    /\ st' = "QUIT" /\ UNCHANGED <<user, snap, marked, store, reply>>

(* environment: other interfaces acting on the store *)
EnvDeliver(mb, id, size) ==
    /\ id \notin IdsOf(store[mb])
    /\ store' = [store EXCEPT ![mb] = Append(@, [id |-> id, size |-> size])]
    /\ UNCHANGED <<st, user, snap, marked, reply>>
EnvRemove(mb, id) ==
    /\ store' = [store EXCEPT ![mb] = SelectSeq(@, LAMBDA m : m.id # id)]
    /\ UNCHANGED <<st, user, snap, marked, reply>>
EnvPurge(mb) ==
    /\ store' = [store EXCEPT ![mb] = <<>>]
    /\ UNCHANGED <<st, user, snap, marked, reply>>

(***************************************************************************)
(* Properties of the contract (checked on the bounded model, and - the     *)
(* state invariants - on every state bound to real observations)           *)
(***************************************************************************)
TypeOK ==
    /\ st \in {"AUTH", "TRANS", "QUIT"}
    /\ user \in Mailbox \cup {NoUser}
    /\ marked \subseteq 1..Len(snap)
    /\ reply.cls \in {"ok", "fail", "any", "free"}
NoSnapshotBeforeLogin == st = "AUTH" => (snap = <<>> /\ marked = {})
LoggedInHasUser       == st = "TRANS" => user # NoUser
SnapIdsDistinct       == Cardinality(IdsOf(snap)) = Len(snap)
(* STAT, LIST and UIDL agree with each other and leave out marked messages *)
ViewsAgree ==
    st = "TRANS" =>
        /\ StatBody.stat.count = Cardinality(ListBody(Live).pairs)
        /\ {p.n : p \in ListBody(Live).pairs} = {p.n : p \in UidlBody(Live).pairs}
        /\ {p.n : p \in ListBody(Live).pairs} \cap marked = {}
        /\ StatBody.stat.size = SumSizes({p.n : p \in ListBody(Live).pairs})
(* the snapshot, and whose it is, never change during a session *)
SnapshotStable == (st = "TRANS" /\ st' # "AUTH") => (snap' = snap /\ user' = user)
(* marks only grow one at a time or are cleared; nothing else touches them *)
MarksByDeleOrRset == (st = "TRANS" /\ st' = "TRANS") => (marked' = marked \/ marked' = {} \/ \E k \in 1..Len(snap) : k \notin marked /\ marked' = marked \cup {k})
=============================================================================
