------------------------------ MODULE Pop3Impl ------------------------------
(***************************************************************************)
(* Implementation-shaped model (kind B) of one POP3 session as             *)
(* pkg/server/pop3/handler.go runs it, over the variables of the contract  *)
(* Pop3.tla plus the one piece of state the code keeps redundantly: the    *)
(* counter msgCount next to the retain flags (marked = not retained).      *)
(*                                                                         *)
(*   authorizationHandler  USER sets the name; PASS (after USER) and APOP  *)
(*                         (two arguments) call loadMailbox: messages :=   *)
(*                         the mailbox now, retain := all, msgCount := n   *)
(*   transactionHandler    STAT / LIST / UIDL walk messages and retain;    *)
(*                         the greeting lines of LIST / UIDL and the PASS  *)
(*                         reply show msgCount; DELE clears a flag and     *)
(*                         decrements msgCount; RSET sets all flags and    *)
(*                         msgCount := len(messages); QUIT removes what is *)
(*                         not retained, by id                             *)
(*                                                                         *)
(* TLC checks: CountInv (msgCount is the number of retained messages) and  *)
(* a label-preserving refinement - every step is the contract's action for *)
(* the same command, with a reply of a class the contract allows.          *)
(* Deviations (predictions): RsetKeepsCount - RSET restores the flags but  *)
(* not the counter; RangeByCount - the "argument must not exceed" test of  *)
(* LIST / UIDL / DELE uses msgCount instead of len(messages) (seeded C13f).*)
(***************************************************************************)
EXTENDS Pop3, TLC

CONSTANTS RsetKeepsCount, RangeByCount, MaxMsgs

VARIABLE msgCount
ivars == <<st, user, snap, marked, store, reply, msgCount>>

IInit == PInit /\ msgCount = 0

(* what the code answers: ok / fail *)
Say(r) == reply' = r
Same == UNCHANGED <<st, user, snap, marked, store, msgCount>>

ILogin(u) == /\ st' = "TRANS" /\ user' = u /\ snap' = store[u] /\ marked' = {} /\ msgCount' = Len(store[u])
             /\ UNCHANGED store /\ Say(Ok)
IUser(name, hasName) ==
    /\ st = "AUTH"
    /\ IF hasName THEN user' = name /\ UNCHANGED <<st, snap, marked, store, msgCount>> /\ Say(Ok)
       ELSE Same /\ Say(Fail)
IPass ==
    /\ st = "AUTH"
    /\ IF user # NoUser THEN ILogin(user) ELSE Same /\ Say(Fail)
IApop(name, nargs) ==
    /\ st = "AUTH"
    /\ IF nargs = 2 THEN ILogin(name) ELSE Same /\ Say(Fail)
(* a transaction command in AUTHORIZATION: out of sequence *)
IAuthOther == st = "AUTH" /\ Same /\ Say(Fail)

Limit == IF RangeByCount THEN msgCount ELSE Len(snap)
(* the argument checks shared by LIST / UIDL / DELE / RETR: a number in 1..len(messages) *)
ArgOk(a) == a.k = "num" /\ a.v >= 1 /\ a.v <= Limit /\ a.v <= Len(snap)
IStat(a) == /\ st = "TRANS" /\ Same
            /\ Say(IF a.k = "missing" THEN OkWith(StatBody) ELSE Fail)
IListing(a, body(_)) ==
    /\ st = "TRANS" /\ Same
    /\ Say(CASE a.k = "missing" -> OkWith(body(Live))
             [] a.k = "extra"   -> Fail
             [] ArgOk(a) /\ a.v \notin marked -> OkWith(body({a.v}))
             [] OTHER -> Fail)
IDele(a) ==
    /\ st = "TRANS"
    /\ IF ArgOk(a) /\ a.v \notin marked
       THEN /\ marked' = marked \cup {a.v} /\ msgCount' = msgCount - 1
            /\ UNCHANGED <<st, user, snap, store>> /\ Say(Ok)
       ELSE Same /\ Say(Fail)
IRset ==
    /\ st = "TRANS"
    /\ marked' = {} /\ msgCount' = (IF RsetKeepsCount THEN msgCount ELSE Len(snap))
    /\ UNCHANGED <<st, user, snap, store>> /\ Say(Ok)
INoop == st = "TRANS" /\ Same /\ Say(Ok)
IQuit ==
    /\ st \in {"AUTH", "TRANS"}
    /\ st' = "QUIT" /\ Say(Ok)
    /\ store' = IF st = "TRANS" THEN [store EXCEPT ![user] = Commit(@)] ELSE store
    /\ UNCHANGED <<user, snap, marked, msgCount>>
(* the environment: deliveries by other interfaces (ids are fresh) *)
IEnv(mb) ==
    /\ Len(store[mb]) < MaxMsgs
    /\ \E id \in 1 .. (2 * MaxMsgs + 2) :
          /\ \A m \in Mailbox : id \notin IdsOf(store[m])
          /\ id \notin IdsOf(snap)
          /\ \A m \in Mailbox : \A j \in DOMAIN store[m] : store[m][j].id < id        \* ids grow
          /\ store' = [store EXCEPT ![mb] = Append(@, [id |-> id, size |-> 1])]
    /\ UNCHANGED <<st, user, snap, marked, reply, msgCount>>

Args == {Missing, [k |-> "extra"], [k |-> "nonnum"]} \cup {Num(v) : v \in 0 .. MaxMsgs + 1}
INext ==
    \/ \E n \in Mailbox, h \in BOOLEAN : IUser(n, h)
    \/ IPass \/ IAuthOther \/ IRset \/ INoop \/ IQuit
    \/ \E n \in Mailbox, k \in 0 .. 3 : IApop(n, k)
    \/ \E a \in Args : IStat(a) \/ IListing(a, ListBody) \/ IListing(a, UidlBody) \/ IDele(a)
    \/ \E mb \in Mailbox : IEnv(mb)
ISpec == IInit /\ [][INext]_ivars

(***************************************************************************)
(* Properties                                                              *)
(***************************************************************************)
CountInv == st = "TRANS" => msgCount = Cardinality(Live)
(* what the contract fixes about the replies, command by command (the contract's own actions carry *)
(* the permitted reply CLASS in the variable reply; here reply is what the code answers)           *)
ShownIsListed ==
    [][\A a \in Args : /\ (IListing(a, ListBody) /\ Shown(a)) => reply' = OkWith(ListBody({a.v}))
                       /\ (IListing(a, UidlBody) /\ Shown(a)) => reply' = OkWith(UidlBody({a.v}))
                       /\ (IListing(a, ListBody) /\ a.k = "num" /\ ~Shown(a)) => reply'.cls = "fail"]_ivars
ShownIsDeletable == [][\A a \in Args : (IDele(a) /\ Shown(a)) => (reply' = Ok /\ marked' = marked \cup {a.v})]_ivars
(* the contract's own step properties hold of the code's steps *)
StepProps == [][SnapshotStable /\ MarksByDeleOrRset]_ivars
(* only QUIT removes, and exactly the marked messages *)
OnlyQuitRemoves == [][(\E mb \in Mailbox : Len(store'[mb]) < Len(store[mb])) => (st = "TRANS" /\ st' = "QUIT" /\ store' = [store EXCEPT ![user] = Commit(@)])]_ivars
=============================================================================
