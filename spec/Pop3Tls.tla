------------------------------- MODULE Pop3Tls -------------------------------
(***************************************************************************)
(* Contract of STLS (RFC 2595) on the POP3 server, over SEVERAL            *)
(* connections at once: encryption is a fact about one connection.         *)
(*                                                                         *)
(*   - before login CAPA lists STLS exactly while it can be used on THIS   *)
(*     connection: TLS is configured and the connection is still in the    *)
(*     clear; it is never listed for an encrypted connection;              *)
(*   - STLS is accepted exactly then; the client negotiates TLS and the    *)
(*     dialogue goes on encrypted, still in AUTHORIZATION;                 *)
(*   - anywhere else (not configured, already encrypted, after login) it   *)
(*     is refused and changes nothing;                                     *)
(*   - nothing one connection does changes what another connection is      *)
(*     offered or allowed (Isolation).                                     *)
(*                                                                         *)
(* This is behaviour beyond the listed properties (Pop3.tla is the         *)
(* single-session contract of C13); it is bound to the real pop3.Server by *)
(* Pop3TlsTrace.tla and `vh pop3tls'.                                      *)
(***************************************************************************)
EXTENDS Naturals, FiniteSets

CONSTANTS Conn,          \* connection slots
          Configured     \* BOOLEAN: the server has a certificate (TLSEnabled)

VARIABLES link,          \* [Conn -> "none" | "clear" | "tls"]
          phase          \* [Conn -> "auth" | "trans"]   (meaningful while link # "none")
tvars == <<link, phase>>

TInit == link = [c \in Conn |-> "none"] /\ phase = [c \in Conn |-> "auth"]

Open(c)  == link[c] = "none" /\ link' = [link EXCEPT ![c] = "clear"] /\ phase' = [phase EXCEPT ![c] = "auth"]
Close(c) == link[c] # "none" /\ link' = [link EXCEPT ![c] = "none"] /\ phase' = [phase EXCEPT ![c] = "auth"]
Login(c) == link[c] # "none" /\ phase[c] = "auth" /\ phase' = [phase EXCEPT ![c] = "trans"] /\ UNCHANGED link

Usable(c)  == Configured /\ link[c] = "clear" /\ phase[c] = "auth"
(* CAPA: an observation.  In AUTHORIZATION STLS is listed exactly while it can be used; after login *)
(* (where it cannot be used any more) a server may go on listing it for a connection in the clear  *)
(* - RFC 2449 lets the list differ between the states, it does not require it - but never for an   *)
(* encrypted connection or without configuration                                                    *)
Capa(c, offered) ==
    /\ link[c] # "none"
    /\ IF phase[c] = "auth" THEN offered = Usable(c) ELSE (offered => (Configured /\ link[c] = "clear"))
    /\ UNCHANGED tvars
(* STLS: accepted iff usable *)
Stls(c, accepted) ==
    /\ link[c] # "none"
    /\ accepted = Usable(c)
    /\ link' = IF accepted THEN [link EXCEPT ![c] = "tls"] ELSE link
    /\ UNCHANGED phase

TNext == \E c \in Conn : \/ Open(c) \/ Close(c) \/ Login(c)
                         \/ \E b \in BOOLEAN : Capa(c, b) \/ Stls(c, b)
TSpec == TInit /\ [][TNext]_tvars

TypeOK == /\ link \in [Conn -> {"none", "clear", "tls"}]
          /\ phase \in [Conn -> {"auth", "trans"}]
(* a step of one connection leaves every other connection as it was *)
Isolation == [][\A c \in Conn : (link'[c] # link[c] \/ phase'[c] # phase[c]) =>
                   \A d \in Conn \ {c} : link'[d] = link[d] /\ phase'[d] = phase[d]]_tvars
(* encryption is never dropped while the connection lives, and never starts without configuration *)
NoDowngrade == [][\A c \in Conn : link[c] = "tls" => link'[c] \in {"tls", "none"}]_tvars
NeedsConfig == \A c \in Conn : link[c] = "tls" => Configured
=============================================================================
