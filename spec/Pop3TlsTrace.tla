----------------------------- MODULE Pop3TlsTrace -----------------------------
(* Trace specification for `vh pop3tls': what the real pop3.Server answered on each of several      *)
(* connections (is STLS listed by CAPA, was STLS accepted, did the TLS negotiation that followed an *)
(* acceptance succeed) must be what Pop3Tls allows, step by step.                                   *)
EXTENDS Pop3Tls, Sequences, Json, TLC, IOUtils

TraceLog == ndJsonDeserialize(IOEnv.VERIF_TRACE)
VARIABLE l
xvars == <<link, phase, l>>
Ev == TraceLog[l]
Is(a) == l <= Len(TraceLog) /\ Ev.a = a /\ l' = l + 1
Mark == TLCSet(1, l + 1)

TraceInit == TInit /\ l = 1
TrReset == /\ Is("reset") /\ Ev.configured = Configured
           /\ link' = [c \in Conn |-> "none"] /\ phase' = [c \in Conn |-> "auth"] /\ Mark
TrOpen  == Is("open") /\ Ev.greeting = "ok" /\ Open(Ev.c) /\ Mark
TrClose == Is("close") /\ Close(Ev.c) /\ Mark
TrLogin == Is("login") /\ Ev.cls = "ok" /\ Login(Ev.c) /\ Mark
TrCapa  == Is("capa") /\ Ev.cls = "ok" /\ Capa(Ev.c, Ev.offered) /\ Mark
TrStls  == /\ Is("stls") /\ Ev.cls \in {"ok", "fail"}
           /\ Stls(Ev.c, Ev.cls = "ok")
           /\ ((Ev.cls = "ok") => Ev.upgraded)        \* the negotiation that follows an acceptance succeeds
           /\ Mark
TraceNext == TrReset \/ TrOpen \/ TrClose \/ TrLogin \/ TrCapa \/ TrStls
TraceSpec == TraceInit /\ [][TraceNext]_xvars
TraceAccepted ==
    IF TLCGet(1) = Len(TraceLog) + 1 THEN TRUE
    ELSE /\ PrintT(<<"REJECTED_AT", TLCGet(1)>>)
         /\ FALSE
ASSUME TLCSet(1, 1)
=============================================================================
