---------------------------- MODULE Pop3TlsTyped ----------------------------
(* Pop3Tls with type annotations for Apalache: TypeOK /\ NeedsConfig is an inductive invariant *)
(* (unbounded in the length of behaviours; Conn = 1..3).                                       *)
EXTENDS Naturals, FiniteSets

Conn == {1, 2, 3}
CONSTANT
    \* @type: Bool;
    Configured

VARIABLES
    \* @type: Int -> Str;
    link,
    \* @type: Int -> Str;
    phase

CInit == Configured \in BOOLEAN
Usable(c)  == Configured /\ link[c] = "clear" /\ phase[c] = "auth"
Open(c)  == link[c] = "none" /\ link' = [link EXCEPT ![c] = "clear"] /\ phase' = [phase EXCEPT ![c] = "auth"]
Close(c) == link[c] # "none" /\ link' = [link EXCEPT ![c] = "none"] /\ phase' = [phase EXCEPT ![c] = "auth"]
Login(c) == link[c] # "none" /\ phase[c] = "auth" /\ phase' = [phase EXCEPT ![c] = "trans"] /\ UNCHANGED link
Stls(c, accepted) ==
    /\ link[c] # "none"
    /\ accepted = Usable(c)
    /\ link' = IF accepted THEN [link EXCEPT ![c] = "tls"] ELSE link
    /\ UNCHANGED phase
Init == link = [c \in Conn |-> "none"] /\ phase = [c \in Conn |-> "auth"]
Next == \E c \in Conn : Open(c) \/ Close(c) \/ Login(c) \/ \E b \in BOOLEAN : Stls(c, b)

TypeOK == /\ link \in [Conn -> {"none", "clear", "tls"}]
          /\ phase \in [Conn -> {"auth", "trans"}]
NeedsConfig == \A c \in Conn : link[c] = "tls" => Configured
IndInv == TypeOK /\ NeedsConfig
IndInit == IndInv
=============================================================================
