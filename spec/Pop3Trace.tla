----------------------------- MODULE Pop3Trace -----------------------------
(***************************************************************************)
(* Trace specification for `vh pop3': validates recorded POP3 dialogues    *)
(* with the real server (and the recorded environment steps on the real    *)
(* store) against the Pop3 contract.  Each "cmd" event names the abstract  *)
(* command that was sent (field c) with the facts about the concrete line  *)
(* the concretiser chose (the numeric value of the argument, or that it is *)
(* not a number, missing, followed by an extra word).  The reply must be   *)
(* of the contract's class; for STAT, LIST and UIDL its numbers must be    *)
(* those the contract computes from the snapshot taken at login; the       *)
(* projected state of the whole store after every step must be the         *)
(* contract's.  Every command must have been answered (no timeout, no      *)
(* closed connection, no panic), every multi-line reply terminated.        *)
(***************************************************************************)
EXTENDS Pop3, Json, TLC, TLCExt, IOUtils, SequencesExt

TraceLog == ndJsonDeserialize(IOEnv.VERIF_TRACE)

VARIABLES l
tvars == <<st, user, snap, marked, store, reply, l>>

Ev == TraceLog[l]
Is(a) == l <= Len(TraceLog) /\ Ev.a = a /\ l' = l + 1
Cmd(c) == Is("cmd") /\ Ev.c = c
Mark == TLCSet(1, l + 1)

(* projection of the real store: per non-empty mailbox the ids and sizes in order *)
Snap(b) == {[mb |-> m, msgs |-> b[m]] : m \in {x \in Mailbox : b[x] # <<>>}}
SnapOK(b) ==
    /\ Ev.serr = <<>>
    /\ Len(Ev.s) = Cardinality(Snap(b))
    /\ ToSet(Ev.s) = Snap(b)

(* the reply recorded for this line is one the contract allows *)
Answered == Ev.cls \in {"ok", "fail"} /\ Ev.panic = ""
ClassOK  == reply'.cls \in {"ok", "fail"} => Ev.cls = reply'.cls
FormOK   == (Ev.cls = "ok" /\ Ev.multi) => (Ev.term \/ reply'.cls = "free")
BodyOK ==
    LET b == reply'.body IN
    reply'.cls = "ok" =>
        /\ ("stat" \in DOMAIN b) => Ev.stat = b.stat
        /\ ("pairs" \in DOMAIN b) =>
              /\ Ev.badlines = 0
              /\ Len(Ev.pairs) = Cardinality(b.pairs)
              /\ b.what = "size" => {[n |-> p.n, v |-> p.iv] : p \in ToSet(Ev.pairs)} = b.pairs
              /\ b.what = "uid"  => {[n |-> p.n, v |-> p.v]  : p \in ToSet(Ev.pairs)} = b.pairs
ReplyOK == Answered /\ ClassOK /\ FormOK /\ BodyOK
Done == ReplyOK /\ SnapOK(store') /\ Mark

TraceInit == l = 1 /\ PInit

TrReset == /\ Is("reset")
           /\ st' = "QUIT" /\ user' = NoUser /\ snap' = <<>> /\ marked' = {}
           /\ store' = [m \in Mailbox |-> <<>>]
           /\ reply' = Ok
           /\ SnapOK(store') /\ Mark

TrConnect == /\ Is("connect") /\ Connect /\ Done

TrUser == /\ Cmd("user") /\ (Ev.has => Ev.name \in Mailbox) /\ User(Ev.name, Ev.has) /\ Done
TrPass == /\ Cmd("pass") /\ Pass(Ev.has, Ev.cls = "ok") /\ Done
TrApop == /\ Cmd("apop") /\ (Ev.nargs > 0 => Ev.name \in Mailbox) /\ Apop(Ev.name, Ev.nargs, Ev.cls = "ok") /\ Done
TrStat == /\ Cmd("stat") /\ Stat(Ev.arg) /\ Done
TrList == /\ Cmd("list") /\ List(Ev.arg) /\ Done
TrUidl == /\ Cmd("uidl") /\ Uidl(Ev.arg) /\ Done
TrDele == /\ Cmd("dele") /\ Dele(Ev.arg) /\ Done
TrRetr == /\ Cmd("retr") /\ Fetch(Ev.arg, TRUE) /\ Done
TrTop  == /\ Cmd("top")  /\ Fetch(Ev.arg, Ev.lines = "ok") /\ Done
TrRset == /\ Cmd("rset") /\ Rset /\ Done
TrNoop == /\ Cmd("noop") /\ Noop /\ Done
TrOther == /\ Is("cmd") /\ Ev.c \in {"capa", "unknown", "empty", "garbage", "long", "stls"} /\ Other /\ Done
(* QUIT: answered, the session ends, the store has lost exactly the marked messages *)
TrQuit == /\ Cmd("quit") /\ Quit /\ Ev.returned /\ Done

(* the client hangs up (between commands or in the middle of a line): the   *)
(* session ends, nothing is removed                                          *)
TrDrop == /\ Is("drop") /\ Drop /\ Ev.returned /\ Ev.panic = "" /\ SnapOK(store') /\ Mark
(* end of the behaviour: the client hangs up if the session is still open   *)
TrEnd == /\ Is("end") /\ Ev.extra = 0 /\ Ev.returned /\ Ev.panic = ""
         /\ IF st = "QUIT" THEN UNCHANGED <<st, user, snap, marked, store, reply>> ELSE Drop
         /\ SnapOK(store') /\ Mark

(* environment steps, performed by the driver directly on the real store *)
TrEnv == /\ Is("env")
         /\ CASE Ev.c = "deliver" -> Ev.r = "ok" /\ EnvDeliver(Ev.mb, Ev.id, Ev.size)
              [] Ev.c = "remove"  -> EnvRemove(Ev.mb, Ev.id)
              [] Ev.c = "purge"   -> EnvPurge(Ev.mb)
         /\ SnapOK(store') /\ Mark

TraceNext == \/ TrReset \/ TrConnect \/ TrUser \/ TrPass \/ TrApop \/ TrStat \/ TrList \/ TrUidl \/ TrDele
             \/ TrRetr \/ TrTop \/ TrRset \/ TrNoop \/ TrOther \/ TrQuit \/ TrDrop \/ TrEnd \/ TrEnv

TraceSpec == TraceInit /\ [][TraceNext]_tvars

TraceAccepted ==
    IF TLCGet(1) = Len(TraceLog) + 1 THEN TRUE
    ELSE /\ PrintT(<<"REJECTED_AT", TLCGet(1)>>)
         /\ FALSE
ASSUME TLCSet(1, 1)
=============================================================================
