-------------------------------- MODULE Rest --------------------------------
(***************************************************************************)
(* Contract (kind A) of inbucket's HTTP interfaces (REST API /api/v1,      *)
(* web UI back-end /serve) and of the bundled Go client pkg/rest/client,   *)
(* at the strength of property C14: every request reports and changes      *)
(* exactly the state of the mail store.                                    *)
(*                                                                         *)
(* The store is the Mailstore contract (no cap, no size limit).  A request *)
(* is a record                                                             *)
(*   [route, via, mb, id, body]                                            *)
(* route: "list" | "get" | "source" | "seen" | "delete" | "purge"          *)
(*        (REST)   "uiget" | "uihtml" | "uisource"   (web UI)              *)
(* via:   "http" (a raw request) | "client" (the method of pkg/rest/client *)
(*        of that name: ListMailbox, GetMessage, GetMessageSource,         *)
(*        MarkSeen, DeleteMessage, PurgeMailbox and the convenience        *)
(*        methods on the values they return)                               *)
(* mb:    the mailbox the name in the request denotes (the name may be any *)
(*        spelling of an address of that mailbox)                          *)
(* id:    a message id, or "latest", or "" for list / purge                *)
(* body:  for "seen" over http the class of the request body:              *)
(*        "true" ({"seen":true}) | "false" | "none" | "garbage"            *)
(*                                                                         *)
(* The answer is a status class: http: "ok" (200) | "notfound" (404) |     *)
(* "error" (any other 4xx/5xx); client: "ok" (nil error) | "err".  A       *)
(* connection that ends without a response ("dropped") and a redirect are  *)
(* statuses no action of this contract produces.                           *)
(*                                                                         *)
(* Where the property text leaves a choice, every reading is an allowed    *)
(* outcome (a disjunct below):                                             *)
(*  - "latest" names the most recent message for reads; for mark-seen and  *)
(*    delete it may either do the same or be an id no message has;         *)
(*  - a mark-seen request whose body does not say seen=true changes        *)
(*    nothing if it says seen=false; if the body is absent or not JSON the *)
(*    server may refuse it or treat it as a plain mark-seen; its status is *)
(*    not prescribed (only: it is answered);                               *)
(*  - what a client method returns for a mark-seen / delete of a message   *)
(*    that does not exist is not prescribed (only: nothing changes);       *)
(*  - listing or purging a mailbox that holds nothing may be answered with *)
(*    an empty list / OK, or as not found.                                 *)
(***************************************************************************)
EXTENDS Mailstore

VARIABLE last              \* the last request, its status and whether its target existed

rvars == <<boxes, used, arrival, cap, limit, last>>

ReadRoutes == {"list", "get", "source", "uiget", "uihtml", "uisource"}
ByIdRoutes == {"get", "source", "uiget", "uihtml", "uisource", "seen", "delete"}
AllRoutes  == ReadRoutes \cup {"seen", "delete", "purge"}
ClientRoutes == {"list", "get", "source", "seen", "delete", "purge"}

StatusesOf(via) == IF via = "client" THEN {"ok", "err"} ELSE {"ok", "notfound", "error"}
(* the answer to a request for a message that does not exist *)
NF(via) == IF via = "client" THEN "err" ELSE "notfound"

NoRequest == [rq |-> [route |-> "none", via |-> "none", mb |-> "", id |-> "", body |-> ""], st |-> "ok", had |-> FALSE]

RInit == Init(0, 0) /\ last = NoRequest

(* the message a by-id request names *)
HasTarget(m, id) == IF id = "latest" THEN boxes[m] # <<>> ELSE Live(m, id)
TargetMsg(m, id) == IF id = "latest" THEN boxes[m][Len(boxes[m])] ELSE MsgOf(m, id)
LatestId(m)      == boxes[m][Len(boxes[m])].id

NoEffect == UNCHANGED svars

(* a message arrives (SMTP delivery): not a request, but it moves the store *)
Deliver(m, id, meta, size) ==
    /\ Add(m, id, meta, size)
    /\ last' = [rq |-> [route |-> "deliver", via |-> "none", mb |-> m, id |-> id, body |-> ""], st |-> "ok", had |-> FALSE]

(* listing, fetching, fetching the source / the HTML part: never change anything; *)
(* a message that does not exist is answered 404                                  *)
ReadReq(rq, st) ==
    /\ rq.route \in ReadRoutes
    /\ IF rq.route = "list"
       THEN st = "ok" \/ (boxes[rq.mb] = <<>> /\ st = NF(rq.via))
       ELSE st = IF HasTarget(rq.mb, rq.id) THEN "ok" ELSE NF(rq.via)
    /\ NoEffect

(* outcome of a mutating by-id request whose message does not exist *)
Missing(rq, st) ==
    /\ IF rq.via = "client" THEN st \in {"ok", "err"} ELSE st = "notfound"
    /\ NoEffect

SeenReq(rq, st) ==
    /\ rq.route = "seen"
    /\ CASE rq.body = "true" /\ rq.id # "latest" ->
                IF Live(rq.mb, rq.id) THEN st = "ok" /\ MarkSeen(rq.mb, rq.id) ELSE Missing(rq, st)
         [] rq.body = "true" /\ rq.id = "latest" ->
                \/ Missing(rq, st)
                \/ boxes[rq.mb] # <<>> /\ st = "ok" /\ MarkSeen(rq.mb, LatestId(rq.mb))
         [] rq.body = "false" ->
                st \in StatusesOf(rq.via) /\ NoEffect
         [] OTHER ->
                /\ st \in StatusesOf(rq.via)
                /\ \/ NoEffect
                   \/ st = "ok" /\ rq.id # "latest" /\ Live(rq.mb, rq.id) /\ MarkSeen(rq.mb, rq.id)

DeleteReq(rq, st) ==
    /\ rq.route = "delete"
    /\ IF rq.id # "latest"
       THEN IF Live(rq.mb, rq.id) THEN st = "ok" /\ RemoveMsg(rq.mb, rq.id) ELSE Missing(rq, st)
       ELSE \/ Missing(rq, st)
            \/ boxes[rq.mb] # <<>> /\ st = "ok" /\ RemoveMsg(rq.mb, LatestId(rq.mb))

PurgeReq(rq, st) ==
    /\ rq.route = "purge"
    /\ st = "ok" \/ (boxes[rq.mb] = <<>> /\ st = NF(rq.via))
    /\ Purge(rq.mb)

Req(rq, st) ==
    /\ rq.via = "client" => rq.route \in ClientRoutes /\ rq.body = (IF rq.route = "seen" THEN "true" ELSE "")
    /\ \/ ReadReq(rq, st) \/ SeenReq(rq, st) \/ DeleteReq(rq, st) \/ PurgeReq(rq, st)
    /\ last' = [rq |-> rq, st |-> st, had |-> HasTarget(rq.mb, rq.id)]

(***************************************************************************)
(* What an answered read reports (evaluated in the state before the        *)
(* request, which a read leaves unchanged): exactly what the store holds.  *)
(* meta carries, per message: from, to, subject, date, millis, hash and    *)
(* srclen (of the source), text and html (the body parts).                 *)
(***************************************************************************)
Hdr(m, x) == [mailbox |-> m, id |-> x.id, from |-> x.meta.from, to |-> x.meta.to, subject |-> x.meta.subject,
              date |-> x.meta.date, millis |-> x.meta.millis, size |-> x.size, seen |-> x.seen]
Full(m, x) == [mailbox |-> m, id |-> x.id, from |-> x.meta.from, to |-> x.meta.to, subject |-> x.meta.subject,
               date |-> x.meta.date, millis |-> x.meta.millis, size |-> x.size, seen |-> x.seen,
               text |-> x.meta.text, html |-> x.meta.html]
ReportsStoreState(rq, resp) ==
    LET m == rq.mb
        x == TargetMsg(m, rq.id)
    IN  CASE rq.route = "list"   -> resp = [msgs |-> [i \in DOMAIN boxes[m] |-> Hdr(m, boxes[m][i])]]
          [] rq.route = "get"    -> resp = [msg |-> Full(m, x)]
          [] rq.route = "uiget"  -> resp = [msg |-> Hdr(m, x)]
          [] rq.route \in {"source", "uisource"} -> resp = [hash |-> x.meta.hash, len |-> x.meta.srclen]
          [] rq.route = "uihtml" -> resp = [html |-> x.meta.html]
          [] OTHER -> TRUE

(***************************************************************************)
(* The property, stated on the contract (checked on the bounded model)     *)
(***************************************************************************)
RTypeOK == /\ last.st \in {"ok", "notfound", "error", "err"}
           /\ last.rq.via \in {"http", "client", "none"}
(* no request is ever left without an answer *)
NeverDropped == last.st # "dropped"
(* reads change nothing *)
ReadsChangeNothing == last'.rq.route \in ReadRoutes => UNCHANGED svars
(* a request for a message that does not exist is answered 404 (an error from the client) *)
Missing404 ==
    LET q == last'.rq IN
    /\ (q.route \in ByIdRoutes /\ ~last'.had /\ q.via = "http" /\ (q.route = "seen" => q.body = "true")) => last'.st = "notfound"
    /\ (q.route \in (ByIdRoutes \cap ReadRoutes) /\ ~last'.had) => last'.st # "ok"
    /\ (q.route \in (ByIdRoutes \cap ReadRoutes) /\ last'.had) => last'.st = "ok"
(* a refusal changes nothing *)
RefusalNoEffect == last'.st \in {"notfound", "error", "err"} => boxes' = boxes
(* a request only ever touches the mailbox it names *)
OthersUntouched == \A m \in Mailbox : m # last'.rq.mb => boxes'[m] = boxes[m]
(* every client method has the effect its name says *)
ClientEffectMatchesName ==
    LET q == last'.rq IN
    (q.via = "client") =>
      /\ q.route = "list" => (last'.st = "ok" \/ boxes[q.mb] = <<>>)
      /\ q.route = "purge" => (last'.st = "ok" \/ boxes[q.mb] = <<>>) /\ boxes'[q.mb] = <<>>
      /\ (q.route = "delete" /\ q.id # "latest" /\ Live(q.mb, q.id)) =>
              last'.st = "ok" /\ boxes'[q.mb] = WithoutId(boxes[q.mb], q.id)
      /\ (q.route = "seen" /\ q.id # "latest" /\ Live(q.mb, q.id)) =>
              /\ last'.st = "ok"
              /\ \E i \in DOMAIN boxes'[q.mb] : boxes'[q.mb][i].id = q.id /\ boxes'[q.mb][i].seen
      /\ (q.route \in {"delete", "seen"} /\ ~last'.had) => UNCHANGED svars
      /\ (q.route \in {"get", "source"}) => (last'.st = "ok" <=> last'.had)
=============================================================================
