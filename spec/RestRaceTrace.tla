--------------------------- MODULE RestRaceTrace ---------------------------
(***************************************************************************)
(* C14, fetch while delivering.  `vh restrace' delivers numbered messages  *)
(* to one mailbox from one goroutine while another fetches                 *)
(* .../mailbox/<name>/latest through the real router over HTTP; both stamp *)
(* every call before and after from one atomic counter (inv, res).  The    *)
(* deliveries form a known sequential history d_1 .. d_n of the mailbox,   *)
(* so the contract of a fetch needs no search:                             *)
(*                                                                         *)
(*   - what a fetch shows is ONE message the store held: id, subject,      *)
(*     header and body are those of the same delivery d_k;                 *)
(*   - it is the message that was the latest at some moment between the    *)
(*     request and the response: d_k was invoked before the response, and  *)
(*     no later delivery had completed before the request;                 *)
(*   - "no such message" (404) only while no delivery had completed        *)
(*     before the request... and never anything but 200 / 404.             *)
(***************************************************************************)
EXTENDS Naturals, Sequences, FiniteSets, Json, TLC, IOUtils

TraceLog == ndJsonDeserialize(IOEnv.VERIF_TRACE)
VARIABLE l
Ev == TraceLog[l]
Is(a) == l <= Len(TraceLog) /\ Ev.a = a /\ l' = l + 1
Mark == TLCSet(1, l + 1)

TraceInit == l = 1
TrReset == Is("reset") /\ Mark

Dels == Ev.dels
DeliveriesOK ==
    /\ \A i \in DOMAIN Dels : Dels[i].r = "ok" /\ Dels[i].id # "" /\ Dels[i].k = i
    /\ \A i, j \in DOMAIN Dels : i # j => Dels[i].id # Dels[j].id
Shows(g, i) ==                       \* the fetch g shows delivery i, whole and nothing else
    /\ g.id = Dels[i].id /\ g.subj_k = i /\ g.body_k = i /\ g.hdr_k = i
WasLatest(g, i) ==                   \* at some moment between request and response
    /\ Dels[i].inv < g.res
    /\ \A j \in DOMAIN Dels : j > i => ~(Dels[j].res < g.inv)
GetOK(g) ==
    \/ /\ g.st = 200 /\ g.decode = ""
       /\ \E i \in DOMAIN Dels : Shows(g, i) /\ WasLatest(g, i)
    \/ /\ g.st = 404
       /\ \A j \in DOMAIN Dels : ~(Dels[j].res < g.inv)
TrRace == /\ Is("race")
          /\ DeliveriesOK
          /\ \A n \in DOMAIN Ev.gets : GetOK(Ev.gets[n])
          /\ Mark

TraceNext == TrReset \/ TrRace
TraceSpec == TraceInit /\ [][TraceNext]_l

TraceAccepted ==
    IF TLCGet(1) = Len(TraceLog) + 1 THEN TRUE
    ELSE /\ PrintT(<<"REJECTED_AT", TLCGet(1)>>)
         /\ FALSE
ASSUME TLCSet(1, 1)
=============================================================================
