----------------------------- MODULE RestTrace -----------------------------
(***************************************************************************)
(* Trace specification for `vh rest': validates what the real router, the  *)
(* real StoreManager + store and the real Go client did, step by step,     *)
(* against the Rest contract.                                              *)
(*                                                                         *)
(* "deliver" events bind the new message as the store shows it (id,        *)
(* metadata, size) plus the body parts the concretiser put into the        *)
(* source (text, html).  "req" events carry the request (route, via, the   *)
(* mailbox the spelled name denotes, the id, the body class), the status   *)
(* class, the decoded response (resp), every HTTP exchange a client method *)
(* made (http) and - like every event - the projected state of the whole   *)
(* store (s), which must equal the contract's store after the step.        *)
(***************************************************************************)
EXTENDS Rest, Json, TLC, TLCExt, IOUtils

CONSTANT Allowed           \* deviation keys enabled by known_findings.txt (written into the cfg by the orchestrator)

TraceLog == ndJsonDeserialize(IOEnv.VERIF_TRACE)

VARIABLES l,               \* index of the next event
          skipping         \* TRUE: the current behaviour was left at an event no action explains
tvars == <<boxes, used, arrival, cap, limit, last, l, skipping>>

Ev == TraceLog[l]
Is(a) == l <= Len(TraceLog) /\ Ev.a = a /\ l' = l + 1 /\ ~skipping /\ skipping' = FALSE
Mark == TLCSet(1, l + 1)
Has(f) == f \in DOMAIN Ev

(* the store as the driver projects it: text/html are not store fields *)
StripMsg(x) == [id |-> x.id, size |-> x.size, seen |-> x.seen,
                meta |-> [from |-> x.meta.from, to |-> x.meta.to, subject |-> x.meta.subject, date |-> x.meta.date,
                          millis |-> x.meta.millis, hash |-> x.meta.hash, srclen |-> x.meta.srclen]]
Snap(b) == {[mb |-> m, msgs |-> [i \in DOMAIN b[m] |-> StripMsg(b[m][i])]] : m \in {x \in Mailbox : b[x] # <<>>}}
SnapOK(b) == /\ Ev.serr = <<>>
             /\ Len(Ev.s) = Cardinality(Snap(b))
             /\ ToSet(Ev.s) = Snap(b)

TraceInit == l = 1 /\ skipping = FALSE /\ RInit

Fresh == /\ boxes' = [m \in Mailbox |-> <<>>]
         /\ used' = [m \in Mailbox |-> {}]
         /\ arrival' = <<>>
         /\ cap' = 0 /\ limit' = 0
         /\ last' = NoRequest

(* A "reset" event starts the next behaviour.  It reports how far the      *)
(* actions of the contract got in the behaviour that ends here: the        *)
(* high-water mark TLCGet(1) is the index of the first event no action     *)
(* explained, or >= l when every event was explained (-workers 1, breadth  *)
(* first: all events before l have been tried when this is evaluated).     *)
TrReset == /\ l <= Len(TraceLog) /\ Ev.a = "reset" /\ l' = l + 1 /\ skipping' = FALSE
           /\ (l > 1) => PrintT(<<"ENDED", l, TLCGet(1)>>)
           /\ Fresh
           /\ SnapOK(boxes') /\ Mark

(* One rejected behaviour must not hide the others: from any event the     *)
(* rest of the behaviour may be passed over (store forgotten).  This never *)
(* raises the high-water mark, so a behaviour counts as accepted only if   *)
(* the contract's actions alone reach its end.                             *)
TrSkip == /\ l <= Len(TraceLog) /\ Ev.a # "reset" /\ l' = l + 1 /\ skipping' = TRUE
          /\ Fresh

TrDeliver ==
    /\ Is("deliver") /\ Ev.r = "ok" /\ Ev.fresh = 1 /\ Ev.landed = Ev.mb
    /\ LET mt == Ev.msg.meta IN
       Deliver(Ev.mb, Ev.id,
               [from |-> mt.from, to |-> mt.to, subject |-> mt.subject, date |-> mt.date, millis |-> mt.millis,
                hash |-> mt.hash, srclen |-> mt.srclen, text |-> Ev.text, html |-> Ev.html],
               Ev.msg.size)
    /\ SnapOK(boxes') /\ Mark

Rq == [route |-> Ev.route, via |-> Ev.via, mb |-> Ev.mb, id |-> Ev.id, body |-> Ev.body]
(* the request, and every exchange a client method made, got a response *)
Answered == /\ Ev.st # "dropped"
            /\ \A k \in DOMAIN Ev.http : Ev.http[k].c # 0
            \* the attachment route of the same message, asked for attachment numbers that do not exist (also negative
            \* and unparsable ones): every such request is answered too
            /\ IF Has("attach") THEN \A k \in DOMAIN Ev.attach : Ev.attach[k].c # 0 ELSE TRUE

TrReq == /\ Is("req")
         /\ Answered
         /\ Req(Rq, Ev.st)
         /\ (Ev.st = "ok") => ReportsStoreState(Rq, Ev.resp)
         /\ SnapOK(boxes') /\ Mark

(***************************************************************************)
(* Deviations: departures of the code from the contract that are listed in *)
(* known_findings.txt.  Each allows exactly one observed behaviour and     *)
(* says what it does to the store, so the rest of the trace is still       *)
(* validated.  None is enabled unless its key is listed.                   *)
(***************************************************************************)
Deviate(key, Effect) ==
    /\ key \in Allowed
    /\ Answered
    /\ Effect
    /\ last' = [rq |-> Rq, st |-> Ev.st, had |-> HasTarget(Ev.mb, Ev.id)]
    /\ PrintT(<<"DEVIATION", key, l>>)
    /\ SnapOK(boxes') /\ Mark
(* client.MarkSeen sends a PATCH without a body, which the server refuses *)
DevClientMarkSeen == /\ Is("req") /\ Ev.via = "client" /\ Ev.route = "seen" /\ Ev.st = "err"
                     /\ Deviate("C14.client.markseen-sends-no-body", NoEffect)
(* a mailbox name containing "/" is split by the router into name and id: *)
(* the request is not answered for the mailbox it names; a purge of        *)
(* "x/y" is taken as the removal of message y of mailbox x                 *)
DevSlashInName == /\ Is("req") /\ Has("slash") /\ Ev.slash
                  /\ Deviate("C14.slash-in-mailbox-name",
                             \/ NoEffect
                             \/ Ev.route = "purge" /\ Ev.splitmb \in Mailbox /\ RemoveMsg(Ev.splitmb, Ev.splitid))

TraceNext == TrReset \/ TrDeliver \/ TrReq \/ DevClientMarkSeen \/ DevSlashInName \/ TrSkip

TraceSpec == TraceInit /\ [][TraceNext]_tvars

(* POSTCONDITION: the verdict on the last behaviour, in the same form *)
TraceAccepted == PrintT(<<"ENDED", Len(TraceLog) + 1, TLCGet(1)>>)
ASSUME TLCSet(1, 1)
=============================================================================
