------------------------------ MODULE Retention ------------------------------
(***************************************************************************)
(* Contract (kind A) of inbucket's retention scanner at the strength of    *)
(* property C12:                                                           *)
(*                                                                         *)
(*   A retention scan deletes every message older than the retention       *)
(*   period and no message younger than it, in every mailbox of either     *)
(*   back-end, even while new mail is being delivered; a period of zero    *)
(*   never deletes anything.  The scan, and the scanner's run loop, stop   *)
(*   promptly when shutdown is requested.                                  *)
(*                                                                         *)
(* The store is a map mailbox -> arrival-ordered sequence of message       *)
(* records.  A record has at least the fields id and age (whole hours      *)
(* between the message date and the moment the scanner was set up; real    *)
(* ages are hours away from the period, so the instant at which a scan     *)
(* reads the clock is immaterial).  Other fields (content hash, size) ride *)
(* along and must survive unchanged.                                       *)
(*                                                                         *)
(* What a scan may do is stated as a relation between store states         *)
(* (OnlyExpiredMissing, AllOlderGone), not as an algorithm; the per-       *)
(* mailbox step Visit is one way to satisfy it and is what the bounded     *)
(* model (GenRetention) interleaves with the environment and with Cancel.  *)
(* The trace specification binds ScanProgress to every observation of the  *)
(* real store made while a scan runs.                                      *)
(*                                                                         *)
(*   ub      the store as it would be had the current (or last) scan       *)
(*           removed nothing: the store at scan start plus every           *)
(*           environment operation since                                   *)
(*   mustGo  per mailbox, the ids of the messages that were older than the *)
(*           period when the scan started                                  *)
(***************************************************************************)
EXTENDS Integers, Sequences, FiniteSets

CONSTANTS Mailbox

VARIABLES store,      \* [Mailbox -> Seq(record)]
          ub,         \* [Mailbox -> Seq(record)]  see above
          pre,        \* the store when the current (or last) scan started
          mustGo,     \* [Mailbox -> SUBSET id]
          must,       \* mailboxes that held mail when the scan started
          visited,    \* mailboxes the scan has been through (model bookkeeping)
          pc,         \* "idle" | "waiting" | "scanning" | "done" | "aborted" | "sleeping" | "stopped"
          loop,       \* TRUE: the scanner's run loop (Start) drives the scans
          cancelled,  \* shutdown has been requested
          disturbed,  \* the environment changed the store since the scan started
          late,       \* mailboxes visited after shutdown was requested
          period      \* retention period in hours; 0 = retention disabled

rvars == <<store, ub, pre, mustGo, must, visited, pc, loop, cancelled, disturbed, late, period>>

Empty        == [m \in Mailbox |-> <<>>]
Ids(s)       == {s[i].id : i \in DOMAIN s}
Expired(x)   == period > 0 /\ x.age > period
Unexpired(s) == SelectSeq(s, LAMBDA x : ~Expired(x))
ExpiredIds(s) == {s[i].id : i \in {j \in DOMAIN s : Expired(s[j])}}
Sub(s, keep) == SelectSeq(s, LAMBDA x : x.id \in keep)

(* obs is full with some expired messages left out: every record of obs is *)
(* a record of full, unchanged and in the same order; nothing that is not  *)
(* expired is missing; nothing was added                                   *)
OnlyExpiredMissing(obs, full) ==
    \A m \in Mailbox :
        /\ obs[m] = Sub(full[m], Ids(obs[m]))
        /\ \A i \in DOMAIN full[m] : ~Expired(full[m][i]) => full[m][i].id \in Ids(obs[m])
(* nothing that was older than the period at scan start is left *)
AllOlderGone(obs) == \A m \in Mailbox : Ids(obs[m]) \cap mustGo[m] = {}

RInit(p) ==
    /\ store = Empty /\ ub = Empty /\ pre = Empty
    /\ mustGo = [m \in Mailbox |-> {}] /\ must = {} /\ visited = {}
    /\ pc = "idle" /\ loop = FALSE /\ cancelled = FALSE /\ disturbed = FALSE /\ late = 0
    /\ period = p

(***************************************************************************)
(* Environment: other interfaces acting on the store, at any moment        *)
(***************************************************************************)
EnvFrame == UNCHANGED <<pre, mustGo, must, visited, pc, loop, cancelled, late, period>> /\ disturbed' = TRUE
EnvDeliver(m, msg) ==
    /\ msg.id \notin Ids(ub[m])
    /\ store' = [store EXCEPT ![m] = Append(@, msg)]
    /\ ub' = [ub EXCEPT ![m] = Append(@, msg)]
    /\ EnvFrame
EnvRemove(m, id) ==
    /\ store' = [store EXCEPT ![m] = SelectSeq(@, LAMBDA x : x.id # id)]
    /\ ub' = [ub EXCEPT ![m] = SelectSeq(@, LAMBDA x : x.id # id)]
    /\ EnvFrame
EnvPurge(m) ==
    /\ store' = [store EXCEPT ![m] = <<>>]
    /\ ub' = [ub EXCEPT ![m] = <<>>]
    /\ EnvFrame

(***************************************************************************)
(* One scan (DoScan)                                                       *)
(***************************************************************************)
BeginScan ==
    /\ pre' = store /\ ub' = store
    /\ mustGo' = [m \in Mailbox |-> ExpiredIds(store[m])]
    /\ must' = {m \in Mailbox : store[m] # <<>>}
    /\ visited' = {} /\ late' = 0 /\ disturbed' = FALSE
    /\ pc' = "scanning"
    /\ UNCHANGED <<store, cancelled, period>>

(* DoScan called directly *)
ScanStart == pc = "idle" /\ period > 0 /\ BeginScan /\ UNCHANGED loop

(* whatever the scan has done so far: only expired messages are missing *)
ScanProgress(new, vis) ==
    /\ pc = "scanning"
    /\ OnlyExpiredMissing(new, store)
    /\ store' = new /\ visited' = vis
    /\ late' = IF cancelled /\ vis # visited THEN late + 1 ELSE late
    /\ UNCHANGED <<ub, pre, mustGo, must, pc, loop, cancelled, disturbed, period>>

(* the scan goes through one mailbox: every message older than the period  *)
(* goes; after a shutdown request at most the mailbox at hand is finished  *)
Visit(m) ==
    /\ m \notin visited
    /\ cancelled => late = 0
    /\ ScanProgress([store EXCEPT ![m] = Unexpired(@)], visited \cup {m})

(* the scan returns: after a shutdown request at any point, otherwise when *)
(* it has been through every mailbox that held mail when it started.  new  *)
(* is the store it leaves.                                                 *)
ScanEndWith(new) ==
    /\ pc = "scanning"
    /\ OnlyExpiredMissing(new, store)
    /\ cancelled \/ AllOlderGone(new)
    /\ store' = new
    /\ pc' = IF cancelled THEN "aborted" ELSE IF loop THEN "sleeping" ELSE "done"
    /\ UNCHANGED <<ub, pre, mustGo, must, visited, loop, cancelled, disturbed, late, period>>
ScanEnd == (cancelled \/ must \subseteq visited) /\ ScanEndWith(store)

Cancel ==
    /\ cancelled' = TRUE
    /\ UNCHANGED <<store, ub, pre, mustGo, must, visited, pc, loop, disturbed, late, period>>

(***************************************************************************)
(* The run loop (Start / Join)                                             *)
(***************************************************************************)
(* Start: with period 0 it returns at once and Join returns; otherwise it  *)
(* waits (the first scan starts a minute after Start), scans, sleeps (at  *)
(* least a minute between scan starts), scans, ...                         *)
StartLoop ==
    /\ pc = "idle"
    /\ loop' = TRUE
    /\ pc' = IF period = 0 THEN "stopped" ELSE "waiting"
    /\ UNCHANGED <<store, ub, pre, mustGo, must, visited, cancelled, disturbed, late, period>>
LoopWake == pc \in {"waiting", "sleeping"} /\ loop /\ ~cancelled /\ BeginScan /\ UNCHANGED loop
(* Start returns (and Join with it) once shutdown was requested *)
LoopStop ==
    /\ loop /\ cancelled /\ pc \in {"waiting", "sleeping", "aborted"}
    /\ pc' = "stopped"
    /\ UNCHANGED <<store, ub, pre, mustGo, must, visited, loop, cancelled, disturbed, late, period>>

(***************************************************************************)
(* C12 as state invariants                                                 *)
(***************************************************************************)
TypeOK ==
    /\ pc \in {"idle", "waiting", "scanning", "done", "aborted", "sleeping", "stopped"}
    /\ visited \subseteq Mailbox /\ must \subseteq Mailbox
    /\ late \in Nat /\ period \in Nat
(* nothing younger than the period is ever removed (nor anything changed   *)
(* or added); a completed scan leaves nothing that was older when it       *)
(* started; undisturbed, the result is the pre-state minus exactly the     *)
(* older messages                                                          *)
NothingYoungerRemoved == OnlyExpiredMissing(store, ub)
CompletedScanRemovedAllOlder == pc \in {"done", "sleeping"} => AllOlderGone(store)
UndisturbedExact == (pc \in {"done", "sleeping"} /\ ~disturbed) => store = [m \in Mailbox |-> Unexpired(pre[m])]
RemovesExactlyExpired == NothingYoungerRemoved /\ CompletedScanRemovedAllOlder /\ UndisturbedExact
(* period 0: no scan ever runs, nothing is deleted, Start does not stay    *)
ZeroNeverDeletes == period = 0 => (store = ub /\ pc \in {"idle", "stopped"} /\ mustGo = [m \in Mailbox |-> {}])
(* after a shutdown request the scan finishes at most the mailbox at hand  *)
(* and may return at once                                                  *)
LateBound == late <= 1
StopsPromptly ==
    /\ LateBound
    /\ (pc = "scanning" /\ cancelled) => ENABLED ScanEnd
    /\ (loop /\ cancelled /\ pc \in {"waiting", "sleeping", "aborted"}) => ENABLED LoopStop
=============================================================================
