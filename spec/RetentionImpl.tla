---------------------------- MODULE RetentionImpl ----------------------------
(***************************************************************************)
(* Implementation-shaped model (kind B) of the retention scanner's control *)
(* flow (pkg/storage/retention.go: Start, DoScan, Join) - not of what it   *)
(* deletes (Retention.tla is the contract for that) but of when it runs,   *)
(* waits and stops, which is what C12 ("stops promptly") and C19 ("stops   *)
(* without blocking shutdown") are about.                                  *)
(*                                                                         *)
(*   Start   period 0: close(done), return.  Otherwise loop: wait until a  *)
(*           minute has passed since the last scan began (select with the  *)
(*           context), DoScan, leave the loop when the context is done;    *)
(*           close(done) on the way out.                                   *)
(*   DoScan  for every mailbox: remove what has expired, then pause        *)
(*           (select: context done -> stop the walk; pause over -> next).  *)
(*   Join    <-done.                                                       *)
(*                                                                         *)
(* Time is abstract: a wait or a pause is "pending" until the environment  *)
(* lets it elapse (Tick); a select is taken as soon as one of its cases is *)
(* ready, the context case whenever shutdown has been requested.           *)
(*                                                                         *)
(* Properties: a disabled scanner (period 0) never scans; after the        *)
(* shutdown request at most the mailbox at hand is finished (LateBound)    *)
(* and no wait is sat out (PromptStop: once shutdown is requested the      *)
(* scanner needs no Tick to finish); Join returns in the end (liveness).   *)
(* Deviations (predictions, each a seeded change the checks met):          *)
(*   SleepNotSelect  the pause is a plain sleep followed by a check of the *)
(*                   context (C19h);                                       *)
(*   DeferAfterReturn  close(done) is deferred, but the defer is           *)
(*                   registered behind the early return for period 0       *)
(*                   (C19b, C12j): Join never returns;                     *)
(*   PeriodFloor     the period is clamped to a minimum > 0 when the       *)
(*                   scanner is built (C12f): period 0 no longer disables. *)
(***************************************************************************)
EXTENDS Naturals, FiniteSets

CONSTANTS NBoxes,          \* mailboxes a walk goes through
          Disabled,        \* the configured period is 0
          SleepNotSelect, DeferAfterReturn, PeriodFloor

VARIABLES pc,        \* "init" | "wait" | "scan" | "pause" | "closing" | "returned"
          box,       \* mailboxes finished in the walk under way
          cancelled, \* shutdown has been requested
          done,      \* close(retentionShutdown) has happened
          joined,    \* Join() has returned
          scans,     \* scans begun
          late,      \* mailboxes finished after the shutdown request
          ticksAfter \* waits / pauses that elapsed after the shutdown request and were needed to get on
vars == <<pc, box, cancelled, done, joined, scans, late, ticksAfter>>

Init == pc = "init" /\ box = 0 /\ cancelled = FALSE /\ done = FALSE /\ joined = FALSE /\ scans = 0 /\ late = 0 /\ ticksAfter = 0

EffectivelyDisabled == Disabled /\ ~PeriodFloor
Begin ==
    /\ pc = "init"
    /\ IF EffectivelyDisabled
       THEN /\ pc' = "returned" /\ done' = (IF DeferAfterReturn THEN done ELSE TRUE)     \* early return: the defer is not registered yet
       ELSE /\ pc' = "wait" /\ UNCHANGED done
    /\ UNCHANGED <<box, cancelled, joined, scans, late, ticksAfter>>
(* the minute since the last scan began is over: scan *)
WaitOver ==
    /\ pc = "wait" /\ ~cancelled /\ scans < 2         \* (two scans are enough to see every path; no state constraint is used)
    /\ pc' = "scan" /\ box' = 0 /\ scans' = scans + 1
    /\ UNCHANGED <<cancelled, done, joined, late, ticksAfter>>
(* the select in the wait sees the context *)
WaitCancelled ==
    /\ pc = "wait" /\ cancelled
    /\ pc' = "closing"
    /\ UNCHANGED <<box, cancelled, done, joined, scans, late, ticksAfter>>
(* one mailbox is gone through, then the pause begins *)
VisitBox ==
    /\ pc = "scan" /\ box < NBoxes
    /\ box' = box + 1 /\ pc' = "pause"
    /\ late' = IF cancelled THEN late + 1 ELSE late
    /\ UNCHANGED <<cancelled, done, joined, scans, ticksAfter>>
(* the pause is over (time passes) *)
PauseOver ==
    /\ pc = "pause"
    /\ ~cancelled \/ SleepNotSelect                      \* a select would have taken the context case instead
    /\ pc' = IF cancelled THEN "afterscan" ELSE "scan"   \* (SleepNotSelect: the check behind the sleep sees the context)
    /\ ticksAfter' = IF cancelled THEN ticksAfter + 1 ELSE ticksAfter
    /\ UNCHANGED <<box, cancelled, done, joined, scans, late>>
PauseCancelled ==
    /\ pc = "pause" /\ cancelled /\ ~SleepNotSelect
    /\ pc' = "afterscan"
    /\ UNCHANGED <<box, cancelled, done, joined, scans, late, ticksAfter>>
WalkDone ==
    /\ pc = "scan" /\ box = NBoxes
    /\ pc' = "afterscan"
    /\ UNCHANGED <<box, cancelled, done, joined, scans, late, ticksAfter>>
(* after DoScan: leave the loop when the context is done, else wait for the next minute *)
AfterScan ==
    /\ pc = "afterscan"
    /\ pc' = IF cancelled THEN "closing" ELSE "wait"
    /\ UNCHANGED <<box, cancelled, done, joined, scans, late, ticksAfter>>
Closing ==
    /\ pc = "closing" /\ pc' = "returned" /\ done' = TRUE
    /\ UNCHANGED <<box, cancelled, joined, scans, late, ticksAfter>>
Cancel == /\ ~cancelled /\ cancelled' = TRUE /\ UNCHANGED <<pc, box, done, joined, scans, late, ticksAfter>>
Join   == /\ done /\ ~joined /\ joined' = TRUE /\ UNCHANGED <<pc, box, cancelled, done, scans, late, ticksAfter>>

Scanner == Begin \/ WaitOver \/ WaitCancelled \/ VisitBox \/ PauseOver \/ PauseCancelled \/ WalkDone \/ AfterScan \/ Closing
Next == Scanner \/ Cancel \/ Join
Spec == Init /\ [][Next]_vars
FairSpec == Spec /\ WF_vars(Scanner) /\ WF_vars(Join)

TypeOK == pc \in {"init", "wait", "scan", "pause", "afterscan", "closing", "returned"} /\ box \in 0 .. NBoxes
DisabledNeverScans == Disabled => scans = 0
LateBound == late <= 1
PromptStop == ticksAfter = 0
DoneOnlyOnReturn == done => pc = "returned"
(* a shutdown request - or, for a disabled scanner, nothing at all - and Join returns in the end *)
JoinReturns == (cancelled \/ Disabled) ~> joined
=============================================================================
