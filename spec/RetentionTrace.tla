--------------------------- MODULE RetentionTrace ---------------------------
(***************************************************************************)
(* Trace specification for `vh retention': validates what was observed of  *)
(* the real RetentionScanner (DoScan / Start / Join) on the real memory    *)
(* and file stores against the Retention contract.                         *)
(*                                                                         *)
(* Every event carries the projected state of the whole real store (s:     *)
(* per non-empty mailbox the records [id, age, hash, size] in order; age = *)
(* whole hours between the message date and the reference instant of the   *)
(* behaviour).  Environment operations are performed by the driver on the  *)
(* real store from inside the scanning goroutine (between two mailboxes or *)
(* at a gate of the file store's directory walk), so the store right after *)
(* them is determined: equality.  While a scan runs, every other           *)
(* observation must be explained by ScanProgress (only messages older than *)
(* the period are missing, nothing else changed); when the scan has        *)
(* returned without a shutdown request, nothing that was older when it     *)
(* started may be left (ScanEndWith).  Promptness is recorded by the       *)
(* driver as "returned within retentionSleep + 2 s of the shutdown         *)
(* request" booleans.                                                      *)
(***************************************************************************)
EXTENDS Retention, Json, TLC, TLCExt, IOUtils, SequencesExt

TraceLog == ndJsonDeserialize(IOEnv.VERIF_TRACE)
(* deviation keys enabled by known_findings.txt: one JSON object {"key": ...} per line *)
AllowedKeys == {r.key : r \in ToSet(ndJsonDeserialize(IOEnv.VERIF_ALLOWED_FILE))}

VARIABLES l,
          kind,       \* "mem" | "file"
          vanished    \* during the current scan the environment emptied a mailbox (file store: its directories are gone)
tvars == <<store, ub, pre, mustGo, must, visited, pc, loop, cancelled, disturbed, late, period, l, kind, vanished>>

Ev == TraceLog[l]
Is(a) == l <= Len(TraceLog) /\ Ev.a = a /\ l' = l + 1
Mark == TLCSet(1, l + 1)          \* high-water mark (last conjunct of every action)

(* the projected store of the event, as a function of the mailbox name *)
SnapWF == /\ Ev.serr = <<>>
          /\ \A i \in DOMAIN Ev.s : Ev.s[i].mb \in Mailbox /\ Ev.s[i].msgs # <<>>
          /\ \A i, j \in DOMAIN Ev.s : Ev.s[i].mb = Ev.s[j].mb => i = j
Obs == [m \in Mailbox |->
          IF \E i \in DOMAIN Ev.s : Ev.s[i].mb = m
          THEN Ev.s[CHOOSE i \in DOMAIN Ev.s : Ev.s[i].mb = m].msgs
          ELSE <<>>]

Dev(key) == /\ key \in AllowedKeys
            /\ PrintT(<<"DEVIATION", key, l>>)

TraceInit == l = 1 /\ kind = [store |-> "", sleep |-> 0] /\ vanished = FALSE /\ RInit(0)

TrReset ==
    /\ Is("reset")
    /\ store' = Empty /\ ub' = Empty /\ pre' = Empty
    /\ mustGo' = [m \in Mailbox |-> {}] /\ must' = {} /\ visited' = {}
    /\ pc' = "idle" /\ loop' = FALSE /\ cancelled' = FALSE /\ disturbed' = FALSE /\ late' = 0
    /\ period' = Ev.period /\ kind' = [store |-> Ev.store, sleep |-> Ev.sleep_ms] /\ vanished' = FALSE
    /\ SnapWF /\ Obs = Empty
    /\ Mark

(* environment steps, performed by the driver directly on the real store *)
TrEnv ==
    /\ Is("env")
    /\ CASE Ev.c = "deliver" -> Ev.r = "ok" /\ Ev.msg.id = Ev.id /\ EnvDeliver(Ev.mb, Ev.msg)
         [] Ev.c = "remove"  -> EnvRemove(Ev.mb, Ev.id)
         [] Ev.c = "purge"   -> EnvPurge(Ev.mb)
    /\ SnapWF /\ Obs = store'
    /\ vanished' = (vanished \/ (pc = "scanning" /\ store[Ev.mb] # <<>> /\ store'[Ev.mb] = <<>>))
    /\ UNCHANGED kind
    /\ Mark

(* DoScan is called (directly, or by the run loop: then the event is        *)
(* recorded when the scan asks the store for its mailboxes)                 *)
TrScanStart ==
    /\ Is("scanstart")
    /\ ScanStart \/ LoopWake
    /\ SnapWF /\ Obs = store'
    /\ vanished' = FALSE /\ UNCHANGED kind
    /\ Mark

(* the scan has handled one more mailbox (possibly an empty one) *)
TrVisit ==
    /\ Is("visit")
    /\ SnapWF
    /\ ScanProgress(Obs, IF Ev.mb \in Mailbox THEN visited \cup {Ev.mb} ELSE visited)
    /\ UNCHANGED <<kind, vanished>>
    /\ Mark

(* shutdown is requested (context cancelled); the store is observed just before *)
TrCancel ==
    /\ Is("cancel")
    /\ SnapWF
    /\ IF pc = "scanning" THEN OnlyExpiredMissing(Obs, store) ELSE Obs = store
    /\ store' = Obs /\ cancelled' = TRUE
    /\ UNCHANGED <<ub, pre, mustGo, must, visited, pc, loop, disturbed, late, period, kind, vanished>>
    /\ Mark

(* known departure: the file store's unlocked directory walk stops with     *)
(* "no such file or directory" when a directory it has listed is gone by    *)
(* the time it opens it (a removal or purge emptied that mailbox meanwhile): *)
(* the scan returns early and leaves older messages in mailboxes it has not  *)
(* reached.  Nothing else is waived: only older messages may be missing.     *)
DevWalkAborted ==
    /\ pc = "scanning" /\ ~cancelled
    /\ kind.store = "file" /\ vanished /\ Ev.rc = "enoent"
    /\ OnlyExpiredMissing(Obs, store) /\ ~AllOlderGone(Obs)
    /\ Dev("C12.file.scan-aborts-when-directory-vanishes")
    /\ store' = Obs /\ pc' = "aborted"
    /\ UNCHANGED <<ub, pre, mustGo, must, visited, loop, cancelled, disturbed, late, period>>

(* the scan has returned *)
TrScanEnd ==
    /\ Is("scanend")
    /\ SnapWF
    /\ Ev.returned
    /\ cancelled => Ev.within
    /\ ScanEndWith(Obs) \/ DevWalkAborted
    /\ UNCHANGED <<kind, vanished>>
    /\ Mark

(* Start is called; with period 0 it must have returned at once *)
TrStart ==
    /\ Is("start")
    /\ StartLoop
    /\ period = 0 => Ev.returned
    /\ SnapWF /\ Obs = store
    /\ UNCHANGED <<kind, vanished>>
    /\ Mark

(* Start has returned and Join has returned, within the bound after the     *)
(* shutdown request (period 0: after Start)                                 *)
TrJoin ==
    /\ Is("join")
    /\ Ev.returned /\ Ev.within
    /\ IF pc = "stopped" THEN period = 0 /\ UNCHANGED rvars ELSE LoopStop
    /\ SnapWF /\ Obs = store
    /\ UNCHANGED <<kind, vanished>>
    /\ Mark

(* "stops promptly": when the scanner sleeps between mailboxes (retention sleep > 0) a shutdown   *)
(* request is seen at the first mailbox boundary, so at most the mailbox at hand is finished;    *)
(* with a sleep of 0 the scan's select may legitimately take another turn, which is not judged   *)
LateBoundWhenSleeping == kind.sleep > 0 => late <= 1

TraceNext == TrReset \/ TrEnv \/ TrScanStart \/ TrVisit \/ TrCancel \/ TrScanEnd \/ TrStart \/ TrJoin

TraceSpec == TraceInit /\ [][TraceNext]_tvars

TraceAccepted ==
    IF TLCGet(1) = Len(TraceLog) + 1 THEN TRUE
    ELSE /\ PrintT(<<"REJECTED_AT", TLCGet(1)>>)
         /\ FALSE
ASSUME TLCSet(1, 1)
=============================================================================
