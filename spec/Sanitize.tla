------------------------------ MODULE Sanitize ------------------------------
(***************************************************************************)
(* Contract (kind A) of what the web UI may show of a message (C18).       *)
(*                                                                         *)
(* TLA+ does not model tokenizers, so this module does not say what the    *)
(* sanitiser's output *is*; it says what every output must *satisfy*.      *)
(*                                                                         *)
(* Part 1: the invariants of C18 over a PROJECTION RECORD of an output.    *)
(*   The projection is computed by the harness by re-parsing the real      *)
(*   output with a tree-building HTML parser (`vh sanitize'):              *)
(*     elems   set of element names                                        *)
(*     attrs   set of attribute names                                      *)
(*     eattrs  set of [e |-> element, n |-> attribute]                     *)
(*     schemes set of URL schemes of the URL-valued attributes             *)
(*     props   set of property names declared by the style attributes      *)
(*     text, texth  (text renderings only) the text content and its hash   *)
(*   Each invariant is at the strength of the property text and no         *)
(*   stronger: it lists what must NOT survive, never what must survive.    *)
(*                                                                         *)
(* Part 2: an abstract model of the style filter of css.go (three states   *)
(*   over token classes) composed with an abstract browser-like reader of  *)
(*   declaration lists (CSS Syntax 3: blocks nest, `;' inside a block does *)
(*   not end a declaration).  GenSanitize.tla lets TLC check that no       *)
(*   token-class sequence makes the reader see a property that is not an   *)
(*   allowed identifier, and enumerates the sequences for replay.          *)
(*                                                                         *)
(* Part 3: the abstract alphabets (HTML node classes, text classes) that   *)
(*   GenSanitize.tla enumerates, with what each class carries in its       *)
(*   INPUT - used to show that every invariant is exercised (non-vacuity). *)
(***************************************************************************)
EXTENDS Naturals, Sequences, FiniteSets

CONSTANT AllowedProps          \* the CSS property allow-list of pkg/webui/sanitize/css.go (written into the cfg by the orchestrator)

----------------------------------------------------------------------------
(* Part 1: invariants over projection records                              *)

(* "no script, style, frame, object or form elements" - the narrowest      *)
(* reading of the list (frame = frame and inline frame)                    *)
ForbiddenElements == {"script", "style", "frame", "iframe", "object", "form"}

Letters == {"a", "b", "c", "d", "e", "f", "g", "h", "i", "j", "k", "l", "m",
            "n", "o", "p", "q", "r", "s", "t", "u", "v", "w", "x", "y", "z"}
(* an event-handler attribute: on<event>, e.g. onclick, onerror            *)
IsHandlerName(a) == /\ Len(a) > 2
                    /\ SubSeq(a, 1, 2) = "on"
                    /\ \A i \in 3..Len(a) : SubSeq(a, i, i) \in Letters

NoActiveElements(o)  == o.elems \cap ForbiddenElements = {}
NoHandlerAttrs(o)    == \A a \in o.attrs : ~IsHandlerName(a)
NoScriptUrls(o)      == "javascript" \notin o.schemes
StylePropsAllowed(o) == o.props \subseteq AllowedProps

(* the HTML rendering of a plain-text body: only anchors and line breaks   *)
(* (the server's own), and the text content is the original text           *)
TextElems  == {"a", "br"}
TextEAttrs == {[e |-> "a", n |-> "href"], [e |-> "a", n |-> "target"]}
TextFullyEscaped(o, want) ==
    /\ o.elems \subseteq TextElems
    /\ o.eattrs \subseteq TextEAttrs
    /\ o.text = want.text
    /\ o.texth = want.texth

(* "sanitising never fails or panics": r = [err, panic] as recorded        *)
NeverFails(r) == r.err = "" /\ r.panic = ""

HtmlSafe(o) == NoActiveElements(o) /\ NoHandlerAttrs(o) /\ NoScriptUrls(o) /\ StylePropsAllowed(o)

----------------------------------------------------------------------------
(* Part 2: the style filter over token classes                             *)

CssClasses == {"aid",    \* identifier on the allow-list (any letter case)
               "oid",    \* any other identifier
               "esc",    \* identifier spelled with escapes (the filter compares the raw spelling: never allowed)
               "s",      \* white space
               "semi", "colon",
               "ch",     \* any other single character
               "open", "close",   \* ( [ {   and   ) ] }  (plain characters for the filter, blocks for a browser)
               "str", "cmt", "at",
               "fn",     \* name(   - opens a block for a browser
               "url",    \* url(...) as one token
               "num",    \* number, dimension, percentage, hash
               "bad"}    \* what the filter's scanner reports as an error (unclosed string / comment)
IdentLike(t) == t \in {"aid", "oid", "esc"}

(* css.go: stateStart / stateEat / stateValid.  Result: next state and the *)
(* token classes written.  ("bad" is handled by the caller: output "")     *)
FilterStep(fs, t) ==
    IF fs = "start" THEN
        IF t = "aid" THEN [st |-> "valid", out |-> <<"aid">>]
        ELSE IF t \in {"oid", "esc"} THEN [st |-> "eat", out |-> <<>>]
        ELSE IF t = "s" THEN [st |-> "start", out |-> <<>>]
        ELSE [st |-> "eat", out |-> <<"cmt">>]            \* "/*TYPE*/"
    ELSE IF fs = "eat" THEN
        [st |-> IF t = "semi" THEN "start" ELSE "eat", out |-> <<>>]
    ELSE \* valid
        [st |-> IF t = "semi" THEN "start" ELSE "valid", out |-> <<t>>]

(* A browser-like reader of a declaration list.  m: "begin" (a declaration *)
(* may start) | "name" (identifier seen, colon expected) | "rest" (inside  *)
(* a value or the remnants of a bad declaration) | "at" (inside an         *)
(* at-rule: ends at `;' or after its block); depth: open blocks; props:    *)
(* classes of the property names of the declarations read.  The model has  *)
(* one kind of bracket, so whether a closed block ends an at-rule (it does *)
(* for {}, not for () and []) is the parameter atEnds: both are checked.   *)
ReaderInit(atEnds) == [m |-> "begin", cand |-> "none", depth |-> 0, props |-> {}, atEnds |-> atEnds]
Opens(t) == t \in {"open", "fn"}
ReadStep(r, t) ==
    IF r.depth > 0 THEN
        LET d == IF Opens(t) THEN r.depth + 1 ELSE IF t = "close" THEN r.depth - 1 ELSE r.depth
        IN  [r EXCEPT !.depth = d, !.m = IF d = 0 /\ r.m = "at" /\ r.atEnds THEN "begin" ELSE @]
    ELSE IF r.m = "begin" THEN
        IF t \in {"s", "semi", "cmt"} THEN r
        ELSE IF IdentLike(t) THEN [r EXCEPT !.m = "name", !.cand = t]
        ELSE IF t = "at" THEN [r EXCEPT !.m = "at"]
        ELSE [r EXCEPT !.m = "rest", !.depth = IF Opens(t) THEN 1 ELSE 0]
    ELSE IF r.m = "name" THEN
        IF t \in {"s", "cmt"} THEN r
        ELSE IF t = "colon" THEN [r EXCEPT !.m = "rest", !.props = @ \cup {r.cand}, !.cand = "none"]
        ELSE IF t = "semi" THEN [r EXCEPT !.m = "begin", !.cand = "none"]
        ELSE [r EXCEPT !.m = "rest", !.cand = "none", !.depth = IF Opens(t) THEN 1 ELSE 0]
    ELSE \* rest, at
        IF t = "semi" THEN [r EXCEPT !.m = "begin"]
        ELSE [r EXCEPT !.depth = IF Opens(t) THEN 1 ELSE 0]

RECURSIVE ReadAll(_, _)
ReadAll(r, ts) == IF ts = <<>> THEN r ELSE ReadAll(ReadStep(r, Head(ts)), Tail(ts))

(* the statement checked on the model: whatever the reader takes for a     *)
(* property name was an allowed identifier in the input                    *)
CssModelSound(r) == r.props \subseteq {"aid"}

----------------------------------------------------------------------------
(* Part 3: alphabets of the generator                                      *)

NodeClasses == {"ok", "script", "style", "iframe", "frame", "object", "embed", "form", "input",
                "handler", "jsplain", "jscase", "jsws", "jsent", "styleattr", "rawtext", "comment",
                "untag", "unattr", "dupattr", "mixcase", "enttext"}
(* classes that can have children (the others are void elements, text or   *)
(* constructs that swallow what follows anyway)                            *)
Container(c) == c \notin {"frame", "embed", "input", "untag", "unattr", "enttext"}

TextClasses == {"plain", "sp", "lt", "gt", "amp", "dq", "sq", "url", "urlmarkup", "jsurl",
                "cr", "lf", "crlf", "ent", "tag", "ctl"}

(* what a node class carries in its input, as a projection record: used to *)
(* show that the alphabet exercises every invariant                        *)
Carries(c) ==
    LET none == [elems |-> {}, attrs |-> {}, schemes |-> {}, props |-> {}] IN
    CASE c \in {"script", "style", "iframe", "frame", "object", "form"} -> [none EXCEPT !.elems = {c}]
      [] c = "mixcase"   -> [none EXCEPT !.elems = {"script"}, !.attrs = {"onerror"}]
      [] c = "handler"   -> [none EXCEPT !.attrs = {"onclick"}]
      [] c \in {"jsplain", "jscase", "jsws", "jsent", "dupattr"} -> [none EXCEPT !.schemes = {"javascript"}]
      [] c = "styleattr" -> [none EXCEPT !.props = {"position"}]
      [] OTHER -> none
Exercised ==
    /\ \E c \in NodeClasses : ~NoActiveElements(Carries(c))
    /\ \E c \in NodeClasses : ~NoHandlerAttrs(Carries(c))
    /\ \E c \in NodeClasses : ~NoScriptUrls(Carries(c))
    /\ \E c \in NodeClasses : ~StylePropsAllowed(Carries(c))
    /\ \E c \in NodeClasses : HtmlSafe(Carries(c))
=============================================================================
