---------------------------- MODULE SanitizeTrace ----------------------------
(***************************************************************************)
(* Trace specification for `vh sanitize' (C18).  Every event is one        *)
(* observation of the real code on one concrete input:                     *)
(*   "html"  sanitize.HTML(input): error, panic, projection of the output  *)
(*   "text"  web.TextToHTML(input): panic, projection of the output, and   *)
(*           the original text in the canonical form of the projection     *)
(*   "web"   the JSON the web UI endpoint (webui.MailboxMessage) serves    *)
(*           for a stored message: status, projection of its html and      *)
(*           text fields                                                   *)
(* The observation is bound to the variable obs and the invariants of      *)
(* Sanitize.tla are evaluated on it (INVARIANTS of the configuration).     *)
(* An observation that violates an invariant is the rejection: the         *)
(* invariant prints the index of the event.  "reset" starts the next       *)
(* behaviour (one abstract case in several spellings).                     *)
(***************************************************************************)
EXTENDS Sanitize, Json, TLC, TLCExt, IOUtils, SequencesExt

TraceLog == ndJsonDeserialize(IOEnv.VERIF_TRACE)

VARIABLES l, obs
tvars == <<l, obs>>

Ev == TraceLog[l]
Is(a) == l <= Len(TraceLog) /\ Ev.a = a /\ l' = l + 1
Mark == TLCSet(1, l + 1)

(* JSON arrays arrive as sequences: the projection record of Sanitize.tla  *)
Html(p) == [elems |-> ToSet(p.elems), attrs |-> ToSet(p.attrs), schemes |-> ToSet(p.schemes), props |-> ToSet(p.props)]
Text(p) == [elems |-> ToSet(p.elems), eattrs |-> ToSet(p.eattrs), text |-> p.text, texth |-> p.texth]

NoObs == [k |-> "none"]

TraceInit == l = 1 /\ obs = NoObs

TrReset == Is("reset") /\ obs' = NoObs /\ Mark

TrHtml == /\ Is("html")
          /\ obs' = [k |-> "html", run |-> [err |-> Ev.err, panic |-> Ev.panic], html |-> Html(Ev.out)]
          /\ Mark
TrText == /\ Is("text")
          /\ obs' = [k |-> "text", run |-> [err |-> "", panic |-> Ev.panic], text |-> Text(Ev.out), want |-> Ev.want]
          /\ Mark
(* the endpoint: a status other than 200 or the handler's "sanitizer       *)
(* failed" placeholder is a failure of sanitising                          *)
TrWeb  == /\ Is("web")
          /\ obs' = [k |-> "web",
                     run |-> [err |-> IF Ev.status = 200 THEN Ev.err ELSE "status", panic |-> Ev.panic],
                     html |-> Html(Ev.html), text |-> Text(Ev.text), want |-> Ev.want]
          /\ Mark

TraceNext == TrReset \/ TrHtml \/ TrText \/ TrWeb
TraceSpec == TraceInit /\ [][TraceNext]_tvars

(* obs was bound by event l - 1 *)
Holds(cond) == cond \/ (PrintT(<<"REJECTED_AT", l - 1>>) /\ FALSE)
HasHtml == obs.k \in {"html", "web"}
HasText == obs.k \in {"text", "web"}

C18_NeverFails        == Holds(obs.k # "none" => NeverFails(obs.run))
C18_NoActiveElements  == Holds(HasHtml => NoActiveElements(obs.html))
C18_NoHandlerAttrs    == Holds(HasHtml => NoHandlerAttrs(obs.html))
C18_NoScriptUrls      == Holds(HasHtml => NoScriptUrls(obs.html))
C18_StylePropsAllowed == Holds(HasHtml => StylePropsAllowed(obs.html))
C18_TextFullyEscaped  == Holds(HasText => TextFullyEscaped(obs.text, obs.want))

TraceAccepted ==
    IF TLCGet(1) = Len(TraceLog) + 1 THEN TRUE
    ELSE /\ PrintT(<<"REJECTED_AT", TLCGet(1)>>)
         /\ FALSE
ASSUME TLCSet(1, 1)
=============================================================================
