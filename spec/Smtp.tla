-------------------------------- MODULE Smtp --------------------------------
(***************************************************************************)
(* Contract (kind A) of one inbucket SMTP session and its effect on the    *)
(* mail store, at the strength of properties C01, C03, C05, C06 and C17.   *)
(*                                                                         *)
(* One action per command line the server reads (the DATA body counts as   *)
(* one "line").  Every action yields exactly one reply, described by its   *)
(* class: "ok" (2xx/3xx) or "fail" (4xx/5xx); a hook's deny carries the    *)
(* hook's own code and text.  The inputs of an action are the *decisions*  *)
(* the server has to take for that line (syntax valid, size within limit,  *)
(* domain policy, hook answer) so that the same actions serve the bounded  *)
(* model (decisions chosen freely) and trace validation (decisions         *)
(* computed by Policy from the configuration and the logged address).      *)
(*                                                                         *)
(* The store is the abstract map mailbox -> sequence of delivered messages *)
(* (no ids: SMTP never sees them).                                         *)
(***************************************************************************)
EXTENDS Naturals, Sequences, FiniteSets

CONSTANTS Mailbox              \* set of mailbox names

VARIABLES st,                  \* "GREET" | "READY" | "LOGIN" | "PASSWORD" | "MAIL" | "DATA" | "QUIT"
          from,                \* accepted sender of the open transaction, or NoSender
          rcpts,               \* accepted recipients of the open transaction: Seq([addr, mbox, store])
          boxes,               \* [Mailbox -> Seq(message)]
          maxRcpt,             \* configured maximum number of recipients
          reply,               \* last reply: [cls |-> "ok"|"fail"] or [cls |-> "fail", code, text] for a hook deny
          tls                  \* "off": STARTTLS not configured | "avail": configured, this connection is in the clear | "on": encrypted

smtpvars == <<st, from, rcpts, boxes, maxRcpt, reply, tls>>

NoSender == [none |-> TRUE]
Ok   == [cls |-> "ok"]
Fail == [cls |-> "fail"]
Deny(code, text) == [cls |-> "fail", code |-> code, text |-> text]

SInitT(mr, t) ==
    /\ st = "GREET" /\ from = NoSender /\ rcpts = <<>>
    /\ boxes = [m \in Mailbox |-> <<>>]
    /\ maxRcpt = mr
    /\ reply = Ok                                   \* the 220 banner
    /\ tls = t
SInit(mr) == SInitT(mr, "off")

(* a new connection to the same server and store *)
Connect ==
    /\ st' = "GREET" /\ from' = NoSender /\ rcpts' = <<>> /\ reply' = Ok
    /\ tls' = IF tls = "on" THEN "avail" ELSE tls      \* a new connection starts in the clear
    /\ UNCHANGED <<boxes, maxRcpt>>

ClearEnvelope == from' = NoSender /\ rcpts' = <<>>
Keep          == UNCHANGED <<st, from, rcpts, boxes>>
Answer(r)     == reply' = r /\ UNCHANGED <<maxRcpt, tls>>

InAuthDialogue == st \in {"LOGIN", "PASSWORD"}
(* the server is waiting for a command line (not for a credential, not for *)
(* message data, and the session has not ended)                            *)
AtPrompt == st \in {"GREET", "READY", "MAIL"}

(* In the middle of AUTH LOGIN every line is a credential, whatever it says *)
Credential ==
    /\ InAuthDialogue
    /\ st' = IF st = "LOGIN" THEN "PASSWORD" ELSE "READY"
    /\ UNCHANGED <<from, rcpts, boxes>>
    /\ Answer(Ok)

(* HELO / EHLO.  A greeting with a domain opens the session; EHLO repeated *)
(* later discards the envelope.                                            *)
Hello(verb, hasArg) ==
    /\ AtPrompt
    /\ CASE st = "GREET" /\ hasArg  -> st' = "READY" /\ ClearEnvelope /\ UNCHANGED boxes /\ Answer(Ok)
         [] st = "GREET" /\ ~hasArg -> Keep /\ Answer(Fail)
         [] st \in {"READY", "MAIL"} /\ verb = "EHLO" ->
                st' = "READY" /\ ClearEnvelope /\ UNCHANGED boxes /\ Answer(Ok)
         [] OTHER -> Keep /\ Answer(Fail)

(* STARTTLS (RFC 3207).  Offered (EHLO lists it) exactly while it can be    *)
(* used: configured and the connection still in the clear.  Accepted only   *)
(* between transactions of a greeted session; the client then negotiates    *)
(* TLS and the server forgets what it knew about the client: the session    *)
(* starts over at the greeting, encrypted.  Anywhere else, a second time,   *)
(* or without configuration it is refused and changes nothing.              *)
Advertised == tls = "avail"
StartTLS ==
    /\ AtPrompt
    /\ IF st = "READY" /\ tls = "avail"
       THEN /\ st' = "GREET" /\ ClearEnvelope /\ tls' = "on"
            /\ reply' = Ok /\ UNCHANGED <<boxes, maxRcpt>>
       ELSE Keep /\ Answer(Fail)

(* MAIL FROM.  decision.syntax: argument well-formed; .size: declared SIZE  *)
(* absent or within the limit; .addr: address parses; .hook: answer of the  *)
(* before-mail-from hook ("none"|"defer"|"allow"|"deny"); .origin: sender   *)
(* domain passes the reject-origin policy.                                  *)
MailAccepted(d) ==
    /\ d.syntax /\ d.size /\ d.addr
    /\ d.hook.action # "deny"
    /\ (d.hook.action = "allow" \/ d.origin)
Mail(sender, d) ==
    /\ AtPrompt
    /\ IF st = "READY" /\ MailAccepted(d)
       THEN /\ st' = "MAIL" /\ from' = sender /\ rcpts' = <<>> /\ UNCHANGED boxes
            /\ Answer(Ok)
       ELSE /\ Keep
            /\ Answer(IF st = "READY" /\ d.syntax /\ d.size /\ d.addr /\ d.hook.action = "deny"
                      THEN Deny(d.hook.code, d.hook.text) ELSE Fail)

(* RCPT TO.  rc = [addr, mbox, store]; decision.valid: syntax and address  *)
(* parse; .hook as above; .accept: recipient domain policy.                 *)
RcptAccepted(d) ==
    /\ d.valid
    /\ d.hook.action # "deny"
    /\ (d.hook.action = "allow" \/ d.accept)
    /\ Len(rcpts) < maxRcpt
Rcpt(rc, d) ==
    /\ AtPrompt
    /\ IF st = "MAIL" /\ RcptAccepted(d)
       THEN /\ rcpts' = Append(rcpts, rc) /\ UNCHANGED <<st, from, boxes>>
            /\ Answer(Ok)
       ELSE /\ Keep
            /\ Answer(IF st = "MAIL" /\ d.valid /\ d.hook.action = "deny"
                      THEN Deny(d.hook.code, d.hook.text) ELSE Fail)

(* DATA command: only with at least one accepted recipient *)
Data(hasArg) ==
    /\ AtPrompt
    /\ IF st = "MAIL" /\ ~hasArg /\ rcpts # <<>>
       THEN st' = "DATA" /\ UNCHANGED <<from, rcpts, boxes>> /\ Answer(Ok)
       ELSE Keep /\ Answer(Fail)

(* Delivery: one copy per accepted recipient whose domain is storable, in   *)
(* the order the recipients were accepted; a before-message-stored hook     *)
(* may replace the mailboxes and metadata.                                  *)
RECURSIVE DeliverTo(_, _, _)
DeliverTo(b, targets, msg) ==
    IF targets = <<>> THEN b
    ELSE DeliverTo([b EXCEPT ![Head(targets)] = Append(@, msg)], Tail(targets), msg)

PolicyTargets == LET s == SelectSeq(rcpts, LAMBDA r : r.store) IN [i \in DOMAIN s |-> s[i].mbox]
(* a hook that returns the inbound message with its mailbox list untouched:   *)
(* the list it was shown names every accepted recipient's mailbox, and a      *)
(* hook's answer overrides the store/discard policy                           *)
AllTargets    == [i \in DOMAIN rcpts |-> rcpts[i].mbox]

(* The end of the DATA block.  d.parse: header block parseable; d.fits:     *)
(* within the maximum message size; d.hook: [action |-> "none"] or          *)
(* [action |-> "replace", mailboxes, msg] / [action |-> "replace-keep", msg]. *)
(* msg is the message as the                                                *)
(* store must show it.                                                      *)
Targets(d) == CASE d.hook.action = "replace"      -> d.hook.mailboxes
                 [] d.hook.action = "replace-keep" -> AllTargets
                 [] OTHER                          -> PolicyTargets
(* d.fails: the set of mailboxes for which the store refuses the message    *)
(* (fault): then the transaction is refused and nothing at all is stored    *)
StoreFails(d) == \E i \in DOMAIN Targets(d) : Targets(d)[i] \in d.fails
Body(msg, d) ==
    /\ st = "DATA"
    /\ st' = "READY" /\ ClearEnvelope
    /\ IF d.parse /\ d.fits /\ ~StoreFails(d)
       THEN /\ boxes' = CASE d.hook.action = "replace"      -> DeliverTo(boxes, d.hook.mailboxes, d.hook.msg)
                          [] d.hook.action = "replace-keep" -> DeliverTo(boxes, AllTargets, d.hook.msg)
                          [] OTHER                          -> DeliverTo(boxes, PolicyTargets, msg)
            /\ Answer(Ok)
       ELSE /\ UNCHANGED boxes /\ Answer(Fail)

Rset ==
    /\ AtPrompt
    /\ st' = IF st = "GREET" THEN "GREET" ELSE "READY"
    /\ ClearEnvelope /\ UNCHANGED boxes /\ Answer(Ok)

(* NOOP, VRFY: accepted anywhere, no effect *)
Harmless == AtPrompt /\ Keep /\ Answer(Ok)
(* unknown verbs, unimplemented verbs, empty / short / garbage lines,       *)
(* unsupported AUTH: refused, no effect                                     *)
Refused  == AtPrompt /\ Keep /\ Answer(Fail)

Auth(kind) ==
    /\ AtPrompt
    /\ CASE st = "READY" /\ kind = "plain" -> Keep /\ Answer(Ok)
         [] st = "READY" /\ kind = "login" -> st' = "LOGIN" /\ UNCHANGED <<from, rcpts, boxes>> /\ Answer(Ok)
         [] OTHER -> Keep /\ Answer(Fail)

Quit ==
    /\ AtPrompt
    /\ st' = "QUIT" /\ UNCHANGED <<from, rcpts, boxes>> /\ Answer(Ok)

(* The client goes away (at any byte).  Nothing is delivered by that; a    *)
(* message whose data had been transmitted completely may or may not be    *)
(* delivered - that is the Body action taken before the cut.               *)
Cut == st' = "QUIT" /\ UNCHANGED <<from, rcpts, boxes, maxRcpt, reply, tls>>

(***************************************************************************)
(* Properties of the contract (checked on the bounded model)               *)
(***************************************************************************)
TypeOK == /\ st \in {"GREET", "READY", "LOGIN", "PASSWORD", "MAIL", "DATA", "QUIT"}
          /\ reply.cls \in {"ok", "fail"}
          /\ tls \in {"off", "avail", "on"}
(* encryption is never dropped within a connection, is only switched on by  *)
(* an accepted STARTTLS, and the session then stands at the greeting with   *)
(* no envelope (nothing learnt in the clear survives)                       *)
TlsStep == /\ (tls = "on" /\ st' # "GREET") => tls' = "on"
           /\ (tls # "on" /\ tls' = "on") => (st = "READY" /\ st' = "GREET" /\ from' = NoSender /\ rcpts' = <<>> /\ reply'.cls = "ok")
           /\ (tls = "off") = (tls' = "off")
EnvelopeOnlyInTransaction == st \notin {"MAIL", "DATA", "QUIT"} => (from = NoSender /\ rcpts = <<>>)
DataNeedsRecipient == st = "DATA" => rcpts # <<>>
RcptCountBounded   == Len(rcpts) <= maxRcpt
(* nothing is stored except by the end of a DATA block that is acknowledged *)
NoStoreWithoutAck  == boxes' # boxes => (st = "DATA" /\ reply'.cls = "ok")
(* a refused / failed step never stores *)
FailStoresNothing  == reply'.cls = "fail" => boxes' = boxes
(* store only grows, and only at the end *)
AppendOnly == \A m \in Mailbox : /\ Len(boxes'[m]) >= Len(boxes[m])
                                 /\ SubSeq(boxes'[m], 1, Len(boxes[m])) = boxes[m]
=============================================================================
