------------------------------ MODULE SmtpImpl ------------------------------
(***************************************************************************)
(* Implementation-shaped model (kind B) of one SMTP session as             *)
(* pkg/server/smtp/handler.go runs it, over the variables of the contract  *)
(* Smtp.tla, and its refinement check against that contract.               *)
(*                                                                         *)
(* The code reads one line at a time.  In the states LOGIN and PASSWORD    *)
(* the line is a credential.  Otherwise: an unknown / empty verb is        *)
(* refused; SEND SOML SAML EXPN HELP TURN, VRFY, NOOP, RSET and QUIT are   *)
(* handled in ANY state before the per-state handlers (greetHandler,       *)
(* readyHandler, mailHandler) see the line; the DATA block is read by      *)
(* dataHandler from inside mailHandler.  reset() clears sender and         *)
(* recipients and goes to READY unless the session has not been greeted;   *)
(* the refused branches of dataHandler (552, 451) call it as well.         *)
(*                                                                         *)
(* Deviations (the code before two of its repairs, as predictions):        *)
(*   RsetOpensSession  reset() goes to READY from GREET too (a4f744b)      *)
(*   NoResetOn552      the 552 branch only changes the state (the seeded   *)
(*                     changes C03b / C01g)                                *)
(* With both FALSE TLC checks that every step of this model is a step of   *)
(* the contract (Refines) and the contract's invariants; with either TRUE  *)
(* it must find the predicted violation.                                   *)
(***************************************************************************)
EXTENDS Smtp, TLC

CONSTANTS RsetOpensSession, NoResetOn552, TlsConfigured

ivars == smtpvars
A1 == [addr |-> "a1", mbox |-> "A", store |-> TRUE]
B1 == [addr |-> "b", mbox |-> "B", store |-> TRUE]
Sender == [sender |-> "ok"]
Msg == [body |-> "ok"]

IInit == SInitT(2, IF TlsConfigured THEN "avail" ELSE "off")

(* ---- the helpers of the code ---- *)
Send(r) == reply' = r
ResetTo == IF st = "GREET" /\ ~RsetOpensSession THEN "GREET" ELSE "READY"       \* reset()
DoReset == st' = ResetTo /\ from' = NoSender /\ rcpts' = <<>>
Same    == UNCHANGED <<st, from, rcpts>>
Rest    == UNCHANGED <<boxes, maxRcpt, tls>>

(* ---- one line in LOGIN / PASSWORD ---- *)
ICredential == /\ st \in {"LOGIN", "PASSWORD"}
               /\ st' = IF st = "LOGIN" THEN "PASSWORD" ELSE "READY"
               /\ UNCHANGED <<from, rcpts>> /\ Send(Ok) /\ Rest

Prompt == st \in {"GREET", "READY", "MAIL"}
(* ---- handled in any state ---- *)
IUnknown == Prompt /\ Same /\ Send(Fail) /\ Rest          \* 500 / 502
INoop    == Prompt /\ Same /\ Send(Ok) /\ Rest            \* NOOP, VRFY
IRset    == Prompt /\ DoReset /\ Send(Ok) /\ Rest
IQuit    == Prompt /\ st' = "QUIT" /\ UNCHANGED <<from, rcpts>> /\ Send(Ok) /\ Rest

(* ---- greetHandler ---- *)
IGreet(verb, hasArg) ==
    /\ st = "GREET"
    /\ IF verb \in {"HELO", "EHLO"} /\ hasArg
       THEN st' = "READY" /\ UNCHANGED <<from, rcpts>> /\ Send(Ok)
       ELSE Same /\ Send(Fail)                             \* 501, or out of sequence
    /\ Rest
(* ---- readyHandler ---- *)
IReady(verb, good) ==
    /\ st = "READY"
    /\ CASE verb = "STARTTLS" ->
              IF tls = "avail"
              THEN st' = "GREET" /\ UNCHANGED <<from, rcpts>> /\ Send(Ok) /\ tls' = "on" /\ UNCHANGED <<boxes, maxRcpt>>
              ELSE Same /\ Send(Fail) /\ Rest
         [] verb = "AUTHPLAIN" -> Same /\ Send(Ok) /\ Rest
         [] verb = "AUTHLOGIN" -> st' = "LOGIN" /\ UNCHANGED <<from, rcpts>> /\ Send(Ok) /\ Rest
         [] verb = "EHLO" -> DoReset /\ Send(Ok) /\ Rest     \* "Session reset"
         [] verb = "MAIL" -> IF good THEN st' = "MAIL" /\ from' = Sender /\ UNCHANGED rcpts /\ Send(Ok) /\ Rest
                             ELSE Same /\ Send(Fail) /\ Rest
         [] OTHER -> Same /\ Send(Fail) /\ Rest              \* ooSeq
(* ---- mailHandler ---- *)
IMail(verb, good, rc) ==
    /\ st = "MAIL"
    /\ CASE verb = "RCPT" -> IF good /\ Len(rcpts) < maxRcpt
                             THEN rcpts' = Append(rcpts, rc) /\ UNCHANGED <<st, from>> /\ Send(Ok)
                             ELSE Same /\ Send(Fail)
         [] verb = "DATA" -> IF rcpts # <<>> THEN st' = "DATA" /\ UNCHANGED <<from, rcpts>> /\ Send(Ok)
                             ELSE Same /\ Send(Fail)
         [] verb = "EHLO" -> DoReset /\ Send(Ok)
         [] OTHER -> Same /\ Send(Fail)
    /\ Rest
(* ---- dataHandler: the block has been read ---- *)
IBody(fits) ==
    /\ st = "DATA"
    /\ IF fits
       THEN /\ boxes' = DeliverTo(boxes, PolicyTargets, Msg)
            /\ DoReset /\ Send(Ok)
       ELSE /\ UNCHANGED boxes /\ Send(Fail)                 \* 552
            /\ IF NoResetOn552 THEN st' = "READY" /\ UNCHANGED <<from, rcpts>> ELSE DoReset
    /\ UNCHANGED <<maxRcpt, tls>>

INext ==
    \/ ICredential \/ IUnknown \/ INoop \/ IRset \/ IQuit
    \/ \E v \in {"HELO", "EHLO", "MAIL", "RCPT", "DATA", "STARTTLS", "AUTHPLAIN", "AUTHLOGIN"}, g \in BOOLEAN :
          \/ IGreet(v, g) \/ IReady(v, g)
          \/ \E rc \in {A1, B1} : IMail(v, g, rc)
    \/ \E f \in BOOLEAN : IBody(f)
ISpec == IInit /\ [][INext]_ivars

(***************************************************************************)
(* Refinement: every step is one of the contract's actions, for some       *)
(* reading of the line that the alphabet of the contract offers            *)
(***************************************************************************)
NoHookD == [action |-> "none"]
(* the contract's action for the command the line carries (label-preserving refinement: a RSET must *)
(* be explained by the contract's Rset, not by some other action that happens to have the same effect) *)
ContractOf(v, g, rc) ==
    CASE v \in {"HELO", "EHLO"} -> Hello(v, g)
      [] v = "MAIL"      -> Mail(Sender, [syntax |-> g, size |-> TRUE, addr |-> TRUE, hook |-> NoHookD, origin |-> TRUE])
      [] v = "RCPT"      -> Rcpt(rc, [valid |-> g, hook |-> NoHookD, accept |-> TRUE])
      [] v = "DATA"      -> Data(FALSE)
      [] v = "STARTTLS"  -> StartTLS
      [] v = "AUTHPLAIN" -> Auth("plain")
      [] v = "AUTHLOGIN" -> Auth("login")
Verbs == {"HELO", "EHLO", "MAIL", "RCPT", "DATA", "STARTTLS", "AUTHPLAIN", "AUTHLOGIN"}
Refines ==
    [][ /\ ICredential => Credential
        /\ IUnknown => Refused
        /\ INoop => Harmless
        /\ IRset => Rset
        /\ IQuit => Quit
        /\ \A v \in Verbs, g \in BOOLEAN :
              /\ IGreet(v, g) => \E rc \in {A1, B1} : ContractOf(v, g, rc)
              /\ IReady(v, g) => \E rc \in {A1, B1} : ContractOf(v, g, rc)
              /\ \A rc \in {A1, B1} : IMail(v, g, rc) => ContractOf(v, g, rc)
        /\ \A f \in BOOLEAN : IBody(f) => Body(Msg, [parse |-> TRUE, fits |-> f, hook |-> NoHookD, fails |-> {}])
      ]_ivars
Bounded == Len(boxes["A"]) + Len(boxes["B"]) <= 3
=============================================================================
